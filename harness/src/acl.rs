//! Access list files and reloads (C11): the real `update_access_list` / `AccessList::create_from_path`,
//! observed through `AccessListArcSwap::allows` and through a per-worker `AccessListCache`.
//!   cfg <allow|deny|off>
//!   rld <filehex|MISSING|DIR> => ok|err <bits: allows(probe_i) via arc-swap> <bits via cache>
//! The probe hashes are fixed (P0..P4); the list starts empty.
use std::io::Write;
use std::path::PathBuf;
use std::sync::Arc;

use aquatic_common::access_list::{
    create_access_list_cache, update_access_list, AccessListArcSwap, AccessListCache, AccessListConfig, AccessListMode, AccessListQuery,
};

use crate::rng::Sm;
use crate::store::{hex, unhex};

pub fn probes() -> Vec<[u8; 20]> {
    let mut v = Vec::new();
    for i in 0..5u8 {
        let mut h = [0u8; 20];
        h[0] = 0xa0 + i;
        h[19] = i;
        h[7] = 0xbc;
        v.push(h);
    }
    v
}

struct Ex {
    mode: AccessListMode,
    list: Arc<AccessListArcSwap>,
    cache: AccessListCache,
    dir: PathBuf,
    n: usize,
}

impl Ex {
    fn new(dir: PathBuf) -> Self {
        let list = Arc::new(AccessListArcSwap::default());
        let cache = create_access_list_cache(&list);
        Ex { mode: AccessListMode::Off, list, cache, dir, n: 0 }
    }
    fn line(&mut self, out: &mut impl Write, t: &[&str]) {
        match t {
            ["cfg", m] => {
                self.mode = match *m { "allow" => AccessListMode::Allow, "deny" => AccessListMode::Deny, _ => AccessListMode::Off };
                self.list = Arc::new(AccessListArcSwap::default());
                self.cache = create_access_list_cache(&self.list);
                writeln!(out, "cfg {}", m).unwrap();
            }
            ["rld", f] => {
                self.n += 1;
                let path = match *f {
                    "MISSING" => self.dir.join("does-not-exist.txt"),
                    "DIR" => self.dir.clone(),
                    h => {
                        let p = self.dir.join(format!("acl-{}.txt", self.n % 4));
                        std::fs::write(&p, unhex(h)).unwrap();
                        p
                    }
                };
                let cfg = AccessListConfig { mode: self.mode, path };
                let r = update_access_list(&cfg, &self.list);
                let mut b1 = String::new();
                let mut b2 = String::new();
                for p in probes() {
                    b1.push(if self.list.allows(self.mode, &p) { '1' } else { '0' });
                    b2.push(if self.cache.load().allows(self.mode, &p) { '1' } else { '0' });
                }
                writeln!(out, "rld {} => {} {} {}", f, if r.is_ok() { "ok" } else { "err" }, b1, b2).unwrap();
            }
            _ => {}
        }
    }
}

fn gen_file(r: &mut Sm) -> Vec<u8> {
    let ps = probes();
    let mut f: Vec<u8> = Vec::new();
    let n = r.below(6);
    let bad_at = if r.chance(35) { Some(r.below(n.max(1))) } else { None };
    for i in 0..n {
        let mut line: Vec<u8> = Vec::new();
        line.extend_from_slice(r.pick(&["", "", " ", "\t", "  \t", "\u{a0}", "\u{2003}"]).as_bytes());
        if Some(i) == bad_at {
            match r.below(7) {
                0 => line.extend_from_slice(&hex(&ps[0]).as_bytes()[..39]),                       // 39 digits
                1 => { line.extend_from_slice(hex(&ps[0]).as_bytes()); line.push(b'f'); }          // 41 digits
                2 => { let mut h = hex(&ps[1]).into_bytes(); h[5] = b'g'; line.extend_from_slice(&h); } // non-hex
                3 => { let mut h = hex(&ps[1]).into_bytes(); h.truncate(38); line.extend_from_slice(&h); line.extend_from_slice("ö".as_bytes()); } // 40 bytes, non-ascii
                4 => { line.extend_from_slice(hex(&ps[2]).as_bytes()); line.push(0xff); }          // invalid UTF-8
                5 => { line.extend_from_slice(hex(&ps[2]).as_bytes()); line.push(b' '); line.extend_from_slice(hex(&ps[3]).as_bytes()); } // two hashes on a line
                _ => line.extend_from_slice(b"# comment"),
            }
        } else if r.chance(20) {
            // blank line (white space only)
        } else {
            let h = hex(&r.pick(&ps));
            let h = match r.below(3) { 0 => h.to_uppercase(), 1 => h, _ => h.chars().enumerate().map(|(i, c)| if i % 2 == 0 { c.to_ascii_uppercase() } else { c }).collect() };
            line.extend_from_slice(h.as_bytes());
        }
        line.extend_from_slice(r.pick(&["", "", " ", "\t ", "\u{a0}"]).as_bytes());
        f.extend_from_slice(&line);
        if i + 1 < n || r.chance(70) {
            f.extend_from_slice(r.pick(&["\n", "\n", "\r\n"]).as_bytes());
        }
    }
    f
}

pub fn run(out: &mut impl Write, seed: u64, cases: usize, replay: &str) {
    let dir = std::path::Path::new(env!("CARGO_MANIFEST_DIR")).join("target").join("tmp").join(format!("aqv-acl-{}", std::process::id()));
    std::fs::create_dir_all(&dir).unwrap();
    let mut ex = Ex::new(dir.clone());
    if !replay.is_empty() {
        let text = std::fs::read_to_string(replay).expect("replay file");
        for l in text.lines() {
            let inp = l.split("=>").next().unwrap_or("");
            let t: Vec<&str> = inp.split_whitespace().collect();
            ex.line(out, &t);
        }
    } else {
        let mut master = Sm::new(seed);
        for case in 0..cases {
            let mut r = master.fork(case as u64);
            let mode = r.pick(&["allow", "allow", "deny", "deny", "off"]);
            ex.line(out, &["cfg", mode]);
            for _ in 0..2 + r.below(6) {
                let k = r.below(100);
                if k < 8 {
                    ex.line(out, &["rld", "MISSING"]);
                } else if k < 12 {
                    ex.line(out, &["rld", "DIR"]);
                } else {
                    let f = gen_file(&mut r);
                    ex.line(out, &["rld", &if f.is_empty() { "-".to_string() } else { hex(&f) }]);
                }
            }
        }
    }
    let _ = std::fs::remove_dir_all(&dir);
}
