//! Process and socket helpers for the socket-level families.
use std::io::{BufRead, BufReader};
use std::net::{TcpListener, TcpStream, UdpSocket};
use std::process::{Child, Command, Stdio};
use std::time::{Duration, Instant};

static TIMEOUTS: std::sync::atomic::AtomicUsize = std::sync::atomic::AtomicUsize::new(0);

/// How long to wait for an answer that should come: long (a loaded machine may take seconds to schedule the
/// tracker's threads; an answer that arrives ends the wait at once), but after a few answers that never
/// came only a few seconds, so that a tracker that has stopped answering does not stall the run.
pub fn patience() -> Duration {
    if TIMEOUTS.load(std::sync::atomic::Ordering::Relaxed) < 4 { Duration::from_secs(30) } else { Duration::from_secs(4) }
}

pub fn timeouts() -> usize {
    TIMEOUTS.load(std::sync::atomic::Ordering::Relaxed)
}

pub fn set_timeouts(n: usize) {
    TIMEOUTS.store(n, std::sync::atomic::Ordering::Relaxed);
}

pub fn note_timeout() {
    TIMEOUTS.fetch_add(1, std::sync::atomic::Ordering::Relaxed);
}

pub fn free_port() -> u16 {
    // a port that is free for both TCP and UDP on the loopback interface, taken from below the kernel's ephemeral
    // range (so that no other process's bind-to-port-0 can grab it between this probe and the tracker's bind) and
    // from a stretch of that range that depends on this process's id (other runs of the harness use other stretches);
    // never the same port twice in one run: trackers set SO_REUSEPORT, so two of them started side by side on one
    // port would both come up and share the clients between them
    static NEXT: std::sync::atomic::AtomicU32 = std::sync::atomic::AtomicU32::new(0);
    let base = (std::process::id().wrapping_mul(7919)) % 20000;
    for _ in 0..2000 {
        let k = NEXT.fetch_add(1, std::sync::atomic::Ordering::Relaxed);
        let p = (10000 + (base + k) % 20000) as u16;
        let free = TcpListener::bind(("127.0.0.1", p)).is_ok() && UdpSocket::bind(("127.0.0.1", p)).is_ok()
            && TcpListener::bind(("::1", p)).is_ok() && UdpSocket::bind(("::1", p)).is_ok();
        if free { return p; }
    }
    panic!("no free port");
}

pub struct Server {
    pub child: Child,
    pub port: u16,
    pub started: Instant,
    /// the child's TIMING line, once it has exited
    pub timing: Option<String>,
    /// the EXIT line of a child that had already exited when `start` returned
    pub early_exit: Option<String>,
}

impl Server {
    /// starts `aqv serve <kind> port=<p> <args…>` and waits until it accepts connections
    pub fn start(kind: &str, args: &[String]) -> Option<Server> {
        // a port found free can be taken by another process before the tracker binds it: such a start says
        // nothing about the tracker and is tried again on another port
        for _ in 0..4 {
            let mut s = Self::start_once(kind, args)?;
            if let Ok(Some(_)) = s.child.try_wait() {
                let line = s.exit_line(Duration::from_millis(0)).unwrap_or_default();
                if line.contains("Address already in use") { continue; }
                // (the exit line has been consumed: keep it for the caller)
                s.early_exit = Some(line);
            }
            return Some(s);
        }
        None
    }

    fn start_once(kind: &str, args: &[String]) -> Option<Server> {
        let port = free_port();
        let exe = std::env::current_exe().ok()?;
        let mut cmd = Command::new(exe);
        cmd.arg("serve").arg(kind).arg(format!("port={}", port));
        for a in args { cmd.arg(a); }
        // the tracker child must not outlive this process (a run that is killed at a time limit would leave it behind)
        unsafe {
            use std::os::unix::process::CommandExt;
            cmd.pre_exec(|| { libc::prctl(libc::PR_SET_PDEATHSIG, libc::SIGKILL); Ok(()) });
        }
        let child = cmd.stdin(Stdio::null()).stdout(Stdio::piped()).stderr(Stdio::null()).spawn().ok()?;
        let s = Server { child, port, started: Instant::now(), timing: None, early_exit: None };
        let t0 = Instant::now();
        if kind == "udp" {
            // up when a connect request is answered (or run() has returned: the caller looks at the exit line)
            let mut s = s;
            let probe = UdpSocket::bind("127.0.0.1:0").ok()?;
            let _ = probe.set_read_timeout(Some(Duration::from_millis(40)));
            let mut req = vec![0u8; 16];
            req[..8].copy_from_slice(&0x41727101980u64.to_be_bytes());
            while t0.elapsed() < Duration::from_secs(45) {
                if let Ok(Some(_)) = s.child.try_wait() { return Some(s); }
                let _ = probe.send_to(&req, ("127.0.0.1", port));
                let mut b = [0u8; 64];
                if let Ok((16, _)) = probe.recv_from(&mut b) { return Some(s); }
            }
            return Some(s);
        }
        while t0.elapsed() < Duration::from_secs(45) {
            if TcpStream::connect_timeout(&format!("127.0.0.1:{}", port).parse().unwrap(), Duration::from_millis(200)).is_ok() {
                // glommio listeners of all socket workers come up together; give them a moment
                std::thread::sleep(Duration::from_millis(150));
                return Some(s);
            }
            std::thread::sleep(Duration::from_millis(50));
        }
        let mut s = s;
        s.stop();
        None
    }

    /// if the tracker's `run()` has returned: its EXIT line
    pub fn exit_line(&mut self, wait: Duration) -> Option<String> {
        if let Some(l) = self.early_exit.clone() { return Some(l); }
        let t0 = Instant::now();
        loop {
            match self.child.try_wait() {
                Ok(Some(_)) => {
                    let out = self.child.stdout.take()?;
                    let mut last = None;
                    for l in BufReader::new(out).lines().map_while(Result::ok) {
                        if l.starts_with("TIMING") { self.timing = Some(l); continue; }
                        if l.starts_with("EXIT") { last = Some(l); }
                    }
                    return last.or(Some("EXIT process-died".into()));
                }
                _ => {
                    if t0.elapsed() >= wait { return None; }
                    std::thread::sleep(Duration::from_millis(20));
                }
            }
        }
    }

    pub fn stop(&mut self) {
        let _ = self.child.kill();
        let _ = self.child.wait();
    }
}

impl Drop for Server {
    fn drop(&mut self) { self.stop(); }
}
