//! Minimal WebSocket client on top of tungstenite for the socket-level WebTorrent runs.
use std::net::TcpStream;
use std::time::{Duration, Instant};

use tungstenite::protocol::frame::coding::{Data, OpCode};
use tungstenite::protocol::frame::Frame;
use tungstenite::{Message, WebSocket};

pub struct WsConn {
    pub ws: WebSocket<TcpStream>,
}

impl WsConn {
    pub fn connect(port: u16) -> Option<WsConn> {
        // patient while the connection is set up (a loaded machine), short read timeouts afterwards
        for _ in 0..3 {
            let Ok(stream) = TcpStream::connect_timeout(&format!("127.0.0.1:{}", port).parse().unwrap(), Duration::from_secs(5)) else { continue; };
            let _ = stream.set_nodelay(true);
            let _ = stream.set_read_timeout(Some(Duration::from_secs(10)));
            if let Ok((ws, _)) = tungstenite::client(format!("ws://127.0.0.1:{}/", port), stream) {
                let _ = ws.get_ref().set_read_timeout(Some(Duration::from_millis(100)));
                return Some(WsConn { ws });
            }
        }
        None
    }

    /// sends a text message, fragmented into frames of at most `max_frame` payload bytes
    pub fn send_text(&mut self, text: &str, max_frame: usize) -> bool {
        let bytes = text.as_bytes();
        if bytes.len() <= max_frame {
            return self.ws.send(Message::text(text.to_string())).is_ok();
        }
        let chunks: Vec<&[u8]> = bytes.chunks(max_frame).collect();
        for (i, c) in chunks.iter().enumerate() {
            let op = if i == 0 { OpCode::Data(Data::Text) } else { OpCode::Data(Data::Continue) };
            let frame = Frame::message(c.to_vec(), op, i + 1 == chunks.len());
            if self.ws.send(Message::Frame(frame)).is_err() { return false; }
        }
        true
    }

    /// next text message within `wait`, `Err(reason)` when the connection is gone
    pub fn recv_text(&mut self, wait: Duration) -> Result<Option<String>, String> {
        let t0 = Instant::now();
        loop {
            match self.ws.read() {
                Ok(Message::Text(t)) => return Ok(Some(t.to_string())),
                Ok(Message::Binary(b)) => return Ok(Some(String::from_utf8_lossy(&b).to_string())),
                Ok(Message::Close(_)) => return Err("closed".into()),
                Ok(_) => {}
                Err(tungstenite::Error::Io(e)) if e.kind() == std::io::ErrorKind::WouldBlock || e.kind() == std::io::ErrorKind::TimedOut => {
                    if t0.elapsed() >= wait { return Ok(None); }
                }
                Err(e) => return Err(format!("{}", e).replace(' ', "_")),
            }
        }
    }

    pub fn close(mut self, orderly: bool) {
        if orderly {
            let _ = self.ws.close(None);
            let _ = self.ws.flush();
            let t0 = Instant::now();
            while t0.elapsed() < Duration::from_millis(300) {
                if self.ws.read().is_err() { break; }
            }
        }
        // dropping the stream resets / closes the TCP connection
    }
}

/// `aqv wsprobe <depth>`: does a deeply nested JSON message take the tracker down?
pub fn probe(depth: usize) {
    let Some(mut server) = crate::net::Server::start("ws", &[]) else { println!("START-FAILED"); return; };
    let Some(mut c) = WsConn::connect(server.port) else { println!("CONNECT-FAILED"); server.stop(); return; };
    let msg = format!("{}1{}", "{\"a\":".repeat(depth), "}".repeat(depth));
    let sent = c.send_text(&msg, 15000);
    let r = c.recv_text(Duration::from_secs(3));
    let exit = server.exit_line(Duration::from_millis(1500));
    // a second connection: is the tracker still serving?
    let alive = WsConn::connect(server.port).map(|mut c2| {
        c2.send_text(r#"{"action":"scrape","info_hash":"aaaaaaaaaaaaaaaaaaaa"}"#, 15000);
        c2.recv_text(Duration::from_secs(2))
    });
    println!("depth={} bytes={} sent={} reply={:?} exit={:?} second-connection={:?}", depth, msg.len(), sent, r, exit, alive);
    server.stop();
}

/// `aqv wsmsg <text> ...`: what does the tracker answer to each of these messages, sent in turn on one connection?
pub fn probe_msgs(texts: &[String]) {
    let Some(mut server) = crate::net::Server::start("ws", &["swarm_workers=2".to_string()]) else { println!("START-FAILED"); return; };
    let Some(mut c) = WsConn::connect(server.port) else { println!("CONNECT-FAILED"); server.stop(); return; };
    for t in texts {
        let sent = c.send_text(t, 15000);
        let r = c.recv_text(Duration::from_secs(3));
        println!("sent={} {} => {:?}", sent, t, r);
    }
    server.stop();
}
