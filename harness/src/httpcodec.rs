//! HTTP protocol library (C14, C12): the real request writers / query-string parsers and the real
//! bencode reply writers / serde_bencode reader of aquatic_http_protocol.
//!
//!   hq announce <ih> <pid> <port> <ul> <dl> <left> <event> <numwant|-> <keyhex|-> => <path hex> <encoded key hex|->
//!   hq scrape <h,h,…>                                                               => <path hex>
//!   hp <path hex> => ok announce <ih> <pid> <port> <ul> <dl> <left> <event> <numwant|-> <keyhex|-|~> | ok scrape <h,…> | err
//!   hs announce <c> <i> <interval> <ip:port;…|-> <ip6:port;…|-> <warnhex|-|~> => <bytes hex> <parsed back|err>
//!   hs scrape <h=c:d:i,…|->                                                     => <bytes hex> <parsed back|err>
//!   hs failure <reasonhex|~>                                                    => <bytes hex> <parsed back|err>
use std::io::Write;
use std::net::{Ipv4Addr, Ipv6Addr};

use aquatic_http_protocol::common::*;
use aquatic_http_protocol::request::*;
use aquatic_http_protocol::response::*;

use crate::rng::Sm;
use crate::store::{arr20, hex, unhex};

fn sx(s: &str) -> String { if s.is_empty() { "~".into() } else { hex(s.as_bytes()) } }
fn unsx(s: &str) -> String { if s == "~" { String::new() } else { String::from_utf8_lossy(&unhex(s)).to_string() } }

fn ev_name(e: AnnounceEvent) -> &'static str {
    match e { AnnounceEvent::Started => "started", AnnounceEvent::Stopped => "stopped", AnnounceEvent::Completed => "completed", AnnounceEvent::Empty => "empty" }
}
fn ev_of(s: &str) -> AnnounceEvent {
    match s { "started" => AnnounceEvent::Started, "stopped" => AnnounceEvent::Stopped, "completed" => AnnounceEvent::Completed, _ => AnnounceEvent::Empty }
}

fn req_text(r: &Request) -> String {
    match r {
        Request::Announce(a) => format!(
            "announce {} {} {} {} {} {} {} {} {}",
            hex(&a.info_hash.0), hex(&a.peer_id.0), a.port, a.bytes_uploaded, a.bytes_downloaded, a.bytes_left, ev_name(a.event),
            a.numwant.map(|n| n.to_string()).unwrap_or("-".into()),
            a.key.as_ref().map(|k| sx(k.as_str())).unwrap_or("-".into())
        ),
        Request::Scrape(s) => format!("scrape {}", s.info_hashes.iter().map(|h| hex(&h.0)).collect::<Vec<_>>().join(",")),
    }
}

fn req_of(t: &[&str]) -> Option<Request> {
    match t {
        ["announce", ih, pid, port, ul, dl, left, ev, nw, key] => Some(Request::Announce(AnnounceRequest {
            info_hash: InfoHash(arr20(&unhex(ih))),
            peer_id: PeerId(arr20(&unhex(pid))),
            port: port.parse().ok()?,
            bytes_uploaded: ul.parse().ok()?,
            bytes_downloaded: dl.parse().ok()?,
            bytes_left: left.parse().ok()?,
            event: ev_of(ev),
            numwant: nw.parse().ok(),
            key: if *key == "-" { None } else { Some(unsx(key).into()) },
        })),
        ["scrape", hs] => Some(Request::Scrape(ScrapeRequest { info_hashes: hs.split(',').filter(|x| !x.is_empty()).map(|h| InfoHash(arr20(&unhex(h)))).collect() })),
        _ => None,
    }
}

/// the request line's path: between "GET " and " HTTP/1.1"
fn path_of(bytes: &[u8]) -> Vec<u8> {
    let s = &bytes[4..];
    let end = s.windows(9).position(|w| w == b" HTTP/1.1").unwrap_or(s.len());
    s[..end].to_vec()
}

fn peers4(s: &str) -> Vec<ResponsePeer<Ipv4Addr>> {
    if s == "-" { return vec![]; }
    s.split(';').map(|p| { let (a, b) = p.split_once(':').unwrap(); let v = unhex(a); ResponsePeer { ip_address: Ipv4Addr::new(v[0], v[1], v[2], v[3]), port: b.parse().unwrap_or(0) } }).collect()
}
fn peers6(s: &str) -> Vec<ResponsePeer<Ipv6Addr>> {
    if s == "-" { return vec![]; }
    s.split(';').map(|p| { let (a, b) = p.split_once(':').unwrap(); let v = unhex(a); let mut x = [0u8; 16]; x.copy_from_slice(&v[..16]); ResponsePeer { ip_address: Ipv6Addr::from(x), port: b.parse().unwrap_or(0) } }).collect()
}

fn resp_text(r: &Response) -> String {
    match r {
        Response::Announce(a) => {
            let p4: Vec<String> = a.peers.0.iter().map(|p| format!("{}:{}", hex(&p.ip_address.octets()), p.port)).collect();
            let p6: Vec<String> = a.peers6.0.iter().map(|p| format!("{}:{}", hex(&p.ip_address.octets()), p.port)).collect();
            format!("announce {} {} {} {} {} {}", a.complete, a.incomplete, a.announce_interval,
                if p4.is_empty() { "-".to_string() } else { p4.join(";") }, if p6.is_empty() { "-".to_string() } else { p6.join(";") },
                a.warning_message.as_ref().map(|w| sx(w)).unwrap_or("-".into()))
        }
        Response::Scrape(s) => {
            let v: Vec<String> = s.files.iter().map(|(h, st)| format!("{}={}:{}:{}", hex(&h.0), st.complete, st.downloaded, st.incomplete)).collect();
            format!("scrape {}", if v.is_empty() { "-".to_string() } else { v.join(",") })
        }
        Response::Failure(f) => format!("failure {}", sx(&f.failure_reason)),
    }
}

fn resp_of(t: &[&str]) -> Option<Response> {
    match t {
        ["announce", c, i, n, p4, p6, w] => Some(Response::Announce(AnnounceResponse {
            complete: c.parse().ok()?, incomplete: i.parse().ok()?, announce_interval: n.parse().ok()?,
            peers: ResponsePeerListV4(peers4(p4)), peers6: ResponsePeerListV6(peers6(p6)),
            warning_message: if *w == "-" { None } else { Some(unsx(w)) },
        })),
        ["scrape", files] => {
            let mut m = std::collections::BTreeMap::new();
            if *files != "-" {
                for f in files.split(',') {
                    let (h, st) = f.split_once('=')?;
                    let v: Vec<usize> = st.split(':').map(|x| x.parse().unwrap_or(0)).collect();
                    m.insert(InfoHash(arr20(&unhex(h))), ScrapeStatistics { complete: v[0], downloaded: v[1], incomplete: v[2] });
                }
            }
            Some(Response::Scrape(ScrapeResponse { files: m }))
        }
        ["failure", r] => Some(Response::Failure(FailureResponse::new(unsx(r)))),
        _ => None,
    }
}

fn line(out: &mut impl Write, t: &[&str]) {
    match t {
        ["hq", rest @ ..] => if let Some(r) = req_of(rest) {
            let mut b = Vec::new();
            r.write(&mut b, b"").unwrap();
            let enc_key = match &r { Request::Announce(a) => a.key.as_ref().map(|k| sx(&urlencoding::encode(k.as_str()))).unwrap_or("-".into()), _ => "-".into() };
            writeln!(out, "hq {} => {} {}", rest.join(" "), hex(&path_of(&b)), enc_key).unwrap();
        },
        ["hp", p] => {
            let path = String::from_utf8_lossy(&unhex(p)).to_string();
            let r = std::panic::catch_unwind(|| Request::parse_http_get_path(&path));
            let txt = match r { Ok(Ok(r)) => format!("ok {}", req_text(&r)), Ok(Err(_)) => "err".into(), Err(e) => format!("PANIC {}", crate::panic_text(&e)) };
            writeln!(out, "hp {} => {}", p, txt).unwrap();
        }
        ["hs", rest @ ..] => if let Some(r) = resp_of(rest) {
            let mut b = Vec::new();
            r.write_bytes(&mut b).unwrap();
            let back = match std::panic::catch_unwind(|| Response::parse_bytes(&b)) {
                Ok(Ok(x)) => resp_text(&x).replace(' ', "|"),
                Ok(Err(_)) => "err".into(),
                Err(e) => format!("PANIC {}", crate::panic_text(&e)),
            };
            writeln!(out, "hs {} => {} {}", rest.join(" "), hex(&b), back).unwrap();
        },
        _ => {}
    }
}

fn id(r: &mut Sm) -> [u8; 20] {
    let mut a = [0u8; 20];
    match r.below(5) {
        0 => {}
        1 => a = [0xff; 20],
        2 => { for (i, x) in a.iter_mut().enumerate() { *x = (i * 13 + 7) as u8; } }
        3 => { for x in a.iter_mut() { *x = r.pick(&[b'%', b'&', b'=', b'?', b' ', b'+', b'/', 0x7f, 0x80, b'a']); } }
        _ => { for x in a.iter_mut() { *x = r.next() as u8; } }
    }
    a
}

fn usz(r: &mut Sm) -> usize { r.pick(&[0usize, 1, 9, 10, 99, 12345, usize::MAX - 1, usize::MAX]) }
// reply counters: bencode integers are signed 64-bit for the bundled reader (serde_bencode)
fn cnt(r: &mut Sm) -> usize { r.pick(&[0usize, 1, 9, 10, 99, 12345, i64::MAX as usize - 1, i64::MAX as usize]) }

/// hand-built query strings: raw / percent-encoded identifiers, parameter orders, odd '=' and '&'
fn gen_path(r: &mut Sm) -> String {
    fn raw_id(r: &mut Sm, n: usize) -> String {
        let mut s = String::new();
        for _ in 0..n {
            // every raw character an identifier may be sent with: each printable ASCII character except the
            // separators, and Latin-1 ones; '%' starts an escape
            let c = if r.chance(45) {
                let all: Vec<char> = (0x21u8..0x7f).map(|b| b as char).filter(|c| !['&', '=', '#', '%'].contains(c)).collect();
                all[r.below(all.len() as u64) as usize]
            } else { r.pick(&['a', 'Z', '0', '-', '.', '~', '+', '*', '\u{e9}', '\u{ff}', '\u{a0}', '%', '%']) };
            if c == '%' { s.push('%'); s.push(r.pick(&['4', 'a', 'F', 'g'])); s.push(r.pick(&['1', 'b', 'C', ' '])); } else { s.push(c); }
        }
        s
    }
    let n_ih = r.pick(&[20usize, 20, 20, 19, 21]);
    let mut params: Vec<String> = vec![
        format!("info_hash={}", raw_id(r, n_ih)),
        format!("peer_id={}", raw_id(r, 20)),
        format!("port={}", r.pick(&["1", "65535", "65536", "0", "+7", "-1", "", "08", " 8"])),
        format!("uploaded={}", r.pick(&["0", "1", "18446744073709551615", "18446744073709551616", "x"])),
        format!("downloaded={}", r.pick(&["0", "5"])),
        format!("left={}", r.pick(&["0", "3", "00"])),
    ];
    if r.chance(50) { params.push(format!("event={}", r.pick(&["started", "stopped", "completed", "empty", "paused", ""]))); }
    if r.chance(50) { params.push(format!("numwant={}", r.pick(&["0", "50", "-1"]))); }
    if r.chance(40) { params.push(format!("key={}", r.pick(&["4ab4b877", "", "a%20b", "%zz", "%ff", "%C3%A9", &"k".repeat(100), &"k".repeat(101), &"é".repeat(51)]))); }
    if r.chance(50) { params.push(format!("compact={}", r.pick(&["1", "1", "0", ""]))); }
    if r.chance(50) { params.push(r.pick(&["supportcrypto=1", "unknown=", "=x", "novalue", "a=b=c", "&", "x==y"]).to_string()); }
    // any order; sometimes drop one, sometimes repeat one
    for i in (1..params.len()).rev() { let j = r.below(i as u64 + 1) as usize; params.swap(i, j); }
    if r.chance(15) { let i = r.below(params.len() as u64) as usize; params.remove(i); }
    if r.chance(15) { let i = r.below(params.len() as u64) as usize; let p = params[i].clone(); params.push(p); }
    let loc = r.pick(&["/announce", "/announce", "/announce", "/scrape", "/announce/", "/", ""]);
    format!("{}{}{}{}", loc, r.pick(&["?", "?", "?", "", "??"]), params.join("&"), r.pick(&["", "", "&", "&&"]))
}

pub fn run(out: &mut impl Write, seed: u64, cases: usize, replay: &str) {
    if !replay.is_empty() {
        let text = std::fs::read_to_string(replay).expect("replay file");
        for l in text.lines() {
            let inp = l.split("=>").next().unwrap_or("");
            let t: Vec<&str> = inp.split_whitespace().collect();
            line(out, &t);
        }
        return;
    }
    let mut r = Sm::new(seed);
    let keys = ["", "4ab4b877", "a b&c=d", "é😀", "%", &"k".repeat(33)];
    for _ in 0..cases {
        // requests written by the library, parsed back
        let rq = if r.chance(70) {
            Request::Announce(AnnounceRequest {
                info_hash: InfoHash(id(&mut r)), peer_id: PeerId(id(&mut r)), port: r.pick(&[0u16, 1, 6881, 65535]),
                bytes_uploaded: usz(&mut r), bytes_downloaded: usz(&mut r), bytes_left: usz(&mut r),
                event: r.pick(&[AnnounceEvent::Started, AnnounceEvent::Stopped, AnnounceEvent::Completed, AnnounceEvent::Empty]),
                numwant: if r.chance(50) { Some(usz(&mut r)) } else { None },
                key: if r.chance(50) { Some(r.pick(&keys).to_string().into()) } else { None },
            })
        } else {
            Request::Scrape(ScrapeRequest { info_hashes: (0..1 + r.below(4)).map(|_| InfoHash(id(&mut r))).collect() })
        };
        let txt = req_text(&rq);
        let toks: Vec<&str> = std::iter::once("hq").chain(txt.split(' ')).collect();
        line(out, &toks);
        let mut b = Vec::new();
        rq.write(&mut b, b"").unwrap();
        line(out, &["hp", &hex(&path_of(&b))]);
        for _ in 0..2 { let p = gen_path(&mut r); line(out, &["hp", &if p.is_empty() { "-".to_string() } else { hex(p.as_bytes()) }]); }
        if let Request::Scrape(_) = rq {
            let p = format!("/scrape?{}", (0..r.below(3) + 1).map(|_| format!("{}={}", r.pick(&["info_hash", "info_hash", "x"]), hex(&id(&mut r)[..10]))).collect::<Vec<_>>().join("&"));
            line(out, &["hp", &hex(p.as_bytes())]);
        }
        // replies
        let rs = match r.below(3) {
            0 => {
                // every fifth reply is a long one: list lengths around the powers of two and the multiples of common
                // scratch-buffer sizes (2048 / 6 = 341, 2048 / 18 = 113, 4096 / 18 = 227, ...), both families
                let long = r.chance(20);
                let n4 = if long { r.pick(&[113usize, 114, 170, 171, 341, 342, 343, 682, 683, 700]) } else { r.pick(&[0usize, 1, 2, 50]) };
                let n6 = if long { r.pick(&[0usize, 56, 57, 113, 114, 115, 227, 228, 341, 342, 400]) } else { r.pick(&[0usize, 1, 3]) };
                Response::Announce(AnnounceResponse {
                    complete: cnt(&mut r), incomplete: cnt(&mut r), announce_interval: r.pick(&[0usize, 120, 1800]),
                    peers: ResponsePeerListV4((0..n4).map(|_| ResponsePeer { ip_address: Ipv4Addr::from(r.next() as u32), port: r.next() as u16 }).collect()),
                    peers6: ResponsePeerListV6((0..n6).map(|_| ResponsePeer { ip_address: Ipv6Addr::from(((r.next() as u128) << 64) | r.next() as u128), port: r.next() as u16 }).collect()),
                    warning_message: if r.chance(30) { Some(r.pick(&["", "slow down", "é:e10:x"]).to_string()) } else { None },
                })
            }
            1 => {
                let mut m = std::collections::BTreeMap::new();
                for _ in 0..r.below(4) { m.insert(InfoHash(id(&mut r)), ScrapeStatistics { complete: cnt(&mut r), downloaded: r.pick(&[0usize, 0, 0, 7]), incomplete: cnt(&mut r) }); }
                Response::Scrape(ScrapeResponse { files: m })
            }
            _ => Response::Failure(FailureResponse::new(r.pick(&["", "Info hash not allowed", "e", "4:spam", "é"]).to_string())),
        };
        let txt = resp_text(&rs);
        let toks: Vec<&str> = std::iter::once("hs").chain(txt.split(' ')).collect();
        line(out, &toks);
    }
}
