//! HTTP swarm store backend: the real `aquatic_http` `TorrentMaps`.
use std::net::{IpAddr, Ipv4Addr, Ipv6Addr, SocketAddr};
use std::sync::Arc;

use aquatic_common::access_list::{AccessList, AccessListArcSwap, AccessListMode};
use aquatic_common::{CanonicalSocketAddr, SecondsSinceServerStart, ServerStartInstant, ValidUntil};
use aquatic_http::config::Config;
use aquatic_http::verif_hooks::TorrentMaps;
use aquatic_http_protocol::common::{AnnounceEvent, InfoHash, PeerId};
use aquatic_http_protocol::request::{AnnounceRequest, ScrapeRequest};
use rand::rngs::SmallRng;
use rand::SeedableRng;

use crate::store::{hex, Backend, Op};

pub struct HttpExec {
    config: Config,
    maps: TorrentMaps,
    access_list: Arc<AccessListArcSwap>,
    start: ServerStartInstant,
    rng: SmallRng,
}

impl HttpExec {
    pub fn new(seed: u64) -> Self {
        HttpExec {
            config: Config::default(),
            maps: TorrentMaps::new(0),
            access_list: Arc::new(AccessListArcSwap::default()),
            start: ServerStartInstant::new(),
            rng: SmallRng::seed_from_u64(seed),
        }
    }
}

fn src_of(fam: u8, ip: &[u8], port: u16) -> CanonicalSocketAddr {
    let ipaddr = if fam == 4 {
        IpAddr::V4(Ipv4Addr::new(ip[0], ip[1], ip[2], ip[3]))
    } else {
        let mut a = [0u8; 16];
        a.copy_from_slice(&ip[..16]);
        IpAddr::V6(Ipv6Addr::from(a))
    };
    CanonicalSocketAddr::new(SocketAddr::new(ipaddr, port))
}

impl Backend for HttpExec {
    fn exec(&mut self, op: &Op) -> String {
        match op {
            Op::Cfg { max_peers, max_scrape, .. } => {
                self.config.protocol.max_peers = *max_peers;
                self.config.protocol.max_scrape_torrents = *max_scrape;
                String::new()
            }
            Op::New => {
                self.maps = TorrentMaps::new(0);
                self.access_list = Arc::new(AccessListArcSwap::default());
                String::new()
            }
            Op::Ann { fam, hash, ip, port, event, left, numwant, dl, pid } => {
                let src = src_of(*fam, ip, 5000);
                let request = AnnounceRequest {
                    info_hash: InfoHash(*hash),
                    peer_id: PeerId(*pid),
                    port: *port,
                    bytes_uploaded: 0,
                    bytes_downloaded: 0,
                    bytes_left: (*left).max(0) as usize,
                    event: match event.as_str() {
                        "started" => AnnounceEvent::Started,
                        "stopped" => AnnounceEvent::Stopped,
                        "completed" => AnnounceEvent::Completed,
                        _ => AnnounceEvent::Empty,
                    },
                    numwant: if *numwant < 0 { None } else { Some(*numwant as usize) },
                    key: None,
                };
                let vu = ValidUntil::new_raw(SecondsSinceServerStart::new_raw(*dl));
                let r = self.maps.handle_announce_request(&self.config, &mut self.rng, vu, src, request);
                let mut peers: Vec<String> = r.peers.0.iter().map(|p| format!("{}:{}", hex(&p.ip_address.octets()), p.port)).collect();
                peers.extend(r.peers6.0.iter().map(|p| format!("{}:{}", hex(&p.ip_address.octets()), p.port)));
                // a reply must carry peers of the announcer's family only
                let wrong = if *fam == 4 { !r.peers6.0.is_empty() } else { !r.peers.0.is_empty() };
                let peers = if peers.is_empty() { "-".to_string() } else { peers.join(";") };
                format!("{} {} {} {}", r.complete, r.incomplete, peers, if wrong { "WRONGFAMILY" } else { "-" })
            }
            Op::Scr { fam, hashes } => {
                let ip = if *fam == 4 { vec![1, 1, 1, 1] } else { vec![1; 16] };
                let src = src_of(*fam, &ip, 1);
                let req = ScrapeRequest { info_hashes: hashes.iter().map(|h| InfoHash(*h)).collect() };
                let r = self.maps.handle_scrape_request(&self.config, src, req);
                let v: Vec<String> = r.files.iter().map(|(h, s)| format!("{}={}:{}", hex(&h.0), s.complete, s.incomplete)).collect();
                if v.is_empty() { "-".into() } else { v.join(",") }
            }
            Op::Cln { now, mode, list } => {
                self.config.access_list.mode = match mode.as_str() {
                    "allow" => AccessListMode::Allow,
                    "deny" => AccessListMode::Deny,
                    _ => AccessListMode::Off,
                };
                let mut al = AccessList::default();
                for h in list {
                    al.insert_from_line(&hex(h)).unwrap();
                }
                self.access_list.store(Arc::new(al));
                aquatic_common::verif_hooks::set_clock(Some(*now));
                self.maps.clean(&self.config, &self.access_list, self.start);
                aquatic_common::verif_hooks::set_clock(None);
                format!("{} {}", self.maps.ipv4.verif_num_torrents(), self.maps.ipv6.verif_num_torrents())
            }
        }
    }
}
