//! SplitMix64: the single source of every random choice of a run, so that a
//! disagreement replays exactly from (seed, case number).
#[derive(Clone)]
pub struct Sm(pub u64);

impl Sm {
    pub fn new(seed: u64) -> Self {
        Sm(seed.wrapping_mul(0x9E3779B97F4A7C15) ^ 0xD1B54A32D192ED03)
    }
    pub fn next(&mut self) -> u64 {
        self.0 = self.0.wrapping_add(0x9E3779B97F4A7C15);
        let mut z = self.0;
        z = (z ^ (z >> 30)).wrapping_mul(0xBF58476D1CE4E5B9);
        z = (z ^ (z >> 27)).wrapping_mul(0x94D049BB133111EB);
        z ^ (z >> 31)
    }
    pub fn below(&mut self, n: u64) -> u64 {
        if n == 0 {
            0
        } else {
            self.next() % n
        }
    }
    pub fn pick<T: Copy>(&mut self, xs: &[T]) -> T {
        xs[self.below(xs.len() as u64) as usize]
    }
    pub fn chance(&mut self, percent: u64) -> bool {
        self.below(100) < percent
    }
    pub fn fork(&mut self, salt: u64) -> Sm {
        Sm::new(self.next() ^ salt)
    }
}

impl Sm {
    pub fn pick_ref<T: Clone>(&mut self, xs: &[T]) -> T {
        xs[self.below(xs.len() as u64) as usize].clone()
    }
}
