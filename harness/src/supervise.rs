//! C19: a dead worker brings the whole tracker down.  The real `run(config)` in a child process with
//! a fault injected into one worker (hook `aquatic_common::verif_hooks::fault_point`): the worker
//! panics or returns at its next loop iteration after the due time; or a socket worker cannot bind.
//!
//!   sv <udp|http|ws> <worker> <panic|return|bind> <socket_workers> <swarm_workers>
//!        => exited <ms after the fault was due> <EXIT line> | RUNNING <ms waited>
use std::io::Write;
use std::net::{TcpListener, TcpStream, UdpSocket};
use std::time::{Duration, Instant};

use crate::net::Server;
use crate::rng::Sm;

const FAULT_AFTER_MS: u64 = 800;

fn stimulate(kind: &str, worker: &str, server: &Server) {
    match (kind, worker) {
        ("udp", "signals") | ("http", "signals") | ("ws", "signals") => {
            let _ = std::process::Command::new("kill").args(["-USR1", &server.child.id().to_string()]).status();
        }
        ("udp", _) => {
            if let Ok(s) = UdpSocket::bind("127.0.0.1:0") {
                let mut b = vec![0u8; 16];
                b[..8].copy_from_slice(&0x41727101980u64.to_be_bytes());
                let _ = s.send_to(&b, ("127.0.0.1", server.port));
            }
        }
        ("http", _) => {
            if let Ok(mut s) = TcpStream::connect_timeout(&format!("127.0.0.1:{}", server.port).parse().unwrap(), Duration::from_millis(500)) {
                let _ = s.write_all(b"GET /announce?info_hash=aaaaaaaaaaaaaaaaaaaa&peer_id=bbbbbbbbbbbbbbbbbbbb&port=6881&uploaded=0&downloaded=0&left=1 HTTP/1.1\r\nHost: x\r\n\r\n");
                let _ = s.set_read_timeout(Some(Duration::from_millis(300)));
                let mut buf = [0u8; 512];
                let _ = std::io::Read::read(&mut s, &mut buf);
            }
        }
        ("ws", _) => {
            if let Some(mut c) = crate::wsclient::WsConn::connect(server.port) {
                c.send_text(r#"{"action":"announce","info_hash":"aaaaaaaaaaaaaaaaaaaa","peer_id":"bbbbbbbbbbbbbbbbbbbb","left":1}"#, 15000);
                let _ = c.recv_text(Duration::from_millis(300));
            }
        }
        _ => {}
    }
}

fn timing_field(line: Option<&str>, key: &str) -> Option<i64> {
    line?.split_whitespace().find_map(|t| t.strip_prefix(key).and_then(|r| r.strip_prefix('=')).and_then(|v| v.parse().ok()))
}

fn one(out: &mut impl Write, kind: &str, worker: &str, mode: &str, socket_workers: usize, swarm_workers: usize) {
    let head = format!("sv {} {} {} {} {}", kind, worker, mode, socket_workers, swarm_workers);
    if mode == "bind" || mode == "bind4" || mode == "bind6" {
        // a socket worker cannot set up its socket: the port is taken (no SO_REUSEPORT on our side)
        // (the port must really be held by us - another process may have taken it in between - or the case shows nothing)
        //   bind : IPv4-only configuration, the IPv4 address is taken
        //   bind4: dual-stack configuration, only the IPv4 address is taken (the IPv6 one is free)
        //   bind6: dual-stack configuration, only the IPv6 address is taken (the IPv4 one is free)
        let v6 = mode == "bind6";
        let host: std::net::IpAddr = if v6 { "::1".parse().unwrap() } else { "127.0.0.1".parse().unwrap() };
        let other: std::net::IpAddr = if v6 { "127.0.0.1".parse().unwrap() } else { "::1".parse().unwrap() };
        let mut held = None;
        for _ in 0..20 {
            let port = crate::net::free_port();
            if mode != "bind" {
                // the other family's address must be free for the tracker
                let free = TcpListener::bind((other, port)).is_ok() && UdpSocket::bind((other, port)).is_ok();
                if !free { continue; }
            }
            if let (Ok(l), Ok(u)) = (TcpListener::bind((host, port)), UdpSocket::bind((host, port))) { held = Some((port, l, u)); break; }
        }
        let Some((port, _l, _u)) = held else { writeln!(out, "{} => NO-OBSERVATION could-not-occupy-a-port", head).unwrap(); return; };
        let use_ipv6 = if mode == "bind" { "use_ipv6=false" } else { "use_ipv6=true" };
        let exe = std::env::current_exe().unwrap();
        let t0 = Instant::now();
        let mut child = std::process::Command::new(exe).args(["serve", kind, &format!("port={}", port), use_ipv6, &format!("socket_workers={}", socket_workers), &format!("swarm_workers={}", swarm_workers)])
            .stdin(std::process::Stdio::null()).stdout(std::process::Stdio::piped()).stderr(std::process::Stdio::null()).spawn().unwrap();
        let mut res = format!("RUNNING {}", 12000);
        while t0.elapsed() < Duration::from_secs(40) {
            if let Ok(Some(_)) = child.try_wait() {
                let mut o = String::new();
                if let Some(mut so) = child.stdout.take() { let _ = std::io::Read::read_to_string(&mut so, &mut o); }
                let l = o.lines().filter(|l| l.starts_with("EXIT")).last().unwrap_or("EXIT process-died").replace(' ', "_");
                // the child's own measure of how long run() took (a loaded machine stretches process start-up, not that)
                let ms = timing_field(o.lines().filter(|l| l.starts_with("TIMING")).last(), "run_ms").unwrap_or(t0.elapsed().as_millis() as i64);
                res = format!("exited {} {}", ms, l);
                break;
            }
            std::thread::sleep(Duration::from_millis(50));
        }
        let _ = child.kill();
        let _ = child.wait();
        writeln!(out, "{} => {}", head, res).unwrap();
        return;
    }
    let args = vec![
        format!("socket_workers={}", socket_workers), format!("swarm_workers={}", swarm_workers), "use_ipv6=false".to_string(),
        "cleaning_interval=1".to_string(), "statistics_interval=1".to_string(), "statistics_stdout=true".to_string(),
        format!("fault={}:{}:{}", worker, mode, FAULT_AFTER_MS),
    ];
    let Some(mut server) = Server::start(kind, &args) else { writeln!(out, "{} => START-FAILED", head).unwrap(); return; };
    let due = server.started + Duration::from_millis(FAULT_AFTER_MS);
    while Instant::now() < due + Duration::from_millis(100) { std::thread::sleep(Duration::from_millis(20)); }
    let mut res = format!("RUNNING {}", 12000);
    let mut last_stim = Instant::now() - Duration::from_secs(1);
    // (generous: on a loaded machine the worker may reach its fault point late; what is judged is the
    // child's own measure from the moment the fault took effect to the return of run())
    while due.elapsed() < Duration::from_secs(40) {
        if last_stim.elapsed() > Duration::from_millis(400) { stimulate(kind, worker, &server); last_stim = Instant::now(); }
        if let Some(l) = server.exit_line(Duration::from_millis(50)) {
            let since = timing_field(server.timing.as_deref(), "since_fault_ms").filter(|v| *v >= 0);
            match since {
                Some(ms) => res = format!("exited {} {}", ms, l.replace(' ', "_")),
                // run() returned although the injected fault never took effect
                None => res = format!("exited-before-fault {} {}", due.elapsed().as_millis(), l.replace(' ', "_")),
            }
            break;
        }
    }
    server.stop();
    writeln!(out, "{} => {}", head, res).unwrap();
}

pub fn run(out: &mut impl Write, seed: u64, cases: usize, _replay: &str) {
    // the fault matrix, walked in a seed-dependent order, `cases` entries of it
    let mut all: Vec<(&str, &str, &str)> = Vec::new();
    for w in ["socket", "cleaning", "statistics", "signals"] { for m in ["panic", "return"] { all.push(("udp", w, m)); } }
    for k in ["http", "ws"] {
        for w in ["socket", "swarm", "signals"] { for m in ["panic", "return"] {
            // the WebTorrent swarm worker handles requests in a stream combinator: there is no loop to return from
            if !(k == "ws" && w == "swarm" && m == "return") { all.push((k, w, m)); }
        } }
        all.push((k, "swarm-clean", "panic"));
    }
    for k in ["udp", "http", "ws"] { all.push((k, "socket", "bind")); }
    // dual-stack configurations in which one of the two sockets cannot be set up (the WebTorrent tracker has one address)
    for k in ["udp", "http"] { for m in ["bind4", "bind6"] { all.push((k, "socket", m)); } }
    let mut r = Sm::new(seed);
    // a fixed core first (one of each tracker), then the rest in shuffled order
    for i in (1..all.len()).rev() { let j = r.below(i as u64 + 1) as usize; all.swap(i, j); }
    // cases beyond the matrix walk it again with other worker counts; the cases are independent tracker
    // processes and mostly wait for the supervising loop's next pass, so they run side by side (six at a time)
    let mut jobs: Vec<(String, String, String, usize, usize)> = Vec::new();
    for i in 0..cases {
        let (k, w, m) = all[i % all.len()];
        let sw = r.pick(&[1usize, 2]);
        let ww = r.pick(&[1usize, 2, 3]);
        jobs.push((k.to_string(), w.to_string(), m.to_string(), sw, ww));
    }
    for chunk in jobs.chunks(6) {
        let handles: Vec<_> = chunk.iter().cloned().map(|(k, w, m, sw, ww)| std::thread::spawn(move || {
            let mut buf: Vec<u8> = Vec::new();
            one(&mut buf, &k, &w, &m, sw, ww);
            buf
        })).collect();
        for h in handles {
            match h.join() {
                Ok(buf) => out.write_all(&buf).unwrap(),
                Err(_) => writeln!(out, "sv ? ? ? 0 0 => HARNESS-PANIC").unwrap(),
            }
        }
    }
}
