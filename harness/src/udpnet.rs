//! Socket-level UDP tracker runs (C06, C18, C11 gate, C03, C05 on the wire): starts the real
//! `aquatic_udp::run` (mio or io_uring backend) in a child process and exchanges datagrams.
//!
//!   cfg udpnet <mio|uring> <max_scrape_torrents> <max_response_peers> <max_connection_age> <off|allow|deny> <hash,…|->
//!   dg <client> <src ip hex> <idclass> <datagram hex> => <client>:<reply hex>;… | -
//! `idclass` says what the harness put into the connection-id field: own (an id this tracker issued
//! to this client's address, still fresh), stale (issued, now older than max_connection_age),
//! foreign (issued to another address), forged (random), none (the request has no such field / zero).
//! Every datagram that arrives at *any* client socket within the quiet period is reported.
use std::io::Write;
use std::net::{IpAddr, SocketAddr, UdpSocket};
use std::num::NonZeroU16;
use std::time::{Duration, Instant};

use aquatic_udp_protocol::*;

use crate::net::Server;
use crate::rng::Sm;
use crate::store::hex;

struct Client {
    sock: UdpSocket,
    ip: IpAddr,
    cid: Option<(ConnectionId, Instant)>,
}

fn ip_hex(ip: IpAddr) -> String {
    match ip { IpAddr::V4(a) => hex(&a.octets()), IpAddr::V6(a) => hex(&a.octets()) }
}

fn drain(clients: &[Client], quiet: Duration) -> Vec<(usize, Vec<u8>)> {
    let mut got = Vec::new();
    let mut buf = [0u8; 65536];
    let t0 = Instant::now();
    let mut last = Instant::now();
    while last.elapsed() < quiet && t0.elapsed() < Duration::from_millis(1500) {
        let mut any = false;
        for (i, c) in clients.iter().enumerate() {
            while let Ok((n, _)) = c.sock.recv_from(&mut buf) {
                got.push((i, buf[..n].to_vec()));
                any = true;
            }
        }
        if any { last = Instant::now(); } else { std::thread::sleep(Duration::from_millis(2)); }
    }
    got
}

/// Sends `bytes` from client `ci`, then a connect request (the fence) from the same socket, and collects
/// what all clients receive until the fence's reply is back: the tracker answers one socket's datagrams
/// in order, so whatever reply `bytes` gets has arrived by then - no waiting on the clock, no reply missed
/// on a slow machine.  `None`: the fence itself was lost (nothing can be said).
fn send_fenced(clients: &[Client], ci: usize, bytes: &[u8], dst: SocketAddr, fence_no: &mut i32) -> Option<Vec<(usize, Vec<u8>)>> {
    let _ = clients[ci].sock.send_to(bytes, dst);
    let mut got: Vec<(usize, Vec<u8>)> = Vec::new();
    let mut buf = [0u8; 65536];
    for attempt in 0..3 {
        *fence_no += 1;
        let tid = 0x7ff0_0000 + *fence_no;
        let mut f = Vec::new();
        Request::Connect(ConnectRequest { transaction_id: TransactionId::new(tid) }).write_bytes(&mut f).unwrap();
        let _ = clients[ci].sock.send_to(&f, dst);
        let t0 = Instant::now();
        // (a lost fence is re-sent; a late one is recognised and ignored: the wait only bounds a run against a dead tracker)
        while t0.elapsed() < Duration::from_millis(1500 + 4000 * attempt as u64) {
            let mut any = false;
            for (i, c) in clients.iter().enumerate() {
                while let Ok((n, _)) = c.sock.recv_from(&mut buf) {
                    any = true;
                    let b = buf[..n].to_vec();
                    // a fence reply (this one or an earlier, late one) is not part of the observation
                    let is_fence = n == 16 && b[0..4] == [0, 0, 0, 0] && i32::from_be_bytes([b[4], b[5], b[6], b[7]]) >= 0x7ff0_0000;
                    if is_fence {
                        if i == ci && i32::from_be_bytes([b[4], b[5], b[6], b[7]]) == tid {
                            // everything addressed to other sockets by now has been sent before the fence reply; one short look
                            for (j, c2) in clients.iter().enumerate() {
                                while let Ok((m, _)) = c2.sock.recv_from(&mut buf) {
                                    let b2 = buf[..m].to_vec();
                                    let f2 = m == 16 && b2[0..4] == [0, 0, 0, 0] && i32::from_be_bytes([b2[4], b2[5], b2[6], b2[7]]) >= 0x7ff0_0000;
                                    if !f2 { got.push((j, b2)); }
                                }
                            }
                            return Some(got);
                        }
                    } else {
                        got.push((i, b));
                    }
                }
            }
            if !any { std::thread::sleep(Duration::from_millis(1)); }
        }
    }
    crate::net::note_timeout();
    None
}

fn hash_of(i: u8) -> [u8; 20] {
    let mut h = [0x11u8; 20];
    h[0] = i;
    h[19] = i;
    h
}

pub fn run(out: &mut impl Write, seed: u64, cases: usize, _replay: &str, uring_resp_buf: usize, mio_only: bool, boundaries_first: bool) {
    let mut master = Sm::new(seed);
    let dir = std::path::Path::new(env!("CARGO_MANIFEST_DIR")).join("target").join("tmp").join(format!("aqv-udpnet-{}", std::process::id()));
    std::fs::create_dir_all(&dir).unwrap();
    for case in 0..cases {
        // a case in which some answer never came is run again (up to three times in all) from the same random
        // state: what the tracker does deterministically shows every time, a stall of the machine does not
        let r0 = master.fork(case as u64);
        let mut attempt = 0;
        loop {
            let timeouts_before = crate::net::timeouts();
            let mut case_buf: Vec<u8> = Vec::new();
            {
                let out = &mut case_buf;
                let mut r = r0.clone();
                'case: {
                        // C18 boundary scenario: the largest announce reply the configuration allows, one peer beyond
                        // what the back end's send buffer holds (IPv6 entries are 18 bytes)
                        // (`--boundaries-first 1`: the four boundary scenarios - both back ends, at and over the limit - come first)
                        let bf = boundaries_first && case < 4;
                        let boundary = bf || case % 6 == 5;
                        let backend = if bf { if case % 2 == 0 { "uring" } else { "mio" } } else if boundary { if (case / 6) % 2 == 0 { "uring" } else { "mio" } } else if case % 2 == 0 { "mio" } else { "uring" };
                        let backend = if mio_only { "mio" } else { backend };
                        let send_buf: usize = if backend == "uring" { uring_resp_buf } else { aquatic_udp::common::BUFFER_SIZE };
                        let max_scrape: u8 = r.pick(&[3u8, 70, 70]);
                        // alternately exactly at the limit (must be accepted and delivered whole) and one beyond (must be refused)
                        let over = if bf { case >= 2 } else { (case / 12) % 2 == 1 };
                        let max_peers: usize = if boundary { (send_buf - 20) / 18 + if over { 1 } else { 0 } } else { r.pick(&[2usize, 30]) };
                        let stale_case = case % 5 == 4;
                        let age: u32 = if stale_case { 1 } else { 120 };
                        let mode = r.pick(&["off", "off", "allow", "deny"]);
                        let listed: Vec<[u8; 20]> = vec![hash_of(1), hash_of(2)];
                        let acl_path = dir.join(format!("acl-{}.txt", case));
                        std::fs::write(&acl_path, listed.iter().map(|h| hex(h)).collect::<Vec<_>>().join("\n")).unwrap();
                        let args = vec![
                            format!("use_io_uring={}", backend == "uring"), format!("max_scrape_torrents={}", max_scrape),
                            format!("max_response_peers={}", max_peers), format!("max_connection_age={}", age),
                            format!("acl_mode={}", mode), format!("acl_path={}", acl_path.display()),
                        ];
                        let Some(mut server) = Server::start("udp", &args) else {
                    crate::net::note_timeout();
                            writeln!(out, "cfg udpnet {} {} {} {} {} -\nnet START-FAILED", backend, max_scrape, max_peers, age, mode).unwrap();
                            break 'case;
                        };
                        let mk = |ip: &str| -> Option<Client> {
                            let ipa: IpAddr = ip.parse().ok()?;
                            let sock = UdpSocket::bind(SocketAddr::new(ipa, 0)).ok()?;
                            sock.set_nonblocking(true).ok()?;
                            Some(Client { sock, ip: ipa, cid: None })
                        };
                        let mut clients: Vec<Client> = ["127.0.0.1", "127.0.0.1", "127.0.0.2", "::1"].iter().filter_map(|ip| mk(ip)).collect();
                        let dst4: SocketAddr = format!("127.0.0.1:{}", server.port).parse().unwrap();
                        let dst6: SocketAddr = format!("[::1]:{}", server.port).parse().unwrap();
                        // wait for the tracker, however loaded the machine is: either run() returns (the configuration was
                        // refused, or start-up failed) or a connect request is answered
                        let mut up = false;
                        let mut refused: Option<String> = None;
                        let t0 = std::time::Instant::now();
                        while t0.elapsed() < Duration::from_secs(45) {
                            if let Some(l) = server.exit_line(Duration::from_millis(0)) { refused = Some(l); break; }
                            let mut b = Vec::new();
                            Request::Connect(ConnectRequest { transaction_id: TransactionId::new(1) }).write_bytes(&mut b).unwrap();
                            let _ = clients[0].sock.send_to(&b, dst4);
                            if !drain(&clients, Duration::from_millis(40)).is_empty() { up = true; break; }
                        }
                        if let Some(l) = refused {
                            writeln!(out, "cfg udpnet {} {} {} {} {} -", backend, max_scrape, max_peers, age, mode).unwrap();
                            writeln!(out, "refused {} {} {} => {}", backend, max_scrape, max_peers, l.replace(' ', "_")).unwrap();
                            break 'case;
                        }
                        writeln!(out, "cfg udpnet {} {} {} {} {} {}", backend, max_scrape, max_peers, age, mode,
                            if mode == "off" { "-".to_string() } else { listed.iter().map(|h| hex(h)).collect::<Vec<_>>().join(",") }).unwrap();
                        if !up { crate::net::note_timeout(); writeln!(out, "net START-FAILED no-answer-to-connect").unwrap(); server.stop(); break 'case; }
                        let mut fence_no: i32 = 0;
                        let _ = drain(&clients, Duration::from_millis(60));
                        if boundary {
                            // fill one IPv6 swarm with max_peers + 1 peers (distinct announced ports), then ask for all
                            let ci = clients.iter().position(|c| c.ip.is_ipv6()).unwrap_or(0);
                            let dst = if clients[ci].ip.is_ipv4() { dst4 } else { dst6 };
                            let mut b = Vec::new();
                            Request::Connect(ConnectRequest { transaction_id: TransactionId::new(5) }).write_bytes(&mut b).unwrap();
                            let _ = clients[ci].sock.send_to(&b, dst);
                            for (i, rb) in drain(&clients, Duration::from_millis(60)) {
                                if i == ci { if let Ok(Response::Connect(c)) = Response::parse_bytes(&rb, true) { clients[ci].cid = Some((c.connection_id, Instant::now())); } }
                            }
                            let cid = clients[ci].cid.map(|x| x.0).unwrap_or(ConnectionId::new(0));
                            let mk_ann = |port: u16, want: i32| -> Vec<u8> {
                                let mut bytes = Vec::new();
                                Request::Announce(AnnounceRequest {
                                    connection_id: cid, action_placeholder: Default::default(), transaction_id: TransactionId::new(9),
                                    info_hash: InfoHash(hash_of(1)), peer_id: PeerId([b'p'; 20]), bytes_downloaded: NumberOfBytes::new(0),
                                    bytes_left: NumberOfBytes::new(1), bytes_uploaded: NumberOfBytes::new(0), event: AnnounceEvent::None,
                                    ip_address: Ipv4AddrBytes([0; 4]), key: PeerKey::new(0), peers_wanted: NumberOfPeers::new(want),
                                    port: Port::new(NonZeroU16::new(port).unwrap()),
                                }).write_bytes(&mut bytes).unwrap();
                                bytes
                            };
                            // every filler announce is confirmed (fenced; repeated if its reply did not come): the swarm really holds max_peers peers
                            let mut filled = true;
                            for p in 0..(max_peers as u16) {
                                let mut ok = false;
                                for _ in 0..3 {
                                    if let Some(g) = send_fenced(&clients, ci, &mk_ann(10000 + p, 1), dst, &mut fence_no) { if !g.is_empty() { ok = true; break; } }
                                }
                                if !ok { filled = false; break; }
                            }
                            if !filled { server.stop(); break 'case; }   // no observation possible on this machine right now
                            let bytes = mk_ann(9999, i32::MAX);
                            let Some(got) = send_fenced(&clients, ci, &bytes, dst, &mut fence_no) else { server.stop(); break 'case; };
                            let replies = if got.is_empty() { "-".to_string() } else { got.iter().map(|(i, b)| format!("{}:{}", i, hex(b))).collect::<Vec<_>>().join(";") };
                            writeln!(out, "big {} {} {} => {}", ci, ip_hex(clients[ci].ip), max_peers, replies).unwrap();
                            server.stop();
                            break 'case;
                        }
                        let nops = 25 + r.below(25) as usize;
                        for opi in 0..nops {
                            let ci = r.below(clients.len() as u64) as usize;
                            let dst = if clients[ci].ip.is_ipv4() { dst4 } else { dst6 };
                            // connection-id class
                            let fresh = |c: &Client| c.cid.map(|(_, t)| t.elapsed() < Duration::from_millis(if age == 1 { 700 } else { 60_000 })).unwrap_or(false);
                            let kind = r.below(100);
                            let mut idclass = "none";
                            let tid = TransactionId::new(r.pick(&[0i32, 1, -1, 0x01020304, i32::MIN]));
                            let mut cid = ConnectionId::new(0);
                            if kind >= 15 {
                                let c = r.below(100);
                                if c < 60 && fresh(&clients[ci]) { idclass = "own"; cid = clients[ci].cid.unwrap().0; }
                                else if c < 70 && clients[ci].cid.is_some() && age == 1 && backend == "mio" {
                                    // let it go stale: more than a whole second must pass, and the socket worker must
                                    // refresh its clock sample (mio: every 256 poll iterations) after that
                                    std::thread::sleep(Duration::from_millis(2300));
                                    // one connect round trip at a time: the worker is back in poll() before the next datagram is sent,
                                    // so each is an iteration of its own however slowly the machine runs (datagrams sent blindly
                                    // pile up while the worker is descheduled and are then read in a single iteration)
                                    for _ in 0..600 {
                                        let none: Vec<u8> = Vec::new();
                                        if send_fenced(&clients, ci, &none, dst, &mut fence_no).is_none() { break; }
                                    }
                                    let _ = drain(&clients, Duration::from_millis(40));
                                    idclass = "stale"; cid = clients[ci].cid.unwrap().0;
                                }
                                else if c < 85 {
                                    if let Some(o) = clients.iter().find(|o| o.ip != clients[ci].ip && fresh(o)) { idclass = "foreign"; cid = o.cid.unwrap().0; } else { idclass = "forged"; cid = ConnectionId::new(r.next() as i64); }
                                }
                                else { idclass = "forged"; cid = ConnectionId::new(r.next() as i64); }
                            }
                            let mut bytes = Vec::new();
                            if kind < 15 || (opi < 4 && clients[ci].cid.is_none()) {
                                idclass = "none";
                                Request::Connect(ConnectRequest { transaction_id: tid }).write_bytes(&mut bytes).unwrap();
                                if r.chance(15) { for _ in 0..r.below(20) { bytes.push(r.next() as u8); } }
                            } else if kind < 50 {
                                Request::Announce(AnnounceRequest {
                                    connection_id: cid, action_placeholder: Default::default(), transaction_id: tid,
                                    info_hash: InfoHash(hash_of(1 + r.below(4) as u8)), peer_id: PeerId([b'p'; 20]),
                                    bytes_downloaded: NumberOfBytes::new(0), bytes_left: NumberOfBytes::new(r.pick(&[0i64, 1])), bytes_uploaded: NumberOfBytes::new(0),
                                    event: r.pick(&[AnnounceEvent::None, AnnounceEvent::Started, AnnounceEvent::Stopped]),
                                    ip_address: Ipv4AddrBytes([8, 8, 8, 8]), key: PeerKey::new(0), peers_wanted: NumberOfPeers::new(r.pick(&[-1i32, 0, 1, 50])),
                                    port: Port::new(NonZeroU16::new(r.pick(&[6881u16, 6882, 1])).unwrap()),
                                }).write_bytes(&mut bytes).unwrap();
                                if r.chance(20) { for _ in 0..1 + r.below(30) { bytes.push(r.next() as u8); } }           // BEP 41 extension
                                if r.chance(8) { bytes[96] = 0; bytes[97] = 0; }                                            // port 0
                                if r.chance(6) { bytes[83] = 9; }                                                           // bad event
                            } else if kind < 80 {
                                let n = r.pick(&[1usize, 2, 3, 4, 22, 23, 24, 25, 69, 70, 71, 74]);
                                Request::Scrape(ScrapeRequest { connection_id: cid, transaction_id: tid, info_hashes: (0..n).map(|i| InfoHash(hash_of(1 + (i % 5) as u8))).collect() }).write_bytes(&mut bytes).unwrap();
                                if r.chance(10) { bytes.truncate(bytes.len() - 1 - r.below(19) as usize); }                 // not a multiple of 20
                                if r.chance(5) { bytes.truncate(16); }                                                      // empty list
                            } else {
                                // malformed: truncated / unknown action / random
                                Request::Announce(AnnounceRequest {
                                    connection_id: cid, action_placeholder: Default::default(), transaction_id: tid, info_hash: InfoHash(hash_of(1)), peer_id: PeerId([b'p'; 20]),
                                    bytes_downloaded: NumberOfBytes::new(0), bytes_left: NumberOfBytes::new(0), bytes_uploaded: NumberOfBytes::new(0), event: AnnounceEvent::None,
                                    ip_address: Ipv4AddrBytes([0; 4]), key: PeerKey::new(0), peers_wanted: NumberOfPeers::new(0), port: Port::new(NonZeroU16::new(1).unwrap()),
                                }).write_bytes(&mut bytes).unwrap();
                                match r.below(4) {
                                    0 => { let n = r.below(98) as usize; bytes.truncate(n); }
                                    1 => { bytes[11] = r.pick(&[3u8, 4, 255]); }
                                    2 => { let n = r.below(120) as usize; bytes = (0..n).map(|_| r.next() as u8).collect(); idclass = "forged"; }
                                    _ => { let i = r.below(bytes.len() as u64) as usize; bytes[i] ^= 1 << r.below(8); if i < 8 { idclass = "forged"; } }
                                }
                            }
                            if bytes.is_empty() { bytes.push(0); }
                            let Some(got) = send_fenced(&clients, ci, &bytes, dst, &mut fence_no) else { continue; };
                            // learn the connection id from a connect reply to this client
                            for (i, b) in &got {
                                if *i == ci {
                                    if let Ok(Response::Connect(c)) = Response::parse_bytes(b, true) { clients[ci].cid = Some((c.connection_id, Instant::now())); }
                                }
                            }
                            let replies = if got.is_empty() { "-".to_string() } else { got.iter().map(|(i, b)| format!("{}:{}", i, hex(b))).collect::<Vec<_>>().join(";") };
                            writeln!(out, "dg {} {} {} {} => {}", ci, ip_hex(clients[ci].ip), idclass, hex(&bytes), replies).unwrap();
                        }
                        if let Some(l) = server.exit_line(Duration::from_millis(0)) { writeln!(out, "net TRACKER-EXITED {}", l.replace(' ', "_")).unwrap(); }
                        server.stop();
                }
            }
            if crate::net::timeouts() == timeouts_before || attempt >= 2 { out.write_all(&case_buf).unwrap(); break; }
            crate::net::set_timeouts(timeouts_before);
            attempt += 1;
        }
    }
    let _ = std::fs::remove_dir_all(&dir);
}
