//! WebTorrent swarm store (C08, C09): drives the real `aquatic_ws` `TorrentMaps`
//! (handle_announce_request / handle_scrape_request / handle_connection_closed / clean, reached
//! through the `verif-hooks` re-export and the clock override).
//!
//! The harness plays the socket worker: it keeps, per connection, the `announced_info_hashes`
//! record of crates/ws/src/workers/socket/connection.rs (one peer id per torrent, forgotten on
//! `stopped`), applies the access-list gate, and on close sends the recorded pairs, as
//! `ConnectionCleanupData::after_close` does.  That emulation is itself compared with the model's
//! (the `wclose` line prints the pairs sent) and with the real socket worker by the wsnet runs.
//!
//! Line format:
//!   cfg ws <max_offers> <max_scrape> <max_peer_age> <max_offer_age>
//!   new
//!   wann <4|6> <consumer> <slot> <allowed 0|1> <now> <hash> <pid> <event> <left|-> <oid:tag,…|-> <topid:oid:tag|-> => <msgs>
//!   wscr <4|6> <consumer> <slot> <hash,…> => <msgs>
//!   wclose <4|6> <consumer> <slot> => <hash:pid,…|->          (pairs sent to the swarm worker, sorted)
//!   wcln <now> <off|allow|deny> <hash,…|-> => -
//! msgs (space separated, in the order pushed; `-` if none):
//!   A:<consumer>.<slot>:<hash>:<complete>:<incomplete>   S:<c>.<s>:<hash=c:i,…|->
//!   O:<c>.<s>:<hash>:<from pid>:<offer id>:<tag>         N:<c>.<s>:<hash>:<from pid>:<offer id>:<tag>
//!   E:<c>.<s>:<hash|->
use std::collections::HashMap;
use std::io::Write;
use std::sync::Arc;

use aquatic_common::access_list::{AccessList, AccessListArcSwap, AccessListMode};
use aquatic_common::ServerStartInstant;
use aquatic_ws::common::{ConnectionId, ConsumerId, InMessageMeta, IpVersion, OutMessageMeta};
use aquatic_ws::config::Config;
use aquatic_ws::workers::swarm::verif_hooks::TorrentMaps;
use aquatic_ws_protocol::common::*;
use aquatic_ws_protocol::incoming::*;
use aquatic_ws_protocol::outgoing::OutMessage;
use rand::rngs::SmallRng;
use rand::SeedableRng;

use crate::rng::Sm;
use crate::store::{arr20, hex, unhex};

#[derive(Clone, Debug)]
pub enum Op {
    Cfg { max_offers: usize, max_scrape: usize, max_peer_age: u32, max_offer_age: u32 },
    New,
    Ann { fam: u8, consumer: u8, slot: u32, allowed: bool, now: u32, hash: [u8; 20], pid: [u8; 20], event: String, left: Option<usize>,
          offers: Option<Vec<([u8; 20], u32)>>, answer: Option<([u8; 20], [u8; 20], u32)> },
    Scr { fam: u8, consumer: u8, slot: u32, hashes: Vec<[u8; 20]> },
    Close { fam: u8, consumer: u8, slot: u32 },
    Cln { now: u32, mode: String, list: Vec<[u8; 20]> },
}

fn join_hashes(hs: &[[u8; 20]]) -> String {
    if hs.is_empty() { "-".into() } else { hs.iter().map(|h| hex(h)).collect::<Vec<_>>().join(",") }
}

impl Op {
    pub fn text(&self) -> String {
        match self {
            Op::Cfg { max_offers, max_scrape, max_peer_age, max_offer_age } => format!("cfg ws {} {} {} {}", max_offers, max_scrape, max_peer_age, max_offer_age),
            Op::New => "new".into(),
            Op::Ann { fam, consumer, slot, allowed, now, hash, pid, event, left, offers, answer } => format!(
                "wann {} {} {} {} {} {} {} {} {} {} {}", fam, consumer, slot, *allowed as u8, now, hex(hash), hex(pid), event,
                left.map(|l| l.to_string()).unwrap_or("-".into()),
                match offers { None => "-".to_string(), Some(v) if v.is_empty() => "~".to_string(),
                    Some(v) => v.iter().map(|(o, t)| format!("{}:{}", hex(o), t)).collect::<Vec<_>>().join(",") },
                match answer { None => "-".to_string(), Some((p, o, t)) => format!("{}:{}:{}", hex(p), hex(o), t) }),
            Op::Scr { fam, consumer, slot, hashes } => format!("wscr {} {} {} {}", fam, consumer, slot, join_hashes(hashes)),
            Op::Close { fam, consumer, slot } => format!("wclose {} {} {}", fam, consumer, slot),
            Op::Cln { now, mode, list } => format!("wcln {} {} {}", now, mode, join_hashes(list)),
        }
    }

    pub fn parse(line: &str) -> Option<Op> {
        let line = line.split("=>").next().unwrap_or("").trim();
        let t: Vec<&str> = line.split_whitespace().collect();
        let hs = |s: &str| -> Vec<[u8; 20]> { if s == "-" { vec![] } else { s.split(',').map(|h| arr20(&unhex(h))).collect() } };
        match t.as_slice() {
            ["cfg", "ws", a, b, c, d] => Some(Op::Cfg { max_offers: a.parse().ok()?, max_scrape: b.parse().ok()?, max_peer_age: c.parse().ok()?, max_offer_age: d.parse().ok()? }),
            ["new"] => Some(Op::New),
            ["wann", fam, consumer, slot, allowed, now, hash, pid, event, left, offers, answer] => Some(Op::Ann {
                fam: fam.parse().ok()?, consumer: consumer.parse().ok()?, slot: slot.parse().ok()?, allowed: *allowed == "1", now: now.parse().ok()?,
                hash: arr20(&unhex(hash)), pid: arr20(&unhex(pid)), event: event.to_string(),
                left: if *left == "-" { None } else { Some(left.parse().ok()?) },
                offers: match *offers { "-" => None, "~" => Some(vec![]), s => Some(s.split(',').filter_map(|x| { let mut p = x.split(':'); Some((arr20(&unhex(p.next()?)), p.next()?.parse().ok()?)) }).collect()) },
                answer: if *answer == "-" { None } else { let mut p = answer.split(':'); Some((arr20(&unhex(p.next()?)), arr20(&unhex(p.next()?)), p.next()?.parse().ok()?)) },
            }),
            ["wscr", fam, consumer, slot, hashes] => Some(Op::Scr { fam: fam.parse().ok()?, consumer: consumer.parse().ok()?, slot: slot.parse().ok()?, hashes: hs(hashes) }),
            ["wclose", fam, consumer, slot] => Some(Op::Close { fam: fam.parse().ok()?, consumer: consumer.parse().ok()?, slot: slot.parse().ok()? }),
            ["wcln", now, mode, list] => Some(Op::Cln { now: now.parse().ok()?, mode: mode.to_string(), list: hs(list) }),
            _ => None,
        }
    }
}

fn conn_id(slot: u32) -> ConnectionId {
    // slotmap key: index in the low 32 bits, (odd) version in the high 32 bits
    slotmap::KeyData::from_ffi((1u64 << 32) | slot as u64).into()
}

fn slot_of(id: ConnectionId) -> u32 {
    use slotmap::Key;
    (id.data().as_ffi() & 0xffff_ffff) as u32
}

pub struct Exec {
    config: Config,
    maps: TorrentMaps,
    access_list: Arc<AccessListArcSwap>,
    start: ServerStartInstant,
    rng: SmallRng,
    /// socket worker emulation: (family, consumer, slot) -> announced_info_hashes
    books: HashMap<(u8, u8, u32), HashMap<[u8; 20], [u8; 20]>>,
    /// connections that are gone (a closed connection sends nothing more)
    pub dead: std::collections::HashSet<(u8, u8, u32)>,
    last_now: u32,
}

fn ipv(fam: u8) -> IpVersion { if fam == 4 { IpVersion::V4 } else { IpVersion::V6 } }

fn tag_of(sdp: &str) -> String { sdp.to_string() }

pub fn msg_text(meta: &OutMessageMeta, m: &OutMessage) -> String {
    let to = format!("{}.{}", meta.out_message_consumer_id.0, slot_of(meta.connection_id));
    match m {
        OutMessage::AnnounceResponse(a) => format!("A:{}:{}:{}:{}", to, hex(&a.info_hash.0), a.complete, a.incomplete),
        OutMessage::ScrapeResponse(s) => {
            let mut v: Vec<String> = s.files.iter().map(|(h, st)| format!("{}={}:{}", hex(&h.0), st.complete, st.incomplete)).collect();
            v.sort();
            format!("S:{}:{}", to, if v.is_empty() { "-".to_string() } else { v.join(",") })
        }
        OutMessage::OfferOutMessage(o) => format!("O:{}:{}:{}:{}:{}", to, hex(&o.info_hash.0), hex(&o.peer_id.0), hex(&o.offer_id.0), tag_of(&o.offer.sdp)),
        OutMessage::AnswerOutMessage(a) => format!("N:{}:{}:{}:{}:{}", to, hex(&a.info_hash.0), hex(&a.peer_id.0), hex(&a.offer_id.0), tag_of(&a.answer.sdp)),
        OutMessage::ErrorResponse(e) => format!("E:{}:{}", to, e.info_hash.map(|h| hex(&h.0)).unwrap_or("-".into())),
    }
}

impl Exec {
    pub fn new(seed: u64) -> Self {
        Exec {
            config: Config::default(),
            maps: TorrentMaps::new(0),
            access_list: Arc::new(AccessListArcSwap::default()),
            start: ServerStartInstant::new(),
            rng: SmallRng::seed_from_u64(seed),
            books: HashMap::new(),
            dead: Default::default(),
            last_now: 0,
        }
    }

    fn meta(fam: u8, consumer: u8, slot: u32) -> InMessageMeta {
        InMessageMeta { out_message_consumer_id: ConsumerId(consumer), connection_id: conn_id(slot), ip_version: ipv(fam), pending_scrape_id: None }
    }

    /// the connection task has ended: what `after_close` sends, applied as `handle_control_message_stream` does
    fn close(&mut self, fam: u8, consumer: u8, slot: u32) -> String {
        let book = self.books.remove(&(fam, consumer, slot)).unwrap_or_default();
        let mut pairs: Vec<([u8; 20], [u8; 20])> = book.into_iter().collect();
        pairs.sort();
        // swarm/mod.rs handle_control_message_stream: the notice first, then the pairs
        aquatic_common::verif_hooks::set_clock(Some(self.last_now));
        self.maps.note_connection_closed(&self.config, self.start, ConsumerId(consumer), conn_id(slot));
        aquatic_common::verif_hooks::set_clock(None);
        self.dead.insert((fam, consumer, slot));
        for (h, p) in pairs.iter() {
            self.maps.handle_connection_closed(InfoHash(*h), PeerId(*p), ipv(fam), ConsumerId(consumer), conn_id(slot));
        }
        if pairs.is_empty() { "-".into() } else { pairs.iter().map(|(h, p)| format!("{}:{}", hex(h), hex(p))).collect::<Vec<_>>().join(",") }
    }

    pub fn exec(&mut self, op: &Op) -> String {
        match op {
            Op::Cfg { max_offers, max_scrape, max_peer_age, max_offer_age } => {
                self.config.protocol.max_offers = *max_offers;
                self.config.protocol.max_scrape_torrents = *max_scrape;
                self.config.cleaning.max_peer_age = *max_peer_age;
                self.config.cleaning.max_offer_age = *max_offer_age;
                String::new()
            }
            Op::New => {
                self.maps = TorrentMaps::new(0);
                self.access_list = Arc::new(AccessListArcSwap::default());
                self.books.clear();
                self.dead.clear();
                String::new()
            }
            Op::Ann { fam, consumer, slot, allowed, now, hash, pid, event, left, offers, answer } => {
                self.last_now = *now;
                let meta = Self::meta(*fam, *consumer, *slot);
                let to = format!("{}.{}", consumer, slot);
                // connection.rs: handle_announce_request
                if !*allowed {
                    return format!("E:{}:{}", to, hex(hash));
                }
                let book = self.books.entry((*fam, *consumer, *slot)).or_default();
                match book.get(hash) {
                    Some(p) if p != pid => {
                        // error reply, then the connection task ends
                        let _ = self.close(*fam, *consumer, *slot);
                        return format!("E:{}:{}", to, hex(hash));
                    }
                    Some(_) => {}
                    None => { book.insert(*hash, *pid); }
                }
                if event == "stopped" { book.remove(hash); }
                let request = AnnounceRequest {
                    action: AnnounceAction::Announce,
                    info_hash: InfoHash(*hash),
                    peer_id: PeerId(*pid),
                    bytes_left: *left,
                    event: match event.as_str() {
                        "started" => Some(AnnounceEvent::Started),
                        "stopped" => Some(AnnounceEvent::Stopped),
                        "completed" => Some(AnnounceEvent::Completed),
                        "update" => Some(AnnounceEvent::Update),
                        _ => None,
                    },
                    offers: offers.as_ref().map(|v| v.iter().map(|(o, t)| AnnounceRequestOffer {
                        offer: RtcOffer { t: RtcOfferType::Offer, sdp: t.to_string() }, offer_id: OfferId(*o) }).collect()),
                    numwant: offers.as_ref().map(|v| v.len()),
                    answer: answer.as_ref().map(|(_, _, t)| RtcAnswer { t: RtcAnswerType::Answer, sdp: t.to_string() }),
                    answer_to_peer_id: answer.as_ref().map(|(p, _, _)| PeerId(*p)),
                    answer_offer_id: answer.as_ref().map(|(_, o, _)| OfferId(*o)),
                };
                let mut out = Vec::new();
                aquatic_common::verif_hooks::set_clock(Some(*now));
                self.maps.handle_announce_request(&self.config, &mut self.rng, &mut out, self.start, meta, request);
                aquatic_common::verif_hooks::set_clock(None);
                let v: Vec<String> = out.iter().map(|(m, o)| msg_text(m, o)).collect();
                if v.is_empty() { "-".into() } else { v.join(" ") }
            }
            Op::Scr { fam, consumer, slot, hashes } => {
                let mut meta = Self::meta(*fam, *consumer, *slot);
                meta.pending_scrape_id = Some(aquatic_ws::common::PendingScrapeId(0));
                let request = ScrapeRequest {
                    action: ScrapeAction::Scrape,
                    info_hashes: Some(ScrapeRequestInfoHashes::Multiple(hashes.iter().map(|h| InfoHash(*h)).collect())),
                };
                let mut out = Vec::new();
                self.maps.handle_scrape_request(&self.config, &mut out, meta, request);
                let v: Vec<String> = out.iter().map(|(m, o)| msg_text(m, o)).collect();
                if v.is_empty() { "-".into() } else { v.join(" ") }
            }
            Op::Close { fam, consumer, slot } => self.close(*fam, *consumer, *slot),
            Op::Cln { now, mode, list } => {
                self.last_now = *now;
                self.config.access_list.mode = match mode.as_str() {
                    "allow" => AccessListMode::Allow,
                    "deny" => AccessListMode::Deny,
                    _ => AccessListMode::Off,
                };
                let mut al = AccessList::default();
                for h in list { al.insert_from_line(&hex(h)).unwrap(); }
                self.access_list.store(Arc::new(al));
                aquatic_common::verif_hooks::set_clock(Some(*now));
                self.maps.clean(&self.config, &self.access_list, self.start);
                aquatic_common::verif_hooks::set_clock(None);
                "-".into()
            }
        }
    }
}

fn id20(prefix: u8, i: u8) -> [u8; 20] { let mut a = [prefix; 20]; a[19] = i; a }

/// one generated history: few torrents, few peer ids shared between connections, connection slot
/// keys that coincide across socket workers, offers / answers that match, repeat, or are stale
pub fn gen_history(r: &mut Sm, maxops: usize) -> Vec<Op> {
    let mut ops = Vec::new();
    let max_offers = r.pick(&[0usize, 1, 2, 3, 10]);
    let max_scrape = r.pick(&[1usize, 2, 255]);
    let max_peer_age = r.pick(&[5u32, 20, 180]);
    let max_offer_age = r.pick(&[2u32, 10, 120]);
    ops.push(Op::Cfg { max_offers, max_scrape, max_peer_age, max_offer_age });
    ops.push(Op::New);
    let nh = 1 + r.below(3) as u8;
    let hashes: Vec<[u8; 20]> = (0..nh).map(|i| id20(0x68, i + 1)).collect();
    let npid = r.pick(&[2u8, 3, 5, 8, 12]);
    let pids: Vec<[u8; 20]> = (0..npid).map(|i| id20(0x2d, i)).collect();
    // connections: (consumer, slot); slot keys coincide across the two socket workers
    let nconn = r.pick(&[2usize, 3, 4, 6, 10]);
    let mut conns: Vec<(u8, u32)> = (0..nconn).map(|i| ((i % 2) as u8, 1 + (i / 2) as u32)).collect();
    let mut next_slot = 1 + (nconn as u32 + 1) / 2;
    // a connection usually sticks to "its" peer id, sometimes borrows another's
    let mut now: u32 = r.below(3) as u32;
    // offers forwarded so far: (hash, from pid, to pid, offer id) -- to build answers that match
    let mut forwarded: Vec<([u8; 20], [u8; 20], [u8; 20], [u8; 20])> = Vec::new();
    let mut next_oid: u8 = 1;
    let n = 5 + r.below(maxops.max(6) as u64 - 5) as usize;
    let fam = r.pick(&[4u8, 6]);
    for _ in 0..n {
        let k = r.below(100);
        if r.chance(40) { now += r.below(4) as u32; }
        let ci = r.below(conns.len() as u64) as usize;
        let (consumer, slot) = conns[ci];
        if k < 70 {
            let hash = hashes[r.below(hashes.len() as u64) as usize];
            let own = pids[ci % pids.len()];
            let pid = if r.chance(80) { own } else { pids[r.below(pids.len() as u64) as usize] };
            let event = r.pick(&["started", "stopped", "completed", "update", "none", "none", "none"]).to_string();
            let event = if event == "stopped" && r.chance(50) { "none".to_string() } else { event };
            let left = r.pick(&[None, Some(0usize), Some(0), Some(7), Some(7)]);
            let offers = if r.chance(55) {
                let k = r.below(5) as usize;
                Some((0..k).map(|_| {
                    let oid = if r.chance(25) && next_oid > 1 { id20(0x6f, 1 + r.below(next_oid as u64 - 1) as u8) } else { let o = id20(0x6f, next_oid); next_oid = next_oid.wrapping_add(1).max(1); o };
                    (oid, r.below(1000) as u32)
                }).collect::<Vec<_>>())
            } else { None };
            let answer = if r.chance(45) {
                if !forwarded.is_empty() && r.chance(75) {
                    // an answer to an offer forwarded earlier -- usually from the right peer for the right torrent
                    let f = forwarded[r.below(forwarded.len() as u64) as usize];
                    Some((f.1, f.3, r.below(1000) as u32, f.0, f.2))
                } else {
                    Some((pids[r.below(pids.len() as u64) as usize], id20(0x6f, 1 + r.below(next_oid.max(2) as u64 - 1) as u8), r.below(1000) as u32, hash, pid))
                }
            } else { None };
            // an answer built from a forwarded offer announces as the receiving peer on that torrent (mostly)
            let (hash, pid, answer) = match answer {
                Some((to, oid, tag, h, p)) if r.chance(85) => (h, p, Some((to, oid, tag))),
                Some((to, oid, tag, _, _)) => (hash, pid, Some((to, oid, tag))),
                None => (hash, pid, None),
            };
            ops.push(Op::Ann { fam, consumer, slot, allowed: !r.chance(4), now, hash, pid, event, left, offers, answer });
        } else if k < 80 {
            let cnt = 1 + r.below(4) as usize;
            let mut hs: Vec<[u8; 20]> = (0..cnt).map(|_| if r.chance(85) { hashes[r.below(hashes.len() as u64) as usize] } else { id20(0x78, r.below(3) as u8) }).collect();
            if r.chance(10) { hs.clear(); }
            if hs.is_empty() { hs.push(hashes[0]); }
            ops.push(Op::Scr { fam, consumer, slot, hashes: hs });
        } else if k < 90 {
            ops.push(Op::Close { fam, consumer, slot });
            // the socket worker's slot map never hands out a live key again: a new connection gets a fresh slot
            conns[ci] = (consumer, next_slot);
            if r.chance(50) { conns[ci].0 = 1 - consumer; }
            next_slot += 1;
        } else {
            now += r.pick(&[0u32, 1, 3, 6, 25]);
            let mode = r.pick(&["off", "off", "off", "allow", "deny"]).to_string();
            let list: Vec<[u8; 20]> = hashes.iter().filter(|_| r.chance(50)).cloned().collect();
            ops.push(Op::Cln { now, mode, list });
        }
        // track forwarded offers from the implementation's outputs is done in run_ops (needs outputs)
        let _ = &mut forwarded;
    }
    ops
}

/// histories about the life of outstanding offers (C09): one torrent, a few peers each on its own
/// connection, offers of different ages from the same peer, some answered (which reorders the offerer's
/// table), some renewed under the same offer id, then time passes beyond `max_offer_age` for the older
/// ones only, a cleaning pass runs, and late answers arrive.
pub fn gen_offer_aging(r: &mut Sm) -> Vec<Op> {
    let mut ops = Vec::new();
    let max_offer_age = r.pick(&[3u32, 5, 10]);
    ops.push(Op::Cfg { max_offers: r.pick(&[1usize, 2, 10]), max_scrape: 255, max_peer_age: 1000, max_offer_age });
    ops.push(Op::New);
    let hash = id20(0x68, 1);
    let fam = r.pick(&[4u8, 6]);
    let npeers = r.pick(&[2u8, 3, 4]);
    let mut now = 1u32;
    for i in 0..npeers {
        ops.push(Op::Ann { fam, consumer: i % 2, slot: 1 + i as u32, allowed: true, now, hash, pid: id20(0x2d, i), event: "started".into(), left: Some(5), offers: None, answer: None });
    }
    let mut oid = 1u8;
    let rounds = 2 + r.below(4) as usize;
    for _ in 0..rounds {
        // peer 0 (sometimes another) sends offers; ids sometimes repeat an earlier one (renewal)
        let p = if r.chance(75) { 0 } else { r.below(npeers as u64) as u8 };
        let k = 1 + r.below(3) as usize;
        let offers: Vec<([u8; 20], u32)> = (0..k).map(|_| {
            let o = if r.chance(30) && oid > 1 { id20(0x6f, 1 + r.below(oid as u64 - 1) as u8) } else { let x = id20(0x6f, oid); oid += 1; x };
            (o, r.below(1000) as u32)
        }).collect();
        ops.push(Op::Ann { fam, consumer: p % 2, slot: 1 + p as u32, allowed: true, now, hash, pid: id20(0x2d, p), event: "none".into(), left: Some(5), offers: Some(offers), answer: None });
        // maybe an answer now (run_generated points it at a really forwarded offer)
        if r.chance(50) {
            let q = r.below(npeers as u64) as u8;
            ops.push(Op::Ann { fam, consumer: q % 2, slot: 1 + q as u32, allowed: true, now, hash, pid: id20(0x2d, q), event: "none".into(), left: Some(5), offers: None, answer: Some((id20(0x2d, p), id20(0x6f, 1), 7)) });
        }
        now += r.pick(&[0u32, 1, 2, max_offer_age - 1, max_offer_age, max_offer_age + 1]);
        if r.chance(55) { ops.push(Op::Cln { now, mode: "off".into(), list: vec![] }); }
    }
    // late answers, from every peer, after a last cleaning pass
    now += r.pick(&[0u32, 1, max_offer_age - 1]);
    ops.push(Op::Cln { now, mode: "off".into(), list: vec![] });
    for _ in 0..(2 + r.below(4)) {
        let q = r.below(npeers as u64) as u8;
        ops.push(Op::Ann { fam, consumer: q % 2, slot: 1 + q as u32, allowed: true, now, hash, pid: id20(0x2d, q), event: "none".into(), left: Some(5), offers: None, answer: Some((id20(0x2d, 0), id20(0x6f, 1), 9)) });
        if r.chance(30) { now += 1; }
    }
    ops
}

pub fn run_ops(out: &mut impl Write, ops: &[Op], seed: u64) {
    let mut ex = Exec::new(seed);
    for op in ops {
        let line = op.text();
        let res = std::panic::catch_unwind(std::panic::AssertUnwindSafe(|| ex.exec(op)));
        match res {
            Ok(s) if s.is_empty() => writeln!(out, "{}", line).unwrap(),
            Ok(s) => writeln!(out, "{} => {}", line, s).unwrap(),
            Err(e) => {
                writeln!(out, "{} => PANIC {}", line, crate::panic_text(&e).replace(' ', "_")).unwrap();
                return;
            }
        }
    }
}

/// generation interleaved with execution, so that answers can refer to offers the tracker really forwarded
pub fn run_generated(out: &mut impl Write, r: &mut Sm, maxops: usize, seed: u64, aging: bool) {
    let ops = if aging { gen_offer_aging(r) } else { gen_history(r, maxops) };
    let mut ex = Exec::new(seed);
    let mut forwarded: Vec<(String, String, String, String)> = Vec::new(); // hash, from pid, to conn, offer id
    let mut owner_pid: HashMap<String, String> = HashMap::new(); // conn -> pid last announced
    for op in ops.iter() {
        // rewrite some answers to match really forwarded offers
        let mut op = op.clone();
        // a connection the tracker has closed (second peer id) sends nothing more: a new one takes its place
        match &mut op {
            Op::Ann { fam, consumer, slot, .. } | Op::Scr { fam, consumer, slot, .. } | Op::Close { fam, consumer, slot } => {
                let mut guard = 0;
                while ex.dead.contains(&(*fam, *consumer, *slot)) && guard < 64 { *slot += 1000; guard += 1; }
            }
            _ => {}
        }
        if let Op::Ann { consumer, slot, hash, pid, answer, .. } = &mut op {
            if answer.is_some() && !forwarded.is_empty() && r.chance(70) {
                // often an old offer: answers that come after the offer aged out / was passed by a cleaning pass
                let idx = if r.chance(45) { r.below((forwarded.len() as u64 + 3) / 4) as usize } else { r.below(forwarded.len() as u64) as usize };
                let f = forwarded[idx].clone();
                let me = format!("{}.{}", consumer, slot);
                // announce as the connection that received the offer, with the peer id it uses
                if f.2 == me || r.chance(50) {
                    if let Some(p) = owner_pid.get(&f.2) { *pid = arr20(&unhex(p)); }
                    let mut it = f.2.split('.');
                    *consumer = it.next().unwrap().parse().unwrap();
                    *slot = it.next().unwrap().parse().unwrap();
                }
                *hash = arr20(&unhex(&f.0));
                let tag = answer.as_ref().unwrap().2;
                *answer = Some((arr20(&unhex(&f.1)), arr20(&unhex(&f.3)), tag));
            }
        }
        // (again, after the rewrite may have picked a closed connection)
        if let Op::Ann { fam, consumer, slot, .. } = &mut op {
            let mut guard = 0;
            while ex.dead.contains(&(*fam, *consumer, *slot)) && guard < 64 { *slot += 1000; guard += 1; }
        }
        let line = op.text();
        let res = std::panic::catch_unwind(std::panic::AssertUnwindSafe(|| ex.exec(&op)));
        match res {
            Ok(s) if s.is_empty() => writeln!(out, "{}", line).unwrap(),
            Ok(s) => {
                if let Op::Ann { consumer, slot, pid, .. } = &op {
                    owner_pid.insert(format!("{}.{}", consumer, slot), hex(pid));
                    for m in s.split(' ') {
                        let p: Vec<&str> = m.split(':').collect();
                        if p.len() == 6 && p[0] == "O" { forwarded.push((p[2].to_string(), p[3].to_string(), p[1].to_string(), p[4].to_string())); }
                    }
                }
                writeln!(out, "{} => {}", line, s).unwrap()
            }
            Err(e) => {
                writeln!(out, "{} => PANIC {}", line, crate::panic_text(&e).replace(' ', "_")).unwrap();
                return;
            }
        }
    }
}

pub fn run(out: &mut impl Write, seed: u64, cases: usize, maxops: usize, replay: &str) {
    if !replay.is_empty() {
        let text = std::fs::read_to_string(replay).expect("replay file");
        let ops: Vec<Op> = text.lines().filter_map(Op::parse).collect();
        run_ops(out, &ops, seed);
        return;
    }
    let mut master = Sm::new(seed);
    for case in 0..cases {
        let mut r = master.fork(case as u64);
        run_generated(out, &mut r, maxops, seed ^ case as u64, case % 4 == 3);
    }
}
