//! aqv — correspondence harness: runs the *real* aquatic code in-process on
//! generated inputs and prints one line per operation (inputs and what the
//! implementation answered).  The Lean driver replays the lines on the model
//! and on the reference specification.
mod net;
mod rng;
mod serve;
mod acl;
mod addr;
mod httpcodec;
mod httpnet;
mod rawbytes;
mod httpstore;
mod store;
mod supervise;
mod timeunit;
mod udpcodec;
mod udpconc;
mod udpnet;
mod udpstats;
mod uringsend;
mod uringrecv;
mod validator;
mod wsclient;
mod wsjson;
mod wsnet;
mod wsstore;

/// counting allocator: bytes requested so far (C12 measures the growth during a parser call)
struct Counting;
static ALLOCATED: std::sync::atomic::AtomicUsize = std::sync::atomic::AtomicUsize::new(0);
unsafe impl std::alloc::GlobalAlloc for Counting {
    unsafe fn alloc(&self, l: std::alloc::Layout) -> *mut u8 {
        ALLOCATED.fetch_add(l.size(), std::sync::atomic::Ordering::Relaxed);
        std::alloc::System.alloc(l)
    }
    unsafe fn dealloc(&self, p: *mut u8, l: std::alloc::Layout) { std::alloc::System.dealloc(p, l) }
    unsafe fn realloc(&self, p: *mut u8, l: std::alloc::Layout, n: usize) -> *mut u8 {
        ALLOCATED.fetch_add(n.saturating_sub(l.size()), std::sync::atomic::Ordering::Relaxed);
        std::alloc::System.realloc(p, l, n)
    }
}
#[global_allocator]
static GLOBAL: Counting = Counting;
pub fn allocated() -> usize { ALLOCATED.load(std::sync::atomic::Ordering::Relaxed) }

fn arg<T: std::str::FromStr>(args: &[String], name: &str, default: T) -> T {
    args.iter()
        .position(|a| a == name)
        .and_then(|i| args.get(i + 1))
        .and_then(|v| v.parse().ok())
        .unwrap_or(default)
}

pub fn panic_text(e: &Box<dyn std::any::Any + Send>) -> String {
    let s = if let Some(s) = e.downcast_ref::<&str>() {
        s.to_string()
    } else if let Some(s) = e.downcast_ref::<String>() {
        s.clone()
    } else {
        "?".to_string()
    };
    s.replace(char::is_whitespace, "_")
}

fn main() {
    if std::env::var("AQV_PANIC_VERBOSE").is_err() { std::panic::set_hook(Box::new(|_| {})); }
    let args: Vec<String> = std::env::args().collect();
    let family = args.get(1).map(|s| s.as_str()).unwrap_or("");
    if family == "serve" {
        serve::run(args.get(2).map(|s| s.as_str()).unwrap_or(""), &args[3.min(args.len())..]);
        return;
    }
    if family == "rawbytes-child" {
        let g = |i: usize| args.get(i).and_then(|v| v.parse::<u64>().ok()).unwrap_or(0);
        rawbytes::child(g(2), g(3) as usize, g(4) as usize, args.get(5).map(|s| s.as_str()).unwrap_or(""));
        return;
    }
    if family == "rawbytes-one" {
        let text = std::fs::read_to_string(args.get(2).map(|s| s.as_str()).unwrap_or("")).unwrap_or_default();
        let t: Vec<&str> = text.split_whitespace().collect();
        if let ["rb", target, a, h] = t.as_slice() {
            let (target, a, h) = (target.to_string(), a.parse().unwrap_or(0), h.to_string());
            let t = std::thread::Builder::new().stack_size(2 << 20).spawn(move || {
                let out = std::io::stdout();
                rawbytes::exec(&mut out.lock(), &target, a, &if h == "-" { vec![] } else { store::unhex(&h) });
            }).unwrap();
            let _ = t.join();
        }
        return;
    }
    if family == "wsmsg" {
        // aqv wsmsg <text> ...: each text sent on one connection to a fresh tracker, the reply (if any) printed
        wsclient::probe_msgs(&args[2..]);
        return;
    }
    if family == "wsprobe" {
        wsclient::probe(args.get(2).and_then(|v| v.parse().ok()).unwrap_or(1000));
        return;
    }
    if family == "exportchild" {
        udpstats::child(args.get(2).map(|s| s.as_str()).unwrap_or(""), args.get(3).and_then(|v| v.parse().ok()).unwrap_or(0), args.get(4).map(|s| s.as_str()).unwrap_or(""));
        return;
    }
    let seed: u64 = arg(&args, "--seed", 1);
    let cases: usize = arg(&args, "--cases", 100);
    let maxops: usize = arg(&args, "--maxops", 60);
    let replay: String = arg(&args, "--replay", String::new());
    let out = std::io::stdout();
    let mut out = std::io::BufWriter::new(out.lock());
    // socket-level families cannot re-execute a recorded history (timing, ports, random routing): a replay
    // hands the recorded trace back, to be judged again by the driver
    if !replay.is_empty() && ["udpnet", "httpnet", "wsnet", "supervise"].contains(&family) {
        use std::io::Write;
        let text = std::fs::read_to_string(&replay).unwrap_or_default();
        for l in text.lines() { if !l.starts_with('#') { writeln!(out, "{}", l).unwrap(); } }
        return;
    }
    match family {
        "udpstore" => store::run(&mut out, seed, cases, maxops, &replay, false),
        "udpnet" => udpnet::run(&mut out, seed, cases, &replay, arg(&args, "--uring-resp-buf", 2048), arg(&args, "--mio-only", 0) == 1, arg(&args, "--boundaries-first", 0) == 1),
        "udpstats" => udpstats::run(&mut out, seed, cases, maxops, &replay),
        "rawbytes" => rawbytes::run(&mut out, seed, cases, &replay),
        "udpconc" => udpconc::run(&mut out, seed, cases, arg(&args, "--schedules", 300), &replay),
        "supervise" => supervise::run(&mut out, seed, cases, &replay),
        "udpcodec" => udpcodec::run(&mut out, seed, cases, &replay),
        "wsjson" => wsjson::run(&mut out, seed, cases, &replay),
        "wsnet" => wsnet::run(&mut out, seed, cases, &replay, arg(&args, "--burst", 40)),
        "wsstore" => wsstore::run(&mut out, seed, cases, maxops, &replay),
        "validator" => validator::run(&mut out, seed, cases, &replay),
        "uringsend" => uringsend::run(&mut out, seed, cases, &replay),
        "uringrecv" => uringrecv::run(&mut out, seed, cases, &replay),
        "acl" => acl::run(&mut out, seed, cases, &replay),
        "addr" => addr::run(&mut out, seed, cases, &replay),
        "timeunit" => timeunit::run(&mut out, seed, cases),
        "httpnet" => httpnet::run(&mut out, seed, cases, &replay),
        "httpcodec" => httpcodec::run(&mut out, seed, cases, &replay),
        "httpstore" => store::run(&mut out, seed, cases, maxops, &replay, true),
        _ => {
            eprintln!("usage: aqv <family> [--seed n] [--cases n] [--maxops n] [--replay file]");
            std::process::exit(2);
        }
    }
}
