//! `aqv serve <udp|http|ws> key=value…`: runs the real tracker (`run(config)`) in this process.
//! Used as a child process by the socket-level families, so that every scenario gets a fresh
//! tracker with its own configuration and can be killed afterwards.
use std::collections::HashMap;
use std::net::{Ipv4Addr, Ipv6Addr, SocketAddr, SocketAddrV4, SocketAddrV6};

use aquatic_common::access_list::AccessListMode;

fn kv(args: &[String]) -> HashMap<String, String> {
    args.iter().filter_map(|a| a.split_once('=')).map(|(k, v)| (k.to_string(), v.to_string())).collect()
}

fn get<T: std::str::FromStr>(m: &HashMap<String, String>, k: &str, d: T) -> T {
    m.get(k).and_then(|v| v.parse().ok()).unwrap_or(d)
}

fn mode(m: &HashMap<String, String>) -> AccessListMode {
    match m.get("acl_mode").map(|s| s.as_str()) {
        Some("allow") => AccessListMode::Allow,
        Some("deny") => AccessListMode::Deny,
        _ => AccessListMode::Off,
    }
}

pub fn run(kind: &str, args: &[String]) {
    let serve_started = std::time::Instant::now();
    let m = kv(args);
    let port: u16 = get(&m, "port", 0);
    // fault=<worker>:<panic|return>:<ms after start>
    if let Some(f) = m.get("fault") {
        let p: Vec<&str> = f.split(':').collect();
        if p.len() == 3 {
            aquatic_common::verif_hooks::set_fault(p[0], p[1] == "panic", std::time::Duration::from_millis(p[2].parse().unwrap_or(0)));
        }
    }
    let res = match kind {
        "udp" => {
            let mut c = aquatic_udp::config::Config::default();
            c.socket_workers = get(&m, "socket_workers", 1);
            c.network.address_ipv4 = SocketAddrV4::new(Ipv4Addr::LOCALHOST, port);
            c.network.address_ipv6 = SocketAddrV6::new(Ipv6Addr::LOCALHOST, port, 0, 0);
            c.network.use_ipv4 = get(&m, "use_ipv4", true);
            c.network.use_ipv6 = get(&m, "use_ipv6", true);
            c.network.set_only_ipv6 = get(&m, "only_ipv6", true);
            c.network.use_io_uring = get(&m, "use_io_uring", false);
            c.protocol.max_response_peers = get(&m, "max_response_peers", c.protocol.max_response_peers);
            c.protocol.max_scrape_torrents = get(&m, "max_scrape_torrents", c.protocol.max_scrape_torrents);
            c.cleaning.max_connection_age = get(&m, "max_connection_age", c.cleaning.max_connection_age);
            c.cleaning.max_peer_age = get(&m, "max_peer_age", c.cleaning.max_peer_age);
            c.cleaning.torrent_cleaning_interval = get(&m, "cleaning_interval", c.cleaning.torrent_cleaning_interval);
            c.access_list.mode = mode(&m);
            if let Some(p) = m.get("acl_path") { c.access_list.path = p.into(); }
            c.statistics.interval = get(&m, "statistics_interval", 0);
            c.statistics.print_to_stdout = get(&m, "statistics_stdout", false);
            c.statistics.peer_clients = get(&m, "peer_clients", false);
            c.scrape_exports.enable_scrape_exports = get(&m, "scrape_exports", false);
            c.scrape_exports.frequency = get(&m, "scrape_export_frequency", 1);
            if let Some(p) = m.get("scrape_export_path") { c.scrape_exports.path = p.into(); }
            aquatic_udp::run(c)
        }
        "http" => {
            let mut c = aquatic_http::config::Config::default();
            c.socket_workers = get(&m, "socket_workers", 1);
            c.swarm_workers = get(&m, "swarm_workers", 1);
            c.network.address_ipv4 = SocketAddrV4::new(Ipv4Addr::LOCALHOST, port);
            c.network.address_ipv6 = SocketAddrV6::new(Ipv6Addr::LOCALHOST, port, 0, 0);
            c.network.use_ipv4 = get(&m, "use_ipv4", true);
            c.network.use_ipv6 = get(&m, "use_ipv6", true);
            c.network.set_only_ipv6 = get(&m, "only_ipv6", true);
            c.network.keep_alive = get(&m, "keep_alive", true);
            c.network.runs_behind_reverse_proxy = get(&m, "proxy", false);
            c.protocol.max_peers = get(&m, "max_peers", c.protocol.max_peers);
            c.protocol.max_scrape_torrents = get(&m, "max_scrape_torrents", c.protocol.max_scrape_torrents);
            c.cleaning.max_peer_age = get(&m, "max_peer_age", c.cleaning.max_peer_age);
            c.cleaning.torrent_cleaning_interval = get(&m, "cleaning_interval", c.cleaning.torrent_cleaning_interval);
            c.access_list.mode = mode(&m);
            if let Some(p) = m.get("acl_path") { c.access_list.path = p.into(); }
            aquatic_http::run(c)
        }
        "ws" => {
            let mut c = aquatic_ws::config::Config::default();
            c.socket_workers = get(&m, "socket_workers", 1);
            c.swarm_workers = get(&m, "swarm_workers", 1);
            c.network.address = SocketAddr::new(Ipv4Addr::LOCALHOST.into(), port);
            c.protocol.max_scrape_torrents = get(&m, "max_scrape_torrents", c.protocol.max_scrape_torrents);
            c.protocol.max_offers = get(&m, "max_offers", c.protocol.max_offers);
            c.cleaning.max_peer_age = get(&m, "max_peer_age", c.cleaning.max_peer_age);
            c.cleaning.max_offer_age = get(&m, "max_offer_age", c.cleaning.max_offer_age);
            c.cleaning.torrent_cleaning_interval = get(&m, "cleaning_interval", c.cleaning.torrent_cleaning_interval);
            c.access_list.mode = mode(&m);
            if let Some(p) = m.get("acl_path") { c.access_list.path = p.into(); }
            aquatic_ws::run(c)
        }
        _ => Err(anyhow::anyhow!("unknown tracker kind")),
    };
    // the child's own measure (independent of how long the observer takes to notice the exit)
    println!("TIMING since_fault_ms={} run_ms={}",
        aquatic_common::verif_hooks::fault_fired().map(|t| t.elapsed().as_millis() as i64).unwrap_or(-1),
        serve_started.elapsed().as_millis());
    match res {
        Ok(()) => println!("EXIT ok"),
        Err(e) => println!("EXIT err {}", format!("{:#}", e).replace('\n', " ")),
    }
}
