//! Socket-level HTTP tracker runs (C16, C18, C11 gate, C03 source address): starts the real
//! `aquatic_http::run` in a child process on loopback and talks to it over TCP.
//!
//! Output is in the *store* line format (see store.rs) so that the same Lean driver replays it on
//! the reference tracker; the last output token of every request reports the HTTP framing:
//!   F:ok | F:<what is wrong>        and a request without a complete reply prints  NOREPLY <why>
use std::io::{Read, Write};
use std::net::{IpAddr, Ipv4Addr, Ipv6Addr, SocketAddr, TcpStream};
use std::time::{Duration, Instant};

use aquatic_http_protocol::common::*;
use aquatic_http_protocol::request::*;
use aquatic_http_protocol::response::Response;

use crate::net::Server;
use crate::rng::Sm;
use crate::store::hex;

pub struct Conn {
    pub stream: Option<TcpStream>,
    pub src: IpAddr,
    pub requests_on_stream: usize,
}

fn connect(src: IpAddr, port: u16) -> Option<TcpStream> {
    let dst: SocketAddr = match src {
        IpAddr::V4(_) => SocketAddr::new(Ipv4Addr::LOCALHOST.into(), port),
        IpAddr::V6(_) => SocketAddr::new(Ipv6Addr::LOCALHOST.into(), port),
    };
    let domain = if src.is_ipv4() { socket2::Domain::IPV4 } else { socket2::Domain::IPV6 };
    let s = socket2::Socket::new(domain, socket2::Type::STREAM, None).ok()?;
    s.bind(&SocketAddr::new(src, 0).into()).ok()?;
    s.connect_timeout(&dst.into(), Duration::from_secs(20)).ok()?;
    let s: TcpStream = s.into();
    s.set_nodelay(true).ok()?;
    s.set_read_timeout(Some(Duration::from_millis(500))).ok()?;
    Some(s)
}

pub enum Reply {
    Ok { body: Vec<u8>, frame: String, head: Vec<u8> },
    None(String),
}

/// reads exactly one HTTP response and checks its framing
pub fn read_response(s: &mut TcpStream) -> Reply {
    let mut buf: Vec<u8> = Vec::new();
    let mut tmp = [0u8; 8192];
    let t0 = Instant::now();
    let patience = crate::net::patience();
    let head_end;
    loop {
        if let Some(p) = buf.windows(4).position(|w| w == b"\r\n\r\n") { head_end = p + 4; break; }
        if t0.elapsed() > patience { crate::net::note_timeout(); return Reply::None(format!("timeout-after-{}-bytes", buf.len())); }
        match s.read(&mut tmp) {
            Ok(0) => return Reply::None(format!("closed-after-{}-bytes", buf.len())),
            Ok(n) => buf.extend_from_slice(&tmp[..n]),
            Err(e) if matches!(e.kind(), std::io::ErrorKind::WouldBlock | std::io::ErrorKind::TimedOut | std::io::ErrorKind::Interrupted) => {}
            Err(_) => return Reply::None(format!("closed-after-{}-bytes", buf.len())),
        }
    }
    let head = String::from_utf8_lossy(&buf[..head_end]).to_string();
    let mut frame = String::from("ok");
    if !head.starts_with("HTTP/1.1 200 OK\r\n") { frame = "status-line".into(); }
    let cl = head.lines().find_map(|l| l.strip_prefix("Content-Length: ")).map(|v| v.trim().to_string());
    let cl_num: Option<usize> = cl.as_ref().and_then(|v| v.parse().ok());
    let Some(cl_num) = cl_num else { return Reply::None(format!("bad-content-length-{:?}", cl)); };
    while buf.len() < head_end + cl_num {
        if t0.elapsed() > patience { crate::net::note_timeout(); return Reply::None(format!("body-cut-short-{}-of-{}", buf.len() - head_end, cl_num)); }
        match s.read(&mut tmp) {
            Ok(0) => return Reply::None(format!("body-cut-short-{}-of-{}", buf.len() - head_end, cl_num)),
            Ok(n) => buf.extend_from_slice(&tmp[..n]),
            Err(e) if matches!(e.kind(), std::io::ErrorKind::WouldBlock | std::io::ErrorKind::TimedOut | std::io::ErrorKind::Interrupted) => {}
            Err(_) => return Reply::None(format!("body-cut-short-{}-of-{}", buf.len() - head_end, cl_num)),
        }
    }
    if buf.len() > head_end + cl_num { frame = format!("{}-extra-bytes-after-body", buf.len() - head_end - cl_num); }
    let body = buf[head_end..head_end + cl_num].to_vec();
    if !body.ends_with(b"\r\n") { frame = "body-not-ending-in-crlf".into(); }
    Reply::Ok { body: body[..body.len().saturating_sub(2)].to_vec(), frame, head: buf[..head_end].to_vec() }
}

/// writes the request in up to three TCP segments
pub fn send_split(s: &mut TcpStream, bytes: &[u8], r: &mut Sm) -> bool {
    let cuts = r.below(3) as usize;
    let mut points: Vec<usize> = (0..cuts).map(|_| r.below(bytes.len() as u64 + 1) as usize).collect();
    points.sort();
    let mut last = 0;
    for p in points.into_iter().chain(std::iter::once(bytes.len())) {
        if p > last {
            if s.write_all(&bytes[last..p]).is_err() { return false; }
            let _ = s.flush();
            std::thread::sleep(Duration::from_millis(2));
            last = p;
        }
    }
    true
}

pub fn request_bytes_scrape_raw(hashes: &[[u8; 20]]) -> Vec<u8> {
    let mut b = b"GET /scrape?".to_vec();
    for (i, h) in hashes.iter().enumerate() {
        if i > 0 { b.push(b'&'); }
        b.extend_from_slice(b"info_hash=");
        b.extend_from_slice(h);
    }
    b.extend_from_slice(b" HTTP/1.1\r\nHost: x\r\n\r\n");
    b
}

fn ip_hex(ip: IpAddr) -> String {
    match aquatic_common::CanonicalSocketAddr::new(SocketAddr::new(ip, 1)).get().ip() {
        IpAddr::V4(a) => hex(&a.octets()),
        IpAddr::V6(a) => hex(&a.octets()),
    }
}


/// C18: one IPv6 client fills a torrent with 3650..3700 leechers (numwant 1: tiny replies), then asks for everybody
/// (numwant absent and a number above the swarm size: replies of more than 64 KiB that the configuration allows),
/// then for all but one and for 1 (the connection must still be usable).
fn big_swarm(out: &mut impl Write, server: &mut Server, r: &mut Sm) {
    let src: IpAddr = "::1".parse().unwrap();
    let mut hash = [b'h'; 20];
    hash[0] = b'a' + r.below(6) as u8;
    let n = 3650 + r.below(51) as usize;
    let mut stream = connect(src, server.port);
    let mut one = |stream: &mut Option<TcpStream>, out: &mut dyn Write, port: u16, numwant: Option<usize>, pidn: usize| {
        let mut pid = [b'-'; 20];
        let t = format!("{:06}", pidn);
        pid[14..20].copy_from_slice(t.as_bytes());
        let rq = Request::Announce(AnnounceRequest {
            info_hash: InfoHash(hash), peer_id: PeerId(pid), port, bytes_uploaded: 0, bytes_downloaded: 0, bytes_left: 1,
            event: AnnounceEvent::Started, numwant, key: None,
        });
        let mut b = Vec::new();
        rq.write(&mut b, b"").unwrap();
        let line = format!("ann 6 {} {} {} started 1 {} 4000000000 {}", hex(&hash), ip_hex(src), port, numwant.map(|n| n as i64).unwrap_or(-1), hex(&pid));
        if stream.is_none() { *stream = connect(src, server.port); }
        let reply = match stream.as_mut() {
            None => { crate::net::note_timeout(); Reply::None("connect-failed".into()) }
            Some(s) => { if s.write_all(&b).is_ok() { read_response(s) } else { crate::net::note_timeout(); Reply::None("write-failed".into()) } }
        };
        match reply {
            Reply::None(why) => { *stream = None; writeln!(out, "{} => NOREPLY {}", line, why).unwrap(); }
            Reply::Ok { body, frame, head } => {
                let frame = format!("{} H:{}:{}", frame, hex(&head), body.len());
                match Response::parse_bytes(&body) {
                    Ok(Response::Announce(a)) => {
                        let mut peers: Vec<String> = a.peers.0.iter().map(|p| format!("{}:{}", hex(&p.ip_address.octets()), p.port)).collect();
                        peers.extend(a.peers6.0.iter().map(|p| format!("{}:{}", hex(&p.ip_address.octets()), p.port)));
                        let wrong = !a.peers.0.is_empty();
                        writeln!(out, "{} => {} {} {} {}", line, a.complete, a.incomplete, if peers.is_empty() { "-".to_string() } else { peers.join(";") },
                            if wrong { "WRONGFAMILY".to_string() } else { format!("F:{}", frame) }).unwrap();
                    }
                    Ok(Response::Failure(f)) => writeln!(out, "{} => FAILURE {}", line, hex(f.failure_reason.as_bytes())).unwrap(),
                    _ => writeln!(out, "{} => NOREPLY body-is-not-a-bencoded-announce-reply-{}", line, hex(&body[..body.len().min(40)])).unwrap(),
                }
            }
        }
    };
    for i in 0..n {
        one(&mut stream, out, 1000 + i as u16, Some(1), i);
    }
    one(&mut stream, out, 900, None, 900_000);
    one(&mut stream, out, 901, Some(3999), 900_001);
    one(&mut stream, out, 902, Some(n + 1), 900_002);   // one fewer than the others: the two-slice branch with few possible draws
    one(&mut stream, out, 903, Some(1), 900_003);
}

pub fn run(out: &mut impl Write, seed: u64, cases: usize, _replay: &str) {
    let mut master = Sm::new(seed);
    for case in 0..cases {
        // a case in which some answer never came is run again (up to three times in all) from the same random
        // state: what the tracker does deterministically shows every time, a stall of the machine does not
        let r0 = master.fork(case as u64);
        let mut attempt = 0;
        loop {
            let timeouts_before = crate::net::timeouts();
            let mut case_buf: Vec<u8> = Vec::new();
            {
                let out = &mut case_buf;
                let mut r = r0.clone();
                'case: {
                        // C18: a swarm whose full reply is larger than 64 KiB, under a configuration that allows it (every eighth case)
                        let big_case = case % 8 == 5;
                        let boundary_case = case % 4 == 3; // C18: worst-case scrape around the reply-buffer boundary, default limits
                        let socket_workers = r.pick(&[1usize, 2, 3]);
                        let swarm_workers = r.pick(&[1usize, 2, 3]);
                        let keep_alive = r.chance(70);
                        // C03: every third history runs behind a (simulated) reverse proxy - few upstream connections carry the
                        // requests of many clients, each named by the last address of the last X-Forwarded-For header of ITS request
                        let proxy = !boundary_case && !big_case && case % 3 == 1;
                        let keep_alive = keep_alive || proxy || big_case;   // a proxy keeps its upstream connections open
                        let vips: Vec<IpAddr> = ["10.0.0.1", "10.0.0.2", "192.0.2.7", "2001:db8::5", "2001:db8::6", "::ffff:10.0.0.9"].iter().map(|s| s.parse().unwrap()).collect();
                        let (max_peers, max_scrape) = if big_case { (4000usize, 100usize) } else if boundary_case { (50usize, 100usize) } else { (r.pick(&[1usize, 2, 3, 50]), r.pick(&[2usize, 3, 100])) };
                        let args = vec![
                            format!("socket_workers={}", socket_workers), format!("swarm_workers={}", swarm_workers),
                            format!("keep_alive={}", keep_alive), format!("max_peers={}", max_peers), format!("max_scrape_torrents={}", max_scrape),
                            format!("proxy={}", proxy),
                        ];
                        let Some(mut server) = Server::start("http", &args) else {
                    crate::net::note_timeout();
                            writeln!(out, "cfg http {} {}\nnet START-FAILED", max_peers, max_scrape).unwrap();
                            break 'case;
                        };
                        writeln!(out, "cfg http {} {}", max_peers, max_scrape).unwrap();
                        writeln!(out, "net socket_workers={} swarm_workers={} keep_alive={} boundary={} proxy={} bigswarm={}", socket_workers, swarm_workers, keep_alive, boundary_case, proxy, big_case).unwrap();
                        writeln!(out, "new").unwrap();
                        if big_case {
                            big_swarm(out, &mut server, &mut r);
                            if let Some(l) = server.exit_line(Duration::from_millis(0)) {
                                writeln!(out, "net TRACKER-EXITED {}", l.replace(' ', "_")).unwrap();
                            }
                            server.stop();
                            break 'case;
                        }
                        // alnum hashes (can be written raw); first byte spreads them over the swarm workers
                        let hashes: Vec<[u8; 20]> = (0..6u8).map(|i| { let mut h = [b'h'; 20]; h[0] = b'a' + i; h[19] = b'0' + i; h }).collect();
                        let srcs: Vec<IpAddr> = vec!["127.0.0.1".parse().unwrap(), "127.0.0.2".parse().unwrap(), "127.0.0.3".parse().unwrap(), "::1".parse().unwrap()];
                        let mut conns: Vec<Conn> = srcs.iter().map(|s| Conn { stream: None, src: *s, requests_on_stream: 0 }).collect();
                        let nops = if boundary_case { 6 } else { 12 + r.below(20) as usize };
                        for opi in 0..nops {
                            let ci = r.below(conns.len() as u64) as usize;
                            if conns[ci].stream.is_none() || (!keep_alive && conns[ci].requests_on_stream > 0) {
                                conns[ci].stream = connect(conns[ci].src, server.port);
                                conns[ci].requests_on_stream = 0;
                            }
                            // the peer as the tracker must see it: the TCP source, or the client the proxy names
                            let vip = r.pick(&vips);
                            let peer_ip: IpAddr = if proxy { aquatic_common::CanonicalSocketAddr::new(SocketAddr::new(vip, 1)).get().ip() } else { conns[ci].src };
                            let fam = if peer_ip.is_ipv4() { 4 } else { 6 };
                            let xff: Vec<u8> = if !proxy { Vec::new() } else {
                                match r.below(4) {
                                    0 => format!("X-Forwarded-For: {}\r\n", vip),
                                    1 => format!("X-Forwarded-For: 198.51.100.200, {}\r\n", vip),
                                    2 => format!("X-Forwarded-For: 203.0.113.9\r\nX-Forwarded-For: 2001:db8::99,  {}\r\n", vip),
                                    // (the header name is compared exactly as configured; a differently-cased name counts as absent, which
                                    // the tracker treats as an operator error and panics on - not part of these histories)
                                    _ => format!("X-Forwarded-For:   {} \r\n", vip),
                                }.into_bytes()
                            };
                            let is_scrape = boundary_case || r.chance(25);
                            let (line, bytes) = if is_scrape {
                                let hs: Vec<[u8; 20]> = if boundary_case {
                                    let n = [56usize, 57, 58, 60, 64, 30][opi % 6];
                                    (0..n).map(|i| { let mut h = [b'k'; 20]; h[0] = b'a' + (i % 3) as u8; h[18] = b'0' + (i / 10) as u8; h[19] = b'0' + (i % 10) as u8; h }).collect()
                                } else {
                                    (0..1 + r.below(5)).map(|_| r.pick(&hashes)).collect()
                                };
                                let l = format!("scr {} {}", fam, hs.iter().map(|h| hex(h)).collect::<Vec<_>>().join(","));
                                (l, request_bytes_scrape_raw(&hs))
                            } else {
                                let hash = r.pick(&hashes);
                                let port = 1000 + r.below(6) as u16;
                                let event = r.pick(&["empty", "empty", "started", "completed", "stopped"]);
                                let left = r.pick(&[0usize, 0, 1, 12345]);
                                let numwant: Option<usize> = r.pick(&[None, Some(0usize), Some(1), Some(2), Some(3), Some(100)]);
                                let mut pid = [b'-'; 20];
                                pid[19] = b'0' + r.below(4) as u8;
                                let rq = Request::Announce(AnnounceRequest {
                                    info_hash: InfoHash(hash), peer_id: PeerId(pid), port, bytes_uploaded: 0, bytes_downloaded: 0, bytes_left: left,
                                    event: match event { "started" => AnnounceEvent::Started, "completed" => AnnounceEvent::Completed, "stopped" => AnnounceEvent::Stopped, _ => AnnounceEvent::Empty },
                                    numwant, key: None,
                                });
                                let mut b = Vec::new();
                                rq.write(&mut b, b"").unwrap();
                                let l = format!("ann {} {} {} {} {} {} {} 4000000000 {}", fam, hex(&hash), ip_hex(peer_ip), port,
                                    if event == "empty" { "none" } else { event }, left, numwant.map(|n| n as i64).unwrap_or(-1), hex(&pid));
                                (l, b)
                            };
                            // the proxy's header goes in front of the blank line that ends the request
                            let bytes = if xff.is_empty() { bytes } else {
                                let mut b = bytes[..bytes.len() - 2].to_vec();
                                b.extend_from_slice(&xff);
                                b.extend_from_slice(b"\r\n");
                                b
                            };
                            let reply = match conns[ci].stream.as_mut() {
                                None => { crate::net::note_timeout(); Reply::None("connect-failed".into()) }
                                Some(s) => { if send_split(s, &bytes, &mut r) { read_response(s) } else { crate::net::note_timeout(); Reply::None("write-failed".into()) } }
                            };
                            conns[ci].requests_on_stream += 1;
                            match reply {
                                Reply::None(why) => {
                                    conns[ci].stream = None;
                                    writeln!(out, "{} => NOREPLY {}", line, why).unwrap();
                                }
                                Reply::Ok { body, frame, head } => {
                                    let frame = format!("{} H:{}:{}", frame, hex(&head), body.len());
                                    if !keep_alive { conns[ci].stream = None; }
                                    match Response::parse_bytes(&body) {
                                        Ok(Response::Announce(a)) => {
                                            let mut peers: Vec<String> = a.peers.0.iter().map(|p| format!("{}:{}", hex(&p.ip_address.octets()), p.port)).collect();
                                            peers.extend(a.peers6.0.iter().map(|p| format!("{}:{}", hex(&p.ip_address.octets()), p.port)));
                                            let wrong = if fam == 4 { !a.peers6.0.is_empty() } else { !a.peers.0.is_empty() };
                                            writeln!(out, "{} => {} {} {} {}", line, a.complete, a.incomplete, if peers.is_empty() { "-".to_string() } else { peers.join(";") },
                                                if wrong { "WRONGFAMILY".to_string() } else { format!("F:{}", frame) }).unwrap();
                                        }
                                        Ok(Response::Scrape(s)) => {
                                            let v: Vec<String> = s.files.iter().map(|(h, st)| format!("{}={}:{}", hex(&h.0), st.complete, st.incomplete)).collect();
                                            writeln!(out, "{} => {} F:{}", line, if v.is_empty() { "-".to_string() } else { v.join(",") }, frame).unwrap();
                                        }
                                        Ok(Response::Failure(f)) => writeln!(out, "{} => FAILURE {}", line, hex(f.failure_reason.as_bytes())).unwrap(),
                                        Err(_) => writeln!(out, "{} => NOREPLY body-is-not-a-bencoded-reply-{}", line, hex(&body[..body.len().min(40)])).unwrap(),
                                    }
                                }
                            }
                        }
                        if let Some(l) = server.exit_line(Duration::from_millis(0)) {
                            writeln!(out, "net TRACKER-EXITED {}", l.replace(' ', "_")).unwrap();
                        }
                        server.stop();
                }
            }
            if crate::net::timeouts() == timeouts_before || attempt >= 2 { out.write_all(&case_buf).unwrap(); break; }
            crate::net::set_timeouts(timeouts_before);
            attempt += 1;
        }
    }
}
