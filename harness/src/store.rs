//! UDP and HTTP swarm stores: drives the real `aquatic_udp::swarm::TorrentMaps`
//! (announce / scrape / clean_and_update_statistics) and the real
//! `aquatic_http` `TorrentMaps` (handle_announce_request / handle_scrape_request /
//! clean, reached through the `verif-hooks` re-export and the clock override)
//! with generated histories.
//!
//! Line format (inputs `=>` implementation outputs):
//!   cfg udp|http <max_response_peers> <max_scrape>
//!   new
//!   ann <4|6> <hash> <ip> <port> <event> <left> <numwant> <deadline> <peerid>
//!        => <seeders> <leechers> <ip:port;…|-> <stat msgs|->
//!   scr <4|6> <hash,hash,…> => <s:l,s:l,…>
//!   cln <now> <off|allow|deny> <hash,…|-> => <t4> <p4> <t6> <p6> <stat msgs sorted|->
use std::io::Write;
use std::net::{IpAddr, Ipv4Addr, Ipv6Addr, SocketAddr};
use std::num::NonZeroU16;
use std::sync::atomic::Ordering;
use std::sync::Arc;

use aquatic_common::access_list::{AccessList, AccessListMode};
use aquatic_common::{CanonicalSocketAddr, SecondsSinceServerStart, ValidUntil};
use aquatic_udp::common::{State, Statistics, StatisticsMessage};
use aquatic_udp::config::Config;
use aquatic_udp::swarm::TorrentMaps;
use aquatic_udp_protocol::*;
use crossbeam_channel::{unbounded, Receiver, Sender};
use rand::rngs::SmallRng;
use rand::SeedableRng;

use crate::rng::Sm;

pub fn hex(b: &[u8]) -> String {
    let mut s = String::with_capacity(b.len() * 2);
    for x in b {
        s.push_str(&format!("{:02x}", x));
    }
    s
}

pub fn unhex(s: &str) -> Vec<u8> {
    if s == "-" {
        return vec![];
    }
    (0..s.len() / 2)
        .map(|i| u8::from_str_radix(&s[2 * i..2 * i + 2], 16).unwrap_or(0))
        .collect()
}

pub fn arr20(v: &[u8]) -> [u8; 20] {
    let mut a = [0u8; 20];
    for (i, x) in v.iter().take(20).enumerate() {
        a[i] = *x;
    }
    a
}

#[derive(Clone, Debug)]
pub enum Op {
    Cfg { http: bool, max_peers: usize, max_scrape: usize },
    New,
    Ann { fam: u8, hash: [u8; 20], ip: Vec<u8>, port: u16, event: String, left: i64, numwant: i32, dl: u32, pid: [u8; 20] },
    Scr { fam: u8, hashes: Vec<[u8; 20]> },
    Cln { now: u32, mode: String, list: Vec<[u8; 20]> },
}

fn join_hashes(hs: &[[u8; 20]]) -> String {
    if hs.is_empty() {
        "-".into()
    } else {
        hs.iter().map(|h| hex(h)).collect::<Vec<_>>().join(",")
    }
}

impl Op {
    pub fn text(&self) -> String {
        match self {
            Op::Cfg { http, max_peers, max_scrape } => format!("cfg {} {} {}", if *http { "http" } else { "udp" }, max_peers, max_scrape),
            Op::New => "new".into(),
            Op::Ann { fam, hash, ip, port, event, left, numwant, dl, pid } => format!(
                "ann {} {} {} {} {} {} {} {} {}",
                fam, hex(hash), hex(ip), port, event, left, numwant, dl, hex(pid)
            ),
            Op::Scr { fam, hashes } => format!("scr {} {}", fam, join_hashes(hashes)),
            Op::Cln { now, mode, list } => format!("cln {} {} {}", now, mode, join_hashes(list)),
        }
    }

    pub fn parse(line: &str) -> Option<Op> {
        let inp = line.split("=>").next().unwrap_or("");
        let t: Vec<&str> = inp.split_whitespace().collect();
        let hashes = |s: &str| -> Vec<[u8; 20]> {
            if s == "-" { vec![] } else { s.split(',').map(|h| arr20(&unhex(h))).collect() }
        };
        match t.as_slice() {
            ["cfg", kind, mp, ms] => Some(Op::Cfg { http: *kind == "http", max_peers: mp.parse().ok()?, max_scrape: ms.parse().ok()? }),
            ["new"] => Some(Op::New),
            ["ann", fam, hash, ip, port, event, left, numwant, dl, pid] => Some(Op::Ann {
                fam: fam.parse().ok()?,
                hash: arr20(&unhex(hash)),
                ip: unhex(ip),
                port: port.parse().ok()?,
                event: event.to_string(),
                left: left.parse().ok()?,
                numwant: numwant.parse().ok()?,
                dl: dl.parse().ok()?,
                pid: arr20(&unhex(pid)),
            }),
            ["scr", fam, hs] => Some(Op::Scr { fam: fam.parse().ok()?, hashes: hashes(hs) }),
            ["cln", now, mode, list] => Some(Op::Cln { now: now.parse().ok()?, mode: mode.to_string(), list: hashes(list) }),
            _ => None,
        }
    }
}

pub trait Backend {
    /// runs the op on the real code; returns the output tokens ("" for cfg/new)
    fn exec(&mut self, op: &Op) -> String;
}

pub struct Exec {
    config: Config,
    pub maps: TorrentMaps,
    state: State,
    statistics: Statistics,
    tx: Sender<StatisticsMessage>,
    rx: Receiver<StatisticsMessage>,
    rng: SmallRng,
    /// C20: when set, every cleaning pass also writes the full-scrape export there
    pub export_path: Option<std::path::PathBuf>,
}

fn src_of(fam: u8, ip: &[u8], port: u16) -> CanonicalSocketAddr {
    let ipaddr = if fam == 4 {
        IpAddr::V4(Ipv4Addr::new(ip[0], ip[1], ip[2], ip[3]))
    } else {
        let mut a = [0u8; 16];
        a.copy_from_slice(&ip[..16]);
        IpAddr::V6(Ipv6Addr::from(a))
    };
    CanonicalSocketAddr::new(SocketAddr::new(ipaddr, port))
}

fn event_of(s: &str) -> AnnounceEvent {
    match s {
        "started" => AnnounceEvent::Started,
        "stopped" => AnnounceEvent::Stopped,
        "completed" => AnnounceEvent::Completed,
        _ => AnnounceEvent::None,
    }
}

impl Exec {
    pub fn new(seed: u64) -> Self {
        let mut config = Config::default();
        config.statistics.print_to_stdout = true; // only to make statistics "active"
        config.statistics.peer_clients = true;
        let (tx, rx) = unbounded();
        let statistics = Statistics::new(&config);
        Exec {
            config,
            maps: TorrentMaps::default(),
            state: State::default(),
            statistics,
            tx,
            rx,
            rng: SmallRng::seed_from_u64(seed),
            export_path: None,
        }
    }

    /// the export file as a sorted list of `<4|6>/<hash>/<seeders>/<leechers>` (`~` if empty, `!` if absent)
    pub fn read_export(path: &std::path::Path) -> String {
        match std::fs::read_to_string(path) {
            Err(_) => "!".into(),
            Ok(t) => {
                let mut v: Vec<String> = t.lines().map(|l| l.split(' ').collect::<Vec<_>>().join("/")).collect();
                v.sort();
                if v.is_empty() { "~".into() } else { v.join(";") }
            }
        }
    }

    fn drain(&self, sort: bool) -> String {
        let mut v = Vec::new();
        while let Ok(m) = self.rx.try_recv() {
            match m {
                StatisticsMessage::PeerAdded(p) => v.push(format!("+{}", hex(&p.0))),
                StatisticsMessage::PeerRemoved(p) => v.push(format!("-{}", hex(&p.0))),
                _ => {}
            }
        }
        if sort {
            v.sort();
        }
        if v.is_empty() { "-".into() } else { v.join(";") }
    }

}

impl Backend for Exec {
    fn exec(&mut self, op: &Op) -> String {
        match op {
            Op::Cfg { max_peers, .. } => {
                self.config.protocol.max_response_peers = *max_peers;
                String::new()
            }
            Op::New => {
                let cfg = self.config.clone();
                self.maps = TorrentMaps::default();
                self.state = State::default();
                self.statistics = Statistics::new(&cfg);
                let _ = self.drain(false);
                String::new()
            }
            Op::Ann { fam, hash, ip, port, event, left, numwant, dl, pid } => {
                let src = src_of(*fam, ip, 5000);
                let request = AnnounceRequest {
                    connection_id: ConnectionId::new(0),
                    action_placeholder: Default::default(),
                    transaction_id: TransactionId::new(7),
                    info_hash: InfoHash(*hash),
                    peer_id: PeerId(*pid),
                    bytes_downloaded: NumberOfBytes::new(0),
                    bytes_uploaded: NumberOfBytes::new(0),
                    bytes_left: NumberOfBytes::new(*left),
                    event: event_of(event),
                    // the in-request address field: varied, often equal to another stored peer's address; must not matter
                    ip_address: Ipv4AddrBytes([10, 0, 0, (*dl % 6) as u8]),
                    key: PeerKey::new(0),
                    peers_wanted: NumberOfPeers::new(*numwant),
                    port: Port::new(NonZeroU16::new(*port).unwrap_or(NonZeroU16::new(1).unwrap())),
                };
                let vu = ValidUntil::new_raw(SecondsSinceServerStart::new_raw(*dl));
                let resp = self.maps.announce(&self.config, &self.tx, &mut self.rng, &request, src, vu);
                let (s, l, peers) = match resp {
                    Response::AnnounceIpv4(r) => (
                        r.fixed.seeders.0.get(),
                        r.fixed.leechers.0.get(),
                        r.peers.iter().map(|p| format!("{}:{}", hex(&p.ip_address.0), p.port.0.get())).collect::<Vec<_>>(),
                    ),
                    Response::AnnounceIpv6(r) => (
                        r.fixed.seeders.0.get(),
                        r.fixed.leechers.0.get(),
                        r.peers.iter().map(|p| format!("{}:{}", hex(&p.ip_address.0), p.port.0.get())).collect::<Vec<_>>(),
                    ),
                    _ => (-1, -1, vec![]),
                };
                let peers = if peers.is_empty() { "-".to_string() } else { peers.join(";") };
                format!("{} {} {} {}", s, l, peers, self.drain(false))
            }
            Op::Scr { fam, hashes } => {
                let ip = if *fam == 4 { vec![1, 1, 1, 1] } else { vec![1; 16] };
                let src = src_of(*fam, &ip, 1);
                let req = ScrapeRequest {
                    connection_id: ConnectionId::new(0),
                    transaction_id: TransactionId::new(1),
                    info_hashes: hashes.iter().map(|h| InfoHash(*h)).collect(),
                };
                let r = self.maps.scrape(req, src);
                let v: Vec<String> = r
                    .torrent_stats
                    .iter()
                    .map(|s| format!("{}:{}", s.seeders.0.get(), s.leechers.0.get()))
                    .collect();
                if v.is_empty() { "-".into() } else { v.join(",") }
            }
            Op::Cln { now, mode, list } => {
                self.config.access_list.mode = match mode.as_str() {
                    "allow" => AccessListMode::Allow,
                    "deny" => AccessListMode::Deny,
                    _ => AccessListMode::Off,
                };
                let mut al = AccessList::default();
                for h in list {
                    al.insert_from_line(&hex(h)).unwrap();
                }
                self.state.access_list.store(Arc::new(al));
                if let Some(p) = &self.export_path {
                    self.config.scrape_exports.path = p.clone();
                }
                self.maps.clean_and_update_statistics(
                    &self.config,
                    &self.statistics.swarm.clone(),
                    &self.tx,
                    &self.state.access_list,
                    SecondsSinceServerStart::new_raw(*now),
                    self.export_path.is_some(),
                );
                let s = &self.statistics.swarm;
                let export = match &self.export_path {
                    Some(p) => format!(" X:{}", Self::read_export(p)),
                    None => String::new(),
                };
                format!(
                    "{} {} {} {} {}{}",
                    s.ipv4.torrents.load(Ordering::Relaxed),
                    s.ipv4.peers.load(Ordering::Relaxed),
                    s.ipv6.torrents.load(Ordering::Relaxed),
                    s.ipv6.peers.load(Ordering::Relaxed),
                    self.drain(true),
                    export
                )
            }
        }
    }
}

pub struct Pools {
    pub hashes: Vec<[u8; 20]>,
    pub keys4: Vec<(Vec<u8>, u16)>,
    pub keys6: Vec<(Vec<u8>, u16)>,
    pub pids: Vec<[u8; 20]>,
}

pub fn pools(r: &mut Sm, nkeys: usize) -> Pools {
    let mut hashes = Vec::new();
    for i in 0..3u8 {
        let mut h = [0u8; 20];
        h[0] = r.below(256) as u8;
        h[19] = i + 1;
        hashes.push(h);
    }
    let mut keys4 = Vec::new();
    let mut keys6 = Vec::new();
    for i in 0..nkeys {
        // few distinct ips, few distinct ports: (ip, port) collisions in either component
        keys4.push((vec![10, 0, 0, (i % 4) as u8 + 1], 1000 + (i / 4) as u16));
        let mut a = vec![0x20, 0x01, 0, 0, 0, 0, 0, 0, 0, 0, 0, 0, 0, 0, 0, (i % 4) as u8 + 1];
        if i % 2 == 1 {
            a[1] = 0x02;
        }
        keys6.push((a, 2000 + (i / 4) as u16));
    }
    let mut pids = Vec::new();
    // peer ids of three different clients, two ids of the same client (C20: per-client statistics)
    for (i, prefix) in [&b"-TR3000-"[..], &b"-qB4520-"[..], &b"-UT355W-"[..], &b"-TR3000-"[..]].iter().enumerate() {
        let mut p = [0x2du8; 20];
        p[..8].copy_from_slice(prefix);
        p[19] = i as u8;
        pids.push(p);
    }
    Pools { hashes, keys4, keys6, pids }
}

/// one generated history
pub fn gen_history(r: &mut Sm, maxops: usize, http: bool) -> Vec<Op> {
    let mut ops = Vec::new();
    let max_peers = r.pick(&[0usize, 1, 2, 3, 4, 5, 8, 30]);
    let max_scrape = if http { r.pick(&[1usize, 2, 3, 100]) } else { 1000000 };
    ops.push(Op::Cfg { http, max_peers, max_scrape });
    ops.push(Op::New);
    let nkeys = if http { r.pick(&[4usize, 6, 8, 12, 16]) } else { r.pick(&[3usize, 5, 8, 12, 16]) };
    let p = pools(r, nkeys);
    let n = 5 + r.below(maxops.max(6) as u64 - 5) as usize;
    let mut now: u32 = r.below(5) as u32;
    let mut deadlines: Vec<u32> = Vec::new();
    let one_torrent = r.chance(40);
    let acl_history = r.chance(15);
    for _ in 0..n {
        let k = r.below(100);
        let hash = if one_torrent { p.hashes[0] } else { r.pick(&p.hashes) };
        if k < 72 {
            let fam = if r.chance(75) { 4 } else { 6 };
            let (ip, port) = if fam == 4 { r.pick_ref(&p.keys4) } else { r.pick_ref(&p.keys6) };
            let event = r.pick(&["none", "none", "started", "completed", "stopped"]).to_string();
            let left = if http { r.pick(&[0i64, 0, 1, 1, i64::MAX, 12345]) } else { r.pick(&[0i64, 0, 1, 1, i64::MAX, -1, 12345]) };
            // HTTP: -1 encodes an absent numwant
            let numwant = if http { r.pick(&[-1i32, -1, 0, 1, 2, 3, 4, 7, 100, i32::MAX]) } else { r.pick(&[i32::MIN, -1, 0, 0, 1, 2, 3, 4, 7, 100, i32::MAX]) };
            let age = r.pick(&[1u32, 2, 3, 5, 10]);
            let dl = now + age;
            deadlines.push(dl);
            ops.push(Op::Ann { fam, hash, ip, port, event, left, numwant, dl, pid: r.pick(&p.pids) });
            if r.chance(25) {
                now += r.below(3) as u32;
            }
        } else if k < 84 {
            let fam = if r.chance(75) { 4 } else { 6 };
            let cnt = r.below(if http { 7 } else { 5 }) as usize;
            let mut hs: Vec<[u8; 20]> = (0..cnt).map(|_| r.pick(&p.hashes)).collect();
            if r.chance(20) {
                hs.push([0xee; 20]);
            }
            ops.push(Op::Scr { fam, hashes: hs });
        } else {
            // clean near a stored deadline half of the time
            if !deadlines.is_empty() && r.chance(60) {
                let d = r.pick(&deadlines);
                let t = (d as i64 + r.pick(&[-1i64, 0, 1])).max(now as i64) as u32;
                now = t;
            } else {
                now += r.below(4) as u32;
            }
            let (mode, list) = if acl_history && r.chance(60) {
                let mode = r.pick(&["allow", "deny"]).to_string();
                let mut l = Vec::new();
                for h in &p.hashes {
                    if r.chance(50) {
                        l.push(*h);
                    }
                }
                (mode, l)
            } else {
                ("off".to_string(), vec![])
            };
            ops.push(Op::Cln { now, mode, list });
        }
    }
    // final observation: scrape everything in both families
    ops.push(Op::Scr { fam: 4, hashes: p.hashes.clone() });
    ops.push(Op::Scr { fam: 6, hashes: p.hashes.clone() });
    ops
}

pub fn run_ops(out: &mut impl Write, ops: &[Op], seed: u64) {
    let http = matches!(ops.first(), Some(Op::Cfg { http: true, .. }));
    let mut ex: Box<dyn Backend> = if http { Box::new(crate::httpstore::HttpExec::new(seed)) } else { Box::new(Exec::new(seed)) };
    for op in ops {
        // a panic of the real code is an outcome to report, not a harness failure
        let r = std::panic::catch_unwind(std::panic::AssertUnwindSafe(|| ex.exec(op)));
        match r {
            Ok(o) if o.is_empty() => writeln!(out, "{}", op.text()).unwrap(),
            Ok(o) => writeln!(out, "{} => {}", op.text(), o).unwrap(),
            Err(e) => {
                writeln!(out, "{} => PANIC {}", op.text(), crate::panic_text(&e)).unwrap();
                return; // the state after a panic is unspecified: end this history
            }
        }
    }
}

pub fn run(out: &mut impl Write, seed: u64, cases: usize, maxops: usize, replay: &str, http: bool) {
    if !replay.is_empty() {
        let text = std::fs::read_to_string(replay).expect("replay file");
        let ops: Vec<Op> = text.lines().filter_map(Op::parse).collect();
        run_ops(out, &ops, seed);
        return;
    }
    let mut master = Sm::new(seed);
    for case in 0..cases {
        let mut r = master.fork(case as u64);
        let ops = gen_history(&mut r, maxops, http);
        run_ops(out, &ops, seed ^ case as u64);
    }
}
