//! UDP connection ids (C05): the real `ConnectionValidator` with the clock set through the hook.
//!   cfg <max_connection_age>            new validator (fresh random key)
//!   iss <now> <ip>        => <t> <tag>  create_connection_id at clock `now`
//!   chk <now> <ip> <t> <tag> => 0|1     connection_id_valid at clock `now`
//! An id is printed as its two native-endian u32 halves (t = embedded issue time, tag = MAC).
use std::io::Write;
use std::net::{IpAddr, Ipv4Addr, Ipv6Addr, SocketAddr};

use aquatic_common::CanonicalSocketAddr;
use aquatic_udp::config::Config;
use aquatic_udp::workers::socket::ConnectionValidator;
use aquatic_udp_protocol::ConnectionId;

use crate::rng::Sm;
use crate::store::{hex, unhex};

fn addr(ip: &[u8]) -> CanonicalSocketAddr {
    let ipa = if ip.len() == 4 {
        IpAddr::V4(Ipv4Addr::new(ip[0], ip[1], ip[2], ip[3]))
    } else {
        let mut a = [0u8; 16];
        a.copy_from_slice(&ip[..16]);
        IpAddr::V6(Ipv6Addr::from(a))
    };
    CanonicalSocketAddr::new(SocketAddr::new(ipa, 1234))
}

fn split(id: ConnectionId) -> (u32, u32) {
    let b = id.0.get().to_ne_bytes();
    (u32::from_ne_bytes([b[0], b[1], b[2], b[3]]), u32::from_ne_bytes([b[4], b[5], b[6], b[7]]))
}

fn join(t: u32, tag: u32) -> ConnectionId {
    let mut b = [0u8; 8];
    b[..4].copy_from_slice(&t.to_ne_bytes());
    b[4..].copy_from_slice(&tag.to_ne_bytes());
    ConnectionId::new(i64::from_ne_bytes(b))
}

struct Ex {
    v: Option<ConnectionValidator>,
}

impl Ex {
    fn line(&mut self, out: &mut impl Write, t: &[&str]) {
        match t {
            ["cfg", age] => {
                let mut config = Config::default();
                config.cleaning.max_connection_age = age.parse().unwrap_or(0);
                self.v = Some(ConnectionValidator::new(&config).unwrap());
                writeln!(out, "cfg {}", age).unwrap();
            }
            ["iss", now, ip] => {
                let v = self.v.as_mut().unwrap();
                v.verif_set_elapsed(now.parse().unwrap_or(0));
                let (a, b) = split(v.create_connection_id(addr(&unhex(ip))));
                writeln!(out, "iss {} {} => {} {}", now, ip, a, b).unwrap();
            }
            ["chk", now, ip, a, b] => {
                let v = self.v.as_mut().unwrap();
                v.verif_set_elapsed(now.parse().unwrap_or(0));
                let r = std::panic::catch_unwind(std::panic::AssertUnwindSafe(|| {
                    v.connection_id_valid(addr(&unhex(ip)), join(a.parse().unwrap_or(0), b.parse().unwrap_or(0)))
                }));
                match r {
                    Ok(ok) => writeln!(out, "chk {} {} {} {} => {}", now, ip, a, b, ok as u8).unwrap(),
                    Err(e) => writeln!(out, "chk {} {} {} {} => PANIC {}", now, ip, a, b, crate::panic_text(&e)).unwrap(),
                }
            }
            _ => {}
        }
    }
}

pub fn run(out: &mut impl Write, seed: u64, cases: usize, replay: &str) {
    let mut ex = Ex { v: None };
    if !replay.is_empty() {
        let text = std::fs::read_to_string(replay).expect("replay file");
        // tags are bound to the run's random key: a replay re-issues the ids and maps every
        // checked id that is within two bit flips of a recorded issued id onto the re-issued one
        let mut map: Vec<(u64, u64)> = Vec::new(); // (recorded id, re-issued id)
        for line in text.lines() {
            let mut parts = line.split("=>");
            let inp = parts.next().unwrap_or("");
            let rec_out: Vec<&str> = parts.next().unwrap_or("").split_whitespace().collect();
            let t: Vec<&str> = inp.split_whitespace().collect();
            match t.as_slice() {
                ["cfg", ..] => { map.clear(); ex.line(out, &t); }
                ["iss", ..] => {
                    let mut buf = Vec::new();
                    ex.line(&mut buf, &t);
                    let s = String::from_utf8(buf).unwrap();
                    let o: Vec<&str> = s.split("=>").nth(1).unwrap_or("").split_whitespace().collect();
                    if o.len() == 2 && rec_out.len() == 2 {
                        let newid = (o[0].parse::<u64>().unwrap_or(0) << 32) | o[1].parse::<u64>().unwrap_or(0);
                        let recid = (rec_out[0].parse::<u64>().unwrap_or(0) << 32) | rec_out[1].parse::<u64>().unwrap_or(0);
                        map.push((recid, newid));
                    }
                    out.write_all(s.as_bytes()).unwrap();
                }
                ["chk", now, ip, a, b] => {
                    let id = (a.parse::<u64>().unwrap_or(0) << 32) | b.parse::<u64>().unwrap_or(0);
                    let mut x = id;
                    for (rec, new) in &map {
                        if (rec ^ id).count_ones() <= 2 { x = new ^ (rec ^ id); break; }
                    }
                    ex.line(out, &["chk", now, ip, &((x >> 32) as u32).to_string(), &(x as u32).to_string()]);
                }
                _ => {}
            }
        }
        return;
    }
    let mut master = Sm::new(seed);
    let ips: Vec<Vec<u8>> = vec![
        vec![10, 0, 0, 1], vec![10, 0, 0, 2], vec![127, 0, 0, 1], vec![255, 255, 255, 255],
        vec![0x20, 1, 0, 0, 0, 0, 0, 0, 0, 0, 0, 0, 0, 0, 0, 1],
        vec![0x20, 1, 0, 0, 0, 0, 0, 0, 0, 0, 0, 0, 0, 0, 0, 2],
        vec![0, 0, 0, 0, 0, 0, 0, 0, 0, 0, 0xff, 0xff, 10, 0, 0, 1], // ::ffff:10.0.0.1 → same peer as 10.0.0.1
    ];
    for case in 0..cases {
        let mut r = master.fork(case as u64);
        let age: u32 = r.pick(&[0u32, 1, 2, 59, 60, 61, 120, 1000, u32::MAX - 1, u32::MAX]);
        ex.line(out, &["cfg", &age.to_string()]);
        let n = 3 + r.below(6);
        for _ in 0..n {
            let t0: u32 = r.pick(&[0u32, 1, 5, 100, 1000, u32::MAX - 200, u32::MAX - 61, u32::MAX - 1, u32::MAX]);
            let ip = r.pick_ref(&ips);
            let iph = hex(&ip);
            // issue
            let mut buf = Vec::new();
            ex.line(&mut buf, &["iss", &t0.to_string(), &iph]);
            let s = String::from_utf8(buf).unwrap();
            out.write_all(s.as_bytes()).unwrap();
            let o: Vec<&str> = s.split("=>").nth(1).unwrap().split_whitespace().collect();
            let (a, b): (u32, u32) = (o[0].parse().unwrap(), o[1].parse().unwrap());
            // check times around the window
            let d = t0 as u64 + age as u64;
            let mut times: Vec<u64> = vec![t0 as u64, t0 as u64 + 1, d.saturating_sub(1), d, d + 1, (t0 as u64).saturating_sub(59), (t0 as u64).saturating_sub(60), (t0 as u64).saturating_sub(61), 0, u32::MAX as u64];
            times.push(r.next() >> 32);
            for now in times {
                let now = now.min(u32::MAX as u64) as u32;
                ex.line(out, &["chk", &now.to_string(), &iph, &a.to_string(), &b.to_string()]);
            }
            // other addresses, same time
            for other in &ips {
                if *other != ip { ex.line(out, &["chk", &t0.to_string(), &hex(other), &a.to_string(), &b.to_string()]); }
            }
            // single-bit and double-bit alterations of the id, checked inside the window
            let id64 = ((a as u64) << 32) | b as u64;
            let inside = if age > 0 { t0 } else { t0 };
            for bit in 0..64 {
                let x = id64 ^ (1u64 << bit);
                ex.line(out, &["chk", &inside.to_string(), &iph, &((x >> 32) as u32).to_string(), &(x as u32).to_string()]);
            }
            for _ in 0..8 {
                let x = id64 ^ (1u64 << r.below(64)) ^ (1u64 << r.below(64));
                if x != id64 {
                    ex.line(out, &["chk", &inside.to_string(), &iph, &((x >> 32) as u32).to_string(), &(x as u32).to_string()]);
                }
            }
            // forged ids
            for _ in 0..4 {
                let x = r.next();
                ex.line(out, &["chk", &t0.to_string(), &iph, &((x >> 32) as u32).to_string(), &(x as u32).to_string()]);
            }
        }
        // an id of a previous run (other key): issued by a second validator
        let mut other = Ex { v: None };
        let mut sink = Vec::new();
        other.line(&mut sink, &["cfg", &age.to_string()]);
        let mut buf = Vec::new();
        other.line(&mut buf, &["iss", "7", &hex(&ips[0])]);
        let s = String::from_utf8(buf).unwrap();
        let o: Vec<&str> = s.split("=>").nth(1).unwrap().split_whitespace().collect();
        ex.line(out, &["chk", "7", &hex(&ips[0]), o[0], o[1]]);
    }
}
