//! io_uring back end, send side (C06 / C18): the real `SendBuffers` (send_buffers.rs) driven without a
//! ring through the hook `aquatic_udp::workers::socket::verif_uring`.
//!   cfg <cap>
//!   prep <fits 0|1> <ipv4-socket 0|1>  => ok <index> | nobuf | serfail | PANIC ..
//!   free <index>                        => ok | PANIC ..
//!   reset                               => ok
use std::io::Write;
use std::net::{IpAddr, Ipv4Addr, Ipv6Addr, SocketAddr};

use aquatic_common::CanonicalSocketAddr;
use aquatic_udp::workers::socket::verif_uring::{prepare, SendBuffers};
use aquatic_udp_protocol::*;

use crate::rng::Sm;

fn response(fits: bool, n: usize) -> Response {
    if fits {
        match n % 3 {
            0 => Response::Connect(ConnectResponse { transaction_id: TransactionId::new(n as i32), connection_id: ConnectionId::new(7) }),
            1 => Response::Error(ErrorResponse { transaction_id: TransactionId::new(n as i32), message: "no".into() }),
            _ => Response::AnnounceIpv4(AnnounceResponse {
                fixed: AnnounceResponseFixedData { transaction_id: TransactionId::new(n as i32), announce_interval: AnnounceInterval::new(1), leechers: NumberOfPeers::new(1), seeders: NumberOfPeers::new(1) },
                peers: (0..(n % 300)).map(|i| ResponsePeer { ip_address: Ipv4AddrBytes([10, 0, 0, i as u8]), port: Port::new(std::num::NonZeroU16::new(1 + i as u16).unwrap()) }).collect(),
            }),
        }
    } else {
        // 20 + 18 * 113 = 2054 bytes and more: does not fit RESPONSE_BUF_LEN
        Response::AnnounceIpv6(AnnounceResponse {
            fixed: AnnounceResponseFixedData { transaction_id: TransactionId::new(n as i32), announce_interval: AnnounceInterval::new(1), leechers: NumberOfPeers::new(1), seeders: NumberOfPeers::new(1) },
            peers: (0..(113 + n % 200)).map(|i| ResponsePeer { ip_address: Ipv6AddrBytes([i as u8; 16]), port: Port::new(std::num::NonZeroU16::new(1 + i as u16).unwrap()) }).collect(),
        })
    }
}

struct Ex { sb: Option<SendBuffers>, n: usize }

impl Ex {
    fn line(&mut self, out: &mut impl Write, t: &[&str]) {
        match t {
            ["cfg", cap] => {
                self.sb = Some(SendBuffers::new(cap.parse().unwrap_or(1)));
                writeln!(out, "cfg {}", cap).unwrap();
            }
            ["prep", fits, v4s] => {
                self.n += 1;
                let n = self.n;
                let sb = self.sb.as_mut().unwrap();
                let v4sock = *v4s == "1";
                let addr = if v4sock || n % 2 == 0 { SocketAddr::new(IpAddr::V4(Ipv4Addr::new(127, 0, 0, 1)), 4000 + (n % 100) as u16) }
                    else { SocketAddr::new(IpAddr::V6(Ipv6Addr::LOCALHOST), 4000 + (n % 100) as u16) };
                let r = std::panic::catch_unwind(std::panic::AssertUnwindSafe(|| prepare(sb, v4sock, response(*fits == "1", n), CanonicalSocketAddr::new(addr))));
                let o = match r {
                    Ok(Ok(i)) => format!("ok {}", i),
                    Ok(Err("no-buffers")) => "nobuf".to_string(),
                    Ok(Err(_)) => "serfail".to_string(),
                    Err(e) => format!("PANIC {}", crate::panic_text(&e)),
                };
                writeln!(out, "prep {} {} => {}", fits, v4s, o).unwrap();
            }
            ["free", i] => {
                let sb = self.sb.as_mut().unwrap();
                let idx: usize = i.parse().unwrap_or(0);
                let r = std::panic::catch_unwind(std::panic::AssertUnwindSafe(|| unsafe { sb.mark_buffer_as_free(idx) }));
                match r {
                    Ok(()) => writeln!(out, "free {} => ok", i).unwrap(),
                    Err(e) => writeln!(out, "free {} => PANIC {}", i, crate::panic_text(&e)).unwrap(),
                }
            }
            ["reset"] => {
                self.sb.as_mut().unwrap().reset_likely_next_free_index();
                writeln!(out, "reset => ok").unwrap();
            }
            _ => {}
        }
    }
}

pub fn run(out: &mut impl Write, seed: u64, cases: usize, replay: &str) {
    let mut ex = Ex { sb: None, n: 0 };
    if !replay.is_empty() {
        let text = std::fs::read_to_string(replay).expect("replay file");
        for line in text.lines() {
            if line.starts_with('#') { continue; }
            let inp = line.split("=>").next().unwrap_or("");
            let t: Vec<&str> = inp.split_whitespace().collect();
            ex.line(out, &t);
        }
        return;
    }
    let mut master = Sm::new(seed);
    for case in 0..cases {
        let mut r = master.fork(case as u64);
        let cap = r.pick(&[1usize, 2, 3, 4, 8]);
        ex.line(out, &["cfg", &cap.to_string()]);
        let mut inflight: Vec<usize> = Vec::new();
        let nops = 20 + r.below(50);
        for _ in 0..nops {
            let k = r.below(100);
            if k < 60 {
                let fits = if r.chance(85) { "1" } else { "0" };
                let v4 = if r.chance(50) { "1" } else { "0" };
                let mut buf = Vec::new();
                ex.line(&mut buf, &["prep", fits, v4]);
                let s = String::from_utf8(buf).unwrap();
                if let Some(i) = s.split("=> ok ").nth(1).and_then(|x| x.trim().parse::<usize>().ok()) { inflight.push(i); }
                out.write_all(s.as_bytes()).unwrap();
            } else if k < 82 {
                // a completion: mostly of a send in flight, sometimes of a buffer that is not (harmless); never out of range
                // (the kernel only completes what was submitted)
                let i = if !inflight.is_empty() && r.chance(85) { let j = r.below(inflight.len() as u64) as usize; inflight.swap_remove(j) }
                    else { r.below(cap as u64) as usize };
                inflight.retain(|x| *x != i);
                ex.line(out, &["free", &i.to_string()]);
            } else {
                ex.line(out, &["reset"]);
            }
        }
    }
}
