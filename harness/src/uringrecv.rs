//! io_uring back end, receive side (C03 / C06): the real `RecvHelperV4` / `RecvHelperV6` (recv_helper.rs) called on
//! buffers laid out as a multishot recvmsg fills them (hook `aquatic_udp::workers::socket::verif_uring`).
//!   ur <v6 socket 0|1> <max_scrape> <hex buffer>
//!        => ok <ip hex> <port> <request> | err parse | err trunc | err addr | err req <ip hex> <port> sendable <cid> <tid> | err req <ip hex> <port> unsendable
use std::io::Write;

use aquatic_udp::config::Config;
use aquatic_udp::workers::socket::verif_uring::{RecvError, RecvHelper, RecvHelperV4, RecvHelperV6};
use aquatic_udp_protocol::*;

use crate::rng::Sm;
use crate::store::{hex, unhex};

fn addr_text(a: &aquatic_common::CanonicalSocketAddr) -> String {
    let sa = a.get();
    match sa.ip() {
        std::net::IpAddr::V4(i) => format!("{} {}", hex(&i.octets()), sa.port()),
        std::net::IpAddr::V6(i) => format!("{} {}", hex(&i.octets()), sa.port()),
    }
}

fn one(out: &mut impl Write, v6: bool, max: u8, buf: &[u8]) {
    let mut config = Config::default();
    config.protocol.max_scrape_torrents = max;
    let res = std::panic::catch_unwind(|| {
        if v6 { RecvHelperV6::new(&config).parse(buf) } else { RecvHelperV4::new(&config).parse(buf) }
    });
    let txt = match res {
        Ok(Ok((rq, addr))) => format!("ok {} {}", addr_text(&addr), crate::udpcodec::req_text(&rq)),
        Ok(Err(RecvError::RecvMsgParseError)) => "err parse".to_string(),
        Ok(Err(RecvError::RecvMsgTruncated)) => "err trunc".to_string(),
        Ok(Err(RecvError::InvalidSocketAddress)) => "err addr".to_string(),
        Ok(Err(RecvError::RequestParseError(RequestParseError::Sendable { connection_id, transaction_id, .. }, addr))) =>
            format!("err req {} sendable {} {}", addr_text(&addr), connection_id.0.get() as u64, transaction_id.0.get() as u32),
        Ok(Err(RecvError::RequestParseError(RequestParseError::Unsendable { .. }, addr))) => format!("err req {} unsendable", addr_text(&addr)),
        Err(e) => format!("PANIC {}", crate::panic_text(&e)),
    };
    writeln!(out, "ur {} {} {} => {}", v6 as u8, max, if buf.is_empty() { "-".to_string() } else { hex(buf) }, txt).unwrap();
}

/// sockaddr_in / sockaddr_in6 as the kernel writes it
fn name(v6: bool, r: &mut Sm) -> Vec<u8> {
    let port: u16 = r.pick(&[0u16, 1, 255, 256, 6881, 65535, 1, 6881]);
    if !v6 {
        let ip: [u8; 4] = r.pick(&[[127, 0, 0, 1], [10, 0, 0, 9], [255, 255, 255, 255], [0, 0, 0, 0], [1, 2, 3, 4]]);
        let mut v = vec![2u8, 0];
        v.extend_from_slice(&port.to_be_bytes());
        v.extend_from_slice(&ip);
        v.extend_from_slice(&[0u8; 8]);
        v
    } else {
        let mut ip = [0u8; 16];
        match r.below(5) {
            0 => { ip[15] = 1; }
            1 => { ip[10] = 0xff; ip[11] = 0xff; ip[12..].copy_from_slice(&[10, 0, 0, 9]); }      // IPv4-mapped
            2 => { ip[12..].copy_from_slice(&[10, 0, 0, 9]); }                                       // IPv4-compatible: stays IPv6
            3 => { ip[0] = 0x20; ip[1] = 1; ip[2] = 0xd; ip[3] = 0xb8; ip[15] = 5; }
            _ => { for x in ip.iter_mut() { *x = r.next() as u8; } }
        }
        let mut v = vec![10u8, 0];
        v.extend_from_slice(&port.to_be_bytes());
        // flowinfo and scope id do not reach the canonical address: any value
        v.extend_from_slice(&(if r.chance(30) { r.next() as u32 } else { 0 }).to_ne_bytes());
        v.extend_from_slice(&ip);
        v.extend_from_slice(&(if r.chance(30) { r.next() as u32 } else { 0 }).to_ne_bytes());
        v
    }
}

fn buffer(namelen: u32, controllen: u32, payloadlen: u32, flags: u32, name: &[u8], payload: &[u8]) -> Vec<u8> {
    let mut b = Vec::new();
    for x in [namelen, controllen, payloadlen, flags] { b.extend_from_slice(&x.to_ne_bytes()); }
    b.extend_from_slice(name);
    b.extend_from_slice(payload);
    b
}

pub fn run(out: &mut impl Write, seed: u64, cases: usize, replay: &str) {
    if !replay.is_empty() {
        let text = std::fs::read_to_string(replay).expect("replay file");
        for line in text.lines() {
            let t: Vec<&str> = line.split("=>").next().unwrap_or("").split_whitespace().collect();
            if let ["ur", v6, max, h] = t.as_slice() {
                one(out, *v6 == "1", max.parse().unwrap_or(70), &if *h == "-" { vec![] } else { unhex(h) });
            }
        }
        return;
    }
    let mut master = Sm::new(seed);
    for case in 0..cases {
        let mut r = master.fork(case as u64);
        let v6 = r.chance(50);
        let nf = if v6 { 28 } else { 16 };
        let max: u8 = r.pick(&[1u8, 2, 5, 22, 23, 70, 255]);
        let nm = name(v6, &mut r);
        // the datagram: a request of the repo's own types, sometimes with extension bytes / cut short / noise
        let rq = crate::udpcodec::gen_request(&mut r);
        let mut payload = Vec::new();
        rq.write_bytes(&mut payload).unwrap();
        match r.below(8) {
            0 => { let n = r.below(payload.len() as u64 + 1) as usize; payload.truncate(n); }
            1 => { for _ in 0..r.below(30) + 1 { payload.push(r.next() as u8); } }
            2 => { let n = payload.len(); if n > 0 { let i = r.below(n as u64) as usize; payload[i] ^= 1 << r.below(8); } }
            _ => {}
        }
        let cap = 512 - 16 - nf;
        match r.below(10) {
            // as the kernel writes it into a REQUEST_BUF_LEN buffer (long datagrams cut, MSG_TRUNC set)
            0..=5 => {
                let trunc = payload.len() > cap;
                let b = buffer(nf as u32, 0, payload.len() as u32, if trunc { 0x20 } else { 0 }, &nm, &payload[..payload.len().min(cap)]);
                one(out, v6, max, &b);
            }
            // a buffer shorter than header + name field
            6 => { let b = buffer(nf as u32, 0, 0, 0, &nm, &[]); let n = r.below(b.len() as u64) as usize; one(out, v6, max, &b[..n]); }
            // name longer than the field (truncated name), other flags set
            7 => { let b = buffer(nf as u32 + 1 + r.below(20) as u32, 0, payload.len() as u32, r.pick(&[0u32, 0x20, 0x8, 0x28, 0x40]), &nm, &payload[..payload.len().min(cap)]); one(out, v6, max, &b); }
            // payload length field larger / smaller than what follows; a shorter name length
            8 => { let pl = r.pick(&[0u32, 1, 15, 16, payload.len() as u32 / 2, payload.len() as u32 + 7, u32::MAX]); let b = buffer(nf as u32, 0, pl, 0, &nm, &payload[..payload.len().min(cap)]); one(out, v6, max, &b); }
            _ => { let b = buffer(r.pick(&[0u32, 2, 8, nf as u32 - 1]), 0, payload.len() as u32, r.pick(&[0u32, 0x20]), &nm, &payload[..payload.len().min(cap)]); one(out, v6, max, &b); }
        }
    }
}
