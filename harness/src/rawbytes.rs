//! C12: raw bytes at every network-facing parser, under `catch_unwind`, with the bytes allocated
//! during the call measured by the counting global allocator (main.rs).
//!
//!   rb <target> <arg> <hex bytes|-> => ok|err [detail] A:<bytes allocated> | PANIC <msg>
//! targets: udpreq (arg = max_scrape), udpresp (arg = 1 if ipv4), httpreq (arg = 1 if behind proxy),
//!          httpresp, wsin (arg = 1 if sent as a text frame), wsout, peerid, aclline
use std::io::Write;

use crate::rng::Sm;
use crate::store::{hex, unhex};

fn measure<T>(f: impl FnOnce() -> T + std::panic::UnwindSafe) -> (std::thread::Result<T>, usize) {
    let before = crate::allocated();
    let r = std::panic::catch_unwind(f);
    let after = crate::allocated();
    (r, after.saturating_sub(before))
}

pub fn exec(out: &mut impl Write, target: &str, arg: u64, bytes: &[u8]) {
    let head = format!("rb {} {} {}", target, arg, if bytes.is_empty() { "-".to_string() } else { hex(bytes) });
    let (res, alloc): (std::thread::Result<String>, usize) = match target {
        "udpreq" => {
            let b = bytes.to_vec();
            measure(move || match aquatic_udp_protocol::Request::parse_bytes(&b, arg as u8) {
                Ok(aquatic_udp_protocol::Request::Connect(_)) => "ok connect".to_string(),
                Ok(aquatic_udp_protocol::Request::Announce(_)) => "ok announce".to_string(),
                Ok(aquatic_udp_protocol::Request::Scrape(s)) => format!("ok scrape{}", s.info_hashes.len()),
                Err(aquatic_udp_protocol::RequestParseError::Sendable { .. }) => "err sendable".to_string(),
                Err(aquatic_udp_protocol::RequestParseError::Unsendable { .. }) => "err unsendable".to_string(),
            })
        }
        "udpresp" => {
            let b = bytes.to_vec();
            measure(move || match aquatic_udp_protocol::Response::parse_bytes(&b, arg == 1) { Ok(_) => "ok".to_string(), Err(_) => "err".to_string() })
        }
        "httpreq" => {
            let b = bytes.to_vec();
            let mut config = aquatic_http::config::Config::default();
            config.network.runs_behind_reverse_proxy = arg == 1;
            measure(move || match aquatic_http::verif_hooks::parse_request(&config, &b) { Ok(_) => "ok".to_string(), Err(_) => "err".to_string() })
        }
        "httpprefix" => {
            // what the request loop of a connection relies on: an accepted request is not accepted before its last
            // byte is there (no proper prefix is accepted)
            let b = bytes.to_vec();
            let mut config = aquatic_http::config::Config::default();
            config.network.runs_behind_reverse_proxy = arg == 1;
            measure(move || {
                use aquatic_http::verif_hooks::RequestParseError as E;
                match aquatic_http::verif_hooks::parse_request(&config, &b) {
                    Ok(_) => match (0..b.len()).find(|n| aquatic_http::verif_hooks::parse_request(&config, &b[..*n]).is_ok()) {
                        None => "ok stable".to_string(),
                        Some(n) => format!("ok early@{}", n),
                    },
                    Err(E::MoreDataNeeded) => "more".to_string(),
                    Err(_) => "err".to_string(),
                }
            })
        }
        "httpresp" => {
            let b = bytes.to_vec();
            measure(move || match aquatic_http_protocol::response::Response::parse_bytes(&b) { Ok(_) => "ok".to_string(), Err(_) => "err".to_string() })
        }
        "wsin" => {
            let b = bytes.to_vec();
            measure(move || {
                let msg = if arg == 1 { match String::from_utf8(b.clone()) { Ok(s) => tungstenite::Message::text(s), Err(_) => tungstenite::Message::binary(b) } } else { tungstenite::Message::binary(b) };
                match aquatic_ws_protocol::incoming::InMessage::from_ws_message(msg) { Ok(_) => "ok".to_string(), Err(_) => "err".to_string() }
            })
        }
        "wsout" => {
            let b = bytes.to_vec();
            measure(move || match aquatic_ws_protocol::outgoing::OutMessage::from_ws_message(tungstenite::Message::binary(b)) { Ok(_) => "ok".to_string(), Err(_) => "err".to_string() })
        }
        "wsguard" => {
            // the nesting guard by itself, with the limit the message parsers use
            let b = bytes.to_vec();
            measure(move || if aquatic_ws_protocol::common::json_nesting_exceeds(&b, aquatic_ws_protocol::common::MAX_JSON_NESTING) { "exceeds".to_string() } else { "within".to_string() })
        }
        "peerid" => {
            let mut a = [0u8; 20];
            for (i, x) in bytes.iter().take(20).enumerate() { a[i] = *x; }
            measure(move || {
                let p = aquatic_peer_id::PeerId(a);
                let c = p.client();
                format!("ok {}", format!("{}", c).replace(' ', "_")) + &format!(" {}", p.first_8_bytes_hex())
            })
        }
        "aclline" => {
            let s = String::from_utf8_lossy(bytes).to_string();
            measure(move || {
                let mut l = aquatic_common::access_list::AccessList::default();
                match l.insert_from_line(&s) { Ok(()) => "ok".to_string(), Err(_) => "err".to_string() }
            })
        }
        _ => (Ok("err unknown-target".to_string()), 0),
    };
    match res {
        Ok(t) => writeln!(out, "{} => {} A:{}", head, t, alloc).unwrap(),
        Err(e) => writeln!(out, "{} => PANIC {}", head, crate::panic_text(&e).replace(' ', "_")).unwrap(),
    }
}

fn mutate(r: &mut Sm, b: &[u8]) -> Vec<u8> {
    let mut v = b.to_vec();
    for _ in 0..1 + r.below(3) {
        match r.below(8) {
            0 => { let n = r.below(v.len() as u64 + 1) as usize; v.truncate(n); }
            1 => { for _ in 0..r.below(40) + 1 { v.push(r.next() as u8); } }
            2 => { if !v.is_empty() { let i = r.below(v.len() as u64) as usize; v[i] ^= 1 << r.below(8); } }
            3 => { if !v.is_empty() { let i = r.below(v.len() as u64) as usize; v[i] = r.pick(&[0u8, b'=', b'&', b'%', b'"', b'{', b'[', b'\\', 0xff, 0x80, b'\r', b'\n', b' ', b'?']); } }
            4 => { if !v.is_empty() { let i = r.below(v.len() as u64) as usize; let j = r.below(v.len() as u64) as usize; v.swap(i, j); } }
            5 => { if v.len() > 2 { let i = r.below(v.len() as u64) as usize; let n = (r.below(8) as usize).min(v.len() - i); let chunk: Vec<u8> = v[i..i + n].to_vec(); for _ in 0..r.below(6) { let at = r.below(v.len() as u64 + 1) as usize; for (k, c) in chunk.iter().enumerate() { v.insert((at + k).min(v.len()), *c); } } } }
            6 => { if !v.is_empty() { let i = r.below(v.len() as u64) as usize; v.remove(i); } }
            _ => { if !v.is_empty() { let i = r.below(v.len() as u64) as usize; v.insert(i, r.next() as u8); } }
        }
    }
    v
}

fn udp_seed(r: &mut Sm) -> Vec<u8> {
    let rq = crate::udpcodec::gen_request(r);
    let mut b = Vec::new();
    rq.write_bytes(&mut b).unwrap();
    b
}

fn udp_resp_seed(r: &mut Sm) -> Vec<u8> {
    let rs = crate::udpcodec::gen_response(r);
    let mut b = Vec::new();
    rs.write_bytes(&mut b).unwrap();
    b
}

fn http_seed(r: &mut Sm) -> Vec<u8> {
    let ih: String = (0..20).map(|_| format!("%{:02x}", r.next() as u8)).collect();
    let pid: String = (0..20).map(|_| { let c = r.pick(&[b'a', b'Z', b'0', b'-', b'_', b'.']); (c as char).to_string() }).collect();
    let extras = ["", "&numwant=-1", "&numwant=99999999999999999999", "&left=-5", "&port=0", "&port=65536", "&event=paused", "&key=%ff%fe", "&compact=1&no_peer_id=1", "&&&===", "&info_hash=short"];
    let path = if r.chance(70) {
        format!("/announce?info_hash={}&peer_id={}&port={}&uploaded=1&downloaded=2&left={}&event={}{}", ih, pid, r.pick(&[0u32, 1, 6881, 65535, 65536]), r.pick(&["0", "1", "-1", "18446744073709551616"]), r.pick(&["started", "stopped", "completed", "", "x"]), r.pick(&extras))
    } else {
        let n = r.pick(&[0usize, 1, 2, 5, 40]);
        format!("/scrape?{}", (0..n).map(|_| format!("info_hash={}", ih)).collect::<Vec<_>>().join("&"))
    };
    let hdr = r.pick(&["", "X-Forwarded-For: 1.2.3.4\r\n", "X-Forwarded-For: 1.2.3.4, ::1\r\n", "X-Forwarded-For: \r\n", "X-Forwarded-For: zzz\r\nX-Forwarded-For: 9.9.9.9\r\n"]);
    format!("GET {} HTTP/1.1\r\nHost: x\r\n{}\r\n", path, hdr).into_bytes()
}

fn http_resp_seed(r: &mut Sm) -> Vec<u8> {
    r.pick(&[
        &b"d8:completei1e10:incompletei2e8:intervali120e5:peers6:\x01\x02\x03\x04\x1a\xe16:peers60:e"[..],
        &b"d5:filesd20:aaaaaaaaaaaaaaaaaaaad8:completei1e10:downloadedi0e10:incompletei2eeee"[..],
        &b"d14:failure reason5:nopeee"[..],
        &b"d8:completei-1e10:incompletei99999999999999999999e8:intervali0e5:peers5:abcde6:peers60:e"[..],
    ]).to_vec()
}

fn ws_seed(r: &mut Sm) -> Vec<u8> {
    let ih = "aaaaaaaaaaaaaaaaaaaa";
    let a1 = r.pick(&[0usize, 19, 21, 40, 5000]);
    let a2 = r.pick(&[1usize, 10, 200, 3000]);
    let a3 = r.pick(&[1usize, 100, 1000]);
    let a4 = r.pick(&[1usize, 100, 1000]);
    let a5 = r.pick(&[1usize, 50, 600]);
    let a6 = r.pick(&[1usize, 50, 600]);
    let a7 = r.pick(&["18446744073709551616", "-0", "1e999", "0.5"]);
    let v: Vec<String> = vec![
        format!(r#"{{"action":"announce","info_hash":"{ih}","peer_id":"{ih}","left":0,"event":"started","numwant":1,"offers":[{{"offer":{{"type":"offer","sdp":"x"}},"offer_id":"{ih}"}}]}}"#),
        format!(r#"{{"action":"announce","info_hash":"{ih}","peer_id":"{ih}","answer":{{"type":"answer","sdp":"y"}},"to_peer_id":"{ih}","offer_id":"{ih}"}}"#),
        format!(r#"{{"action":"scrape","info_hash":["{ih}","{ih}"]}}"#),
        format!(r#"{{"action":"scrape","info_hash":"{ih}"}}"#),
        format!(r#"{{"action":"announce","info_hash":"{}","peer_id":"{ih}","left":-1}}"#, "é".repeat(10)),
        format!(r#"{{"action":"announce","info_hash":"{}","peer_id":"{ih}"}}"#, "a".repeat(a1)),
        "[".repeat(a2),
        format!("{}1{}", "[".repeat(a3), "]".repeat(a4)),
        format!(r#"{{"action":"announce","x":{}}}"#, "{\"a\":".repeat(a5) + "1" + &"}".repeat(a6)),
        format!(r#"{{"action":"announce","info_hash":"{ih}","peer_id":"{ih}","numwant":{}}}"#, a7),
    ];
    let i = r.below(v.len() as u64) as usize;
    v[i].clone().into_bytes()
}

fn ws_out_seed(r: &mut Sm) -> Vec<u8> {
    let ih = "aaaaaaaaaaaaaaaaaaaa";
    let v: Vec<String> = vec![
        format!(r#"{{"action":"announce","info_hash":"{ih}","complete":1,"incomplete":2,"interval":120}}"#),
        format!(r#"{{"action":"scrape","files":{{"{ih}":{{"complete":1,"incomplete":2,"downloaded":0}}}}}}"#),
        format!(r#"{{"failure reason":"x","action":"announce","info_hash":"{ih}"}}"#),
        format!(r#"{{"action":"announce","offer":{{"type":"offer","sdp":"x"}},"offer_id":"{ih}","peer_id":"{ih}","info_hash":"{ih}"}}"#),
    ];
    let i = r.below(v.len() as u64) as usize;
    v[i].clone().into_bytes()
}

/// JSON text whose nesting is hard to count: string values made of escapes, quotes and brackets, then a run
/// of nested arrays / objects around the limit of the guard or deep enough to matter for the stack
fn json_tricky(r: &mut Sm) -> Vec<u8> {
    let pieces = ["\\\\", "\\\"", "[", "{", "]", "}", "a", "\\u005c", "\\u0022", "\\\\\\\\", "\\n", " ", "é"];
    let mut t = String::from("{");
    let nstr = r.below(4) as usize;
    for k in 0..nstr {
        let mut v = String::new();
        for _ in 0..r.below(5) { v.push_str(pieces[r.below(pieces.len() as u64) as usize]); }
        // often end the string in an escaped backslash or an escaped quote
        match r.below(4) { 0 => v.push_str("\\\\"), 1 => v.push_str("\\\""), _ => {} }
        t.push_str(&format!("\"k{}\":\"{}\",", k, v));
    }
    let d = r.pick(&[1usize, 30, 31, 32, 33, 34, 40, 2000, 6000, 12000]);
    let (open, close) = if r.chance(50) { ("[", "]") } else { ("{\"a\":", "}") };
    let closed = r.chance(70);
    t.push_str("\"x\":");
    t.push_str(&open.repeat(d));
    if closed { t.push('1'); t.push_str(&close.repeat(d)); t.push('}'); }
    if r.chance(30) { t = format!("{{\"action\":\"announce\",{}", &t[1..]); }
    t.into_bytes()
}

fn pending_file() -> std::path::PathBuf {
    let mut d = std::env::current_exe().unwrap();
    d.pop();
    d.push(format!("verif-rawbytes-pending-{}", std::process::id()));
    d
}

/// one generated case; `pending`: where to record the input about to be executed (a stack overflow
/// or any other abort cannot be caught, the parent process reads this file when the child dies)
fn run_case(out: &mut impl Write, seed: u64, case: usize, pending: Option<&std::path::Path>) {
    let mut r = Sm::new(seed).fork(case as u64);
    let mut go = |out: &mut dyn Write, target: &str, arg: u64, bytes: &[u8]| {
        if let Some(p) = pending {
            let _ = std::fs::write(p, format!("{} rb {} {} {}", case, target, arg, if bytes.is_empty() { "-".to_string() } else { hex(bytes) }));
        }
        let mut buf: Vec<u8> = Vec::new();
        exec(&mut buf, target, arg, bytes);
        out.write_all(&buf).unwrap();
        out.flush().unwrap();
    };
    let target = r.pick(&["udpreq", "udpreq", "udpresp", "httpreq", "httpreq", "httpprefix", "httpresp", "wsin", "wsin", "wsout", "wsguard", "peerid", "aclline"]);
    let arg: u64 = match target { "udpreq" => r.pick(&[0u64, 1, 3, 70, 255]), _ => r.below(2) };
    let seedb: Vec<u8> = match target {
        "udpreq" => udp_seed(&mut r),
        "udpresp" => udp_resp_seed(&mut r),
        "httpreq" | "httpprefix" => http_seed(&mut r),
        "httpresp" => http_resp_seed(&mut r),
        "wsin" => if r.chance(25) { json_tricky(&mut r) } else { ws_seed(&mut r) },
        "wsout" => if r.chance(25) { json_tricky(&mut r) } else { ws_out_seed(&mut r) },
        "wsguard" => if r.chance(70) { json_tricky(&mut r) } else if r.chance(50) { ws_seed(&mut r) } else { ws_out_seed(&mut r) },
        "peerid" => { let p = r.pick(&[&b"-TR3000-"[..], &b"-qB4520-"[..], &b"M4-3-6--"[..], &b"-UT355W-"[..], &b"A2-1-20-"[..], &b"\xff\xff\xff\xff\xff\xff\xff\xff"[..], &b"--------"[..], &b"-AZ\x00\x00\x00\x00-"[..]]); let mut v = p.to_vec(); while v.len() < 20 { v.push(r.next() as u8); } v }
        _ => r.pick(&[&b"aaaaaaaaaaaaaaaaaaaaaaaaaaaaaaaaaaaaaaaa"[..], &b" 0123456789abcdef0123456789abcdef01234567  "[..], &b"0123456789abcdef0123456789abcdef0123456"[..], &b"zz23456789abcdef0123456789abcdef01234567"[..], &b""[..], &b"\xc3\xa9\xc3\xa9\xc3\xa9\xc3\xa9\xc3\xa9\xc3\xa9\xc3\xa9\xc3\xa9\xc3\xa9\xc3\xa9\xc3\xa9\xc3\xa9\xc3\xa9\xc3\xa9\xc3\xa9\xc3\xa9\xc3\xa9\xc3\xa9\xc3\xa9\xc3\xa9"[..]]).to_vec(),
    };
    // the valid (or deliberately odd) seed itself, then mutants, sometimes pure noise
    go(out, target, arg, &seedb);
    for _ in 0..3 { let m = mutate(&mut r, &seedb); go(out, target, arg, &m); }
    if case % 7 == 0 {
        let n = r.pick(&[0usize, 1, 7, 16, 98, 512, 2048, 8192]);
        let rnd: Vec<u8> = (0..n).map(|_| r.next() as u8).collect();
        go(out, target, arg, &rnd);
    }
    if case % 25 == 0 {
        for n in 0..seedb.len().min(140) { go(out, target, arg, &seedb[..n]); }
    }
    // deep nesting within the default 64 KiB WebSocket message limit
    if case % 50 == 0 && (target == "wsin" || target == "wsout") {
        let d = r.pick(&[33usize, 2000, 6000, 12000]);
        let shapes = [format!("{}1{}", "{\"a\":".repeat(d), "}".repeat(d)), format!("{{\"action\":\"announce\",\"x\":{}}}", "[".repeat(d) + &"]".repeat(d)), "[".repeat(d)];
        let i = r.below(3) as usize;
        go(out, target, arg, shapes[i].as_bytes());
    }
}

/// `aqv rawbytes --child <from> <to>`: cases from..to in this process
pub fn child(seed: u64, from: usize, to: usize, pending: &str) {
    // the trackers' worker threads are spawned with the default stack size of std threads (2 MiB)
    let pending = pending.to_string();
    let h = std::thread::Builder::new().stack_size(2 << 20).spawn(move || {
        let out = std::io::stdout();
        let mut out = out.lock();
        for case in from..to {
            run_case(&mut out, seed, case, Some(std::path::Path::new(&pending)));
        }
    }).unwrap();
    let _ = h.join();
}

pub fn run(out: &mut impl Write, seed: u64, cases: usize, replay: &str) {
    if !replay.is_empty() {
        let text = std::fs::read_to_string(replay).expect("replay file");
        for line in text.lines() {
            let inp = line.split("=>").next().unwrap_or("");
            let t: Vec<&str> = inp.split_whitespace().collect();
            if let ["rb", target, arg, h] = t.as_slice() {
                // in a child process: an abort must not take the replay down
                let pending = pending_file();
                let exe = std::env::current_exe().unwrap();
                let tmp = pending.with_extension("one");
                std::fs::write(&tmp, format!("rb {} {} {}\n", target, arg, h)).unwrap();
                let Ok(o) = std::process::Command::new(&exe).args(["rawbytes-one", tmp.to_str().unwrap()]).output() else { continue; };
                if o.status.success() { out.write_all(&o.stdout).unwrap(); }
                else { writeln!(out, "rb {} {} {} => ABORT {}", target, arg, h, format!("{}", o.status).replace(' ', "_")).unwrap(); }
                let _ = std::fs::remove_file(&tmp);
            }
        }
        return;
    }
    let exe = std::env::current_exe().unwrap();
    let pending = pending_file();
    let mut from = 0usize;
    while from < cases {
        let to = (from + 200).min(cases);
        let _ = std::fs::remove_file(&pending);
        let o = std::process::Command::new(&exe)
            .args(["rawbytes-child", &seed.to_string(), &from.to_string(), &to.to_string(), pending.to_str().unwrap()])
            .output();
        let Ok(o) = o else { std::thread::sleep(std::time::Duration::from_millis(300)); continue; };
        out.write_all(&o.stdout).unwrap();
        if o.status.success() {
            from = to;
        } else {
            // the input recorded last is the one that killed the process
            let p = std::fs::read_to_string(&pending).unwrap_or_default();
            let mut it = p.splitn(2, ' ');
            let case: usize = it.next().and_then(|v| v.parse().ok()).unwrap_or(to);
            let rest = it.next().unwrap_or("rb ? 0 -");
            writeln!(out, "{} => ABORT {}", rest, format!("{}", o.status).replace(' ', "_")).unwrap();
            from = case + 1;
        }
    }
    let _ = std::fs::remove_file(&pending);
}
