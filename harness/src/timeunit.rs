//! `ValidUntil` unit correspondence (C10): boundary and random (now, age, t) triples.
//!   vu <now> <age> <t> => <valid(t) of ValidUntil::new_with_now(now, age)>
use std::io::Write;

use aquatic_common::{SecondsSinceServerStart, ValidUntil};

use crate::rng::Sm;

pub fn run(out: &mut impl Write, seed: u64, cases: usize) {
    let mut r = Sm::new(seed);
    let b: [u64; 12] = [0, 1, 2, 59, 60, 1200, 86400, 1 << 31, (1 << 32) - 1201, (1 << 32) - 3, (1 << 32) - 2, (1 << 32) - 1];
    let mut triples: Vec<(u32, u32, u32)> = Vec::new();
    for &now in &b {
        for &age in &b {
            let d = now + age;
            for t in [d.saturating_sub(1), d, d + 1, now, 0, (1 << 32) - 1] {
                triples.push((now as u32, age as u32, t.min((1 << 32) - 1) as u32));
            }
        }
    }
    for _ in 0..cases {
        let now = if r.chance(50) { r.below(100000) } else { r.next() >> 32 } as u32;
        let age = if r.chance(50) { r.below(100000) } else { r.next() >> 32 } as u32;
        let d = now as u64 + age as u64;
        let t = match r.below(4) {
            0 => d.saturating_sub(1),
            1 => d,
            2 => d + 1,
            _ => r.next() >> 32,
        };
        triples.push((now, age, t.min((1 << 32) - 1) as u32));
    }
    for (now, age, t) in triples {
        let res = std::panic::catch_unwind(|| {
            let vu = ValidUntil::new_with_now(SecondsSinceServerStart::new_raw(now), age);
            vu.valid(SecondsSinceServerStart::new_raw(t))
        });
        match res {
            Ok(v) => writeln!(out, "vu {} {} {} => {}", now, age, t, v as u8).unwrap(),
            Err(e) => writeln!(out, "vu {} {} {} => PANIC {}", now, age, t, crate::panic_text(&e)).unwrap(),
        }
    }
}
