//! UDP operator reports (C20): the udpstore histories without access lists, with
//! `statistics.peer_clients` on and a full-scrape export at every cleaning pass; plus crash
//! injection: a child process replays a history and is aborted at the k-th probe point of its last
//! export (hook `aquatic_udp::swarm::verif_hooks`), the parent then reads the export path.
//!
//! Lines: as udpstore (`ann`, `scr`, `cln`), the `cln` output ends in `X:<export file, sorted>`;
//!   crash <k> <path kind> => <file content after the crash | ! if absent>
//! `path kind`: plain (export.txt) | tmpext (export.tmp, whose `with_extension("tmp")` is itself)
use std::io::Write;
use std::path::PathBuf;
use std::process::Command;

use crate::rng::Sm;
use crate::store::{gen_history, Backend, Exec, Op};

fn scratch() -> PathBuf {
    let mut d = std::env::current_exe().unwrap();
    d.pop();
    d.push(format!("verif-export-{}", std::process::id()));
    let _ = std::fs::create_dir_all(&d);
    d
}

fn stats_history(r: &mut Sm, maxops: usize) -> Vec<Op> {
    let mut ops = gen_history(r, maxops, false);
    for op in ops.iter_mut() {
        if let Op::Cln { mode, list, .. } = op {
            *mode = "off".into();
            list.clear();
        }
    }
    // end with a cleaning pass so that the reports are compared at least once
    let last_now = ops.iter().filter_map(|o| if let Op::Cln { now, .. } = o { Some(*now) } else { None }).max().unwrap_or(0);
    ops.push(Op::Cln { now: last_now + r.below(4) as u32, mode: "off".into(), list: vec![] });
    ops
}

fn run_history(out: &mut impl Write, ops: &[Op], seed: u64, path: &PathBuf) {
    let _ = std::fs::remove_file(path);
    let mut ex = Exec::new(seed);
    ex.export_path = Some(path.clone());
    for op in ops {
        let r = std::panic::catch_unwind(std::panic::AssertUnwindSafe(|| ex.exec(op)));
        match r {
            Ok(o) if o.is_empty() => writeln!(out, "{}", op.text()).unwrap(),
            Ok(o) => writeln!(out, "{} => {}", op.text(), o).unwrap(),
            Err(e) => {
                writeln!(out, "{} => PANIC {}", op.text(), crate::panic_text(&e)).unwrap();
                return;
            }
        }
    }
}

/// child: replay `file`, abort at probe `k` of the last cleaning pass
pub fn child(file: &str, k: usize, path: &str) {
    let text = std::fs::read_to_string(file).expect("history file");
    let ops: Vec<Op> = text.lines().filter_map(Op::parse).collect();
    let last_cln = ops.iter().rposition(|o| matches!(o, Op::Cln { .. })).unwrap_or(usize::MAX);
    let mut ex = Exec::new(1);
    ex.export_path = Some(PathBuf::from(path));
    for (i, op) in ops.iter().enumerate() {
        if i == last_cln {
            aquatic_udp::swarm::verif_hooks::EXPORT_PROBES.store(0, std::sync::atomic::Ordering::SeqCst);
            aquatic_udp::swarm::verif_hooks::EXPORT_ABORT_AT.store(k, std::sync::atomic::Ordering::SeqCst);
        }
        let _ = ex.exec(op);
    }
    // reached only when k is beyond the last probe point
    println!("probes {}", aquatic_udp::swarm::verif_hooks::EXPORT_PROBES.load(std::sync::atomic::Ordering::SeqCst));
}

fn crash_cases(out: &mut impl Write, ops: &[Op], dir: &PathBuf, kind: &str) {
    let hist = dir.join("history.txt");
    std::fs::write(&hist, ops.iter().map(|o| o.text()).collect::<Vec<_>>().join("\n")).unwrap();
    let path = dir.join(if kind == "tmpext" { "export.tmp" } else { "export.txt" });
    let exe = std::env::current_exe().unwrap();
    let run = |k: usize| -> (String, Option<usize>) {
        let _ = std::fs::remove_file(&path);
        let _ = std::fs::remove_file(path.with_extension("tmp"));
        let mut t = path.clone().into_os_string();
        t.push(".tmp");
        let _ = std::fs::remove_file(std::path::PathBuf::from(t));
        // a loaded machine may refuse a spawn now and then: retry before giving up on this probe point
        let mut o = None;
        for _ in 0..5 {
            match Command::new(&exe).args(["exportchild", hist.to_str().unwrap(), &k.to_string(), path.to_str().unwrap()]).output() {
                Ok(x) => { o = Some(x); break; }
                Err(_) => std::thread::sleep(std::time::Duration::from_millis(200)),
            }
        }
        let Some(o) = o else { return ("?".to_string(), None); };
        let probes = String::from_utf8_lossy(&o.stdout).lines().find_map(|l| l.strip_prefix("probes ").and_then(|v| v.parse().ok()));
        (Exec::read_export(&path), probes)
    };
    // no abort: learn the number of probe points of the last export
    let (_, probes) = run(0);
    // (no child, no observation: nothing is printed for this history)
    let Some(n) = probes else { return; };
    for k in 1..=n {
        let (content, _) = run(k);
        if content != "?" { writeln!(out, "crash {} {} {} => {}", k, n, kind, content).unwrap(); }
    }
}

/// the real statistics worker thread, fed with the messages of a history; what its HTML page lists
/// as peer clients afterwards.  `statsw <msgs> <id=client,…> => <client=count;…>`
fn stats_worker_case(out: &mut impl Write, msgs: &[String], dir: &PathBuf) {
    use aquatic_udp::common::{State, Statistics, StatisticsMessage};
    use aquatic_udp_protocol::PeerId;
    // one page per worker: the worker threads of earlier cases keep running (and writing) until the process ends
    static PAGE: std::sync::atomic::AtomicUsize = std::sync::atomic::AtomicUsize::new(0);
    let html = dir.join(format!("statistics-{}.html", PAGE.fetch_add(1, std::sync::atomic::Ordering::SeqCst)));
    let _ = std::fs::remove_file(&html);
    let mut config = aquatic_udp::config::Config::default();
    config.statistics.interval = 1;
    config.statistics.write_html_to_file = true;
    config.statistics.html_file_path = html.clone();
    config.statistics.torrent_peer_histograms = true;
    config.statistics.peer_clients = true;
    let (tx, rx) = crossbeam_channel::unbounded();
    let statistics = Statistics::new(&config);
    let cfg2 = config.clone();
    if std::thread::Builder::new().spawn(move || { let _ = aquatic_udp::workers::statistics::run_statistics_worker(cfg2, State::default(), statistics, rx); }).is_err() { return; }
    let mut names: Vec<String> = Vec::new();
    for m in msgs {
        let id = crate::store::arr20(&crate::store::unhex(&m[1..]));
        let n = format!("{}={}", &m[1..], format!("{}", aquatic_peer_id::PeerId(id).client()).replace(' ', "_"));
        if !names.contains(&n) { names.push(n); }
        let msg = if m.starts_with('+') { StatisticsMessage::PeerAdded(PeerId(id)) } else { StatisticsMessage::PeerRemoved(PeerId(id)) };
        let _ = tx.send(msg);
    }
    // the worker writes its page once per second; on a loaded machine wait for it (and one more round)
    std::thread::sleep(std::time::Duration::from_millis(2300));
    let t0 = std::time::Instant::now();
    while !html.exists() && t0.elapsed() < std::time::Duration::from_secs(8) { std::thread::sleep(std::time::Duration::from_millis(200)); }
    if t0.elapsed() > std::time::Duration::from_millis(100) { std::thread::sleep(std::time::Duration::from_millis(1300)); }
    let page = std::fs::read_to_string(&html).unwrap_or_default();
    if page.is_empty() { drop(tx); return; }   // no observation: nothing to compare
    // rows of the "Peer clients" table
    let mut rows: Vec<String> = Vec::new();
    if let Some(i) = page.find("Peer clients") {
        let t = &page[i..];
        let cells: Vec<&str> = t.split("<td>").skip(1).map(|c| c.split("</td>").next().unwrap_or("").trim()).collect();
        for pair in cells.chunks(2) {
            if pair.len() == 2 { rows.push(format!("{}={}", pair[0].replace(' ', "_"), pair[1].replace(',', ""))); }
        }
    }
    rows.sort();
    writeln!(out, "statsw {} {} => {}", if msgs.is_empty() { "-".to_string() } else { msgs.join(";") }, if names.is_empty() { "-".to_string() } else { names.join(",") },
        if page.is_empty() { "NOPAGE".to_string() } else if rows.is_empty() { "-".to_string() } else { rows.join(";") }).unwrap();
    drop(tx);
}

pub fn run(out: &mut impl Write, seed: u64, cases: usize, maxops: usize, replay: &str) {
    let dir = scratch();
    let path = dir.join("export.txt");
    if !replay.is_empty() {
        let text = std::fs::read_to_string(replay).expect("replay file");
        let ops: Vec<Op> = text.lines().filter_map(Op::parse).collect();
        run_history(out, &ops, seed, &path);
        if text.lines().any(|l| l.starts_with("crash ")) {
            let kind = if text.lines().any(|l| l.starts_with("crash ") && l.contains(" tmpext")) { "tmpext" } else { "plain" };
            crash_cases(out, &ops, &dir, kind);
        }
        let _ = std::fs::remove_dir_all(&dir);
        return;
    }
    let mut master = Sm::new(seed);
    for case in 0..cases {
        let mut r = master.fork(case as u64);
        let ops = stats_history(&mut r, maxops);
        run_history(out, &ops, seed ^ case as u64, &path);
        // the real statistics worker on the messages of every 25th history
        if case % 25 == 3 {
            let mut buf: Vec<u8> = Vec::new();
            run_history(&mut buf, &ops, seed ^ case as u64, &path);
            let text = String::from_utf8_lossy(&buf).to_string();
            let mut msgs: Vec<String> = Vec::new();
            for l in text.lines() {
                let o = l.split("=>").nth(1).unwrap_or("");
                for tok in o.split_whitespace() {
                    for m in tok.split(';') {
                        if (m.starts_with('+') || m.starts_with('-')) && m.len() == 41 { msgs.push(m.to_string()); }
                    }
                }
            }
            stats_worker_case(out, &msgs, &dir);
        }
        // crash injection on every 10th history (a child process per probe point)
        if case % 10 == 9 {
            let kind = if (case / 10) % 2 == 0 { "plain" } else { "tmpext" };
            crash_cases(out, &ops, &dir, kind);
        }
    }
    let _ = std::fs::remove_dir_all(&dir);
}
