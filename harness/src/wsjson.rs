//! WebTorrent JSON codec (C15): the real `InMessage` / `OutMessage` `to_ws_message` /
//! `from_ws_message` (serde_json writer, simd-json reader) and the 20-byte identifier serde.
//!
//!   id20 <hex utf8 of a string>   => ok <hex20> | err        InfoHash from the JSON string
//!   ser20 <hex20>                 => <hex utf8 of the JSON string produced>
//!   in  <J>      => ok <inmsg> | err     InMessage::from_ws_message(Text(json)); Binary must agree
//!   ins <inmsg>  => <J>                  InMessage::to_ws_message
//!   out <J>      => ok <outmsg> | err    OutMessage::from_ws_message
//!   outs <outmsg> => <J>                 OutMessage::to_ws_message
//! J (prefix code, comma separated): n | t | f | i<digits> | x | s<hex|-> | a<k>,e1,…,ek | o<k>,s<key>,v1,…
use std::io::Write;

use aquatic_ws_protocol::common::*;
use aquatic_ws_protocol::incoming::*;
use aquatic_ws_protocol::outgoing::*;
use tungstenite::Message;

use crate::rng::Sm;
use crate::store::{arr20, hex, unhex};

#[derive(Clone, Debug)]
pub enum Jv {
    Null,
    Bool(bool),
    Num(u64),
    Other(String), // a number literal that is not a u64
    Str(String),
    Arr(Vec<Jv>),
    Obj(Vec<(String, Jv)>),
}

fn hs(s: &str) -> String {
    if s.is_empty() { "-".into() } else { hex(s.as_bytes()) }
}

impl Jv {
    pub fn text(&self) -> String {
        match self {
            Jv::Null => "null".into(),
            Jv::Bool(b) => b.to_string(),
            Jv::Num(n) => n.to_string(),
            Jv::Other(s) => s.clone(),
            Jv::Str(s) => serde_json::to_string(s).unwrap(),
            Jv::Arr(l) => format!("[{}]", l.iter().map(|x| x.text()).collect::<Vec<_>>().join(",")),
            Jv::Obj(kv) => format!("{{{}}}", kv.iter().map(|(k, v)| format!("{}:{}", serde_json::to_string(k).unwrap(), v.text())).collect::<Vec<_>>().join(",")),
        }
    }
    pub fn canon(&self, out: &mut Vec<String>) {
        match self {
            Jv::Null => out.push("n".into()),
            Jv::Bool(true) => out.push("t".into()),
            Jv::Bool(false) => out.push("f".into()),
            Jv::Num(n) => out.push(format!("i{}", n)),
            Jv::Other(_) => out.push("x".into()),
            Jv::Str(s) => out.push(format!("s{}", hs(s))),
            Jv::Arr(l) => { out.push(format!("a{}", l.len())); for x in l { x.canon(out); } }
            Jv::Obj(kv) => { out.push(format!("o{}", kv.len())); for (k, v) in kv { out.push(format!("s{}", hs(k))); v.canon(out); } }
        }
    }
    pub fn canon_text(&self) -> String {
        let mut v = Vec::new();
        self.canon(&mut v);
        v.join(",")
    }
    pub fn parse_canon(t: &mut std::slice::Iter<&str>) -> Option<Jv> {
        let tok = t.next()?;
        let (c, rest) = tok.split_at(1);
        Some(match c {
            "n" => Jv::Null,
            "t" => Jv::Bool(true),
            "f" => Jv::Bool(false),
            "i" => Jv::Num(rest.parse().ok()?),
            "x" => Jv::Other("-1.5".into()),
            "s" => Jv::Str(String::from_utf8(unhex(rest)).ok()?),
            "a" => { let k: usize = rest.parse().ok()?; let mut l = Vec::new(); for _ in 0..k { l.push(Jv::parse_canon(t)?); } Jv::Arr(l) }
            "o" => {
                let k: usize = rest.parse().ok()?;
                let mut kv = Vec::new();
                for _ in 0..k {
                    let key = match Jv::parse_canon(t)? { Jv::Str(s) => s, _ => return None };
                    kv.push((key, Jv::parse_canon(t)?));
                }
                Jv::Obj(kv)
            }
            _ => return None,
        })
    }
}

// order- and duplicate-preserving reader of the JSON text the real writer produced
impl<'de> serde::Deserialize<'de> for Jv {
    fn deserialize<D: serde::Deserializer<'de>>(d: D) -> Result<Self, D::Error> {
        struct V;
        impl<'de> serde::de::Visitor<'de> for V {
            type Value = Jv;
            fn expecting(&self, f: &mut std::fmt::Formatter) -> std::fmt::Result { f.write_str("json") }
            fn visit_unit<E>(self) -> Result<Jv, E> { Ok(Jv::Null) }
            fn visit_bool<E>(self, b: bool) -> Result<Jv, E> { Ok(Jv::Bool(b)) }
            fn visit_u64<E>(self, n: u64) -> Result<Jv, E> { Ok(Jv::Num(n)) }
            fn visit_i64<E>(self, n: i64) -> Result<Jv, E> { if n >= 0 { Ok(Jv::Num(n as u64)) } else { Ok(Jv::Other(n.to_string())) } }
            fn visit_f64<E>(self, n: f64) -> Result<Jv, E> { Ok(Jv::Other(n.to_string())) }
            fn visit_str<E>(self, s: &str) -> Result<Jv, E> { Ok(Jv::Str(s.to_string())) }
            fn visit_string<E>(self, s: String) -> Result<Jv, E> { Ok(Jv::Str(s)) }
            fn visit_seq<A: serde::de::SeqAccess<'de>>(self, mut a: A) -> Result<Jv, A::Error> {
                let mut l = Vec::new();
                while let Some(x) = a.next_element()? { l.push(x); }
                Ok(Jv::Arr(l))
            }
            fn visit_map<A: serde::de::MapAccess<'de>>(self, mut a: A) -> Result<Jv, A::Error> {
                let mut kv = Vec::new();
                while let Some((k, v)) = a.next_entry::<String, Jv>()? { kv.push((k, v)); }
                Ok(Jv::Obj(kv))
            }
        }
        d.deserialize_any(V)
    }
}

fn id_hex(b: &[u8; 20]) -> String { hex(b) }
fn sdp_hex(s: &str) -> String { if s.is_empty() { "~".into() } else { hex(s.as_bytes()) } }
fn sdp_unhex(s: &str) -> String { if s == "~" { String::new() } else { String::from_utf8(unhex(s)).unwrap_or_default() } }

pub fn in_text(m: &InMessage) -> String {
    match m {
        InMessage::AnnounceRequest(a) => {
            let offers = match &a.offers {
                None => "-".to_string(),
                Some(l) => format!("{}{}", l.len(), l.iter().map(|o| format!("/{}:{}", id_hex(&o.offer_id.0), sdp_hex(&o.offer.sdp))).collect::<String>()),
            };
            format!(
                "A|{}|{}|{}|{}|{}|{}|{}|{}|{}",
                id_hex(&a.info_hash.0), id_hex(&a.peer_id.0),
                a.bytes_left.map(|n| n.to_string()).unwrap_or("-".into()),
                a.event.map(|e| match e { AnnounceEvent::Started => "started", AnnounceEvent::Stopped => "stopped", AnnounceEvent::Completed => "completed", AnnounceEvent::Update => "update" }.to_string()).unwrap_or("-".into()),
                offers,
                a.numwant.map(|n| n.to_string()).unwrap_or("-".into()),
                a.answer.as_ref().map(|x| sdp_hex(&x.sdp)).unwrap_or("-".into()),
                a.answer_to_peer_id.map(|p| id_hex(&p.0)).unwrap_or("-".into()),
                a.answer_offer_id.map(|p| id_hex(&p.0)).unwrap_or("-".into()),
            )
        }
        InMessage::ScrapeRequest(s) => match &s.info_hashes {
            None => "S|-".into(),
            Some(ScrapeRequestInfoHashes::Single(h)) => format!("S|1/{}", id_hex(&h.0)),
            Some(ScrapeRequestInfoHashes::Multiple(hs)) => format!("S|m{}", hs.iter().map(|h| format!("/{}", id_hex(&h.0))).collect::<String>()),
        },
    }
}

fn in_of(s: &str) -> Option<InMessage> {
    let p: Vec<&str> = s.split('|').collect();
    match p.as_slice() {
        ["A", ih, pid, left, ev, offers, nw, ans, to, oid] => Some(InMessage::AnnounceRequest(AnnounceRequest {
            action: AnnounceAction::Announce,
            info_hash: InfoHash(arr20(&unhex(ih))),
            peer_id: PeerId(arr20(&unhex(pid))),
            bytes_left: left.parse().ok(),
            event: match *ev { "started" => Some(AnnounceEvent::Started), "stopped" => Some(AnnounceEvent::Stopped), "completed" => Some(AnnounceEvent::Completed), "update" => Some(AnnounceEvent::Update), _ => None },
            offers: if *offers == "-" { None } else {
                Some(offers.split('/').skip(1).map(|o| { let (i, s) = o.split_once(':').unwrap(); AnnounceRequestOffer { offer: RtcOffer { t: RtcOfferType::Offer, sdp: sdp_unhex(s) }, offer_id: OfferId(arr20(&unhex(i))) } }).collect())
            },
            numwant: nw.parse().ok(),
            answer: if *ans == "-" { None } else { Some(RtcAnswer { t: RtcAnswerType::Answer, sdp: sdp_unhex(ans) }) },
            answer_to_peer_id: if *to == "-" { None } else { Some(PeerId(arr20(&unhex(to)))) },
            answer_offer_id: if *oid == "-" { None } else { Some(OfferId(arr20(&unhex(oid)))) },
        })),
        ["S", h] => Some(InMessage::ScrapeRequest(ScrapeRequest {
            action: ScrapeAction::Scrape,
            info_hashes: if *h == "-" { None } else if let Some(x) = h.strip_prefix("1/") { Some(ScrapeRequestInfoHashes::Single(InfoHash(arr20(&unhex(x))))) } else { Some(ScrapeRequestInfoHashes::Multiple(h.split('/').skip(1).map(|x| InfoHash(arr20(&unhex(x)))).collect())) },
        })),
        _ => None,
    }
}

pub fn out_text(m: &OutMessage) -> String {
    match m {
        OutMessage::OfferOutMessage(o) => format!("OF|{}|{}|{}|{}", id_hex(&o.peer_id.0), id_hex(&o.info_hash.0), sdp_hex(&o.offer.sdp), id_hex(&o.offer_id.0)),
        OutMessage::AnswerOutMessage(o) => format!("AN|{}|{}|{}|{}", id_hex(&o.peer_id.0), id_hex(&o.info_hash.0), sdp_hex(&o.answer.sdp), id_hex(&o.offer_id.0)),
        OutMessage::AnnounceResponse(r) => format!("AR|{}|{}|{}|{}", id_hex(&r.info_hash.0), r.complete, r.incomplete, r.announce_interval),
        OutMessage::ScrapeResponse(r) => {
            let mut v: Vec<String> = r.files.iter().map(|(h, s)| format!("{}={}:{}:{}", id_hex(&h.0), s.complete, s.incomplete, s.downloaded)).collect();
            v.sort();
            format!("SR|{}", v.join("/"))
        }
        OutMessage::ErrorResponse(e) => format!(
            "ER|{}|{}|{}",
            sdp_hex(&e.failure_reason),
            match e.action { None => "-", Some(ErrorResponseAction::Announce) => "announce", Some(ErrorResponseAction::Scrape) => "scrape" },
            e.info_hash.map(|h| id_hex(&h.0)).unwrap_or("-".into())
        ),
    }
}

fn out_of(s: &str) -> Option<OutMessage> {
    let p: Vec<&str> = s.split('|').collect();
    match p.as_slice() {
        ["OF", pid, ih, sdp, oid] => Some(OutMessage::OfferOutMessage(OfferOutMessage { action: AnnounceAction::Announce, peer_id: PeerId(arr20(&unhex(pid))), info_hash: InfoHash(arr20(&unhex(ih))), offer: RtcOffer { t: RtcOfferType::Offer, sdp: sdp_unhex(sdp) }, offer_id: OfferId(arr20(&unhex(oid))) })),
        ["AN", pid, ih, sdp, oid] => Some(OutMessage::AnswerOutMessage(AnswerOutMessage { action: AnnounceAction::Announce, peer_id: PeerId(arr20(&unhex(pid))), info_hash: InfoHash(arr20(&unhex(ih))), answer: RtcAnswer { t: RtcAnswerType::Answer, sdp: sdp_unhex(sdp) }, offer_id: OfferId(arr20(&unhex(oid))) })),
        ["AR", ih, c, i, n] => Some(OutMessage::AnnounceResponse(AnnounceResponse { action: AnnounceAction::Announce, info_hash: InfoHash(arr20(&unhex(ih))), complete: c.parse().ok()?, incomplete: i.parse().ok()?, announce_interval: n.parse().ok()? })),
        ["SR", files] => {
            let mut m = hashbrown::HashMap::new();
            if !files.is_empty() {
                for f in files.split('/') {
                    let (h, st) = f.split_once('=')?;
                    let v: Vec<usize> = st.split(':').map(|x| x.parse().unwrap_or(0)).collect();
                    m.insert(InfoHash(arr20(&unhex(h))), ScrapeStatistics { complete: v[0], incomplete: v[1], downloaded: v[2] });
                }
            }
            Some(OutMessage::ScrapeResponse(ScrapeResponse { action: ScrapeAction::Scrape, files: m }))
        }
        ["ER", reason, action, ih] => Some(OutMessage::ErrorResponse(ErrorResponse {
            failure_reason: sdp_unhex(reason).into(),
            action: match *action { "announce" => Some(ErrorResponseAction::Announce), "scrape" => Some(ErrorResponseAction::Scrape), _ => None },
            info_hash: if *ih == "-" { None } else { Some(InfoHash(arr20(&unhex(ih)))) },
        })),
        _ => None,
    }
}

fn ws_text(m: Message) -> String {
    match m { Message::Text(t) => t.as_str().to_string(), _ => String::new() }
}

fn line(out: &mut impl Write, t: &[&str]) {
    match t {
        ["id20", h] => {
            let s = String::from_utf8(unhex(h)).unwrap_or_default();
            let mut json = serde_json::to_string(&s).unwrap().into_bytes();
            let r = std::panic::catch_unwind(move || simd_json::serde::from_slice::<InfoHash>(&mut json));
            let txt = match r { Ok(Ok(x)) => format!("ok {}", hex(&x.0)), Ok(Err(_)) => "err".to_string(), Err(e) => format!("PANIC {}", crate::panic_text(&e)) };
            writeln!(out, "id20 {} => {}", h, txt).unwrap();
        }
        ["ser20", h] => {
            let json = serde_json::to_string(&InfoHash(arr20(&unhex(h)))).unwrap();
            let s: String = serde_json::from_str(&json).unwrap();
            writeln!(out, "ser20 {} => {}", h, hs(&s)).unwrap();
        }
        ["in", j] => {
            let toks: Vec<&str> = j.split(',').collect();
            if let Some(v) = Jv::parse_canon(&mut toks.iter()) {
                let text = v.text();
                let t2 = text.clone();
                let r = std::panic::catch_unwind(move || (InMessage::from_ws_message(Message::text(text.clone())), InMessage::from_ws_message(Message::binary(text.into_bytes()))));
                let txt = match r {
                    Ok((a, b)) => {
                        let ta = a.map(|m| format!("ok {}", in_text(&m))).unwrap_or("err".into());
                        let tb = b.map(|m| format!("ok {}", in_text(&m))).unwrap_or("err".into());
                        if ta == tb { ta } else { format!("TEXT-BINARY-DIFFER {} {}", ta, tb) }
                    }
                    Err(e) => format!("PANIC {}", crate::panic_text(&e)),
                };
                let _ = t2;
                writeln!(out, "in {} => {}", j, txt).unwrap();
            }
        }
        ["ins", m] => if let Some(msg) = in_of(m) {
            let text = ws_text(msg.to_ws_message());
            let v: Jv = serde_json::from_str(&text).unwrap();
            writeln!(out, "ins {} => {}", m, v.canon_text()).unwrap();
        },
        ["out", j] => {
            let toks: Vec<&str> = j.split(',').collect();
            if let Some(v) = Jv::parse_canon(&mut toks.iter()) {
                let text = v.text();
                let r = std::panic::catch_unwind(move || (OutMessage::from_ws_message(Message::text(text.clone())), OutMessage::from_ws_message(Message::binary(text.into_bytes()))));
                let txt = match r {
                    Ok((a, b)) => {
                        let ta = a.map(|m| format!("ok {}", out_text(&m))).unwrap_or("err".into());
                        let tb = b.map(|m| format!("ok {}", out_text(&m))).unwrap_or("err".into());
                        if ta == tb { ta } else { format!("TEXT-BINARY-DIFFER {} {}", ta, tb) }
                    }
                    Err(e) => format!("PANIC {}", crate::panic_text(&e)),
                };
                writeln!(out, "out {} => {}", j, txt).unwrap();
            }
        }
        ["outs", m] => if let Some(msg) = out_of(m) {
            let text = ws_text(msg.to_ws_message());
            let v: Jv = serde_json::from_str(&text).unwrap();
            writeln!(out, "outs {} => {}", m, v.canon_text()).unwrap();
        },
        _ => {}
    }
}

fn id(r: &mut Sm) -> [u8; 20] {
    let mut a = [0u8; 20];
    match r.below(9) {
        0 => {}
        1 => a = [0xff; 20],
        // bytes that are JSON structure when they stand outside a string: brackets, braces, quotes, backslashes
        5 => a = [0x5b; 20],
        6 => a = [0x7b; 20],
        7 => { for x in a.iter_mut() { *x = r.next() as u8; } a[19] = 0x5c; }
        8 => { for (i, x) in a.iter_mut().enumerate() { *x = if i % 2 == 0 { 0x5d } else { 0x7d }; } a[19] = 0x5c; }
        2 => { for (i, x) in a.iter_mut().enumerate() { *x = (i * 13) as u8; } }
        3 => { for x in a.iter_mut() { *x = r.pick(&[0x22u8, 0x5c, 0x7f, 0x80, 0xc3, 0xe9, 0x0a, 0x00, 0x41]); } }
        _ => { for x in a.iter_mut() { *x = r.next() as u8; } }
    }
    a
}

fn sdp(r: &mut Sm) -> String {
    r.pick(&["", "v=0", "a \"quoted\" \\ back\\slash", "line1\r\nline2\ttab\u{0}\u{1f}", "é ü — ☃ 𝕊 😀", "{\"not\":\"json\"}", "x",
        "ends in a backslash\\", "[[[[[[[[[[[[[[[[[[[[[[[[[[[[[[[[[[[[[[[[{{{{{{{{{{", "}}}}]]]]\"\\", "\\\\"]).to_string()
}

fn gen_in(r: &mut Sm) -> InMessage {
    if r.chance(70) {
        let with_offers = r.chance(50);
        let with_answer = r.chance(30);
        InMessage::AnnounceRequest(AnnounceRequest {
            action: AnnounceAction::Announce,
            info_hash: InfoHash(id(r)),
            peer_id: PeerId(id(r)),
            bytes_left: r.pick(&[None, Some(0usize), Some(1), Some(usize::MAX)]),
            event: r.pick(&[None, Some(AnnounceEvent::Started), Some(AnnounceEvent::Stopped), Some(AnnounceEvent::Completed), Some(AnnounceEvent::Update)]),
            offers: if with_offers { Some((0..r.below(4)).map(|_| AnnounceRequestOffer { offer: RtcOffer { t: RtcOfferType::Offer, sdp: sdp(r) }, offer_id: OfferId(id(r)) }).collect()) } else { None },
            numwant: r.pick(&[None, Some(0usize), Some(10)]),
            answer: if with_answer { Some(RtcAnswer { t: RtcAnswerType::Answer, sdp: sdp(r) }) } else { None },
            answer_to_peer_id: if with_answer || r.chance(10) { Some(PeerId(id(r))) } else { None },
            answer_offer_id: if with_answer || r.chance(10) { Some(OfferId(id(r))) } else { None },
        })
    } else {
        InMessage::ScrapeRequest(ScrapeRequest {
            action: ScrapeAction::Scrape,
            info_hashes: match r.below(4) { 0 => None, 1 => Some(ScrapeRequestInfoHashes::Single(InfoHash(id(r)))), _ => Some(ScrapeRequestInfoHashes::Multiple((0..r.below(4)).map(|_| InfoHash(id(r))).collect())) },
        })
    }
}

fn gen_out(r: &mut Sm) -> OutMessage {
    match r.below(5) {
        0 => OutMessage::OfferOutMessage(OfferOutMessage { action: AnnounceAction::Announce, peer_id: PeerId(id(r)), info_hash: InfoHash(id(r)), offer: RtcOffer { t: RtcOfferType::Offer, sdp: sdp(r) }, offer_id: OfferId(id(r)) }),
        1 => OutMessage::AnswerOutMessage(AnswerOutMessage { action: AnnounceAction::Announce, peer_id: PeerId(id(r)), info_hash: InfoHash(id(r)), answer: RtcAnswer { t: RtcAnswerType::Answer, sdp: sdp(r) }, offer_id: OfferId(id(r)) }),
        2 => OutMessage::AnnounceResponse(AnnounceResponse { action: AnnounceAction::Announce, info_hash: InfoHash(id(r)), complete: r.pick(&[0usize, 1, usize::MAX]), incomplete: r.pick(&[0usize, 7]), announce_interval: 120 }),
        3 => {
            let mut m = hashbrown::HashMap::new();
            for _ in 0..r.below(4) { m.insert(InfoHash(id(r)), ScrapeStatistics { complete: r.below(5) as usize, incomplete: r.below(5) as usize, downloaded: 0 }); }
            OutMessage::ScrapeResponse(ScrapeResponse { action: ScrapeAction::Scrape, files: m })
        }
        _ => OutMessage::ErrorResponse(ErrorResponse {
            failure_reason: r.pick(&["Info hash not allowed", "", "é \"x\""]).to_string().into(),
            action: r.pick_ref(&[None, Some(ErrorResponseAction::Announce), Some(ErrorResponseAction::Scrape)]),
            info_hash: if r.chance(50) { Some(InfoHash(id(r))) } else { None },
        }),
    }
}

/// structure-aware mutation of a JSON value
fn mutate(r: &mut Sm, v: &Jv) -> Jv {
    let mut v = v.clone();
    if let Jv::Obj(kv) = &mut v {
        match r.below(9) {
            0 => { if !kv.is_empty() { let i = r.below(kv.len() as u64) as usize; kv.remove(i); } }                       // drop a field
            1 => { if !kv.is_empty() { let i = r.below(kv.len() as u64) as usize; let e = kv[i].clone(); kv.push(e); } } // duplicate a key
            2 => { if !kv.is_empty() { let i = r.below(kv.len() as u64) as usize; kv[i].1 = Jv::Null; } }                 // null a field
            3 => { kv.push(("unknown_key".into(), Jv::Arr(vec![Jv::Num(1), Jv::Obj(vec![])]))); }                          // unknown key
            4 => { for e in kv.iter_mut() { if e.0 == "action" { e.1 = Jv::Str(r.pick(&["scrape", "announce", "Announce", ""]).to_string()); } } }
            5 => { for e in kv.iter_mut() { if let Jv::Str(s) = &mut e.1 { if s.chars().count() == 20 && r.chance(50) { match r.below(4) { 0 => { s.pop(); } 1 => s.push('a'), 2 => { s.pop(); s.push('\u{100}'); } _ => { s.pop(); s.push('😀'); } } } } } } // wrong id
            6 => { kv.reverse(); }                                                                                        // key order
            7 => { if !kv.is_empty() { let i = r.below(kv.len() as u64) as usize; kv[i].1 = r.pick_ref(&[Jv::Num(5), Jv::Other("-1".into()), Jv::Other("1.5".into()), Jv::Str("x".into()), Jv::Bool(true), Jv::Arr(vec![]), Jv::Obj(vec![])]); } }
            _ => { if !kv.is_empty() { let i = r.below(kv.len() as u64) as usize; let m = mutate(r, &kv[i].1.clone()); kv[i].1 = m; } }      // recurse
        }
    } else if let Jv::Arr(l) = &mut v {
        if !l.is_empty() { let i = r.below(l.len() as u64) as usize; let m = mutate(r, &l[i].clone()); l[i] = m; }
    }
    v
}

pub fn run(out: &mut impl Write, seed: u64, cases: usize, replay: &str) {
    if !replay.is_empty() {
        let text = std::fs::read_to_string(replay).expect("replay file");
        for l in text.lines() {
            let inp = l.split("=>").next().unwrap_or("");
            let t: Vec<&str> = inp.split_whitespace().collect();
            line(out, &t);
        }
        return;
    }
    let mut r = Sm::new(seed);
    // identifier strings of every length 0..40 and with characters above U+00FF
    for n in 0..=40usize {
        let s: String = (0..n).map(|i| char::from(b'a' + (i % 26) as u8)).collect();
        line(out, &["id20", &hs(&s)]);
        let s2: String = (0..n).map(|i| char::from_u32(0x80 + (i as u32 * 3) % 0x80).unwrap()).collect();
        line(out, &["id20", &hs(&s2)]);
    }
    for bad in ["aaaaaaaaaaaaaaaaaaa\u{100}", "aaaaaaaaaaaaaaaaaaa𝕊", "\u{100}aaaaaaaaaaaaaaaaaaa", "aaaaaaaaaaaaaaaaaaaa\u{0}", "\u{0}\u{1}\u{2}\u{3}\u{4}\u{5}\u{6}\u{7}\u{8}\u{9}\u{a}\u{b}\u{c}\u{d}\u{e}\u{f}\u{10}\u{11}\u{12}\u{13}", "\"\\\"\\\"\\\"\\\"\\\"\\\"\\\"\\\"\\\"\\"] {
        line(out, &["id20", &hs(bad)]);
    }
    for _ in 0..cases {
        line(out, &["ser20", &hex(&id(&mut r))]);
        let m = gen_in(&mut r);
        let mt = in_text(&m);
        line(out, &["ins", &mt]);
        let v: Jv = serde_json::from_str(&ws_text(m.to_ws_message())).unwrap();
        line(out, &["in", &v.canon_text()]);
        for _ in 0..2 { line(out, &["in", &mutate(&mut r, &v).canon_text()]); }
        let m = gen_out(&mut r);
        line(out, &["outs", &out_text(&m)]);
        let v: Jv = serde_json::from_str(&ws_text(m.to_ws_message())).unwrap();
        line(out, &["out", &v.canon_text()]);
        for _ in 0..2 { line(out, &["out", &mutate(&mut r, &v).canon_text()]); }
    }
    for weird in ["n", "i5", "a0", "s-", "o0", "t"] {
        line(out, &["in", weird]);
        line(out, &["out", weird]);
    }
}
