//! UDP wire codec (C13, C12): the real `aquatic_udp_protocol` writers and parsers.
//!
//!   rq connect <tid> | rq announce <cid> <tid> <hash> <pid> <dl> <left> <ul> <event> <ip> <key> <numwant> <port>
//!      | rq scrape <cid> <tid> <hash,…>                         => <hex of Request::write_bytes>
//!   pq <max_scrape> <hex datagram>                              => ok <request…> | err sendable <cid> <tid> | err unsendable
//!   rs connect <tid> <cid> | rs announce4|announce6 <tid> <interval> <leechers> <seeders> <ip:port;…>
//!      | rs scrape <tid> <s:c:l,…> | rs error <tid> <hex msg>   => <hex of Response::write_bytes>
//!   ps <ipv4 0|1> <hex datagram>                                => ok <response…> | err
//! All integers are printed as their unsigned bit patterns.
use std::io::Write;
use std::num::NonZeroU16;

use aquatic_udp_protocol::*;

use crate::rng::Sm;
use crate::store::{arr20, hex, unhex};

fn ev_name(e: AnnounceEvent) -> &'static str {
    match e {
        AnnounceEvent::Started => "started",
        AnnounceEvent::Stopped => "stopped",
        AnnounceEvent::Completed => "completed",
        AnnounceEvent::None => "none",
    }
}

fn ev_of(s: &str) -> AnnounceEvent {
    match s {
        "started" => AnnounceEvent::Started,
        "stopped" => AnnounceEvent::Stopped,
        "completed" => AnnounceEvent::Completed,
        _ => AnnounceEvent::None,
    }
}

fn hexlist(hs: &[InfoHash]) -> String {
    if hs.is_empty() { "-".into() } else { hs.iter().map(|h| hex(&h.0)).collect::<Vec<_>>().join(",") }
}

pub fn req_text(r: &Request) -> String {
    match r {
        Request::Connect(c) => format!("connect {}", c.transaction_id.0.get() as u32),
        Request::Announce(a) => {
            let (cid, tid, ih, pid, dl, left, ul, ev, ip, key, nw, port) = (
                a.connection_id, a.transaction_id, a.info_hash, a.peer_id, a.bytes_downloaded, a.bytes_left,
                a.bytes_uploaded, a.event, a.ip_address, a.key, a.peers_wanted, a.port,
            );
            format!(
                "announce {} {} {} {} {} {} {} {} {} {} {} {}",
                cid.0.get() as u64, tid.0.get() as u32, hex(&ih.0), hex(&pid.0), dl.0.get() as u64, left.0.get() as u64,
                ul.0.get() as u64, ev_name(ev), u32::from_be_bytes(ip.0), key.0.get() as u32, nw.0.get() as u32, port.0.get()
            )
        }
        Request::Scrape(s) => format!("scrape {} {} {}", s.connection_id.0.get() as u64, s.transaction_id.0.get() as u32, hexlist(&s.info_hashes)),
    }
}

fn req_of(t: &[&str]) -> Option<Request> {
    match t {
        ["connect", tid] => Some(Request::Connect(ConnectRequest { transaction_id: TransactionId::new(tid.parse::<u32>().ok()? as i32) })),
        ["announce", cid, tid, ih, pid, dl, left, ul, ev, ip, key, nw, port] => Some(Request::Announce(AnnounceRequest {
            connection_id: ConnectionId::new(cid.parse::<u64>().ok()? as i64),
            action_placeholder: Default::default(),
            transaction_id: TransactionId::new(tid.parse::<u32>().ok()? as i32),
            info_hash: InfoHash(arr20(&unhex(ih))),
            peer_id: PeerId(arr20(&unhex(pid))),
            bytes_downloaded: NumberOfBytes::new(dl.parse::<u64>().ok()? as i64),
            bytes_left: NumberOfBytes::new(left.parse::<u64>().ok()? as i64),
            bytes_uploaded: NumberOfBytes::new(ul.parse::<u64>().ok()? as i64),
            event: ev_of(ev),
            ip_address: Ipv4AddrBytes(ip.parse::<u32>().ok()?.to_be_bytes()),
            key: PeerKey::new(key.parse::<u32>().ok()? as i32),
            peers_wanted: NumberOfPeers::new(nw.parse::<u32>().ok()? as i32),
            port: Port::new(NonZeroU16::new(port.parse::<u16>().ok()?)?),
        })),
        ["scrape", cid, tid, hs] => Some(Request::Scrape(ScrapeRequest {
            connection_id: ConnectionId::new(cid.parse::<u64>().ok()? as i64),
            transaction_id: TransactionId::new(tid.parse::<u32>().ok()? as i32),
            info_hashes: if *hs == "-" { vec![] } else { hs.split(',').map(|h| InfoHash(arr20(&unhex(h)))).collect() },
        })),
        _ => None,
    }
}

fn peers_text<I: Ip>(ps: &[ResponsePeer<I>], f: impl Fn(&I) -> String) -> String {
    if ps.is_empty() {
        "-".into()
    } else {
        ps.iter().map(|p| { let (ip, port) = (p.ip_address, p.port); format!("{}:{}", f(&ip), port.0.get()) }).collect::<Vec<_>>().join(";")
    }
}

pub fn resp_text(r: &Response) -> String {
    match r {
        Response::Connect(c) => { let (t, c) = (c.transaction_id, c.connection_id); format!("connect {} {}", t.0.get() as u32, c.0.get() as u64) }
        Response::AnnounceIpv4(a) => {
            let f = a.fixed; let (t, i, l, s) = (f.transaction_id, f.announce_interval, f.leechers, f.seeders);
            format!("announce4 {} {} {} {} {}", t.0.get() as u32, i.0.get() as u32, l.0.get() as u32, s.0.get() as u32, peers_text(&a.peers, |ip| hex(&ip.0)))
        }
        Response::AnnounceIpv6(a) => {
            let f = a.fixed; let (t, i, l, s) = (f.transaction_id, f.announce_interval, f.leechers, f.seeders);
            format!("announce6 {} {} {} {} {}", t.0.get() as u32, i.0.get() as u32, l.0.get() as u32, s.0.get() as u32, peers_text(&a.peers, |ip| hex(&ip.0)))
        }
        Response::Scrape(s) => {
            let st: Vec<String> = s.torrent_stats.iter().map(|x| { let (a, b, c) = (x.seeders, x.completed, x.leechers); format!("{}:{}:{}", a.0.get() as u32, b.0.get() as u32, c.0.get() as u32) }).collect();
            format!("scrape {} {}", s.transaction_id.0.get() as u32, if st.is_empty() { "-".to_string() } else { st.join(",") })
        }
        Response::Error(e) => format!("error {} {}", e.transaction_id.0.get() as u32, if e.message.is_empty() { "-".to_string() } else { hex(e.message.as_bytes()) }),
    }
}

fn port_of(s: &str) -> Port { Port::new(NonZeroU16::new(s.parse::<u16>().unwrap_or(1)).unwrap_or(NonZeroU16::new(1).unwrap())) }

fn resp_of(t: &[&str]) -> Option<Response> {
    let fixed = |tid: &str, i: &str, l: &str, s: &str| -> Option<AnnounceResponseFixedData> {
        Some(AnnounceResponseFixedData {
            transaction_id: TransactionId::new(tid.parse::<u32>().ok()? as i32),
            announce_interval: AnnounceInterval::new(i.parse::<u32>().ok()? as i32),
            leechers: NumberOfPeers::new(l.parse::<u32>().ok()? as i32),
            seeders: NumberOfPeers::new(s.parse::<u32>().ok()? as i32),
        })
    };
    match t {
        ["connect", tid, cid] => Some(Response::Connect(ConnectResponse {
            transaction_id: TransactionId::new(tid.parse::<u32>().ok()? as i32),
            connection_id: ConnectionId::new(cid.parse::<u64>().ok()? as i64),
        })),
        ["announce4", tid, i, l, s, ps] => Some(Response::AnnounceIpv4(AnnounceResponse {
            fixed: fixed(tid, i, l, s)?,
            peers: if *ps == "-" { vec![] } else { ps.split(';').map(|p| { let (a, b) = p.split_once(':').unwrap(); let v = unhex(a); ResponsePeer { ip_address: Ipv4AddrBytes([v[0], v[1], v[2], v[3]]), port: port_of(b) } }).collect() },
        })),
        ["announce6", tid, i, l, s, ps] => Some(Response::AnnounceIpv6(AnnounceResponse {
            fixed: fixed(tid, i, l, s)?,
            peers: if *ps == "-" { vec![] } else { ps.split(';').map(|p| { let (a, b) = p.split_once(':').unwrap(); let v = unhex(a); let mut x = [0u8; 16]; x.copy_from_slice(&v[..16]); ResponsePeer { ip_address: Ipv6AddrBytes(x), port: port_of(b) } }).collect() },
        })),
        ["scrape", tid, st] => Some(Response::Scrape(ScrapeResponse {
            transaction_id: TransactionId::new(tid.parse::<u32>().ok()? as i32),
            torrent_stats: if *st == "-" { vec![] } else { st.split(',').map(|x| { let v: Vec<u32> = x.split(':').map(|n| n.parse().unwrap_or(0)).collect(); TorrentScrapeStatistics { seeders: NumberOfPeers::new(v[0] as i32), completed: NumberOfDownloads::new(v[1] as i32), leechers: NumberOfPeers::new(v[2] as i32) } }).collect() },
        })),
        ["error", tid, msg] => Some(Response::Error(ErrorResponse {
            transaction_id: TransactionId::new(tid.parse::<u32>().ok()? as i32),
            message: String::from_utf8(if *msg == "-" { vec![] } else { unhex(msg) }).ok()?.into(),
        })),
        _ => None,
    }
}

fn i64s(r: &mut Sm) -> i64 { r.pick(&[0i64, 1, -1, i64::MAX, i64::MIN, 0x0102030405060708, 255, 256]) ^ if r.chance(30) { r.next() as i64 } else { 0 } }
fn i32s(r: &mut Sm) -> i32 { r.pick(&[0i32, 1, -1, i32::MAX, i32::MIN, 0x01020304, 255, 256, 65536]) ^ if r.chance(30) { r.next() as i32 } else { 0 } }
fn b20(r: &mut Sm) -> [u8; 20] {
    let mut a = [0u8; 20];
    match r.below(4) {
        0 => {}
        1 => a = [0xff; 20],
        2 => { for (i, x) in a.iter_mut().enumerate() { *x = i as u8 + 1; } }
        _ => { for x in a.iter_mut() { *x = r.next() as u8; } }
    }
    a
}

pub fn gen_request(r: &mut Sm) -> Request {
    match r.below(3) {
        0 => Request::Connect(ConnectRequest { transaction_id: TransactionId::new(i32s(r)) }),
        1 => Request::Announce(AnnounceRequest {
            connection_id: ConnectionId::new(i64s(r)),
            action_placeholder: Default::default(),
            transaction_id: TransactionId::new(i32s(r)),
            info_hash: InfoHash(b20(r)),
            peer_id: PeerId(b20(r)),
            bytes_downloaded: NumberOfBytes::new(i64s(r)),
            bytes_left: NumberOfBytes::new(i64s(r)),
            bytes_uploaded: NumberOfBytes::new(i64s(r)),
            event: r.pick(&[AnnounceEvent::None, AnnounceEvent::Completed, AnnounceEvent::Started, AnnounceEvent::Stopped]),
            ip_address: Ipv4AddrBytes((i32s(r) as u32).to_be_bytes()),
            key: PeerKey::new(i32s(r)),
            peers_wanted: NumberOfPeers::new(i32s(r)),
            port: Port::new(NonZeroU16::new(r.pick(&[1u16, 2, 255, 256, 6881, 65535])).unwrap()),
        }),
        _ => {
            let n = r.pick(&[1usize, 1, 2, 3, 5, 22, 23, 24, 69, 70, 71, 74, 100, 255]);
            Request::Scrape(ScrapeRequest {
                connection_id: ConnectionId::new(i64s(r)),
                transaction_id: TransactionId::new(i32s(r)),
                info_hashes: (0..n).map(|_| InfoHash(b20(r))).collect(),
            })
        }
    }
}

pub fn gen_response(r: &mut Sm) -> Response {
    let fixed = |r: &mut Sm| AnnounceResponseFixedData {
        transaction_id: TransactionId::new(i32s(r)),
        announce_interval: AnnounceInterval::new(i32s(r)),
        leechers: NumberOfPeers::new(i32s(r)),
        seeders: NumberOfPeers::new(i32s(r)),
    };
    match r.below(5) {
        0 => Response::Connect(ConnectResponse { transaction_id: TransactionId::new(i32s(r)), connection_id: ConnectionId::new(i64s(r)) }),
        1 => {
            let n = r.pick(&[0usize, 1, 2, 3, 30, 74]);
            Response::AnnounceIpv4(AnnounceResponse { fixed: fixed(r), peers: (0..n).map(|_| ResponsePeer { ip_address: Ipv4AddrBytes((i32s(r) as u32).to_be_bytes()), port: port_of(&r.pick(&[1u16, 255, 256, 65535]).to_string()) }).collect() })
        }
        2 => {
            let n = r.pick(&[0usize, 1, 2, 3, 30, 74]);
            Response::AnnounceIpv6(AnnounceResponse { fixed: fixed(r), peers: (0..n).map(|_| { let a = b20(r); let mut x = [0u8; 16]; x.copy_from_slice(&a[..16]); ResponsePeer { ip_address: Ipv6AddrBytes(x), port: port_of(&r.pick(&[1u16, 255, 256, 65535]).to_string()) } }).collect() })
        }
        3 => {
            let n = r.pick(&[0usize, 1, 2, 3, 70, 74]);
            Response::Scrape(ScrapeResponse { transaction_id: TransactionId::new(i32s(r)), torrent_stats: (0..n).map(|_| TorrentScrapeStatistics { seeders: NumberOfPeers::new(i32s(r)), completed: NumberOfDownloads::new(i32s(r)), leechers: NumberOfPeers::new(i32s(r)) }).collect() })
        }
        _ => Response::Error(ErrorResponse { transaction_id: TransactionId::new(i32s(r)), message: r.pick(&["", "Connection ID missmatch.", "Info hash not allowed", "é ü — ☃", "x"]).to_string().into() }),
    }
}

pub fn parse_req_line(out: &mut impl Write, max: u8, bytes: &[u8]) {
    let res = std::panic::catch_unwind(|| Request::parse_bytes(bytes, max));
    let txt = match res {
        Ok(Ok(r)) => format!("ok {}", req_text(&r)),
        Ok(Err(RequestParseError::Sendable { connection_id, transaction_id, .. })) => format!("err sendable {} {}", connection_id.0.get() as u64, transaction_id.0.get() as u32),
        Ok(Err(RequestParseError::Unsendable { .. })) => "err unsendable".to_string(),
        Err(e) => format!("PANIC {}", crate::panic_text(&e)),
    };
    writeln!(out, "pq {} {} => {}", max, if bytes.is_empty() { "-".to_string() } else { hex(bytes) }, txt).unwrap();
}

pub fn parse_resp_line(out: &mut impl Write, ipv4: bool, bytes: &[u8]) {
    let res = std::panic::catch_unwind(|| Response::parse_bytes(bytes, ipv4));
    let txt = match res {
        Ok(Ok(r)) => format!("ok {}", resp_text(&r)),
        Ok(Err(_)) => "err".to_string(),
        Err(e) => format!("PANIC {}", crate::panic_text(&e)),
    };
    writeln!(out, "ps {} {} => {}", ipv4 as u8, if bytes.is_empty() { "-".to_string() } else { hex(bytes) }, txt).unwrap();
}

fn mutate(r: &mut Sm, b: &[u8]) -> Vec<u8> {
    let mut v = b.to_vec();
    match r.below(6) {
        0 => { let n = r.below(v.len() as u64 + 1) as usize; v.truncate(n); }
        1 => { for _ in 0..r.below(40) + 1 { v.push(r.next() as u8); } }
        2 => { if !v.is_empty() { let i = r.below(v.len() as u64) as usize; v[i] ^= 1 << r.below(8); } }
        3 => { if v.len() >= 12 { let i = 8 + r.below(4) as usize; v[i] = r.next() as u8; } }          // action bytes (requests)
        4 => { if v.len() >= 84 { v[80 + r.below(4) as usize] = r.pick(&[0u8, 1, 2, 3, 4, 255]); } }  // event
        _ => { if v.len() >= 98 { v[96] = 0; v[97] = 0; } }                                            // port 0
    }
    v
}

pub fn run(out: &mut impl Write, seed: u64, cases: usize, replay: &str) {
    if !replay.is_empty() {
        let text = std::fs::read_to_string(replay).expect("replay file");
        for line in text.lines() {
            let inp = line.split("=>").next().unwrap_or("");
            let t: Vec<&str> = inp.split_whitespace().collect();
            match t.as_slice() {
                ["rq", rest @ ..] => if let Some(rq) = req_of(rest) { let mut b = Vec::new(); rq.write_bytes(&mut b).unwrap(); writeln!(out, "rq {} => {}", req_text(&rq), hex(&b)).unwrap(); },
                ["pq", max, h] => parse_req_line(out, max.parse().unwrap_or(0), &if *h == "-" { vec![] } else { unhex(h) }),
                ["rs", rest @ ..] => if let Some(rs) = resp_of(rest) { let mut b = Vec::new(); rs.write_bytes(&mut b).unwrap(); writeln!(out, "rs {} => {}", resp_text(&rs), hex(&b)).unwrap(); },
                ["ps", v4, h] => parse_resp_line(out, *v4 == "1", &if *h == "-" { vec![] } else { unhex(h) }),
                _ => {}
            }
        }
        return;
    }
    let mut r = Sm::new(seed);
    for case in 0..cases {
        let rq = gen_request(&mut r);
        let mut b = Vec::new();
        rq.write_bytes(&mut b).unwrap();
        writeln!(out, "rq {} => {}", req_text(&rq), hex(&b)).unwrap();
        let max = r.pick(&[0u8, 1, 2, 3, 22, 23, 70, 74, 255]);
        parse_req_line(out, max, &b);
        // announce followed by extension bytes (BEP 41)
        let mut ext = b.clone();
        for _ in 0..r.below(30) + 1 { ext.push(r.next() as u8); }
        parse_req_line(out, max, &ext);
        for _ in 0..3 { let m = mutate(&mut r, &b); parse_req_line(out, max, &m); }
        if case % 40 == 0 {
            // all truncation lengths of this datagram
            for n in 0..b.len().min(120) { parse_req_line(out, max, &b[..n]); }
        }
        if case % 10 == 0 {
            let n = r.below(130) as usize;
            let rnd: Vec<u8> = (0..n).map(|_| r.next() as u8).collect();
            parse_req_line(out, max, &rnd);
        }
        let rs = gen_response(&mut r);
        let mut b = Vec::new();
        rs.write_bytes(&mut b).unwrap();
        writeln!(out, "rs {} => {}", resp_text(&rs), hex(&b)).unwrap();
        let v4 = !matches!(rs, Response::AnnounceIpv6(_));
        parse_resp_line(out, v4, &b);
        parse_resp_line(out, !v4, &b);
        for _ in 0..2 { let m = mutate(&mut r, &b); parse_resp_line(out, r.chance(50), &m); }
        if case % 40 == 0 { for n in 0..b.len().min(60) { parse_resp_line(out, v4, &b[..n]); } }
    }
}
