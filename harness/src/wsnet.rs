//! Socket-level WebTorrent runs (C17; also C08 / C09 on the wire): the real `aquatic_ws::run` in a
//! child process, several WebSocket clients on loopback.
//!
//! Output is in the wsstore line format (see wsstore.rs), with client `i` written as connection
//! `0.<i>`; every message a client receives is printed with that client as its addressee, the
//! messages of one operation sorted.  Extra lines:
//!   cfg wsnet <max_offers> <max_scrape>           (instead of `cfg ws`; the driver compares sorted)
//!   net socket_workers=.. swarm_workers=..
//!   wburst <4|6> 0 <i> <hash,…> <pid>             client i sends one announce per hash without waiting and resets its TCP connection
use std::io::Write;
use std::time::Duration;

use crate::net::Server;
use crate::rng::Sm;
use crate::store::hex;
use crate::wsclient::WsConn;

fn id20(prefix: u8, i: u8) -> [u8; 20] { let mut a = [prefix; 20]; a[19] = i; a }

/// 20 bytes as the JSON string the protocol uses (each byte one char U+0000..U+00FF)
fn js20(b: &[u8; 20]) -> String {
    let s: String = b.iter().map(|x| *x as char).collect();
    serde_json::to_string(&s).unwrap()
}

fn from_js20(v: &serde_json::Value) -> Option<[u8; 20]> {
    let s = v.as_str()?;
    let cs: Vec<char> = s.chars().collect();
    if cs.len() != 20 { return None; }
    let mut a = [0u8; 20];
    for (i, c) in cs.iter().enumerate() { a[i] = (*c as u32) as u8; }
    Some(a)
}

/// a received JSON message in the wsstore message syntax, addressed to client `i`
fn msg_text(i: usize, text: &str) -> String {
    let to = format!("0.{}", i);
    let Ok(v) = serde_json::from_str::<serde_json::Value>(text) else { return format!("?:{}:unparseable", to); };
    let ih = v.get("info_hash").and_then(from_js20).map(|h| hex(&h));
    if v.get("failure reason").is_some() {
        return format!("E:{}:{}", to, ih.unwrap_or("-".into()));
    }
    if v.get("action").and_then(|a| a.as_str()) == Some("scrape") {
        let mut files: Vec<String> = v.get("files").and_then(|f| f.as_object()).map(|m| m.iter().filter_map(|(k, st)| {
            let cs: Vec<char> = k.chars().collect();
            if cs.len() != 20 { return None; }
            let h: Vec<u8> = cs.iter().map(|c| (*c as u32) as u8).collect();
            Some(format!("{}={}:{}", hex(&h), st.get("complete")?.as_u64()?, st.get("incomplete")?.as_u64()?))
        }).collect()).unwrap_or_default();
        files.sort();
        return format!("S:{}:{}", to, if files.is_empty() { "-".to_string() } else { files.join(",") });
    }
    if let Some(offer) = v.get("offer") {
        return format!("O:{}:{}:{}:{}:{}", to, ih.unwrap_or("-".into()), v.get("peer_id").and_then(from_js20).map(|p| hex(&p)).unwrap_or("-".into()),
            v.get("offer_id").and_then(from_js20).map(|p| hex(&p)).unwrap_or("-".into()), offer.get("sdp").and_then(|s| s.as_str()).unwrap_or("?"));
    }
    if let Some(answer) = v.get("answer") {
        return format!("N:{}:{}:{}:{}:{}", to, ih.unwrap_or("-".into()), v.get("peer_id").and_then(from_js20).map(|p| hex(&p)).unwrap_or("-".into()),
            v.get("offer_id").and_then(from_js20).map(|p| hex(&p)).unwrap_or("-".into()), answer.get("sdp").and_then(|s| s.as_str()).unwrap_or("?"));
    }
    if v.get("complete").is_some() {
        return format!("A:{}:{}:{}:{}", to, ih.unwrap_or("-".into()), v.get("complete").and_then(|x| x.as_u64()).unwrap_or(0), v.get("incomplete").and_then(|x| x.as_u64()).unwrap_or(0));
    }
    format!("?:{}:unknown-message", to)
}

struct Client {
    conn: Option<WsConn>,
}

/// everything all clients receive until nobody has received anything for `quiet`
fn collect(clients: &mut [Client], quiet: Duration, max: Duration) -> Vec<String> {
    let mut v = Vec::new();
    let t0 = std::time::Instant::now();
    let mut last = std::time::Instant::now();
    // nothing received yet: give a loaded machine a full second before concluding that there is no reply
    let patience = Duration::from_millis(1000).max(quiet);
    while t0.elapsed() < max && (if v.is_empty() { t0.elapsed() < patience } else { last.elapsed() < quiet }) {
        for (i, c) in clients.iter_mut().enumerate() {
            let mut dead = false;
            if let Some(conn) = c.conn.as_mut() {
                match conn.recv_text(Duration::from_millis(1)) {
                    Ok(Some(t)) => { v.push(msg_text(i, &t)); last = std::time::Instant::now(); }
                    Ok(None) => {}
                    Err(_) => { dead = true; }
                }
            }
            if dead { c.conn = None; }
        }
    }
    v.sort();
    v
}

/// Deterministic collection: client `sender` (first) and then every other live client sends a scrape of
/// `hash` - served by the swarm worker that served the operation - and reads until that scrape's reply is
/// back.  Channels between a swarm worker and a socket worker and between a socket worker and its
/// connections are FIFO, so every message the operation caused has been read by then; no waiting on the clock.
/// `op_scrapes`: scrape replies the operation itself causes on the sender's connection.
fn fenced(clients: &mut [Client], sender: usize, hash: &[u8; 20], op_scrapes: usize) -> Vec<String> {
    let req = format!(r#"{{"action":"scrape","info_hash":{}}}"#, js20(hash));
    fenced_with(clients, sender, &req, op_scrapes)
}

/// as `fenced`, with the scrape request to use as the fence (a scrape operation is fenced by itself: its
/// parts come from the same swarm workers, in order)
fn fenced_with(clients: &mut [Client], sender: usize, req: &str, op_scrapes: usize) -> Vec<String> {
    let mut v = Vec::new();
    let order: Vec<usize> = std::iter::once(sender).chain((0..clients.len()).filter(|i| *i != sender)).collect();
    for i in order {
        let mut dead = false;
        if let Some(conn) = clients[i].conn.as_mut() {
            if !conn.send_text(req, 15000) { dead = true; }
            let mut want = 1 + if i == sender { op_scrapes } else { 0 };
            let t0 = std::time::Instant::now();
            let patience = crate::net::patience();
            while !dead && want > 0 {
                match conn.recv_text(Duration::from_millis(50)) {
                    Ok(Some(t)) => {
                        let m = msg_text(i, &t);
                        if m.starts_with("S:") { want -= 1; if want == 0 { break; } }
                        v.push(m);
                    }
                    Ok(None) => { if t0.elapsed() > patience { crate::net::note_timeout(); dead = true; } }
                    Err(_) => { dead = true; }
                }
            }
        }
        if dead { clients[i].conn = None; }
    }
    v.sort();
    v
}

fn announce_json(hash: &[u8; 20], pid: &[u8; 20], event: &str, left: Option<usize>, offers: &Option<Vec<([u8; 20], u32)>>, answer: &Option<([u8; 20], [u8; 20], u32)>) -> String {
    let mut s = format!(r#"{{"action":"announce","info_hash":{},"peer_id":{}"#, js20(hash), js20(pid));
    if let Some(l) = left { s += &format!(r#","left":{}"#, l); }
    if event != "none" { s += &format!(r#","event":"{}""#, event); }
    if let Some(of) = offers {
        s += &format!(r#","numwant":{},"offers":[{}]"#, of.len(), of.iter().map(|(o, t)| format!(r#"{{"offer":{{"type":"offer","sdp":"{}"}},"offer_id":{}}}"#, t, js20(o))).collect::<Vec<_>>().join(","));
    }
    if let Some((p, o, t)) = answer {
        s += &format!(r#","answer":{{"type":"answer","sdp":"{}"}},"to_peer_id":{},"offer_id":{}"#, t, js20(p), js20(o));
    }
    s + "}"
}

pub fn run(out: &mut impl Write, seed: u64, cases: usize, _replay: &str, burst: usize) {
    let mut master = Sm::new(seed);
    for case in 0..cases {
        // a case in which some answer never came is run again (up to three times in all) from the same random
        // state: what the tracker does deterministically shows every time, a stall of the machine does not
        let r0 = master.fork(case as u64);
        let mut attempt = 0;
        loop {
            let timeouts_before = crate::net::timeouts();
            let mut case_buf: Vec<u8> = Vec::new();
            {
                let out = &mut case_buf;
                let mut r = r0.clone();
                'case: {
                        let socket_workers = r.pick(&[1usize, 2, 3]);
                        let swarm_workers = r.pick(&[1usize, 2, 3]);
                        let max_offers = r.pick(&[1usize, 2, 10]);
                        let burst_case = case % 3 == 2;
                        let args = vec![format!("socket_workers={}", socket_workers), format!("swarm_workers={}", swarm_workers), format!("max_offers={}", max_offers)];
                        let Some(mut server) = Server::start("ws", &args) else {
                    crate::net::note_timeout();
                            writeln!(out, "cfg wsnet {} 255\nnet START-FAILED", max_offers).unwrap();
                            break 'case;
                        };
                        writeln!(out, "cfg wsnet {} 255", max_offers).unwrap();
                        writeln!(out, "net socket_workers={} swarm_workers={} burst={}", socket_workers, swarm_workers, burst_case).unwrap();
                        writeln!(out, "new").unwrap();
                        // first byte spreads the torrents over the swarm workers
                        let hashes: Vec<[u8; 20]> = (0..4u8).map(|i| { let mut h = id20(0x68, i + 1); h[0] = 0x61 + i; h }).collect();
                        let nclients = r.pick(&[3usize, 4, 6]);
                        let mut clients: Vec<Client> = (0..nclients).map(|_| Client { conn: WsConn::connect(server.port) }).collect();
                        let pids: Vec<[u8; 20]> = (0..64u8).map(|i| id20(0x2d, i)).collect();
                        // in every other history the even clients use a second peer id of their own for the torrents with an even
                        // first byte: one connection, several torrents, not one peer id for all of them (what a close must clean up)
                        let two_ids = case % 2 == 1;
                        let own = |c: usize, h: &[u8; 20]| -> [u8; 20] { if two_ids && c % 2 == 0 && h[0] % 2 == 0 { pids[32 + c] } else { pids[c] } };
                        let mut forwarded: Vec<(String, String, usize, String)> = Vec::new(); // hash, from pid, to client, offer id
                        let mut announced: std::collections::HashMap<(usize, [u8; 20]), [u8; 20]> = std::collections::HashMap::new();
                        let mut next_oid: u8 = 1;
                        let nops = if burst_case { 8 } else { 10 + r.below(10) as usize };
                        for opi in 0..nops {
                            let live: Vec<usize> = (0..clients.len()).filter(|i| clients[*i].conn.is_some()).collect();
                            if live.len() < 2 { break; }
                            let ci = live[r.below(live.len() as u64) as usize];
                            let k = r.below(100);
                            // once per history (two thirds in): a connection that has announced a torrent announces it under
                            // another peer id, with any event
                            let mut directed: Option<(usize, [u8; 20], [u8; 20], String)> = None;
                            if !burst_case && opi == nops * 2 / 3 && live.len() >= 3 {
                                let mut own: Vec<(usize, [u8; 20])> = announced.iter().filter(|((c, h), p)| live.contains(c) && **p == own(*c, h)).map(|((c, h), _)| (*c, *h)).collect();
                                own.sort();
                                if !own.is_empty() {
                                    let (c, h) = own[r.below(own.len() as u64) as usize];
                                    let other = pids[(c + 1 + r.below(clients.len() as u64 - 1) as usize) % clients.len()];
                                    directed = Some((c, h, other, r.pick(&["stopped", "stopped", "started", "none", "completed"]).to_string()));
                                }
                            }
                            let (ci, k) = if let Some((c, _, _, _)) = &directed { (*c, 0) } else { (ci, k) };
                            if burst_case && opi == nops - 2 {
                                // announces for several torrents in one go, then an abrupt disconnect
                                let nb: usize = burst;
                                let bh: Vec<[u8; 20]> = (0..nb).map(|i| { let mut h = id20(0x62, (i % 250) as u8); h[18] = (i / 250) as u8; h[0] = 0x30 + (i % 9) as u8; h }).collect();
                                let pid = pids[ci];
                                let conn = clients[ci].conn.as_mut().unwrap();
                                for h in &bh { conn.send_text(&announce_json(h, &pid, "started", Some(5), &None, &None), 15000); }
                                clients[ci].conn.take().unwrap().close(false);
                                writeln!(out, "wburst 4 0 {} {} {}", ci, bh.iter().map(|h| hex(h)).collect::<Vec<_>>().join(","), hex(&pid)).unwrap();
                                // somebody else looks at those torrents (in chunks: one reply each), again and again until nothing
                                // of the dropped connection is left or patience runs out: the tracker needs time for the burst and
                                // the close notice, more on a loaded machine; a tracker that forgets nothing never gets there
                                let live: Vec<usize> = (0..clients.len()).filter(|i| clients[*i].conn.is_some()).collect();
                                let si = live[0];
                                let t0 = std::time::Instant::now();
                                let patience = crate::net::patience();
                                std::thread::sleep(Duration::from_millis(300));
                                let _ = collect(&mut clients, Duration::from_millis(100), Duration::from_millis(500));
                                let lines = loop {
                                    let mut lines = Vec::new();
                                    let mut clean = true;
                                    for chunk in bh.chunks(20) {
                                        let req = format!(r#"{{"action":"scrape","info_hash":[{}]}}"#, chunk.iter().map(js20).collect::<Vec<_>>().join(","));
                                        let mut got: Vec<String> = Vec::new();
                                        if let Some(conn) = clients[si].conn.as_mut() {
                                            conn.send_text(&req, 15000);
                                            let t1 = std::time::Instant::now();
                                            while t1.elapsed() < patience {
                                                match conn.recv_text(Duration::from_millis(50)) {
                                                    Ok(Some(t)) => { let m = msg_text(si, &t); let is_s = m.starts_with("S:"); got.push(m); if is_s { break; } }
                                                    Ok(None) => {}
                                                    Err(_) => break,
                                                }
                                            }
                                        }
                                        got.sort();
                                        for m in got.iter().filter(|m| m.starts_with("S:")) {
                                            let files = m.splitn(3, ':').nth(2).unwrap_or("-");
                                            if files != "-" && files.split(',').any(|e| !e.ends_with("=0:0")) { clean = false; }
                                        }
                                        lines.push(format!("wscr 4 0 {} {} => {}", si, chunk.iter().map(|h| hex(h)).collect::<Vec<_>>().join(","), if got.is_empty() { "-".to_string() } else { got.join(" ") }));
                                    }
                                    if clean || t0.elapsed() > patience { if !clean { crate::net::note_timeout(); } break lines; }
                                    std::thread::sleep(Duration::from_millis(300));
                                };
                                for l in lines { writeln!(out, "{}", l).unwrap(); }
                                continue;
                            }
                            if k < 70 {
                                let hash = hashes[r.below(hashes.len() as u64) as usize];
                                let pid = if r.chance(if announced.contains_key(&(ci, hash)) { 78 } else { 88 }) { own(ci, &hash) } else { pids[r.below(clients.len() as u64) as usize] };
                                let event = r.pick(&["started", "stopped", "completed", "update", "none", "none", "none"]).to_string();
                                let event = if event == "stopped" && r.chance(50) { "none".to_string() } else { event };
                                // a second peer id on a connection that has announced this torrent: every kind of event, `stopped` often
                                // (the check of the peer id must not depend on the event)
                                let event = if pid != own(ci, &hash) && announced.contains_key(&(ci, hash)) && r.chance(45) { "stopped".to_string() } else { event };
                                let (hash, pid, event) = if let Some((_, h, p, e)) = &directed { (*h, *p, e.clone()) } else { (hash, pid, event) };
                                let left = r.pick(&[None, Some(0usize), Some(0), Some(7), Some(7)]);
                                let offers = if r.chance(55) {
                                    let n = r.below(4) as usize;
                                    Some((0..n).map(|_| { let o = id20(0x6f, next_oid); next_oid = next_oid.wrapping_add(1).max(1); (o, r.below(1000) as u32) }).collect::<Vec<_>>())
                                } else { None };
                                let mut hash = hash;
                                let mut pid = pid;
                                let mut ci = ci;
                                let answer = if directed.is_none() && r.chance(35) && !forwarded.is_empty() {
                                    let f = forwarded[r.below(forwarded.len() as u64) as usize].clone();
                                    hash = crate::store::arr20(&crate::store::unhex(&f.0));
                                    if clients[f.2].conn.is_some() && r.chance(80) { ci = f.2; pid = own(ci, &hash); }
                                    Some((crate::store::arr20(&crate::store::unhex(&f.1)), crate::store::arr20(&crate::store::unhex(&f.3)), r.below(1000) as u32))
                                } else if r.chance(10) {
                                    Some((pids[r.below(pids.len() as u64) as usize], id20(0x6f, 200), 1))
                                } else { None };
                                let is_stopped = event == "stopped";
                                let text = announce_json(&hash, &pid, &event, left, &offers, &answer);
                                let line = crate::wsstore::Op::Ann { fam: 4, consumer: 0, slot: ci as u32, allowed: true, now: 0, hash, pid, event, left, offers, answer }.text();
                                if !clients[ci].conn.as_mut().unwrap().send_text(&text, 15000) { crate::net::note_timeout(); clients[ci].conn = None; }
                                // a second peer id for a torrent this connection has announced: the tracker answers with an error and
                                // ends the connection.  No fence on this connection then - a request left unread in the tracker's
                                // socket when it closes turns the close into a reset, which discards the error reply on our side -
                                // just read until the connection ends.
                                let second_pid = announced.get(&(ci, hash)).map(|p| *p != pid).unwrap_or(false);
                                // (the tracker's own record: kept from the first announce, dropped by a `stopped` one)
                                if !second_pid { if is_stopped { announced.remove(&(ci, hash)); } else { announced.entry((ci, hash)).or_insert(pid); } }
                                let mut got = Vec::new();
                                if second_pid {
                                    if let Some(conn) = clients[ci].conn.as_mut() {
                                        let t1 = std::time::Instant::now();
                                        let patience = crate::net::patience();
                                        loop {
                                            match conn.recv_text(Duration::from_millis(50)) {
                                                Ok(Some(t)) => got.push(msg_text(ci, &t)),
                                                Ok(None) => { if t1.elapsed() > patience { crate::net::note_timeout(); got.push(format!("?:0.{}:connection-not-closed-after-second-peer-id", ci)); break; } }
                                                Err(_) => break,
                                            }
                                        }
                                    }
                                    clients[ci].conn = None;
                                    announced.retain(|(c, _), _| *c != ci);
                                    // the close notice travels to the swarm workers on its own channel: give it the time a `wclose` gets
                                    std::thread::sleep(Duration::from_millis(600));
                                    let alive = (0..clients.len()).find(|i| clients[*i].conn.is_some());
                                    if let Some(alive) = alive { got.extend(fenced(&mut clients, alive, &hash, 0)); }
                                    got.sort();
                                } else {
                                    got = fenced(&mut clients, ci, &hash, 0);
                                }
                                for m in &got {
                                    let p: Vec<&str> = m.split(':').collect();
                                    if p.len() == 6 && p[0] == "O" {
                                        let to: usize = p[1].split('.').nth(1).and_then(|x| x.parse().ok()).unwrap_or(0);
                                        forwarded.push((p[2].to_string(), p[3].to_string(), to, p[4].to_string()));
                                    }
                                }
                                writeln!(out, "{} => {}", line, if got.is_empty() { "-".to_string() } else { got.join(" ") }).unwrap();
                            } else if k < 82 {
                                // (now and then a scrape that names no torrent: it must be answered all the same)
                                let cnt = if r.chance(12) { 0 } else { 1 + r.below(4) as usize };
                                let hs: Vec<[u8; 20]> = (0..cnt).map(|_| if r.chance(85) { hashes[r.below(hashes.len() as u64) as usize] } else { id20(0x78, r.below(3) as u8) }).collect();
                                let req = if hs.len() == 1 && r.chance(50) { format!(r#"{{"action":"scrape","info_hash":{}}}"#, js20(&hs[0])) }
                                          else { format!(r#"{{"action":"scrape","info_hash":[{}]}}"#, hs.iter().map(js20).collect::<Vec<_>>().join(",")) };
                                if !clients[ci].conn.as_mut().unwrap().send_text(&req, 15000) { crate::net::note_timeout(); clients[ci].conn = None; }
                                let got = fenced_with(&mut clients, ci, &req, 1);
                                writeln!(out, "wscr 4 0 {} {} => {}", ci, if hs.is_empty() { "-".to_string() } else { hs.iter().map(|h| hex(h)).collect::<Vec<_>>().join(",") }, if got.is_empty() { "-".to_string() } else { got.join(" ") }).unwrap();
                            } else if k < 92 {
                                let orderly = r.chance(50);
                                clients[ci].conn.take().unwrap().close(orderly);
                                std::thread::sleep(Duration::from_millis(600));
                                let alive = (0..clients.len()).find(|i| clients[*i].conn.is_some()).unwrap_or(0);
                                let got = fenced(&mut clients, alive, &hashes[0], 0);
                                writeln!(out, "wclose 4 0 {} => {}", ci, if got.is_empty() { "-".to_string() } else { got.join(" ") }).unwrap();
                                // a new connection under a fresh index
                                clients.push(Client { conn: WsConn::connect(server.port) });
                            } else {
                                // garbage on this connection: an error reply, nobody else is affected
                                let text = r.pick(&["{", "[1,2,3]", "{\"action\":\"announce\"}", "not json", "{\"action\":\"scrape\"}"]);
                                if !clients[ci].conn.as_mut().unwrap().send_text(text, 15000) { clients[ci].conn = None; }
                                let got = fenced(&mut clients, ci, &hashes[0], 0);
                                writeln!(out, "wbad 4 0 {} {} => {}", ci, hex(text.as_bytes()), if got.is_empty() { "-".to_string() } else { got.join(" ") }).unwrap();
                            }
                        }
                        if let Some(l) = server.exit_line(Duration::from_millis(0)) {
                            writeln!(out, "net TRACKER-EXITED {}", l.replace(' ', "_")).unwrap();
                        }
                        server.stop();
                }
            }
            if crate::net::timeouts() == timeouts_before || attempt >= 2 { out.write_all(&case_buf).unwrap(); break; }
            crate::net::set_timeouts(timeouts_before);
            attempt += 1;
        }
    }
}
