//! Addresses (C03): CanonicalSocketAddr::new, the WebTorrent IpVersion::canonical_from_ip and the
//! reverse-proxy header handling of aquatic_http (`parse_request`, reached through verif-hooks).
//!   can <4|6> <iphex>  => <4|6> <iphex>
//!   wsf <4|6> <iphex>  => 4|6
//!   ipdef <texthex>    => 4 <iphex> | 6 <iphex> | x        std parse of the (already trimmed) text
//!   fwd <namehex> <n1hex:v1hex;…|-> => ok <4|6> <iphex> | err | none
use std::io::Write;
use std::net::{IpAddr, Ipv4Addr, Ipv6Addr, SocketAddr};

use aquatic_common::CanonicalSocketAddr;
use aquatic_http::config::Config;
use aquatic_http::verif_hooks::parse_request;
use aquatic_ws::common::IpVersion;

use crate::rng::Sm;
use crate::store::{hex, unhex};

fn ip_of(fam: &str, h: &str) -> IpAddr {
    let v = unhex(h);
    if fam == "4" {
        IpAddr::V4(Ipv4Addr::new(v[0], v[1], v[2], v[3]))
    } else {
        let mut a = [0u8; 16];
        a.copy_from_slice(&v[..16]);
        IpAddr::V6(Ipv6Addr::from(a))
    }
}

fn ip_text(ip: IpAddr) -> String {
    match ip {
        IpAddr::V4(a) => format!("4 {}", hex(&a.octets())),
        IpAddr::V6(a) => format!("6 {}", hex(&a.octets())),
    }
}

const REQ: &str = "GET /announce?info_hash=%04%0bkV%3f%5cr%14%a6%b7%98%adC%c3%c9.%40%24%00%b9&peer_id=-ABC940-5ert69muw5t8&port=12345&uploaded=1&downloaded=2&left=3&numwant=0&key=4ab4b877&compact=1&supportcrypto=1&event=started HTTP/1.1\r\n";

fn line(out: &mut impl Write, t: &[&str]) {
    match t {
        ["can", fam, h] => {
            let c = CanonicalSocketAddr::new(SocketAddr::new(ip_of(fam, h), 4711));
            let port_ok = c.get().port() == 4711;
            writeln!(out, "can {} {} => {}{}", fam, h, ip_text(c.get().ip()), if port_ok { "" } else { " PORTCHANGED" }).unwrap();
        }
        ["wsf", fam, h] => {
            let v = match IpVersion::canonical_from_ip(ip_of(fam, h)) { IpVersion::V4 => 4, IpVersion::V6 => 6 };
            writeln!(out, "wsf {} {} => {}", fam, h, v).unwrap();
        }
        ["ipdef", th] => {
            let txt = String::from_utf8_lossy(&unhex(th)).to_string();
            let r = match txt.parse::<IpAddr>() { Ok(ip) => ip_text(ip), Err(_) => "x".to_string() };
            writeln!(out, "ipdef {} => {}", th, r).unwrap();
        }
        ["fwd", nameh, hs] => {
            let mut config = Config::default();
            config.network.runs_behind_reverse_proxy = true;
            config.network.reverse_proxy_ip_header_name = String::from_utf8_lossy(&unhex(nameh)).to_string();
            let mut buf = REQ.as_bytes().to_vec();
            if *hs != "-" {
                for h in hs.split(';') {
                    let (n, v) = h.split_once(':').unwrap();
                    buf.extend_from_slice(&unhex(n));
                    buf.extend_from_slice(b": ");
                    buf.extend_from_slice(&unhex(v));
                    buf.extend_from_slice(b"\r\n");
                }
            }
            buf.extend_from_slice(b"\r\n");
            let r = std::panic::catch_unwind(|| parse_request(&config, &buf));
            let txt = match r {
                Ok(Ok((_, Some(ip)))) => format!("ok {}", ip_text(ip)),
                Ok(Ok((_, None))) => "none".to_string(),
                Ok(Err(_)) => "err".to_string(),
                Err(e) => format!("PANIC {}", crate::panic_text(&e)),
            };
            writeln!(out, "fwd {} {} => {}", nameh, hs, txt).unwrap();
        }
        _ => {}
    }
}

pub fn run(out: &mut impl Write, seed: u64, cases: usize, replay: &str) {
    if !replay.is_empty() {
        let text = std::fs::read_to_string(replay).expect("replay file");
        for l in text.lines() {
            let inp = l.split("=>").next().unwrap_or("");
            let t: Vec<&str> = inp.split_whitespace().collect();
            line(out, &t);
        }
        return;
    }
    let mut r = Sm::new(seed);
    // boundary addresses
    let v6s: Vec<[u8; 16]> = vec![
        [0; 16],
        [0, 0, 0, 0, 0, 0, 0, 0, 0, 0, 0xff, 0xff, 1, 2, 3, 4],
        [0, 0, 0, 0, 0, 0, 0, 0, 0, 0, 0xff, 0xff, 0, 0, 0, 0],
        [0, 0, 0, 0, 0, 0, 0, 0, 0, 0, 0xff, 0xff, 255, 255, 255, 255],
        [0, 0, 0, 0, 0, 0, 0, 0, 0, 0, 0xff, 0xfe, 1, 2, 3, 4],
        [0, 0, 0, 0, 0, 0, 0, 0, 0, 0, 0xfe, 0xff, 1, 2, 3, 4],
        [0, 0, 0, 0, 0, 0, 0, 0, 0, 1, 0xff, 0xff, 1, 2, 3, 4],
        [1, 0, 0, 0, 0, 0, 0, 0, 0, 0, 0xff, 0xff, 1, 2, 3, 4],
        [0, 0, 0, 0, 0, 0, 0, 0, 0, 0, 0, 0, 1, 2, 3, 4],
        [0x20, 1, 0xd, 0xb8, 0, 0, 0, 0, 0, 0, 0, 0, 0, 0, 0, 1],
        [0xff; 16],
    ];
    for a in &v6s {
        line(out, &["can", "6", &hex(a)]);
        line(out, &["wsf", "6", &hex(a)]);
    }
    for a in [[0u8, 0, 0, 0], [1, 2, 3, 4], [127, 0, 0, 1], [255, 255, 255, 255]] {
        line(out, &["can", "4", &hex(&a)]);
        line(out, &["wsf", "4", &hex(&a)]);
    }
    // the pool of header value pieces; their meaning comes from the std parser itself
    let pieces = ["1.2.3.4", "10.0.0.1", "255.255.255.255", "::1", "2001:db8::1", "::ffff:1.2.3.4", "garbage", "", "1.2.3.4.5", "8.8.8.8", "fe80::1%eth0", "01.2.3.4"];
    for p in pieces {
        line(out, &["ipdef", &if p.is_empty() { "-".to_string() } else { hex(p.as_bytes()) }]);
    }
    let names = ["X-Forwarded-For", "x-forwarded-for", "X-Real-IP", "Forwarded", "X-Forwarded-Fo", "X-Forwarded-For2"];
    let spaces = ["", " ", "  ", "\t", " \t "];
    for _ in 0..cases {
        match r.below(4) {
            0 => {
                let mut a = [0u8; 16];
                for x in a.iter_mut() { *x = r.next() as u8; }
                if r.chance(60) { for x in a.iter_mut().take(10) { *x = 0; } }
                if r.chance(60) { a[10] = 0xff; a[11] = 0xff; }
                line(out, &["can", "6", &hex(&a)]);
                line(out, &["wsf", "6", &hex(&a)]);
            }
            _ => {
                let cfgname = r.pick(&names[..3]);
                let n = r.below(6) as usize;
                let mut hs: Vec<String> = Vec::new();
                for _ in 0..n {
                    let name = r.pick(&names);
                    let k = 1 + r.below(3);
                    let mut v = String::new();
                    for i in 0..k {
                        if i > 0 { v.push(','); }
                        v.push_str(r.pick(&spaces));
                        v.push_str(r.pick(&pieces));
                        v.push_str(r.pick(&spaces));
                    }
                    if r.chance(10) { v.push(','); }
                    let vh = if v.is_empty() { "-".to_string() } else { hex(v.as_bytes()) };
                    hs.push(format!("{}:{}", hex(name.as_bytes()), vh));
                }
                let hs = if hs.is_empty() { "-".to_string() } else { hs.join(";") };
                line(out, &["fwd", &hex(cfgname.as_bytes()), &hs]);
            }
        }
    }
}
