//! UDP shared swarm state under concurrency (C04): real threads over one shared `TorrentMaps`,
//! serialised by a scheduler at the lock-free gaps of announce / scrape / clean (hook
//! `aquatic_udp::swarm::verif_hooks::GATE`); every interleaving of a small program is enumerated
//! (stateless depth-first search, each schedule re-executed from the initial state).
//!
//!   cprog <setup op ; setup op …|-> | <thread 0 op> | <thread 1 op> | …     (ops in udpstore syntax)
//!   csched <tid,tid,…> => <result of thread 0> | … | final <s:l,…>          (one line per schedule)
//!   cfree <n threads> <n ops> => ok | HANG                                   (free-running stress)
//! A schedule lists, segment by segment, which thread ran; a segment ends at the thread's next gate
//! in a shard the program touches, or when its operation returns.
use std::io::Write;
use std::sync::mpsc::{channel, Receiver, Sender};
use std::time::Duration;

use aquatic_udp::swarm::TorrentMaps;

use crate::rng::Sm;
use crate::store::{Backend, Exec, Op};

enum Ev { Gate, Done(String) }

fn first_bytes(ops: &[Op]) -> Vec<usize> {
    let mut v = Vec::new();
    for op in ops {
        match op {
            Op::Ann { hash, .. } => v.push(hash[0] as usize % 16),
            Op::Scr { hashes, .. } => for h in hashes { v.push(h[0] as usize % 16) },
            _ => {}
        }
    }
    v.sort();
    v.dedup();
    v
}

struct RunResult { schedule: Vec<usize>, choices: Vec<Vec<usize>>, results: Vec<String>, fin: String }

fn result_text(op: &Op, raw: &str) -> String {
    // drop the statistics tokens: `s l peers msgs` -> `s l peers`; clean -> `-`
    match op {
        Op::Ann { .. } => raw.split(' ').take(3).collect::<Vec<_>>().join(" "),
        Op::Scr { .. } => raw.to_string(),
        _ => "-".to_string(),
    }
}

/// one execution of the program under the schedule `prefix` (then: lowest waiting thread first)
fn run_once(setup: &[Op], threads: &[Op], focus: &[usize], prefix: &[usize], all_hashes: &[[u8; 20]]) -> Option<RunResult> {
    let maps = TorrentMaps::default();
    let mut ex0 = Exec::new(1);
    ex0.maps = maps.clone();
    for op in setup { let _ = ex0.exec(op); }
    let (to_sched, from_threads): (Sender<(usize, Ev)>, Receiver<(usize, Ev)>) = channel();
    let mut gos: Vec<Sender<()>> = Vec::new();
    let mut handles = Vec::new();
    for (t, op) in threads.iter().enumerate() {
        let (go_tx, go_rx) = channel::<()>();
        gos.push(go_tx);
        let op = op.clone();
        let maps = maps.clone();
        let to_sched = to_sched.clone();
        let focus: Vec<usize> = focus.to_vec();
        handles.push(std::thread::spawn(move || {
            let mut ex = Exec::new(100 + t as u64);
            ex.maps = maps;
            let ts = to_sched.clone();
            // wait for the first turn
            if go_rx.recv().is_err() { return; }
            let go_rx = std::rc::Rc::new(go_rx);
            let g2 = go_rx.clone();
            aquatic_udp::swarm::verif_hooks::GATE.with(|g| {
                *g.borrow_mut() = Some(Box::new(move |_kind, arg| {
                    if focus.contains(&arg) {
                        let _ = ts.send((t, Ev::Gate));
                        let _ = g2.recv();
                    }
                }));
            });
            let r = std::panic::catch_unwind(std::panic::AssertUnwindSafe(|| ex.exec(&op)));
            aquatic_udp::swarm::verif_hooks::GATE.with(|g| { *g.borrow_mut() = None; });
            let txt = match r { Ok(s) => result_text(&op, &s), Err(e) => format!("PANIC_{}", crate::panic_text(&e).replace(' ', "_")) };
            let _ = to_sched.send((t, Ev::Done(txt)));
        }));
    }
    let n = threads.len();
    let mut waiting: Vec<bool> = vec![true; n];
    let mut results: Vec<String> = vec![String::new(); n];
    let mut schedule = Vec::new();
    let mut choices = Vec::new();
    let mut ok = true;
    loop {
        let avail: Vec<usize> = (0..n).filter(|t| waiting[*t]).collect();
        if avail.is_empty() { break; }
        let i = schedule.len();
        let t = if i < prefix.len() && avail.contains(&prefix[i]) { prefix[i] } else { avail[0] };
        choices.push(avail.clone());
        schedule.push(t);
        waiting[t] = false;
        if gos[t].send(()).is_err() { ok = false; break; }
        match from_threads.recv_timeout(Duration::from_secs(10)) {
            Ok((u, Ev::Gate)) => { waiting[u] = true; }
            Ok((u, Ev::Done(s))) => { results[u] = s; }
            Err(_) => { ok = false; break; }   // a segment did not end: blocked on a lock held across a gate
        }
    }
    if !ok {
        // leave the stuck threads behind; this is reported as a hang
        return None;
    }
    for h in handles { let _ = h.join(); }
    let fin = ex0.exec(&Op::Scr { fam: 4, hashes: all_hashes.to_vec() });
    Some(RunResult { schedule, choices, results, fin })
}

fn explore(out: &mut impl Write, setup: &[Op], threads: &[Op], max_schedules: usize, r: &mut Sm) {
    let mut all_ops: Vec<Op> = setup.to_vec();
    all_ops.extend(threads.iter().cloned());
    let focus = first_bytes(&all_ops);
    let mut all_hashes: Vec<[u8; 20]> = Vec::new();
    for op in &all_ops {
        match op { Op::Ann { hash, .. } => all_hashes.push(*hash), Op::Scr { hashes, .. } => all_hashes.extend(hashes.iter().cloned()), _ => {} }
    }
    all_hashes.sort();
    all_hashes.dedup();
    writeln!(out, "cprog {} | {}", if setup.is_empty() { "-".to_string() } else { setup.iter().map(|o| o.text()).collect::<Vec<_>>().join(" ; ") },
        threads.iter().map(|o| o.text()).collect::<Vec<_>>().join(" | ")).unwrap();
    let mut stack: Vec<Vec<usize>> = vec![vec![]];
    let mut done = 0usize;
    while let Some(prefix) = stack.pop() {
        if done >= max_schedules { break; }
        let Some(rr) = run_once(setup, threads, &focus, &prefix, &all_hashes) else {
            writeln!(out, "csched {} => HANG", prefix.iter().map(|t| t.to_string()).collect::<Vec<_>>().join(",")).unwrap();
            done += 1;
            continue;
        };
        writeln!(out, "csched {} => {} | final {}", rr.schedule.iter().map(|t| t.to_string()).collect::<Vec<_>>().join(","), rr.results.join(" | "), rr.fin).unwrap();
        done += 1;
        // alternatives after the prefix (depth first; shuffled when the space is sampled rather than exhausted)
        let mut alts: Vec<Vec<usize>> = Vec::new();
        for i in (prefix.len()..rr.schedule.len()).rev() {
            for a in rr.choices[i].iter().filter(|a| **a > rr.schedule[i]) {
                let mut p = rr.schedule[..i].to_vec();
                p.push(*a);
                alts.push(p);
            }
        }
        if alts.len() > 1 && r.chance(50) { let k = r.below(alts.len() as u64) as usize; alts.swap(0, k); }
        alts.reverse();
        stack.extend(alts);
    }
}

fn hash_with_first(b: u8, i: u8) -> [u8; 20] { let mut h = [0u8; 20]; h[0] = b; h[19] = i; h }

fn gen_program(r: &mut Sm) -> (Vec<Op>, Vec<Op>) {
    // one or two torrents in different shards; peers whose deadlines straddle the cleaning time
    let ha = hash_with_first(r.below(16) as u8, 1);
    let hb = hash_with_first(((ha[0] as u64 + 1 + r.below(14)) % 16) as u8, 2);
    let hashes = if r.chance(60) { vec![ha] } else { vec![ha, hb] };
    let now = 10u32;
    let ann = |r: &mut Sm, hs: &Vec<[u8; 20]>| -> Op {
        let k = r.below(4) as u8;
        Op::Ann { fam: 4, hash: hs[r.below(hs.len() as u64) as usize], ip: vec![10, 0, 0, 1 + k], port: 1000 + (k as u16 % 2), event: r.pick(&["none", "none", "started", "completed", "stopped"]).to_string(),
                  left: r.pick(&[0i64, 1]), numwant: r.pick(&[0i32, 1, 5]), dl: r.pick(&[5u32, 9, 10, 11, 20]), pid: { let mut p = [0x2d; 20]; p[19] = k; p } }
    };
    let nsetup = r.below(4) as usize;
    let setup: Vec<Op> = (0..nsetup).map(|_| ann(r, &hashes)).collect();
    let nthreads = r.pick(&[2usize, 2, 3]);
    let mut threads = Vec::new();
    let mut have_cln = false;
    for t in 0..nthreads {
        let k = r.below(100);
        if (k < 35 && !have_cln) || (t == nthreads - 1 && !have_cln && r.chance(70)) {
            have_cln = true;
            threads.push(Op::Cln { now, mode: "off".into(), list: vec![] });
        } else if k < 80 {
            threads.push(ann(r, &hashes));
        } else {
            let mut hs = hashes.clone();
            if r.chance(50) { hs.reverse(); }
            threads.push(Op::Scr { fam: 4, hashes: hs });
        }
    }
    (setup, threads)
}

pub fn run(out: &mut impl Write, seed: u64, cases: usize, max_schedules: usize, replay: &str) {
    let mut master = Sm::new(seed);
    if !replay.is_empty() {
        // a program line: re-explore it
        let text = std::fs::read_to_string(replay).expect("replay file");
        for line in text.lines() {
            if let Some(rest) = line.strip_prefix("cprog ") {
                let parts: Vec<&str> = rest.split(" | ").collect();
                let setup: Vec<Op> = if parts[0].trim() == "-" { vec![] } else { parts[0].split(" ; ").filter_map(Op::parse).collect() };
                let threads: Vec<Op> = parts[1..].iter().filter_map(|p| Op::parse(p)).collect();
                explore(out, &setup, &threads, max_schedules.max(2000), &mut master);
            }
        }
        return;
    }
    // the scenario the Arc guard exists for: a cleaning pass finds the torrent empty while an announce is in flight
    let h = hash_with_first(3, 1);
    let mk = |k: u8, dl: u32, ev: &str| Op::Ann { fam: 4, hash: h, ip: vec![10, 0, 0, k], port: 1000, event: ev.into(), left: 1, numwant: 5, dl, pid: [0x2d; 20] };
    explore(out, &[mk(1, 5, "none")], &[Op::Cln { now: 10, mode: "off".into(), list: vec![] }, mk(2, 20, "none")], max_schedules.max(400), &mut master);
    explore(out, &[], &[mk(1, 20, "none"), mk(2, 20, "none"), Op::Scr { fam: 4, hashes: vec![h] }], max_schedules, &mut master);
    for case in 0..cases {
        let mut r = master.fork(case as u64);
        let (setup, threads) = gen_program(&mut r);
        explore(out, &setup, &threads, max_schedules, &mut r);
    }
    // free-running stress with a watchdog: no gates, many threads, must terminate
    let maps = TorrentMaps::default();
    let nthreads = 8usize;
    let nops = 3000usize;
    let (tx, rx) = channel::<()>();
    for t in 0..nthreads {
        let maps = maps.clone();
        let tx = tx.clone();
        let seed = seed ^ (t as u64 * 7919);
        std::thread::spawn(move || {
            let mut ex = Exec::new(seed);
            ex.maps = maps;
            let mut r = Sm::new(seed);
            for i in 0..nops {
                let (_, th) = gen_program(&mut r);
                let op = if t == 0 && i % 5 == 0 { Op::Cln { now: (i / 50) as u32, mode: "off".into(), list: vec![] } } else { th[0].clone() };
                let _ = std::panic::catch_unwind(std::panic::AssertUnwindSafe(|| ex.exec(&op)));
            }
            let _ = tx.send(());
        });
    }
    let mut finished = 0;
    let t0 = std::time::Instant::now();
    while finished < nthreads && t0.elapsed() < Duration::from_secs(60) {
        if rx.recv_timeout(Duration::from_secs(1)).is_ok() { finished += 1; }
    }
    writeln!(out, "cfree {} {} => {}", nthreads, nops, if finished == nthreads { "ok" } else { "HANG" }).unwrap();
}
