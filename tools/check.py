#!/usr/bin/env python3
"""Runner: `tools/check.py <ID> [--tier quick|thorough] [--replay FILE]`.

Stages (DESIGN.md §4):
  X  extractor            source -> lean/Aquatic/Generated/*.lean
  P  proof                lake build of the property's theorems, forbidden-token
                          grep, `#print axioms` audit (thorough: leanchecker)
  B  harness build        cargo build --offline against /repo's working tree
  K  correspondence       harness (real code) | Lean driver (model + reference)
  S  search / shrink      only when P or K failed
Exit 0 = property held on everything explored; exit 1 + `VIOLATION …` otherwise.
Evidence is rewritten on every run.
"""
import hashlib
import json
import os
import re
import subprocess
import sys
import time

HERE = os.path.dirname(os.path.abspath(__file__))
VERIF = os.path.dirname(HERE)
LEAN = os.path.join(VERIF, "lean")
HARNESS = os.path.join(VERIF, "harness")
DRIVER = os.path.join(LEAN, ".lake", "build", "bin", "driver")
AQV = os.path.join(HARNESS, "target", "debug", "aqv")
REPLAYS = os.path.join(VERIF, "replays")
EVID = os.path.join(VERIF, "evidence")
CORPUS = os.path.join(VERIF, "corpus")
ALLOWED_AXIOMS = {"propext", "Classical.choice", "Quot.sound"}
FORBIDDEN = re.compile(r"\bsorry\b|\badmit\b|^axiom\s|native_decide|bv_decide|implemented_by|\bunsafe\s|maxHeartbeats\s+0")

sys.path.insert(0, HERE)
from props import PROPS, TRUSTED  # noqa: E402

ENV = dict(os.environ)
ENV["CARGO_NET_OFFLINE"] = "true"
ENV.setdefault("CARGO_TERM_COLOR", "never")


def sh(cmd, cwd=None, timeout=None, inp=None):
    t0 = time.time()
    try:
        p = subprocess.run(cmd, cwd=cwd, env=ENV, input=inp, stdout=subprocess.PIPE,
                           stderr=subprocess.STDOUT, timeout=timeout, text=True, errors="replace")
        return p.returncode, p.stdout, time.time() - t0
    except subprocess.TimeoutExpired as e:
        out = e.stdout if isinstance(e.stdout, str) else (e.stdout or b"").decode(errors="replace")
        return 124, (out or "") + "\nTIMEOUT", time.time() - t0


# --------------------------------------------------------------------------- X

def stage_extract():
    rc, out, _ = sh([sys.executable, os.path.join(HERE, "extract.py")])
    return rc == 0, out


# --------------------------------------------------------------------------- P

def strip_comments(text):
    # remove /- … -/ (nested) and -- … comments
    out = []
    i, depth, n = 0, 0, len(text)
    while i < n:
        if text.startswith("/-", i):
            depth += 1
            i += 2
        elif depth and text.startswith("-/", i):
            depth -= 1
            i += 2
        elif depth:
            if text[i] == "\n":
                out.append("\n")
            i += 1
        elif text.startswith("--", i):
            while i < n and text[i] != "\n":
                i += 1
        else:
            out.append(text[i])
            i += 1
    return "".join(out)


def forbidden_tokens():
    hits = []
    for root, _, files in os.walk(os.path.join(LEAN, "Aquatic")):
        for f in files:
            if f.endswith(".lean"):
                p = os.path.join(root, f)
                body = strip_comments(open(p, encoding="utf-8").read())
                for ln, line in enumerate(body.split("\n"), 1):
                    if FORBIDDEN.search(line):
                        hits.append(f"{os.path.relpath(p, LEAN)}:{ln}: {line.strip()}")
    return hits


def theorems_of(module):
    """fully qualified names of the theorems declared in a property file"""
    path = os.path.join(LEAN, *module.split(".")) + ".lean"
    names, ns = [], []
    if not os.path.exists(path):
        return names
    for line in strip_comments(open(path, encoding="utf-8").read()).split("\n"):
        m = re.match(r"^namespace\s+(\S+)", line)
        if m:
            ns.append(m.group(1))
            continue
        m = re.match(r"^end\s+(\S+)", line)
        if m and ns and ns[-1] == m.group(1):
            ns.pop()
            continue
        m = re.match(r"^(?:@\[[^\]]*\]\s*)?(?:private\s+|protected\s+)?theorem\s+(\S+)", line)
        if m:
            names.append(".".join(ns + [m.group(1)]))
    return names


def stage_proof(pid, cfg, thorough):
    res = dict(ok=True, obligations=0, discharged=0, failed=[], log="", theorems=[])
    modules = [cfg["module"]] + cfg.get("extra_modules", [])
    rc, out, dt = sh(["lake", "build"] + modules + ["driver"], cwd=LEAN, timeout=3000)
    res["build_s"] = round(dt, 1)
    driver_ok = True
    if rc != 0:
        res["ok"] = False
        res["log"] = out[-6000:]
        res["failed"].append("lake build " + " ".join(modules))
        # is at least the driver still buildable?
        rc2, out2, _ = sh(["lake", "build", "driver"], cwd=LEAN, timeout=3000)
        driver_ok = rc2 == 0
        if not driver_ok:
            res["log"] += "\n--- driver build ---\n" + out2[-3000:]
    res["driver_ok"] = driver_ok
    hits = forbidden_tokens()
    if hits:
        res["ok"] = False
        res["failed"].append("forbidden tokens: " + "; ".join(hits[:5]))
    thms = []
    for m in modules:
        thms += theorems_of(m)
    res["theorems"] = thms
    res["obligations"] = len(thms)
    if rc == 0 and thms:
        audit = os.path.join(LEAN, ".lake", f"audit_{pid}.lean")
        with open(audit, "w") as f:
            for m in modules:
                f.write(f"import {m}\n")
            for t in thms:
                f.write(f"#print axioms {t}\n")
        rc, out, _ = sh(["lake", "env", "lean", audit], cwd=LEAN, timeout=1200)
        axioms = {}
        for m in re.finditer(r"'([^']+)' depends on axioms: \[([^\]]*)\]", out):
            axioms[m.group(1)] = [a.strip() for a in m.group(2).replace("\n", " ").split(",") if a.strip()]
        for m in re.finditer(r"'([^']+)' does not depend on any axioms", out):
            axioms[m.group(1)] = []
        for t in thms:
            if t not in axioms:
                res["failed"].append(f"audit: no axiom report for {t}")
                res["ok"] = False
            elif set(axioms[t]) - ALLOWED_AXIOMS:
                res["failed"].append(f"audit: {t} uses {sorted(set(axioms[t]) - ALLOWED_AXIOMS)}")
                res["ok"] = False
            else:
                res["discharged"] += 1
        res["axioms_used"] = sorted({a for v in axioms.values() for a in v})
        if rc != 0:
            res["ok"] = False
            res["log"] += out[-3000:]
    elif not thms:
        res["ok"] = False
        res["failed"].append("no theorems found in " + cfg["module"])
    if thorough and res["ok"]:
        for m in modules:
            rc, out, dt = sh(["lake", "env", "leanchecker", m], cwd=LEAN, timeout=3000)
            res.setdefault("leanchecker", []).append(dict(module=m, rc=rc, s=round(dt, 1)))
            if rc != 0:
                res["ok"] = False
                res["failed"].append(f"leanchecker {m}: rc={rc} {out[-500:]}")
    return res


# --------------------------------------------------------------------------- B

def stage_cargo():
    lock = os.path.join(HARNESS, "Cargo.lock")
    if not os.path.exists(lock):
        import shutil
        shutil.copy("/repo/Cargo.lock", lock)
    rc, out, dt = sh(["cargo", "build", "--offline"], cwd=HARNESS, timeout=3000)
    return rc == 0, out[-6000:], round(dt, 1)


# --------------------------------------------------------------------------- K

def run_pair(run, harness_args, timeout=3000):
    """harness | driver ; returns (trace_text, driver_output, rc_h, rc_d)"""
    rc_h, trace, _ = sh([AQV, run["harness"]] + harness_args, timeout=timeout)
    if rc_h != 0:
        return trace, "", rc_h, -1
    rc_d, dout, _ = sh([DRIVER, run["driver"]], inp=trace, timeout=timeout)
    return trace, dout, rc_h, rc_d


def parse_driver(dout):
    fails, hist, summary = [], [], None
    for line in dout.split("\n"):
        if line.startswith(("MISMATCH", "SPECFAIL", "BADLINE")):
            fails.append(line)
        elif line.startswith("H "):
            p = line.split(" ", 3)
            hist.append((p[1], int(p[2]), p[3].split(",") if len(p) > 3 and p[3] else []))
        elif line.startswith("SUMMARY "):
            try:
                summary = json.loads(line[8:])
            except json.JSONDecodeError:
                summary = None
    return fails, hist, summary


def history_of(trace_lines, lineno):
    """the lines of the case containing (1-based) line `lineno`, up to that line"""
    i = lineno - 1
    start = i
    while start > 0 and not trace_lines[start].startswith("cfg "):
        start -= 1
    if not trace_lines[start].startswith("cfg "):
        return trace_lines[i:i + 1]      # single-line case
    return trace_lines[start:i + 1]


def still_fails(run, ops, kind, seed):
    tmp = os.path.join(REPLAYS, f".shrink-{os.getpid()}.ops")
    with open(tmp, "w") as f:
        f.write("\n".join(ops) + "\n")
    _, dout, rc_h, rc_d = run_pair(run, ["--replay", tmp, "--seed", str(seed)], timeout=120)
    os.unlink(tmp)
    if rc_h != 0:
        return kind == "CRASH"
    fails, _, _ = parse_driver(dout)
    return any(f.startswith(kind) for f in fails)


def shrink(run, ops, kind, seed, budget=400):
    """ddmin over op lines (first line = cfg is kept)"""
    inputs = [l.split("=>")[0].rstrip() for l in ops]
    head, body = inputs[:1], inputs[1:]
    if not still_fails(run, head + body, kind, seed):
        return inputs, False
    n, tries = 2, 0
    while len(body) >= 2 and tries < budget:
        chunk = max(1, len(body) // n)
        reduced = False
        for i in range(0, len(body), chunk):
            cand = body[:i] + body[i + chunk:]
            tries += 1
            if cand and still_fails(run, head + cand, kind, seed):
                body, n, reduced = cand, max(n - 1, 2), True
                break
        if not reduced:
            if chunk == 1:
                break
            n = min(len(body), n * 2)
    return head + body, True


def stage_corr(pid, cfg, tier, seed, corpus=True):
    res = dict(evaluations=0, lines=0, distinct=set(), dist={}, fails=[], samples=[], runs=[], crashed=[], known={})
    nontriv = set(cfg["nontrivial"])
    for run in cfg["runs"]:
        sizes = run[tier]
        # corpus first
        cdir = os.path.join(CORPUS, pid)
        corpus_files = sorted(os.listdir(cdir)) if (corpus and os.path.isdir(cdir)) else []
        jobs = [(["--replay", os.path.join(cdir, f), "--seed", str(seed)], f"corpus/{f}") for f in corpus_files
                if f.endswith("." + run["harness"])]
        args = ["--seed", str(seed)]
        for k, v in sizes.items():
            args += [f"--{k}", str(v)]
        jobs.append((args, "generated"))
        for hargs, label in jobs:
            trace, dout, rc_h, rc_d = run_pair(run, hargs)
            rinfo = dict(harness=run["harness"], driver=run["driver"], args=" ".join(hargs), label=label, rc_harness=rc_h, rc_driver=rc_d)
            res["runs"].append(rinfo)
            if rc_h != 0 or rc_d != 0:
                res["crashed"].append(dict(run=rinfo, tail=(trace if rc_h != 0 else dout)[-2000:]))
                continue
            fails, hist, summary = parse_driver(dout)
            tl = trace.split("\n")
            if summary:
                res["lines"] += summary.get("lines", 0)
                for k, v in summary.get("dist", {}).items():
                    res["dist"][k] = res["dist"].get(k, 0) + v
            res["evaluations"] += len(hist)
            for hsh, _, notes in hist:
                if not nontriv or (set(notes) & nontriv):
                    res["distinct"].add(hsh)
            if not res["samples"] and tl:
                # first case of the run, written out
                first = []
                for l in tl:
                    if l.startswith("cfg ") and first:
                        break
                    first.append(l)
                res["samples"].append(first[:40])
            kept = 0
            if not any(l.startswith("cfg ") for l in tl[:50]):
                fails.sort(key=len)          # single-line cases: report the smallest ones
            # failures of the property itself before model disagreements: a concrete failing input is what a report needs
            fails.sort(key=lambda f: 0 if f.startswith("SPECFAIL") else 1)
            for f in fails:
                k = match_known(pid, f)
                if k:
                    res["known"][k["what"]] = res["known"].get(k["what"], 0) + 1
                    continue
                if kept >= 20:
                    res["more_fails"] = res.get("more_fails", 0) + 1
                    continue
                kept += 1
                m = re.search(r"line=(\d+)", f)
                ln = int(m.group(1)) if m else 1
                res["fails"].append(dict(run=run, kind=f.split(" ", 1)[0], text=f, history=history_of(tl, ln), seed=seed))
    return res


# --------------------------------------------------------------------------- known findings

def load_known():
    p = os.path.join(VERIF, "known_findings.json")
    if not os.path.exists(p):
        return []
    return json.load(open(p)).get("findings", [])


def match_known(pid, text):
    """a violation is known iff an entry of kind `known` for this property has a
    regex `signature` matching the (shrunk) replay text"""
    for k in load_known():
        if (k.get("property") == pid or pid in k.get("also", [])) and k.get("status") == "known" and re.search(k["signature"], text, re.S):
            return k
    return None


# --------------------------------------------------------------------------- main

def write_replay(pid, seed, tag, text):
    os.makedirs(REPLAYS, exist_ok=True)
    path = os.path.join(REPLAYS, f"{pid}-{seed}-{tag}.txt")
    with open(path, "w") as f:
        f.write(text)
    return path


def main():
    args = sys.argv[1:]
    if not args or args[0] not in PROPS:
        print("usage: check.py <ID> [--tier quick|thorough] [--replay FILE]\nknown ids: " + " ".join(sorted(PROPS)))
        sys.exit(2)
    pid = args[0]
    cfg = PROPS[pid]
    tier = os.environ.get("VERIF_TIER", "quick")
    if "--tier" in args:
        tier = args[args.index("--tier") + 1]
    if tier not in ("quick", "thorough"):
        tier = "quick"
    seed = int(os.environ.get("VERIF_SEED", "1") or 1)
    t0 = time.time()
    os.makedirs(EVID, exist_ok=True)
    os.makedirs(REPLAYS, exist_ok=True)

    if "--replay" in args:
        path = args[args.index("--replay") + 1]
        ok_x, _ = stage_extract()
        sh(["lake", "build", "driver"], cwd=LEAN)
        ok_b, out_b, _ = stage_cargo()
        text = open(path).read()
        print(text)
        m = re.search(r"^# harness=(\S+) driver=(\S+)", text, re.M)
        if not m:
            print("replay file names no harness (theorem / extractor failure): see its text above")
            sys.exit(1)
        run = dict(harness=m.group(1), driver=m.group(2))
        _, dout, rc_h, rc_d = run_pair(run, ["--replay", path, "--seed", str(seed)])
        print(dout)
        fails, _, _ = parse_driver(dout)
        sys.exit(1 if fails or rc_h or rc_d else 0)

    violations = []   # (replay_path, suffix)
    known_lines = []
    notes = []

    ok_x, out_x = stage_extract()
    if not ok_x:
        path = write_replay(pid, seed, "extract", "extractor anchor no longer found (tools/extract.py):\n" + out_x)
        violations.append((path, " no-failing-input-found"))

    proof = stage_proof(pid, cfg, tier == "thorough")
    ok_b, out_b, dt_b = stage_cargo()
    corr = None
    if not ok_b:
        path = write_replay(pid, seed, "harness-build", "harness no longer builds against /repo (correspondence cannot run):\n" + out_b)
        violations.append((path, " no-failing-input-found"))
    elif not proof.get("driver_ok", True):
        pass
    else:
        corr = stage_corr(pid, cfg, tier, seed)

    found_input = False
    if corr:
        unknown = [f for f in corr["fails"] if not match_known(pid, f["text"])]
        if unknown and not any(f["kind"] == "SPECFAIL" for f in unknown) and not os.environ.get("VERIF_NO_SEARCH"):
            # the model and the code disagree but no answer seen so far breaks the property itself:
            # search further seeds (same generators) for an input on which it does
            t0 = time.time()
            for extra_seed in range(seed + 7001, seed + 7007):
                if time.time() - t0 > 240:
                    break
                more = stage_corr(pid, cfg, "quick", extra_seed, corpus=False)
                sf = [f for f in more["fails"] if f["kind"] == "SPECFAIL" and not match_known(pid, f["text"])]
                notes.append(f"search for a failing input: seed {extra_seed}, {more['evaluations']} cases, {len(sf)} property failures")
                if sf:
                    corr["fails"] = sf[:3] + corr["fails"]
                    break
        for c in corr["crashed"]:
            path = write_replay(pid, seed, "crash", json.dumps(c, indent=1))
            violations.append((path, ""))
            found_input = True
        seen = set()
        for what, cnt in corr["known"].items():
            known_lines.append(f"KNOWN-FINDING: property={pid} {what}")
        for f in corr["fails"]:
            run = f["run"]
            k = match_known(pid, f["text"])
            if k:
                known_lines.append(f"KNOWN-FINDING: property={pid} {k['what']}")
                continue
            # socket-level families replay by echoing the recorded trace (a live tracker cannot be re-driven to the
            # same interleaving): the history is kept whole, with the answers that were observed
            if run["harness"] in ("udpnet", "httpnet", "wsnet", "supervise"):
                ops, shrunk = f["history"], False
            else:
                ops, shrunk = shrink(run, f["history"], f["kind"], f["seed"]) if (f["kind"] != "BADLINE" and len(f["history"]) > 2) else (f["history"], False)
            key = hashlib.sha1("\n".join(ops).encode()).hexdigest()[:10]
            if key in seen:
                continue
            seen.add(key)
            # re-run the shrunk ops to show outputs
            tmp = os.path.join(REPLAYS, f".re-{os.getpid()}.ops")
            open(tmp, "w").write("\n".join(ops) + "\n")
            trace, dout, _, _ = run_pair(run, ["--replay", tmp, "--seed", str(f["seed"])])
            os.unlink(tmp)
            body = (f"# harness={run['harness']} driver={run['driver']} kind={f['kind']} seed={f['seed']} shrunk={shrunk}\n"
                    f"# {f['text']}\n" + trace + "\n# driver says:\n# " + "\n# ".join(l for l in dout.split("\n") if l and not l.startswith("H ")) + "\n")
            k = match_known(pid, body)
            if k:
                known_lines.append(f"KNOWN-FINDING: property={pid} {k['what']}")
                continue
            path = write_replay(pid, seed, f"{f['kind'].lower()}-{key}", body)
            if f["kind"] == "SPECFAIL":
                violations.append((path, ""))
                found_input = True
            else:
                # model/implementation disagree but the reference accepts the answer:
                # the property is no longer *shown* to hold
                violations.append((path, " no-failing-input-found"))
            if len(violations) >= 5:
                break

    if not proof["ok"]:
        body = ("proof stage failed for " + pid + "\nfailed: " + "\n        ".join(proof["failed"]) + "\n\n" + proof.get("log", ""))
        k = match_known(pid, body)
        if k:
            known_lines.append(f"KNOWN-FINDING: property={pid} {k['what']}")
        elif not found_input:
            path = write_replay(pid, seed, "proof", body)
            violations.append((path, " no-failing-input-found"))
        else:
            notes.append("proof stage failed as well: " + "; ".join(proof["failed"]))

    # hooks for property-specific extra stages
    extra = {}
    hook = cfg.get("extra_stage")
    if hook:
        import importlib
        mod = importlib.import_module(hook)
        ex = mod.run(pid, cfg, tier, seed, dict(sh=sh, write_replay=write_replay, match_known=match_known,
                                                AQV=AQV, DRIVER=DRIVER, VERIF=VERIF, LEAN=LEAN))
        extra = ex.get("coverage", {})
        for v in ex.get("violations", []):
            violations.append(v)
        known_lines += ex.get("known", [])

    wall = time.time() - t0
    cov = dict(
        obligations=proof["obligations"],
        discharged=proof["discharged"],
        checker_cmd=f"cd lean && lake build {cfg['module']} && lake env lean .lake/audit_{pid}.lean  (#print axioms of every theorem)" + ("; lake env leanchecker " + cfg["module"] if tier == "thorough" else ""),
        trusted_base=TRUSTED,
        theorems=proof["theorems"],
        axioms_used=proof.get("axioms_used", []),
        proof_stage_ok=proof["ok"],
        proof_failures=proof["failed"],
        lean_build_s=proof.get("build_s"),
    )
    if "leanchecker" in proof:
        cov["leanchecker"] = proof["leanchecker"]
    if corr:
        cov.update(
            evaluations=corr["evaluations"],
            distinct_nontrivial=len(corr["distinct"]),
            rule=("cases = generated histories / inputs run on the real code and replayed on model and reference; "
                  "distinct = distinct hash of the case's input tokens; non-trivial = the driver observed at least one of: "
                  + ", ".join(cfg["nontrivial"]) if cfg["nontrivial"] else "every case counts"),
            samples=corr["samples"][:2] or [["(no correspondence run)"]],
            trace_lines_checked=corr["lines"],
            input_distribution=corr["dist"],
            correspondence_runs=corr["runs"],
            known_finding_hits=corr["known"],
            model_mismatches=sum(1 for f in corr["fails"] if f["kind"] == "MISMATCH"),
            spec_failures=sum(1 for f in corr["fails"] if f["kind"] == "SPECFAIL"),
        )
    else:
        cov.update(samples=[proof["theorems"][:5]])
    cov.update(extra)
    if notes:
        cov["notes"] = notes
    ev = dict(property_id=pid, tier=tier, seed=seed, level=cfg["level"], coverage=cov,
              assumptions=cfg["assumptions"], wall_s=round(wall, 1), violations=len(violations),
              known_findings_reported=known_lines)
    with open(os.path.join(EVID, f"{pid}.json"), "w") as f:
        json.dump(ev, f, indent=1)

    for l in sorted(set(known_lines)):
        print(l)
    print(f"{pid} tier={tier} seed={seed}: theorems {proof['discharged']}/{proof['obligations']}"
          + (f", cases {corr['evaluations']} (non-trivial distinct {len(corr['distinct'])}), lines {corr['lines']}" if corr else "")
          + f", {round(wall, 1)} s")
    if violations:
        # a concrete failing input was found: it is the report; the obligations that no longer check
        # (theorem, extractor anchor, harness build) are named in a line under it, not as inputless violations
        concrete = [v for v in violations if v[1] == ""]
        if concrete:
            for path, suffix in violations:
                if suffix:
                    print(f"also no longer checks: {path}")
            violations = concrete
        for path, suffix in violations:
            print(f"VIOLATION property={pid} replay={path}{suffix}")
        sys.exit(1)
    sys.exit(0)


if __name__ == "__main__":
    main()
