"""Per-property configuration of the runner (tools/check.py) and of MANIFEST.json.

For every property:
  module      Lean module with the property theorems (Aquatic/Props/<id>.lean)
  runs        correspondence runs: harness family + driver family + sizes per tier
  nontrivial  notes (printed by the driver per case) of which at least one must be
              present for a case to count as non-trivial
  level, technique, level_text, level_note, design_ref   -> MANIFEST.json
  assumptions -> evidence
"""

TRUSTED = [
    "Lean 4.33 kernel (+ leanchecker in the thorough tier)",
    "axioms allowed in property theorems: propext, Classical.choice, Quot.sound",
    "hand-written Lean models in lean/Aquatic/Model, tied to /repo by the correspondence run of this check (differential test, sampled)",
    "tools/extract.py (regex translator of constants / layouts) and tools/check.py",
    "Lean compiler for the driver executable (runs the same definitions the kernel checked)",
]

PROPS = {}


def prop(pid, **kw):
    kw.setdefault("runs", [])
    kw.setdefault("nontrivial", [])
    kw.setdefault("level", "proof")
    kw.setdefault("assumptions", [])
    kw.setdefault("extra_modules", [])
    PROPS[pid] = kw


prop(
    "C01",
    module="Aquatic.Props.C01",
    extra_modules=["Aquatic.Props.Store"],
    technique="Lean 4 refinement proof (induction over histories) + differential correspondence against the real TorrentMaps",
    runs=[dict(harness="udpstore", driver="store",
               quick=dict(cases=600, maxops=60), thorough=dict(cases=40000, maxops=160))],
    nontrivial=["small->large", "large->small(stop)", "large->small(clean)", "halves-branch", "re-announce"],
    level_text="Machine-checked refinement theorem: every history of announce/scrape/clean on the model of the UDP two-representation peer store yields the counts and candidate peers of the reference tracker, with no panic outcome; the model is tied to the current source by replaying generated histories on the real aquatic_udp::swarm::TorrentMaps and comparing every reply with model and reference.",
    level_note="Trusted: Lean kernel; hand-written model (fidelity checked by sampled differential runs, not proved); extracted SMALL_PEER_MAP_CAPACITY; sharding by hash[0]%16 and the HashMap are modelled as one association list.",
    design_ref="§8 C01, §7",
    assumptions=["16 shards keyed by info_hash[0] are modelled as one association list (a partition of one map)",
                 "sequential histories only (concurrency is C04)"],
)

STORE_NONTRIV = ["small->large", "large->small(stop)", "large->small(clean)", "halves-branch", "re-announce"]

prop(
    "C02",
    module="Aquatic.Props.C02",
    technique="Lean 4 proof over all lists, limits and in-range random draws + relational differential check (exists draws) against the real stores",
    runs=[dict(harness="udpstore", driver="store", quick=dict(cases=400, maxops=60), thorough=dict(cases=20000, maxops=160)),
          dict(harness="httpstore", driver="store", quick=dict(cases=400, maxops=60), thorough=dict(cases=20000, maxops=160))],
    nontrivial=["halves-branch", "offset-choices>1", "large-all-branch", "small->large"],
    level_text="Theorems for every key list, limit and every in-range pair of random draws: the heap selection (UDP/HTTP), the inline selection and the WebTorrent selection never underflow, return duplicate-free stored keys other than the requester, at most the clamped limit, everything when it fits and at least limit-1 (exactly limit for WebTorrent) otherwise; clamps proved separately; announce-level corollary from the store refinement. Tie: each peer list the real stores return must equal the model's output for SOME in-range draws and satisfy the reference's bounds.",
    level_note="Trusted: Lean kernel; model fidelity by sampled differential runs; rand's random_range contract (value in the half-open range).",
    design_ref="§8 C02",
    assumptions=["rng.random_range(a..b) returns a value in [a, b)"],
)

prop(
    "C07",
    module="Aquatic.Props.C07",
    extra_modules=["Aquatic.Props.Store"],
    technique="Lean 4 refinement proof (shared with C01, capacity 4, HTTP cleaning variant) + differential correspondence against the real HTTP TorrentMaps",
    runs=[dict(harness="httpstore", driver="store", quick=dict(cases=600, maxops=60), thorough=dict(cases=40000, maxops=160))],
    nontrivial=STORE_NONTRIV + ["scrape-truncated"],
    level_text="Machine-checked refinement: every history on the model of the HTTP two-representation store answers like the reference tracker (counts exclude the announcer, scrape = BTreeMap over the first max_scrape_torrents hashes each once, empty torrents dropped by the next clean), no panic outcome; tied to the source by replaying generated histories on the real aquatic_http TorrentMaps (reached through the verif-hooks re-export and clock override).",
    level_note="Trusted: Lean kernel; hand-written model checked by sampled differential runs; extracted SMALL_PEER_MAP_CAPACITY (http); hooks H1 (re-export, torrent count accessor) and H3 (clock override).",
    design_ref="§8 C07",
    assumptions=["one swarm worker (sharding across workers is C16)"],
)

prop(
    "C10",
    module="Aquatic.Props.C10",
    extra_modules=["Aquatic.Props.Store", "Aquatic.Props.C10Ws", "Aquatic.Props.WsStore"],
    technique="Lean 4 proof (deadline arithmetic, clean = filter in both representations and in the WebTorrent store with its pending offers, fresh deadline on every announce, refinement transport) + boundary differential runs (clean at d-1, d, d+1) on the UDP, HTTP and WebTorrent stores",
    runs=[dict(harness="timeunit", driver="time", quick=dict(cases=3000), thorough=dict(cases=300000)),
          dict(harness="udpstore", driver="store", quick=dict(cases=300, maxops=60), thorough=dict(cases=20000, maxops=160)),
          dict(harness="httpstore", driver="store", quick=dict(cases=300, maxops=60), thorough=dict(cases=20000, maxops=160)),
          dict(harness="wsstore", driver="wsstore", quick=dict(cases=400, maxops=60), thorough=dict(cases=20000, maxops=140))],
    nontrivial=["t=d-1", "t=d", "t=d+1", "u32-overflow-region", "cln-dropped-torrent", "large->small(clean)", "clean-removed-peers", "wcln"],
    level_text="WebTorrent part (C10Ws): on the reference the store refines for every history, a pass keeps a permitted entry whose deadline is in the future, removes it at or after the deadline, removes nothing else; a kept peer's pending offer stays exactly while its own deadline is in the future and the offers of a removed peer go with it; every non-stop announce stores the entry with deadline now + max_peer_age whatever it carried before and whether or not the status changed; forwarded offers are recorded with now + max_offer_age. Theorems: ValidUntil arithmetic (deadline = now + age exactly when representable, valid iff clock < deadline; full statement, its partial form and a negation witness for the one recorded edge), a cleaning pass keeps exactly the unexpired entries in both representations with an exact seeder counter, and the reference-level clauses (never earlier, gone at/after the deadline, re-announce refreshes) transported to the UDP and HTTP stores by the refinement theorem. Tie: ValidUntil::new_with_now/valid on boundary triples, store histories that clean one second before / at / after stored deadlines.",
    level_note="Trusted: Lean kernel; model fidelity by sampled differential runs; WebTorrent store and offer expiry are covered under C08/C09; the socket workers' refresh of the time sample is read as 'the handling worker's current time sample'.",
    design_ref="§8 C10",
    assumptions=["the clock is the whole-second u32 `SecondsSinceServerStart`"],
)

prop(
    "C13",
    module="Aquatic.Props.C13",
    technique="Lean 4 proof of conformance (generated layouts = BEP 15 tables, decide) and round-trip/rejection theorems + differential check of the real writers/parsers against an independent BEP 15 encoder/decoder",
    runs=[dict(harness="udpcodec", driver="codec13", quick=dict(cases=400), thorough=dict(cases=40000))],
    nontrivial=["announce+extension", "scrape-cut", "pq-sendable-error", "pq-unsendable-error", "rq-announce", "rq-scrape",
                "rs-announce4", "rs-announce6", "rs-scrape", "rs-error", "ps-rejected"],
    level_text="The field order, widths, enum discriminants and action codes are re-extracted from crates/udp_protocol on every run and proved equal to the BEP 15 tables (decide over finite tables); the model writer over those layouts is proved byte-identical to an independently written BEP 15 encoder for every message; the model parser is proved to accept every conforming datagram (announces with arbitrary extension bytes, scrapes cut to max_scrape_torrents) with every field's value and to reject short input, unknown action/event, wrong protocol id, port 0 and bad hash lists; replies of both families round-trip. Tie: real write_bytes/parse_bytes on generated, truncated, extended and bit-flipped datagrams versus model and versus the independent BEP 15 codec.",
    level_note="Trusted: Lean kernel; tools/extract_layouts.py (regex translator); zerocopy's as_bytes/read_from_prefix/ref_from_bytes contract and String::from_utf8_lossy are modelled, their agreement with the model is sampled by the correspondence run; integers are modelled by their unsigned bit patterns.",
    design_ref="§8 C13",
    assumptions=["error-message text is compared only when it is valid UTF-8 (from_utf8_lossy of std is not modelled)"],
)

prop(
    "C05",
    module="Aquatic.Props.C05",
    technique="Lean 4 proof for an arbitrary keyed hash (window arithmetic, acceptance implies correct MAC) + differential check of the real ConnectionValidator at window boundaries, other addresses, all single-bit and sampled double-bit alterations, forged and previous-run ids",
    runs=[dict(harness="validator", driver="validator", quick=dict(cases=60), thorough=dict(cases=6000)),
          dict(harness="udpnet", driver="udpnet", quick={"cases": 2, "mio-only": 1}, thorough={"cases": 24, "mio-only": 1})],
    nontrivial=["t=expiry-1", "t=expiry", "60s-future", "61s-future", "age=0", "foreign-or-altered-id", "id-stale", "id-foreign", "id-forged"],
    level_text="Theorems over every issue time, check time, age and address, for an arbitrary MAC function: an issued id is accepted from its address iff now < t + age and t <= now + 60; acceptance of any id from any address implies the presented tag equals the MAC of (embedded time, that address) - the precise form of 'rejected up to the 2^-32 guessing chance'; the u64 sums cannot overflow. Tie: the real ConnectionValidator (clock set through hook H4) on boundary triples, all 64 single-bit alterations, other addresses of both families, forged ids and ids of another validator instance.",
    level_note="Trusted: Lean kernel; BLAKE3 keyed hash idealised as an arbitrary function (the driver's oracle knows the MAC only of issued (time, address) pairs: a 2^-32 chance of a spurious alarm per forged id); constant_time_eq; native-endian split of the id modelled as two u32 halves; the socket workers' clock refresh (every 256 polls / 5 s pulse) is not modelled.",
    design_ref="§8 C05",
    assumptions=["mac is an arbitrary function of (issue time, canonical source ip)", "the validator clock is set by the hook; its refresh by the socket workers is outside the model"],
)

prop(
    "C03",
    module="Aquatic.Props.C03",
    extra_modules=["Aquatic.Props.UringRecv"],
    technique="Lean 4 proof (canonicalisation, family agreement, last-value-of-last-header selection) + differential check of CanonicalSocketAddr::new, IpVersion::canonical_from_ip, aquatic_http parse_request with generated header layouts, and UDP announces with varying in-request ip",
    runs=[dict(harness="addr", driver="addr", quick=dict(cases=3000), thorough=dict(cases=200000)),
          dict(harness="httpnet", driver="store", quick=dict(cases=6), thorough=dict(cases=60)),
          dict(harness="udpstore", driver="store", quick=dict(cases=200, maxops=40), thorough=dict(cases=5000, maxops=100)),
          # io_uring back end: the source address is decoded by hand from the recvmsg buffer
          dict(harness="uringrecv", driver="uringrecv", quick=dict(cases=3000), thorough=dict(cases=60000))],
    nontrivial=["mapped-source", "v4-mapped", "several-occurrences", "comma-list", "header-absent", "re-announce", "small->large", "proxy=true"],
    level_text="Theorems: canonical is idempotent, maps exactly the ::ffff:a.b.c.d addresses to a.b.c.d and never yields a mapped address; the WebTorrent family choice equals the family of the canonical address (so a host seen through a dual-stack socket and through plain IPv4 is the same IPv4 peer in all three trackers); in reverse-proxy mode the text handed to the IP parser is the trimmed last comma-separated piece of the last occurrence of the configured header, an absent header is an error. The stores' key is (canonical source ip, request port) by construction of the models, which the correspondence runs confirm on the real code with a varying in-request ip field.",
    level_note="Partial: the socket configuration clause (ipv4-only / ipv6-only / dual-stack sockets, TCP peer address) is exercised by the socket-level runs, not proved. Trusted: std's IpAddr text parser (used as the oracle for a fixed pool of texts), httparse; str::trim modelled for ASCII white space only.",
    design_ref="§8 C03",
    assumptions=["header values use ASCII white space only", "the std IP text parser is trusted"],
)

prop(
    "C11",
    module="Aquatic.Props.C11",
    extra_modules=["Aquatic.Props.Store"],
    technique="Lean 4 proof (file parsing, parse-then-store reload, gate, clean under the list in force, end-to-end refinement over any interleaving) + differential check of the real update_access_list / create_from_path and of the stores' clean with lists",
    runs=[dict(harness="udpnet", driver="udpnet", quick={"cases": 2, "mio-only": 1}, thorough={"cases": 24, "mio-only": 1}),
          dict(harness="acl", driver="acl", quick=dict(cases=500), thorough=dict(cases=50000)),
          dict(harness="udpstore", driver="store", quick=dict(cases=300, maxops=60), thorough=dict(cases=10000, maxops=120)),
          dict(harness="httpstore", driver="store", quick=dict(cases=300, maxops=60), thorough=dict(cases=10000, maxops=120))],
    nontrivial=["failed-reload-with-nonempty-previous-list", "blank-lines", "file-unreadable", "cln-acl", "reply-error", "acl=allow", "acl=deny"],
    level_text="Theorems: allows(mode, list, hash) for the three modes; a denied announce returns an error and the same state; a reload parses the whole file before storing, so a missing file or a malformed/unreadable line at any position leaves the previous list in force, a good file switches to exactly its hashes (blank lines, surrounding Unicode white space and hex case ignored); cleaning keeps an entry iff it is unexpired and its torrent permitted by the list in force; and for every interleaving of announce / scrape / reload / clean the gated store refines the reference tracker guarded by the latest successfully loaded list. Tie: the real update_access_list on generated files (bad line at every position, invalid UTF-8, CRLF, missing file, directory) observed through the shared list and through a per-worker cache; the real stores' clean with allow/deny lists.",
    level_note="The gate in front of the three trackers' announce paths sits in private socket-worker code; it is exercised by the socket-level runs (C06, C16, C17), here it is modelled. Trusted: arc_swap (a store is seen by the next load), hex::decode_to_slice, BufRead::lines and str::trim contracts (their agreement with the model is sampled).",
    design_ref="§8 C11",
    assumptions=["arc_swap::Cache observes a store on its next load"],
)

prop(
    "C15",
    module="Aquatic.Props.C15",
    extra_modules=["Aquatic.Props.C15Msg"],
    technique="Lean 4 proof (identifier visitor accepts exactly 20 characters <= U+00FF; every message round-trips through the serde-derived JSON shape regenerated from the source; untagged variants unambiguous) + differential check of the real to_ws_message / from_ws_message (text and binary) incl. structure-aware mutations",
    runs=[dict(harness="wsjson", driver="wsjson", quick=dict(cases=300), thorough=dict(cases=30000))],
    nontrivial=["len>20", "len<20", "char>U+00FF", "with-offers", "with-answer", "in-rejected", "out-rejected", "SR", "ER", "in-scrape"],
    level_text="Theorems: the 20-byte identifier decoder accepts exactly the strings of 20 characters in U+0000-U+00FF (no shorter, no longer, no other characters) and inverts the encoder; the JSON field names, enum names and untagged variant orders regenerated from crates/ws_protocol equal the WebTorrent protocol's (decide); every incoming and outgoing message, with every optional field present / absent, decodes back to itself from the JSON value serde's derive produces, and no serialised message is accepted by an earlier untagged variant. Tie: real InMessage/OutMessage to_ws_message and from_ws_message on generated messages (SDP with quotes, backslashes, control and non-BMP characters; identifiers with every byte value), identifier strings of length 0..40 and with characters above U+00FF, JSON values with dropped / duplicated / nulled / unknown / retyped fields, text and binary frames.",
    level_note="The JSON text layer (serde_json writer, simd-json reader, tungstenite frames) is trusted: the model works on JSON values; their agreement with the model is sampled. serde's derive rules (unknown keys ignored, duplicate known key is an error, missing Option is None, untagged = first matching variant) are modelled by hand; the shape they are applied to is regenerated from the source (tools/extract_ws.py).",
    design_ref="§8 C15",
    assumptions=["read(write(v)) = v for the JSON text layer (exercised, not proved)"],
)

prop(
    "C14",
    module="Aquatic.Props.C14",
    technique="Lean 4 proof (written requests parse back for every field value; zipped memchr splitter splits well-formed strings exactly; parameter order and unknown keys irrelevant; 20-byte url codec exact; reply writers = independent canonical bencode encoder) + differential check of the real writers / parsers / serde_bencode reader",
    runs=[dict(harness="httpcodec", driver="httpcodec", quick=dict(cases=500), thorough=dict(cases=50000))],
    nontrivial=["hq-announce+key", "hp-rejected", "hp-scrape", "warning", "peers6", "downloaded≠0", "hp-roundtrip"],
    level_text="Theorems: an announce or scrape written by the library parses back to an equal request for every field value (all events, every byte value in identifiers, optional fields present/absent, key under its decidable well-formedness predicate); the model of the two zipped memchr iterators splits every well-formed k=v&k=v string into exactly its pairs; any permutation of parameters with distinct keys parses to the same result; unknown keys are ignored anywhere; percent-encoded and raw identifiers of exactly 20 single-byte characters decode exactly, 19 / 21 characters and characters above U+00FF are rejected; announce (with / without warning), scrape and failure replies are byte-identical to an independent canonical bencode encoder with sorted keys and 6 / 18-byte compact peers. The writers' literals and the parser's key table are regenerated from the source. Tie: real Request::write / parse_http_get_path / Response::write_bytes / parse_bytes on generated and hand-mangled inputs.",
    level_note="Trusted (parameters of the model / exercised only): urlencoding::{encode,decode} for the optional key, httparse (path extraction), serde_bencode (client-side reader; replies are checked to parse back to an equal value with counters up to i64::MAX, bencode integers being signed 64-bit there), itoa.",
    design_ref="§8 C14",
    assumptions=["reply counters are at most i64::MAX (serde_bencode integers)", "the key field is read within the parser's documented 100-byte cap"],
)

prop(
    "C06",
    module="Aquatic.Props.C06",
    extra_modules=["Aquatic.Props.C13", "Aquatic.Props.UringSend", "Aquatic.Props.UringRecv", "Aquatic.Props.MioSend"],
    technique="Lean 4 proof over all datagrams, sources and configurations of the per-datagram decision of both socket back ends + socket-level differential runs against the real tracker process (mio and io_uring)",
    runs=[dict(harness="udpnet", driver="udpnet", quick=dict(cases=6), thorough=dict(cases=60)),
          dict(harness="uringsend", driver="uringsend", quick=dict(cases=300), thorough=dict(cases=6000)),
          dict(harness="uringrecv", driver="uringrecv", quick=dict(cases=3000), thorough=dict(cases=60000))],
    nontrivial=["mapped-source", "request-error", "err-trunc", "err-addr", "id-stale", "id-foreign", "id-forged", "reply-error", "announce+extension", "uring>cap", "reply-scrape", "all-in-flight", "skipped-taken-buffers", "prep-serfail"],
    level_text="Theorems for every datagram, source address and port, limit and validity oracle: a source holding no valid connection id obtains nothing or the 16-byte connect reply to a datagram of at least 16 bytes (both back ends); a non-connect reply implies that the id carried by the datagram is valid for the canonical source; port 0 is ignored; well-formed connect / announce / scrape requests (with any trailing extension bytes) get exactly the reply kind the request calls for with its transaction id, announces of the sender's family, scrapes cut to the first max_scrape_torrents hashes in order; invalid ids and unparseable datagrams get silence; io_uring decides like mio on every datagram its receive buffer holds. Send path of the mio worker with its resend buffer (Props/MioSend, every outcome of every send_to a parameter): each reply is, exactly once, on the wire, waiting in the resend buffer or dropped - no reply goes out twice, resends included; the buffer stays within resend_buffer_max_len and is empty after a resend pass (a reply is tried at most twice); the disable_resend_buffer arguments of the send_response calls are regenerated and pinned. Receive side of the io_uring worker (Props/UringRecv over Model/UringRecv: RecvMsgOut::parse as written, the sockaddr decoding and checks of recv_helper.rs): on every buffer the kernel writes, parse yields truncated iff the datagram exceeds buffer - 16 - name field (480 / 468 bytes: F6), else invalid-address iff the source port is 0, else the request parser's verdict on exactly the datagram with the canonical form of exactly the reported source - so handle_recv_cqe on kernel-written buffers IS handleUring on (source, datagram), the function the theorems above are about. Send side of the io_uring worker (Props/UringSend over Model/UringSend: the finite pool of reply buffers and the queue of computed replies, any pool size, arrivals, send phases, completions in any order): the buffer a reply is written into is free and never one the kernel may still be reading, a buffer is marked taken exactly when an uncompleted send uses it, replies leave the queue in order, each exactly once, and are then in flight, sent, or dropped only for not fitting the buffer (which C18 excludes for accepted configurations); a reply that finds no buffer stays at the head of the queue and goes out once a buffer is free. The full statement fails for io_uring beyond that (negation proved with a 24-hash scrape: finding F6). Tie: a tracker child process per case on loopback, several client sockets at once, every reply matched to the socket it arrived on and compared with the model's decision; the real SendBuffers driven in-process (hook) through generated prepare / completion / reset sequences, compared call by call with the model; the real RecvHelperV4 / V6 called in-process (hook) on generated recvmsg buffers (kernel-shaped and malformed).",
    level_note="partial for the runtime part: kernel delivery; the EWOULDBLOCK / ENOBUFS outcomes of the mio send path are modelled (parameters) but cannot be provoked on loopback, only the sent path is exercised; the inline queue handling of the io_uring loop (modelled by hand; its deque operations are regenerated and pinned, the socket-level runs exercise it) and the source address the kernel reports are exercised by the runs, not modelled. Trusted: validity oracle = C05's theorem; access list = C11's.",
    design_ref="§8 C06",
    assumptions=["stale ids are produced on the mio back end only (the io_uring back end refreshes its clock by timer; same validator code)",
                 "replies are awaited for a bounded time; silence = no datagram within that time"],
)

prop(
    "C16",
    module="Aquatic.Props.C16",
    extra_modules=["Aquatic.Props.Store", "Aquatic.Props.C16Read"],
    technique="Lean 4 proof (reply framing in the reused growing buffer for every body and prior buffer content; n routed swarm workers refine one reference tracker for announce / scrape / clean) + socket-level differential runs against the real tracker process over worker counts, keep-alive and TCP segmentation",
    runs=[dict(harness="httpnet", driver="store", quick=dict(cases=24), thorough=dict(cases=240)),
          dict(harness="rawbytes", driver="rawbytes", quick=dict(cases=600), thorough=dict(cases=20000))],
    nontrivial=["scrape-nonzero", "scrape-truncated", "re-announce", "small->large", "stopped", "prefix-stable"],
    level_text="Theorems: for every body and every buffer satisfying the header invariant (whatever an earlier longer or shorter reply left in it) the bytes written are the status line, a Content-Length of |body|+2 padded with blanks, the blank line, the whole body and CRLF, the length parses back to the number of bytes that follow, and the invariant is re-established, hence every reply of a connection in order; for every number n > 0 of swarm workers, announces routed by the first hash byte, scrapes split per worker after the whole-request cut to max_scrape_torrents and merged, and per-worker cleaning keep the n stores in simulation with the restrictions of ONE reference tracker and return its replies; the request loop of a connection recognises a request exactly when its last byte has been read, for every way the transport cuts it into reads (given that no proper prefix of a request is itself accepted - checked on the real parser), and input that never completes ends the connection with RequestBufferFull. Tie: a tracker child process per case (socket_workers x swarm_workers in {1,2,3}^2, keep-alive on/off, requests split over TCP segments), each reply's head compared byte-for-byte with the model's writeResponse, its content with the reference tracker.",
    level_note="partial for the runtime part: TCP, SO_REUSEPORT balancing, glommio scheduling, request accumulation across segments are exercised only. The header literals are regenerated from connection.rs.",
    design_ref="§8 C16",
    assumptions=["Content-Length below 10^8 (8 digit cells; 100 MB reply)", "requests on one connection are sent after the previous reply arrived (as the property states)"],
)

prop(
    "C18",
    module="Aquatic.Props.C18",
    extra_modules=["Aquatic.Props.C06", "Aquatic.Props.C16", "Aquatic.Props.UringSend", "Aquatic.Props.C18Uring"],
    technique="Lean 4 proof (reply sizes derived from the codec model; the start-up validation implies every reply of an accepted configuration fits the send buffer of the back end, refuses nothing that fits, accepts the defaults; HTTP frame carries the whole body for any length) + socket-level boundary runs against the real tracker process",
    runs=[dict(harness="udpnet", driver="udpnet", quick={"cases": 7, "boundaries-first": 1}, thorough={"cases": 48, "boundaries-first": 1}),
          dict(harness="httpnet", driver="store", quick=dict(cases=8), thorough=dict(cases=80)),
          dict(harness="uringsend", driver="uringsend", quick=dict(cases=300), thorough=dict(cases=6000))],
    nontrivial=["big", "refused", "scrape-nonzero", "scrape-truncated", "uring>cap"],
    level_text="Theorems: the length of every serialised UDP reply equals the formula used (from the regenerated layouts); for every max_response_peers / max_scrape_torrents the start-up check accepts, every announce reply with at most that many peers of either family and every scrape reply with at most that many entries is no longer than the mio / io_uring send buffer (regenerated sizes); a configuration is refused iff one of its two worst-case replies does not fit; defaults accepted; exact boundaries 454/455 (mio), 112/113 and 170/171 (io_uring); the HTTP frame carries the complete body for every body length. Tie: trackers started at and just over the boundary (must deliver the largest IPv6 announce reply whole / must refuse to start), HTTP scrapes of 56..64 raw hashes under default limits. Receive side of io_uring: finding F6.",
    level_note="partial: the HTTP request buffer (2048 bytes) bounds the requests that are accepted at all, so no accepted request is lost to it; kernel socket buffers are not modelled.",
    design_ref="§8 C18",
    assumptions=["replies are awaited for a bounded time"],
)

WS_NONTRIV = ["ignored-foreign-owner", "slot-collision", "close-with-entries", "close-after-ignored-announce",
              "second-peer-id-closes", "clean-removed-peers", "offers-forwarded", "answer-forwarded", "answer-refused",
              "halves-branch"]

prop(
    "C08",
    module="Aquatic.Props.C08",
    extra_modules=["Aquatic.Props.WsStore"],
    technique="Lean 4 refinement proof (induction over histories of announce / scrape / close / clean: swarm store with cached seeder counts and IndexMap order + the socket worker's per-connection records refine a flat reference tracker with per-entry ownership) + differential correspondence against the real aquatic_ws TorrentMaps",
    runs=[dict(harness="wsstore", driver="wsstore", quick=dict(cases=500, maxops=60), thorough=dict(cases=30000, maxops=140)),
          # the close notice is put together by the real socket worker: only a running tracker shows what it contains
          dict(harness="wsnet", driver="wsstore", quick=dict(cases=6), thorough=dict(cases=40, burst=600))],
    nontrivial=WS_NONTRIV,
    level_text="Machine-checked refinement theorem: for every history of announces (all events, left absent / 0 / positive, offers, answers), scrapes, connection closures and cleaning passes, from any connections (socket worker id x slot key), with every in-range outcome of the random draws, the model never reaches a panic outcome (no counter underflow) and each operation's messages are those of the reference tracker: one entry per (torrent, peer id), owned by the connection that created it; announce counts include the announcer; stopped removes; left = 0 is a seeder; an announce under a peer id stored by another connection is ignored with no reply and no effect, also when that connection later closes; closing removes exactly the connection's own entries (proved on the model: every other peer and its outstanding offers are unchanged); a scrape lists every requested torrent with stored peers with the reference's counts and nothing else but zero counts. Tie: generated histories on the real TorrentMaps (handle_announce_request / handle_scrape_request / handle_connection_closed / clean) with coinciding slot keys across socket workers, shared peer ids, every order of announces and closures; every message compared with the model (for SOME in-range draws) and with the reference.",
    level_note="Trusted: Lean kernel; hand-written model (fidelity checked by sampled differential runs); the harness plays the socket worker (announced_info_hashes record, gate, close) - that emulation is compared with the model's on every close and with the real socket worker by the C17 socket-level runs. One address family is modelled (the two TorrentMaps are independent).",
    design_ref="§8 C08",
    assumptions=["a closed connection's (socket worker, slot key) pair is not handed out again while its close message is in flight (slotmap versioned keys)",
                 "sequential histories at the swarm worker (message overtaking is C17)"],
)

prop(
    "C09",
    module="Aquatic.Props.C09",
    extra_modules=["Aquatic.Props.WsStore"],
    technique="Lean 4 proof (same refinement as C08 plus theorems on the reference's offer / answer rules: receivers allowed, message shape and count, answer forwarded iff outstanding offer, consumed on use, outstanding offers only from forwarded offers) + differential correspondence against the real aquatic_ws TorrentMaps",
    runs=[dict(harness="wsstore", driver="wsstore", quick=dict(cases=500, maxops=60), thorough=dict(cases=30000, maxops=140))],
    nontrivial=["offers-forwarded", "answer-forwarded", "answer-refused", "answer-to-unknown-peer", "halves-branch", "offset-choices>1", "clean-removed-peers"],
    level_text="Theorems: for every reachable store, announce and in-range draws the receivers of offers are distinct stored peers of the same torrent and family, never the sender, exactly min(offers sent, max_offers, other peers) many, each message addressed to the connection owning the receiving peer and tagged with the sender's peer id, offers paired with receivers in order (distinct offers to distinct peers); a stopped announce forwards nothing; an answer is forwarded - to the offering peer's connection only - exactly when the addressed peer is stored and holds an outstanding offer with that id towards the answering peer, which is thereby consumed (the same answer again is refused); otherwise an error reply to the answerer or nothing; outstanding offers arise only from offers forwarded by an announce and are only removed by stop / close / cleaning (expired ones dropped). All lifted to every history by the refinement theorem. Tie: as C08, with answers that match, repeat, come from the wrong peer / torrent, after the offerer stopped, was cleaned, or the offer aged out.",
    level_note="Trusted: as C08; the SDP payloads are opaque tags.",
    design_ref="§8 C09",
    assumptions=["as C08"],
)

prop(
    "C20",
    module="Aquatic.Props.C20",
    extra_modules=["Aquatic.Props.Store"],
    technique="Lean 4 proof (induction over histories: per-peer-id tally = stored peers per id, totals and export lines = reference after the pass; file-system step model: export path holds the old or the new complete file after every prefix of the export steps) + differential runs against the real TorrentMaps with statistics and exports on, and process-abort injection at every probe point of an export",
    runs=[dict(harness="udpstats", driver="stats", quick=dict(cases=200, maxops=50), thorough=dict(cases=6000, maxops=140))],
    nontrivial=["id-change", "stop-with-other-id", "expired-peers", "export-changed", "crash-mid-export", "crash-after-create", "old-export-present"],
    level_text="Theorems: for every history of announces (any event, re-announce from the same address under another peer id, stop under another id than the stored one) and cleaning passes, every in-range random draw: no panic; the statistics worker's tally (exact IndexMap semantics: +1, -1 when present, entry dropped at 0) fed with the PeerAdded / PeerRemoved messages the store emits equals, for every id, the number of stored peers of both families carrying that id; after each pass the reported torrents / peers per family equal the reference's distinct torrents / entries, the export lists exactly the torrents with stored peers, once each, with the reference's seeder / leecher counts. File system: tmp path = path + '.tmp' differs from every path, and after ANY number of the steps create-tmp, append*, rename the export path holds its previous content or exactly the new lines. Tie: real TorrentMaps::announce / clean_and_update_statistics with peer_clients and exports on, the real message channel, the real file; a child process aborted (hook) after create, after each line, after flush, after rename, parent reads the path (also for a path ending in .tmp).",
    level_note="partial for the crash clause: rename(2) atomicity and BufWriter flushing are trusted / exercised; the statistics worker's loop body is modelled (tallyStep), its thread is not run. Access lists are outside C20's quantifier: a torrent forbidden at clean time is counted in the peer total and its peers leave without PeerRemoved (observation recorded in DESIGN.md).",
    design_ref="§8 C20",
    assumptions=["no access list in force during the histories (C20's quantifier)", "a crash is a process abort; power loss / fsync ordering is outside the model"],
)

prop(
    "C12",
    module="Aquatic.Props.C12",
    extra_modules=["Aquatic.Props.C06", "Aquatic.Props.C02", "Aquatic.Props.WsStore", "Aquatic.Props.Store"],
    technique="Lean 4 proof (parser models are total with error values and accept only what the input bounds; the three store models never reach a panic outcome on any history and any field values; the JSON nesting guard bounds the nesting of everything it accepts) + raw-bytes differential runs of every real parser under catch_unwind, in child processes on worker-sized stacks, with measured allocation",
    runs=[dict(harness="rawbytes", driver="rawbytes", quick=dict(cases=1500), thorough=dict(cases=60000)),
          dict(harness="udpcodec", driver="codec13", quick=dict(cases=150), thorough=dict(cases=6000)),
          dict(harness="httpcodec", driver="httpcodec", quick=dict(cases=150), thorough=dict(cases=6000)),
          dict(harness="wsjson", driver="wsjson", quick=dict(cases=150), thorough=dict(cases=6000)),
          dict(harness="udpstore", driver="store", quick=dict(cases=100, maxops=60), thorough=dict(cases=4000, maxops=160)),
          dict(harness="httpstore", driver="store", quick=dict(cases=100, maxops=60), thorough=dict(cases=4000, maxops=160)),
          dict(harness="wsstore", driver="wsstore", quick=dict(cases=100, maxops=60), thorough=dict(cases=4000, maxops=140))],
    nontrivial=["udpreq-err", "wsin-err", "wsout-err", "httpreq-err", "httpresp-err", "udpresp-err", "aclline-err", "deep-json", "len>=2048",
                "hp-rejected", "halves-branch", "answer-refused"],
    level_text="Theorems: every datagram the UDP request parser model accepts is at least as long as what is decoded from it (connect 16 bytes, scrape 16 + 20 n with n <= max_scrape_torrents), everything else is an error value and an unparseable datagram gets no reply and touches no state; numwant of any sign and size is clamped within the configured limit before any arithmetic; the UDP, HTTP and WebTorrent store models reach no panic outcome (no usize underflow, no out-of-range selection) on any history with any field values (no-panic half of the three refinement theorems); every text the JSON nesting guard accepts has bracket depth <= 32 at every prefix, and a text opening more brackets is refused. Tie: raw bytes (valid messages, truncation at every offset, extension, bit flips, separators and quotes in odd places, non-UTF-8, deep nesting, field extremes, noise up to the receive-buffer sizes) at Request/Response::parse_bytes (UDP), parse_request and Response::parse_bytes (HTTP), InMessage/OutMessage::from_ws_message, PeerId::client, AccessList::insert_from_line - each call under catch_unwind in a child process on a 2 MiB-stack thread, allocation counted; plus the malformed streams of the codec families and the store families with extreme field values.",
    level_note="partial: absence of panics / aborts in the real parsers (httparse, simd-json, serde, zerocopy) is established by the runs, not by proof; the parser models are total by construction. Allocation bound checked: 256 x (input + 64) + 128 KiB, measured by a counting global allocator.",
    design_ref="§8 C12",
    assumptions=["HTTP client-library replies are bounded by the load tester's 2048-byte receive buffer (serde_bencode recursion is unbounded beyond that)",
                 "worker threads have the default 2 MiB stack of std threads"],
)

prop(
    "C17",
    module="Aquatic.Props.C17",
    extra_modules=["Aquatic.Props.C08", "Aquatic.Props.C09", "Aquatic.Props.WsStore", "Aquatic.Props.C17Shards"],
    technique="Lean 4 proof (n swarm workers refine ONE reference tracker for announce / second peer id / close / per-worker cleaning / merged scrape, for every n > 0; addressing of every message in the refined model: one reply on the requesting connection, forwards to the owner of the addressed peer only, second peer id refused and connection ended, close leaves nothing in sending order; two-channel scheduling model with the overtaking counterexample) + socket-level differential runs against the real tracker process with several WebSocket clients",
    runs=[dict(harness="wsnet", driver="wsstore", quick=dict(cases=6), thorough=dict(cases=60, burst=600))],
    nontrivial=["offers-forwarded", "answer-forwarded", "ignored-foreign-owner", "second-peer-id-closes", "close-with-entries", "wburst", "scrape-nonzero"],
    level_text="Theorems: for every number n > 0 of swarm workers, the tracker with one torrent map per worker (announces routed by the first hash byte, the close notice and scrapes split per worker, parts merged by the connection's writer, each worker cleaning on its own) keeps every worker in simulation with its share of ONE reference tracker and sends exactly the reference's messages: gate refusal, refusal of a second peer id with the connection's entries gone from every worker, replies and forwards of an accepted announce, one merged scrape reply for every scrape of at most max_scrape_torrents hashes (none included, after the repair of F15). Then (on the model refined in C08 / C09, for every reachable state): an announce that is not ignored yields, after the forwarded messages, exactly one announce reply addressed to the sender; a scrape exactly one scrape reply to the requester; every forwarded offer / answer is addressed to the connection owning the addressed stored peer of the same torrent, tagged with the sender's peer id; an announce under a second peer id for a torrent not stopped yields one error reply and ends the connection, whose peers all disappear; after a close processed in sending order no stored peer is owned by the closed connection. Two-channel model (requests / control, each FIFO, swarm worker free to pick): in sending order nothing remains; taking the close notice first left the entry on the pinned tree (negation witness, finding F11) and is harmless with the swarm worker's memory of closed connections (the repair): an announce of a connection already reported closed is dropped. Tie: tracker child process, socket_workers x swarm_workers in {1,2,3}^2, 3..6 WebSocket clients, announces with offers / answers, scrapes over torrents of different swarm workers, garbage messages, orderly and abrupt closes, bursts of pipelined announces followed by a TCP reset; every message each client receives is compared with model and reference.",
    level_note="partial for the runtime part: glommio channel meshes and task scheduling, TCP and WebSocket framing are exercised only. F11 (a burst of announces overtaken by the close notice left peers of a dropped connection behind) was found by these runs and repaired; F14 (the error reply for a second peer id was dropped when the reader task ended the connection) was found by these runs and repaired as well; F15 (a scrape naming no torrent was never answered) was found while modelling the scrape split and repaired.",
    design_ref="§8 C17",
    assumptions=["channels between a swarm worker, a socket worker and a connection are FIFO (what the fenced collection of the socket-level run relies on)", "scrapes of at most max_scrape_torrents hashes (the limit is applied per swarm worker in the code; no property states a WebTorrent scrape limit)"],
)

prop(
    "C04",
    module="Aquatic.Props.C04",
    extra_modules=["Aquatic.Props.Store", "Aquatic.Props.C04Locks"],
    technique="Lean 4 proof (transition system of threads over the shared two-level state, one atomic step per lock-protected section: for every number of threads, program and schedule no step fails or blocks, the sequential view stays in simulation with the reference that receives each operation at one of its own steps, replies are the reference's at that step, held Arcs stay attached; lock skeleton with explicit RwLock modes regenerated-and-pinned from swarm.rs: mutual exclusion, locking discipline and deadlock-freedom under any work-conserving lock policy for every reachable state, every run terminates) + systematic enumeration of interleavings of the real code (threads serialised by a scheduler at hook gates) and a free-running stress with a watchdog",
    runs=[dict(harness="udpconc", driver="conc", quick=dict(cases=8, schedules=150), thorough=dict(cases=120, schedules=4000))],
    nontrivial=["interleaved", "torrent-removed", "free-running"],
    level_text="Theorems, for any number of threads, any programs of announce / scrape / clean and ANY schedule of their steps (one step per lock-protected section: A1 find-or-create + clone Arc, A2 announce under the peer map lock, S one scrape entry, C1 snapshot of a shard, C2 clean one peer map, C3 retain of a shard): every step of every thread succeeds in every reachable state (nothing blocks: deadlock-free at this granularity; no panic); the sequential view of the shared state remains in simulation with the reference tracker to which each announce is applied at its A2 step, each torrent's cleaning at its C2 step, each scrape entry at its S step - points inside the operation's own execution; every announce reply and scrape entry equals the reference's at that point; every Arc held between steps stays the one stored for its torrent (retain keeps shared or non-empty torrents), hence an answered announce is stored. Lock level (Props/C04Locks over Model/Locks: read / upgradable / write modes, upgrade, one lock per shard and per peer map, any number of workers each running any sequence of the three operations): in every reachable state mutual exclusion holds, every thread keeps the discipline (shard lock with empty hands, peer-map lock only on top of shard locks), and unless all threads have finished some thread has a step that no work-conserving RwLock can refuse (a release, an acquire of a lock nobody holds, an upgrade with no other holder) - independent of reader / writer preference; every run has exactly as many steps as the programs have actions, so every maximal run completes all operations; without the discipline the same locks do deadlock (witness). The table of lock calls of impl TorrentMapShards (function, receiver, mode, guard binding, brace depth, loop, explicit drops) is regenerated from swarm.rs on every run and pinned by lock_sites_as_modelled / lock_scopes_as_modelled. Tie: real threads over one shared TorrentMaps, stopped at gates in the lock-free gaps (hook) and released one at a time; all interleavings of small programs (2-3 threads, torrents in one or two shards, deadlines straddling the cleaning time, incl. the pass that finds a torrent empty while an announce holds its Arc) are enumerated depth-first and each compared with the model run on the same schedule and with the reference at the linearization points; plus 8 free-running threads x 3000 operations under a watchdog.",
    level_note="partial for the runtime part: that parking_lot's RwLock implements the modes' compatibility table and is work-conserving is trusted; that the guards live exactly as long as the regenerated scope table says (Rust temporaries / block scopes) is read off the table by hand; both are exercised by the gated runs (a thread blocked at a lock held across a gate is reported as HANG) and the free-running stress. One address family and the 16 shards by first hash byte are modelled; access lists are outside C04's quantifier.",
    design_ref="§8 C04",
    assumptions=["gates are placed where the code holds no lock (checked by the HANG detection)", "a multi-torrent scrape / clean is atomic per torrent, as the property states"],
)

prop(
    "C19",
    module="Aquatic.Props.C19",
    technique="Lean 4 proof about the supervising loop of run(), whose shape (spawn sites, handles pushed, poll period, join arms) is regenerated from the three lib.rs files on every run + fault injection into the real trackers (hook: a chosen worker panics / returns at its next loop iteration; a socket worker that cannot bind)",
    runs=[dict(harness="supervise", driver="supervise", quick=dict(cases=28), thorough=dict(cases=112))],
    nontrivial=["mode-panic", "mode-return", "mode-bind", "mode-bind4", "mode-bind6"],
    level_text="Theorems over the regenerated shape of the three run() functions: every worker thread spawned in run() is pushed to the supervised handles (spawn sites = pushes, prometheus endpoint included); each of the three arms of the join (returned Ok, returned Err, panicked) returns an error; a pass over the handles finds nothing iff every worker is running, otherwise it yields an error naming a stopped worker, never Ok; the pass following a stop at any time t comes before t + poll period, hence run() returns within 5 s, well within 10 s. Tie: tracker child processes (UDP, HTTP, WebTorrent; 1-2 socket and swarm workers) in which the socket, swarm, swarm-cleaning-timer, cleaning, statistics or signal worker is made to panic or to return at its next loop iteration 0.8 s after start, or whose socket worker cannot bind (IPv4-only configuration, and dual-stack configurations in which only the IPv4 or only the IPv6 address is taken): the parent measures when run() returns and with what.",
    level_note="partial: that a dead worker thread is what the handle reports - glommio propagating task panics to the executor thread, a swarm worker's dead request handler taking the socket worker down through the broken channel - is exercised by the fault injection, not proved. 29 fault kinds; the WebTorrent swarm worker has no loop to return from (panic only).",
    design_ref="§8 C19",
    assumptions=["a worker reaches its next loop iteration within about a second (1 s cleaning / statistics intervals in the runs; sockets are poked by the harness)"],
)

