"""Per-property configuration of the runner (tools/check.py) and of MANIFEST.json.

For every property:
  module      Lean module with the property theorems (Aquatic/Props/<id>.lean)
  runs        correspondence runs: harness family + driver family + sizes per tier
  nontrivial  notes (printed by the driver per case) of which at least one must be
              present for a case to count as non-trivial
  level, technique, level_text, level_note, design_ref   -> MANIFEST.json
  assumptions -> evidence
"""

TRUSTED = [
    "Lean 4.33 kernel (+ leanchecker in the thorough tier)",
    "axioms allowed in property theorems: propext, Classical.choice, Quot.sound",
    "hand-written Lean models in lean/Aquatic/Model, tied to /repo by the correspondence run of this check (differential test, sampled)",
    "tools/extract.py (regex translator of constants / layouts) and tools/check.py",
    "Lean compiler for the driver executable (runs the same definitions the kernel checked)",
]

PROPS = {}


def prop(pid, **kw):
    kw.setdefault("runs", [])
    kw.setdefault("nontrivial", [])
    kw.setdefault("level", "proof")
    kw.setdefault("assumptions", [])
    kw.setdefault("extra_modules", [])
    PROPS[pid] = kw


prop(
    "C01",
    module="Aquatic.Props.C01",
    extra_modules=["Aquatic.Props.Store"],
    technique="Lean 4 refinement proof (induction over histories) + differential correspondence against the real TorrentMaps",
    runs=[dict(harness="udpstore", driver="store",
               quick=dict(cases=600, maxops=60), thorough=dict(cases=40000, maxops=160))],
    nontrivial=["small->large", "large->small(stop)", "large->small(clean)", "halves-branch", "re-announce"],
    level_text="Machine-checked refinement theorem: every history of announce/scrape/clean on the model of the UDP two-representation peer store yields the counts and candidate peers of the reference tracker, with no panic outcome; the model is tied to the current source by replaying generated histories on the real aquatic_udp::swarm::TorrentMaps and comparing every reply with model and reference.",
    level_note="Trusted: Lean kernel; hand-written model (fidelity checked by sampled differential runs, not proved); extracted SMALL_PEER_MAP_CAPACITY; sharding by hash[0]%16 and the HashMap are modelled as one association list.",
    design_ref="§8 C01, §7",
    assumptions=["16 shards keyed by info_hash[0] are modelled as one association list (a partition of one map)",
                 "sequential histories only (concurrency is C04)"],
)
