#!/usr/bin/env python3
"""Writes /verif/MANIFEST.json from tools/props.py (single source of truth)."""
import json
import os
import sys

HERE = os.path.dirname(os.path.abspath(__file__))
sys.path.insert(0, HERE)
from props import PROPS  # noqa: E402

VERIF = os.path.dirname(HERE)
ALL = [f"C{i:02d}" for i in range(1, 21)]
NOT_YET = {}
try:
    from props import NOT_APPLICABLE
except ImportError:
    NOT_APPLICABLE = {}

checks = []
for pid in sorted(PROPS):
    c = PROPS[pid]
    checks.append(dict(
        property_id=pid,
        quick_cmd=f"python3 tools/check.py {pid} --tier quick",
        thorough_cmd=f"python3 tools/check.py {pid} --tier thorough",
        evidence_file=f"/verif/evidence/{pid}.json",
        replay_cmd_template=f"python3 tools/check.py {pid} --replay {{path}}",
        engine="lean4-proof+correspondence",
        level_claimed=dict(category=c["level"], text=c["level_text"], design_ref=c.get("design_ref", "")),
        level_note=c["level_note"],
        technique=c["technique"],
    ))

na = []
for pid in ALL:
    if pid not in PROPS:
        na.append(dict(property_id=pid, reason=NOT_APPLICABLE.get(pid, "not yet claimed: the Lean model / theorems / correspondence check for this property are not built yet (work in progress, see DESIGN.md §12)")))

manifest = dict(
    version=1,
    setup_cmd="bash tools/setup.sh",
    hooks=dict(
        guard="verif-hooks",
        enable="cargo feature `verif-hooks` of the aquatic crates, enabled by the harness crate /verif/harness (path dependencies with features = [\"verif-hooks\"])",
        baseline_off_cmd="cd /repo && cargo test --workspace --no-fail-fast --offline",
        source_commits=[l.strip() for l in open(os.path.join(VERIF, "hooks_commits.txt")).read().split() if l.strip()] if os.path.exists(os.path.join(VERIF, "hooks_commits.txt")) else [],
        add_only=True,
    ),
    engines=[dict(name="lean4-proof+correspondence", path="tools/check.py",
                  serves_properties=sorted(PROPS),
                  kind_free_text="Lean 4 theorems about hand-written executable models (lean/Aquatic), tied to /repo on every run by (a) a Rust harness running the real code on generated inputs whose trace is replayed on model and reference by a compiled Lean driver, (b) regeneration of constants/layouts from the source (tools/extract.py)")],
    checks=checks,
    not_applicable=na,
    notes="See DESIGN.md. Findings recorded in known_findings.json.",
)
with open(os.path.join(VERIF, "MANIFEST.json"), "w") as f:
    json.dump(manifest, f, indent=1)
print(f"MANIFEST.json: {len(checks)} checks, {len(na)} not claimed")
