#!/bin/bash
# Build the framework from files on disk only (offline).
set -e
cd "$(dirname "$0")/.."
export CARGO_NET_OFFLINE=true
python3 tools/extract.py || true
(cd lean && lake build Aquatic driver 2>&1 | tail -5)
[ -f harness/Cargo.lock ] || cp /repo/Cargo.lock harness/Cargo.lock
(cd harness && cargo build --offline 2>&1 | tail -3)
mkdir -p evidence replays
echo setup done
