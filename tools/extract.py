#!/usr/bin/env python3
"""Source -> Lean translator for the declarative parts of aquatic.

Re-reads /repo's *current working tree* and regenerates
/verif/lean/Aquatic/Generated/*.lean.  The theorems that mention these
definitions are therefore re-checked by `lake build` against what the code
says now.  If an anchor is not found the extractor fails loudly (exit 2 and a
line `EXTRACT-FAIL <name>`); the runner then reports a violation with
`no-failing-input-found` naming the anchor.

Only writes a file when its content changed, so lake does not rebuild for
nothing.
"""
import os
import re
import sys

REPO = os.environ.get("AQV_REPO", "/repo")
OUT = os.path.join(os.path.dirname(os.path.abspath(__file__)), "..", "lean", "Aquatic", "Generated")


def src(rel):
    with open(os.path.join(REPO, rel), encoding="utf-8") as f:
        return f.read()


class Fail(Exception):
    pass


def grab(rel, pattern, name, conv=int, flags=re.S):
    m = re.search(pattern, src(rel), flags)
    if not m:
        raise Fail(f"{name} (pattern {pattern!r} in {rel})")
    return conv(m.group(1).replace("_", ""))


def write_if_changed(path, text):
    os.makedirs(os.path.dirname(path), exist_ok=True)
    try:
        with open(path, encoding="utf-8") as f:
            if f.read() == text:
                return False
    except FileNotFoundError:
        pass
    with open(path, "w", encoding="utf-8") as f:
        f.write(text)
    return True


def default_of(rel, struct, field, conv=int):
    """value of `field:` inside `impl Default for <struct>`"""
    s = src(rel)
    m = re.search(r"impl Default for %s \{.*?Self \{(.*?)\n        \}" % re.escape(struct), s, re.S)
    if not m:
        raise Fail(f"Default impl of {struct} in {rel}")
    body = m.group(1)
    m2 = re.search(r"\b%s:\s*([^,\n]+)," % re.escape(field), body)
    if not m2:
        raise Fail(f"default {struct}.{field} in {rel}")
    v = m2.group(1).strip()
    if conv is int:
        v = re.sub(r"\s", "", v)
        # allow simple products like 60 * 60 * 24 and 2 * 60
        if not re.fullmatch(r"[0-9_*]+", v):
            raise Fail(f"default {struct}.{field} not a literal: {v}")
        r = 1
        for part in v.replace("_", "").split("*"):
            r *= int(part)
        return r
    return conv(v)


def field_type(rel, struct, field):
    s = src(rel)
    m = re.search(r"pub struct %s \{(.*?)\n\}" % re.escape(struct), s, re.S)
    if not m:
        raise Fail(f"struct {struct} in {rel}")
    m2 = re.search(r"pub %s:\s*([A-Za-z0-9_<>]+)," % re.escape(field), m.group(1))
    if not m2:
        raise Fail(f"field {struct}.{field} in {rel}")
    return m2.group(1)


WIDTH = {"u8": 8, "u16": 16, "u32": 32, "u64": 64, "usize": 64, "i32": 32, "i64": 64}


def consts():
    c = {}
    c["udpSmallCap"] = grab("crates/udp/src/swarm.rs", r"const SMALL_PEER_MAP_CAPACITY: usize = (\d+);", "udp SMALL_PEER_MAP_CAPACITY")
    c["httpSmallCap"] = grab("crates/http/src/workers/swarm/storage.rs", r"const SMALL_PEER_MAP_CAPACITY: usize = (\d+);", "http SMALL_PEER_MAP_CAPACITY")
    c["udpNumShards"] = grab("crates/udp/src/swarm.rs", r"const NUM_SHARDS: usize = (\d+);", "udp NUM_SHARDS")
    c["udpBufferSize"] = grab("crates/udp/src/common.rs", r"pub const BUFFER_SIZE: usize = ([\d_]+);", "udp BUFFER_SIZE")
    c["uringRequestBufLen"] = grab("crates/udp/src/workers/socket/uring/mod.rs", r"const REQUEST_BUF_LEN: usize = ([\d_]+);", "uring REQUEST_BUF_LEN")
    c["uringResponseBufLen"] = grab("crates/udp/src/workers/socket/uring/mod.rs", r"const RESPONSE_BUF_LEN: usize = ([\d_]+);", "uring RESPONSE_BUF_LEN")
    c["httpRequestBufferSize"] = grab("crates/http/src/workers/socket/connection.rs", r"const REQUEST_BUFFER_SIZE: usize = ([\d_]+);", "http REQUEST_BUFFER_SIZE")
    c["httpResponseBufferSize"] = grab("crates/http/src/workers/socket/connection.rs", r"const RESPONSE_BUFFER_SIZE: usize = ([\d_]+);", "http RESPONSE_BUFFER_SIZE")
    # defaults
    c["udpDefaultMaxScrapeTorrents"] = default_of("crates/udp/src/config.rs", "ProtocolConfig", "max_scrape_torrents")
    c["udpDefaultMaxResponsePeers"] = default_of("crates/udp/src/config.rs", "ProtocolConfig", "max_response_peers")
    c["udpDefaultMaxConnectionAge"] = default_of("crates/udp/src/config.rs", "CleaningConfig", "max_connection_age")
    c["udpDefaultMaxPeerAge"] = default_of("crates/udp/src/config.rs", "CleaningConfig", "max_peer_age")
    c["httpDefaultMaxScrapeTorrents"] = default_of("crates/http/src/config.rs", "ProtocolConfig", "max_scrape_torrents")
    c["httpDefaultMaxPeers"] = default_of("crates/http/src/config.rs", "ProtocolConfig", "max_peers")
    c["wsDefaultMaxScrapeTorrents"] = default_of("crates/ws/src/config.rs", "ProtocolConfig", "max_scrape_torrents")
    c["wsDefaultMaxOffers"] = default_of("crates/ws/src/config.rs", "ProtocolConfig", "max_offers")
    # widths
    c["udpMaxScrapeTorrentsBits"] = WIDTH[field_type("crates/udp/src/config.rs", "ProtocolConfig", "max_scrape_torrents")]
    c["udpMaxResponsePeersBits"] = WIDTH[field_type("crates/udp/src/config.rs", "ProtocolConfig", "max_response_peers")]
    c["udpMaxConnectionAgeBits"] = WIDTH[field_type("crates/udp/src/config.rs", "CleaningConfig", "max_connection_age")]
    return c


def gen_consts():
    c = consts()
    lines = [
        "/- GENERATED by tools/extract.py from /repo's working tree on every run. Do not edit. -/",
        "namespace Aquatic.Generated",
        "",
    ]
    for k in c:
        lines.append(f"def {k} : Nat := {c[k]}")
    lines += ["", "end Aquatic.Generated", ""]
    return "\n".join(lines)


GENERATORS = {"Consts.lean": gen_consts}


def main():
    # other generators register themselves from sibling modules
    import extract_layouts
    import extract_ws
    import extract_http
    import extract_supervise
    import extract_locks
    GENERATORS.update(extract_layouts.GENERATORS)
    GENERATORS.update(extract_ws.GENERATORS)
    GENERATORS.update(extract_http.GENERATORS)
    GENERATORS.update(extract_supervise.GENERATORS)
    GENERATORS.update(extract_locks.GENERATORS)
    failed = []
    for name, fn in GENERATORS.items():
        try:
            text = fn()
            changed = write_if_changed(os.path.join(OUT, name), text)
            print(f"extract: {name} {'updated' if changed else 'unchanged'}")
        except Fail as e:
            failed.append(str(e))
            print(f"EXTRACT-FAIL {name}: {e}")
        except FileNotFoundError as e:
            failed.append(str(e))
            print(f"EXTRACT-FAIL {name}: {e}")
    sys.exit(2 if failed else 0)


if __name__ == "__main__":
    sys.path.insert(0, os.path.dirname(os.path.abspath(__file__)))
    main()
