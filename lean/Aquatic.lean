import Aquatic.Model.Store
import Aquatic.Spec.Ref
import Aquatic.Generated.Consts
