/-
  C12 — no network input can crash parsing or request handling.

  What a proof can carry here: (1) the parser models are total functions returning error values, and
  what they accept is bounded by the input (so is what they allocate); (2) the three stores never
  reach a panic outcome - no `usize` underflow, no out-of-range selection - for any field values,
  which is the no-panic half of the refinement theorems; (3) the guard in front of the recursive
  JSON deserializer bounds the nesting of everything it lets through.  Whether the *real* parsers
  panic or abort is decided by the raw-bytes runs (every call under catch_unwind, in a child
  process, on a thread with the worker threads' stack size, with the allocation measured).
-/
import Aquatic.Model.JsonDepth
import Aquatic.Props.C06
import Aquatic.Props.C02
import Aquatic.Props.WsStore

namespace Aquatic.C12

open Aquatic Aquatic.Bep15 Aquatic.UdpCodec Aquatic.UdpHandle Aquatic.JsonDepth

/-! ### UDP requests: what is accepted is bounded by the datagram -/

theorem parseScrape_bounded (b : Bytes) (ms cid tid : Nat) (hs : List Nat)
    (h : parseScrape b ms = .ok (.scrape cid tid hs)) : hs.length ≤ ms ∧ 16 + 20 * hs.length ≤ b.length := by
  unfold parseScrape at h
  split at h
  · simp only at h
    split at h
    · cases h
    · split at h
      · cases h
      · rename_i hne _
        injection h with h
        injection h with _ _ h3
        subst h3
        rw [chunkNats_length]
        have hl : (b.drop 16).length = b.length - 16 := by simp
        have hpos : 0 < (b.drop 16).length := by
          cases hd : b.drop 16 with
          | nil => simp [hd] at hne
          | cons _ _ => simp
        refine ⟨Nat.min_le_left _ _, ?_⟩
        have := Nat.min_le_right ms ((b.drop 16).length / 20)
        have := Nat.div_mul_le_self (b.drop 16).length 20
        omega
  · cases h

/-- every accepted datagram is at least as long as what was decoded from it: a connect needs 16 bytes,
a scrape of `n` hashes `16 + 20 n` and never more than `max_scrape_torrents` hashes -/
theorem accepted_request_bounded (b : Bytes) (ms : Nat) (r : Request) (h : parseRequest b ms = .ok r) :
    (∃ tid, r = .connect tid ∧ 16 ≤ b.length) ∨ (∃ a, r = .announce a) ∨
    (∃ cid tid hs, r = .scrape cid tid hs ∧ hs.length ≤ ms ∧ 16 + 20 * hs.length ≤ b.length) := by
  unfold parseRequest at h
  split at h
  · cases h
  · split at h
    · obtain ⟨hl, tid, hr⟩ := parseConnect_inv b r h
      exact .inl ⟨tid, hr, hl⟩
    · obtain ⟨a, hr, _⟩ := parseAnnounce_inv b r h
      exact .inr (.inl ⟨a, hr⟩)
    · obtain ⟨cid, tid, hs, hr, _⟩ := parseScrape_inv b ms r h
      subst hr
      exact .inr (.inr ⟨cid, tid, hs, rfl, parseScrape_bounded b ms cid tid hs h⟩)
    · cases h

/-- a datagram that does not parse changes nothing and is answered, if at all, by an error reply
under a valid connection id (restated from C06) -/
theorem malformed_is_rejected (ctx : Ctx) (ip : Ip) (port : Nat) (b : Bytes)
    (h : parseRequest b ctx.maxScrape = .error .unsendable) : handleMio ctx ip port b = none :=
  C06.unsendable_silence ctx ip port b h

/-! ### field extremes never reach the arithmetic -/

/-- `numwant` of any sign and size (i32::MIN included) becomes a limit within `max_response_peers` -/
theorem numwant_clamped (maxPeers : Nat) (wanted : Int) : clampUdp maxPeers wanted ≤ maxPeers := by
  unfold clampUdp
  split
  · exact Nat.le_refl _
  · exact Nat.min_le_left _ _

theorem numwant_clamped_http (maxPeers : Nat) (numwant : Option Nat) : clampHttp maxPeers numwant ≤ maxPeers := by
  unfold clampHttp
  split
  · exact Nat.le_refl _
  · exact Nat.le_refl _
  · exact Nat.min_le_right _ _

/-- the UDP / HTTP stores: no panic outcome on any history, whatever the field values (the no-panic
half of `Aquatic.refines`) -/
theorem store_never_panics (cfg : StoreCfg) (ops : List Op) (s : TState) (r : RT) (hs : Sim cfg.c s r)
    (hok : OpsOk cfg s ops) : ∃ outs, run cfg s ops = .ok outs := by
  obtain ⟨outs, h, _⟩ := refines cfg ops s r hs hok
  exact ⟨outs, h⟩

/-- the WebTorrent store and connection records: likewise -/
theorem ws_store_never_panics (cfg : Ws.WsCfg) (ops : List Ws.WOp) (hok : Ws.OpsOk cfg {} ops) :
    ∃ outs, Ws.run cfg {} ops = .ok outs := by
  obtain ⟨outs, h, _⟩ := Ws.refines_from_start cfg ops hok
  exact ⟨outs, h⟩

/-! ### the JSON nesting guard -/

/-- bracket depth outside strings after a prefix, as the scan sees it -/
def depthAfter (max : Nat) (bytes : List Nat) : Option Nat := (scan max {} bytes).map (·.depth)

theorem scanStep_depth_le (max : Nat) (s s' : Scan) (b : Nat) (h : scanStep max s b = some s') (hs : s.depth ≤ max) :
    s'.depth ≤ max := by
  unfold scanStep at h
  split at h
  · split at h
    · cases h; exact hs
    · split at h
      · cases h; exact hs
      · split at h <;> (cases h; exact hs)
  · split at h
    · cases h; exact hs
    · split at h
      · split at h
        · cases h
        · cases h; simp only; omega
      · split at h
        · cases h; simp only; omega
        · cases h; exact hs

theorem scan_prefix (max : Nat) : ∀ (a b : List Nat) (s s' : Scan), scan max s (a ++ b) = some s' →
    ∃ m, scan max s a = some m
  | [], _, s, _, _ => ⟨s, rfl⟩
  | x :: t, b, s, s', h => by
    simp only [List.cons_append, scan] at h ⊢
    cases hx : scanStep max s x with
    | none => simp [hx] at h
    | some m => simp only [hx] at h ⊢; exact scan_prefix max t b m s' h

theorem scan_depth_le (max : Nat) : ∀ (l : List Nat) (s s' : Scan), scan max s l = some s' → s.depth ≤ max → s'.depth ≤ max
  | [], s, s', h, hs => by simp [scan] at h; subst h; exact hs
  | x :: t, s, s', h, hs => by
    simp only [scan] at h
    cases hx : scanStep max s x with
    | none => simp [hx] at h
    | some m =>
      simp only [hx] at h
      exact scan_depth_le max t m s' h (scanStep_depth_le max s m x hx hs)

/-- **everything the guard lets through nests at most `max` deep, at every point of the text**: for
every prefix the scan is defined and its depth is within the limit - so the deserializer behind it
recurses at most `max` levels -/
theorem guard_bounds_nesting (bytes : List Nat) (max : Nat) (h : nestingExceeds bytes max = false) :
    ∀ a b, bytes = a ++ b → ∃ d, depthAfter max a = some d ∧ d ≤ max := by
  intro a b hab
  unfold nestingExceeds at h
  cases hs : scan max {} bytes with
  | none => simp [hs] at h
  | some s' =>
    rw [hab] at hs
    obtain ⟨m, hm⟩ := scan_prefix max a b {} s' hs
    exact ⟨m.depth, by simp [depthAfter, hm], scan_depth_le max a {} m hm (Nat.zero_le _)⟩

/-- and a text that opens more than `max` brackets in a row is refused -/
theorem deep_text_refused (max n : Nat) (hn : max < n) (rest : List Nat) :
    nestingExceeds (List.replicate n 123 ++ rest) max = true := by
  unfold nestingExceeds
  have main : ∀ (k : Nat) (s : Scan), s.inString = false → s.depth ≤ max → s.depth + k > max →
      scan max s (List.replicate k 123 ++ rest) = none := by
    intro k
    induction k with
    | zero => intro s _ h1 h2; omega
    | succ k ih =>
      intro s hstr h1 h2
      simp only [List.replicate_succ, List.cons_append, scan]
      by_cases hd : s.depth + 1 > max
      · simp [scanStep, hstr, hd]
      · have : scanStep max s 123 = some { s with depth := s.depth + 1 } := by simp [scanStep, hstr, hd]
        rw [this]
        exact ih _ hstr (by simp only; omega) (by simp only; omega)
  rw [main n {} rfl (Nat.zero_le _) (by simp; omega)]
  rfl

/-! ### non-vacuity -/
example : nestingExceeds ("{\"a\":[1,{\"b\":\"}}}{{{[[[\"}]}".toList.map Char.toNat) 3 = false := by decide
example : nestingExceeds ("[[[[".toList.map Char.toNat) 3 = true := by decide

end Aquatic.C12
