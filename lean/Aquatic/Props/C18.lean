/-
  C18 — every reply the tracker computes fits its buffers and is delivered whole.

  UDP: the size of every reply kind is computed from the codec (C13); the start-up check of
  `aquatic_udp::run` (`acceptsCfg`, the repair of F5) is proved to imply that every reply the
  accepted limits allow fits the send buffer of the chosen back end, and the defaults are accepted.
  HTTP: the reply buffer grows to the body (the repair of F4), so the frame carries the whole body
  whatever its length (C16.reply_well_framed).  The receive side of io_uring is F6 (see C06).
-/
import Aquatic.Props.C06
import Aquatic.Props.C16

namespace Aquatic.C18

open Aquatic Aquatic.Bep15 Aquatic.UdpCodec Aquatic.UdpHandle

/-! ### reply sizes, from the codec -/

theorem encodeStruct_length (l : List (F × Nat)) (v : F → Nat) : (encodeStruct l v).length = width l := by
  induction l with
  | nil => rfl
  | cons fw t ih => simp [encodeStruct, width, List.flatMap_cons] at *

theorem wAct_length (k : Kind) : (wAct k).length = 4 := by
  simp [wAct]

theorem connect_reply_len (tid cid : Nat) : (encodeResponse (.connect tid cid)).length = replyLen .connect 0 0 := by
  simp [encodeResponse, wAct_length, encodeStruct_length, width, Generated.connectResponse, replyLen]
  try omega

theorem error_reply_len (tid : Nat) (msg : Bytes) :
    (encodeResponse (.error tid msg)).length = replyLen .error 0 msg.length := by
  simp [encodeResponse, wAct_length, replyLen]
  try omega

theorem flatMap_const_length {α : Type} (l : List α) (f : α → Bytes) (k : Nat) (h : ∀ x, (f x).length = k) :
    (l.flatMap f).length = k * l.length := by
  induction l with
  | nil => rfl
  | cons x t ih => simp [List.flatMap_cons, ih, h, Nat.mul_succ]; omega

theorem scrape_reply_len (tid : Nat) (stats : List Stats) :
    (encodeResponse (.scrape tid stats)).length = replyLen (.scrape stats.length) 0 0 := by
  have := flatMap_const_length stats (fun x => encodeStruct Generated.scrapeStats (statsVals x)) 12
    (fun x => by simp [encodeStruct_length, width, Generated.scrapeStats])
  simp [encodeResponse, wAct_length, replyLen, this]
  omega

theorem announce_reply_len (v6 : Bool) (tid i l s : Nat) (peers : List RPeer) :
    (encodeResponse (.announce v6 tid i l s peers)).length = replyLen (.announce v6) peers.length 0 := by
  cases v6
  · have := flatMap_const_length peers (fun p => encodeStruct (peerLayout false) (peerVals p)) 6
      (fun x => by simp [encodeStruct_length, width, peerLayout, Generated.responsePeerV4])
    simp [encodeResponse, wAct_length, replyLen, this, encodeStruct_length, width, Generated.announceResponseFixed]
    try omega
  · have := flatMap_const_length peers (fun p => encodeStruct (peerLayout true) (peerVals p)) 18
      (fun x => by simp [encodeStruct_length, width, peerLayout, Generated.responsePeerV6])
    simp [encodeResponse, wAct_length, replyLen, this, encodeStruct_length, width, Generated.announceResponseFixed]
    try omega

/-! ### accepted limits keep every reply within the send buffer -/

/-- **an accepted configuration's replies fit**: for every back end, every announce reply of at most
`max_response_peers` peers of either family and every scrape reply of at most `max_scrape_torrents`
entries is no longer than the buffer it is serialised into -/
theorem accepted_replies_fit (uring : Bool) (mp ms : Nat) (h : acceptsCfg uring mp ms = true) :
    (∀ v6 peers, peers ≤ mp → replyLen (.announce v6) peers 0 ≤ sendBufLen uring) ∧
    (∀ n, n ≤ ms → replyLen (.scrape n) 0 0 ≤ sendBufLen uring) ∧
    replyLen .connect 0 0 ≤ sendBufLen uring := by
  simp only [acceptsCfg, Bool.and_eq_true, decide_eq_true_eq, replyLen, if_true] at h
  refine ⟨?_, ?_, ?_⟩
  · intro v6 peers hp
    have : (if v6 then 18 else 6) * peers ≤ 18 * mp := by
      cases v6
      · exact Nat.mul_le_mul (by decide) hp
      · exact Nat.mul_le_mul (Nat.le_refl _) hp
    simp only [replyLen]
    omega
  · intro n hn
    simp only [replyLen]
    have h1 := Nat.mul_le_mul_left 12 hn
    have h2 : 8 + 12 * ms ≤ sendBufLen uring := of_decide_eq_true h.2
    omega
  · have := h.1
    simp only [replyLen]
    omega

/-- the serialised reply itself (not just the formula) fits -/
theorem accepted_announce_bytes_fit (uring : Bool) (mp ms : Nat) (h : acceptsCfg uring mp ms = true)
    (v6 : Bool) (tid i l s : Nat) (peers : List RPeer) (hp : peers.length ≤ mp) :
    (encodeResponse (.announce v6 tid i l s peers)).length ≤ sendBufLen uring := by
  rw [announce_reply_len]
  exact (accepted_replies_fit uring mp ms h).1 v6 _ hp

theorem accepted_scrape_bytes_fit (uring : Bool) (mp ms : Nat) (h : acceptsCfg uring mp ms = true)
    (tid : Nat) (stats : List Stats) (hn : stats.length ≤ ms) :
    (encodeResponse (.scrape tid stats)).length ≤ sendBufLen uring := by
  rw [scrape_reply_len]
  exact (accepted_replies_fit uring mp ms h).2.1 _ hn

/-- a configuration is refused exactly when one of its two worst-case replies does not fit: nothing
that would fit is refused -/
theorem refused_iff_overflow (uring : Bool) (mp ms : Nat) :
    acceptsCfg uring mp ms = false ↔
      sendBufLen uring < replyLen (.announce true) mp 0 ∨ sendBufLen uring < replyLen (.scrape ms) 0 0 := by
  simp only [acceptsCfg, Bool.and_eq_false_iff, decide_eq_false_iff_not, Nat.not_le]

/-- the default limits are accepted by both back ends -/
theorem defaults_accepted :
    acceptsCfg false Generated.udpDefaultMaxResponsePeers Generated.udpDefaultMaxScrapeTorrents = true ∧
    acceptsCfg true Generated.udpDefaultMaxResponsePeers Generated.udpDefaultMaxScrapeTorrents = true := by decide

/-- the exact boundaries the socket-level run probes -/
theorem boundaries :
    acceptsCfg false 454 70 = true ∧ acceptsCfg false 455 70 = false ∧
    acceptsCfg true 112 70 = true ∧ acceptsCfg true 113 70 = false ∧
    acceptsCfg true 30 170 = true ∧ acceptsCfg true 30 171 = false := by decide

/-! ### HTTP: the reply buffer grows to the reply -/

/-- whatever the size of the body and of the buffer, the frame written carries the whole body (no
"response buffer full" outcome exists in the model; the run checks none exists in the code) -/
theorem http_reply_whole (buf body : Http.S) (hok : Http.HdrOk buf) (hd : (Http.itoa (body.length + 2)).length ≤ 8) :
    ∃ head, head.length = Http.hdrLen ∧ (Http.writeResponse buf body).2 = head ++ body ++ [13, 10] := by
  have h := (C16.reply_well_framed buf body hok hd).1
  refine ⟨Http.hdrA ++ Http.itoa (body.length + 2) ++ List.replicate (8 - (Http.itoa (body.length + 2)).length) 32 ++ Http.hdrC, ?_, ?_⟩
  · have := Http.hdr_lens
    simp only [List.length_append, List.length_replicate, this.1, this.2.2.1, this.2.2.2]
    omega
  · rw [h]

/-- The loop of `write_response` that grows the buffer (as it stands in connection.rs, regenerated on
every run) has exactly one way out besides the body writer's own error - `break body_len` once the
body fits - and doubles the buffer otherwise: there is no size at which it gives up, which is what
`Http.writeResponse` (total, no failure outcome) models. -/
theorem http_growth_never_refuses :
    Generated.Http.growLoopOtherExits = 0 ∧ Generated.Http.growLoopBreaks = 1 ∧ 2 ≤ Generated.Http.growFactor := by decide

/-! ### non-vacuity -/
example : acceptsCfg true 30 70 = true := by decide
example : replyLen (.announce true) 112 0 = 2036 ∧ sendBufLen true = 2048 := by decide

end Aquatic.C18
