/-
  C19 — a dead worker brings the whole tracker down.

  What is logic here is small: the supervising loop at the end of `run()`.  Its shape is regenerated
  from the three lib.rs files on every run (spawn sites, handles pushed, poll period, the three arms
  of the join); the theorems say that every spawned worker is supervised, that a finished worker of
  any kind - returned Ok, returned Err, panicked - makes the next pass return an error and never Ok,
  and that the next pass comes less than the poll period after the worker stopped, well within ten
  seconds.  That a stopped worker *thread* is what the handle reports (glommio propagating task
  panics, channels breaking when a peer task dies) is exercised by fault injection, not proved.
-/
import Aquatic.Model.Supervise

namespace Aquatic.Supervise.C19

open Aquatic.Supervise Aquatic.Generated.Supervise

def shapes : List RunShape := [Generated.Supervise.udp, Generated.Supervise.http, Generated.Supervise.ws]

/-- every thread spawned by `run()` is handed to the supervising loop, in all three trackers -/
theorem every_worker_supervised : ∀ s ∈ shapes, s.spawns = s.pushes := by decide

/-- all three arms of the join return an error, in all three trackers -/
theorem every_outcome_is_error : ∀ s ∈ shapes, s.okIsError = true ∧ s.errIsError = true ∧ s.panicIsError = true := by decide

/-- the poll period is below the ten seconds of the property, with half of it to spare -/
theorem poll_period_small : ∀ s ∈ shapes, 0 < s.pollSecs ∧ s.pollSecs * 2 ≤ 10 := by decide

/-- a pass finds nothing iff every worker is still running -/
theorem pass_none_iff (shape : RunShape) (hs : List Outcome) (i : Nat) :
    pass shape i hs = none ↔ ∀ o ∈ hs, o = .running := by
  induction hs generalizing i with
  | nil => simp [pass]
  | cons o t ih =>
    cases o <;> simp [pass, ih]

/-- **any stopped worker makes the pass return an error, never Ok** (for a tracker whose three join
arms are errors - `every_outcome_is_error`) -/
theorem stopped_worker_is_an_error (shape : RunShape) (h : shape.okIsError = true ∧ shape.errIsError = true ∧ shape.panicIsError = true)
    (hs : List Outcome) (i : Nat) (hdead : ∃ o ∈ hs, o ≠ .running) :
    ∃ k why, pass shape i hs = some (.err k why) ∧ why ≠ .running := by
  induction hs generalizing i with
  | nil => obtain ⟨o, ho, _⟩ := hdead; cases ho
  | cons o t ih =>
    cases o with
    | running =>
      simp only [pass]
      apply ih
      obtain ⟨o', ho', hne⟩ := hdead
      rcases List.mem_cons.mp ho' with e | e
      · exact absurd e hne
      · exact ⟨o', e, hne⟩
    | returnedOk => exact ⟨i, .returnedOk, by simp [pass, h.1], by simp⟩
    | returnedErr => exact ⟨i, .returnedErr, by simp [pass, h.2.1], by simp⟩
    | panicked => exact ⟨i, .panicked, by simp [pass, h.2.2], by simp⟩

/-- the first pass after a worker stopped at time `t` comes before `t + poll period` -/
theorem next_pass_soon (pollMs t : Nat) (hp : 0 < pollMs) : t ≤ nextPass pollMs t ∧ nextPass pollMs t < t + pollMs := by
  unfold nextPass
  have h1 := Nat.div_add_mod (t + pollMs - 1) pollMs
  have h2 := Nat.mod_lt (t + pollMs - 1) hp
  have h3 : (t + pollMs - 1) / pollMs * pollMs = pollMs * ((t + pollMs - 1) / pollMs) := Nat.mul_comm _ _
  constructor <;> omega

/-- **within ten seconds**: for each tracker, a worker that stops at any time `t` (ms) is noticed by a
pass before `t + 5000`, and that pass returns an error -/
theorem dead_worker_detected_within_ten_seconds : ∀ s ∈ shapes, ∀ t : Nat,
    t ≤ nextPass (s.pollSecs * 1000) t ∧ nextPass (s.pollSecs * 1000) t < t + 10000 := by
  intro s hs t
  have hp := poll_period_small s hs
  have := next_pass_soon (s.pollSecs * 1000) t (by omega)
  constructor
  · exact this.1
  · omega

/-! ### non-vacuity -/
example : pass Generated.Supervise.udp 0 [.running, .running, .panicked, .returnedOk] = some (.err 2 .panicked) := by decide
example : nextPass 5000 5001 = 10000 := by decide

end Aquatic.Supervise.C19
