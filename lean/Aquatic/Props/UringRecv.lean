/-
  C03 / C06, io_uring back end - the receive side: from the bytes of a `recvmsg` buffer to the
  (source, datagram) pair the per-datagram decision of C06 is stated on.

  Model: Aquatic.Model.UringRecv (`RecvMsgOut::parse` of the io-uring crate as written, the sockaddr
  decoding and checks of recv_helper.rs, `handle_recv_cqe`).  Proved:
    * on every buffer the kernel writes (any source, any datagram, any buffer size that holds header
      and name field) `RecvHelper::parse` returns: "truncated" iff the datagram is longer than
      buffer - 16 - name field; else "invalid address" iff the source port is 0; else the request
      parser's verdict on exactly the datagram, with the canonical form of exactly the source the
      kernel reported (`parse_kernelBuffer`);
    * hence `handle_recv_cqe` on kernel-written buffers of REQUEST_BUF_LEN bytes IS
      `UdpHandle.handleUring` on (source, datagram) - the function C06's theorems are about
      (`handleBuf_is_handleUring`);
    * the address handed on never depends on the datagram's bytes, whatever the buffer holds
      (`source_from_name_field_only`: C03 for this back end), an IPv4-mapped source reported by the
      IPv6 socket is the embedded IPv4 address (`mapped_source_is_ipv4`), a source port 0 is ignored
      before the datagram is looked at (`port_zero_ignored`);
    * the payload capacities 480 / 468 of finding F6 are these numbers (`payload_capacity`).
  Tie: the real RecvHelperV4 / RecvHelperV6 called in-process (hook) on generated buffers - kernel-shaped
  ones and malformed ones (short, name length over the field, MSG_TRUNC, port 0, mapped addresses,
  payload length field larger / smaller than what follows) - family `uringrecv`.
-/
import Aquatic.Model.UringRecv
import Aquatic.Lemmas.Bytes
import Aquatic.Props.C06

namespace Aquatic.UringRecv.Props

open Aquatic Aquatic.Bep15 Aquatic.UdpCodec Aquatic.UdpHandle Aquatic.UringRecv

@[simp] theorem natLE_length : ∀ (w n : Nat), (natLE w n).length = w
  | 0, _ => rfl
  | w + 1, n => by simp [natLE, natLE_length w]

theorem leNat_natLE : ∀ (w n : Nat), n < 256 ^ w → leNat (natLE w n) = n
  | 0, n, h => by simp at h; simp [natLE, leNat, h]
  | w + 1, n, h => by
    have ih := leNat_natLE w (n / 256) (by
      rw [Nat.pow_succ] at h
      exact Nat.div_lt_of_lt_mul (by rw [Nat.mul_comm]; exact h))
    simp only [natLE, leNat, ih, UInt8.toNat_ofNat']
    have h8 : (2 : Nat) ^ 8 = 256 := by decide
    rw [h8]
    omega

/-- the four header words and the two fields behind them, taken apart -/
theorem buffer_parts (a b c d name pay : Bytes) (ha : a.length = 4) (hb : b.length = 4) (hc : c.length = 4)
    (hd : d.length = 4) (nf : Nat) (hn : name.length = nf) :
    let buf := a ++ b ++ c ++ d ++ name ++ pay
    buf.length = 16 + nf + pay.length ∧ buf.take 4 = a ∧ (buf.drop 8).take 4 = c ∧ (buf.drop 12).take 4 = d ∧
    (buf.drop 16).take nf = name ∧ buf.drop (16 + nf) = pay := by
  intro buf
  refine ⟨?_, ?_, ?_, ?_, ?_, ?_⟩
  · simp only [buf, List.length_append, ha, hb, hc, hd, hn]
  · have : buf = a ++ (b ++ c ++ d ++ name ++ pay) := by simp [buf, List.append_assoc]
    rw [this, List.take_left' ha]
  · have : buf = (a ++ b) ++ (c ++ (d ++ name ++ pay)) := by simp [buf, List.append_assoc]
    rw [this, List.drop_left' (by simp [ha, hb]), List.take_left' hc]
  · have : buf = (a ++ b ++ c) ++ (d ++ (name ++ pay)) := by simp [buf, List.append_assoc]
    rw [this, List.drop_left' (by simp [ha, hb, hc]), List.take_left' hd]
  · have : buf = (a ++ b ++ c ++ d) ++ (name ++ pay) := by simp [buf, List.append_assoc]
    rw [this, List.drop_left' (by simp [ha, hb, hc, hd]), List.take_left' hn]
  · have : buf = (a ++ b ++ c ++ d ++ name) ++ pay := by simp [buf, List.append_assoc]
    rw [this, List.drop_left' (by simp only [List.length_append, ha, hb, hc, hd, hn] <;> omega)]

theorem nameField_lt (v6 : Bool) : nameFieldLen v6 < 256 ^ 4 := by cases v6 <;> decide

/-- the verdict of `RecvHelper::parse`, stated on (source as reported, datagram) -/
def verdict (v6 : Bool) (ms bufLen : Nat) (name payload : Bytes) : Except RErr (Request × Ip × Nat) :=
  if payload.length > bufLen - 16 - nameFieldLen v6 then .error .truncated
  else if (nameAddr v6 name).2 = 0 then .error .invalidAddr
  else
    match parseRequest payload ms with
    | .ok rq => .ok (rq, canonical (nameAddr v6 name).1, (nameAddr v6 name).2)
    | .error e => .error (.request e (canonical (nameAddr v6 name).1) (nameAddr v6 name).2)

theorem kernel_parts (v6 : Bool) (bufLen : Nat) (name payload : Bytes)
    (hn : name.length = nameFieldLen v6) (hp : payload.length < 256 ^ 4) :
    recvMsgOut v6 (kernelBuffer v6 bufLen name payload) =
      some ⟨nameFieldLen v6, if payload.length > bufLen - 16 - nameFieldLen v6 then msgTrunc else 0,
            payload.take (bufLen - 16 - nameFieldLen v6)⟩ ∧
    ((kernelBuffer v6 bufLen name payload).drop 16).take (nameFieldLen v6) = name := by
  have hparts := buffer_parts (natLE 4 (nameFieldLen v6)) (natLE 4 0) (natLE 4 payload.length)
    (natLE 4 (if payload.length > bufLen - 16 - nameFieldLen v6 then msgTrunc else 0)) name
    (payload.take (bufLen - 16 - nameFieldLen v6)) (by simp) (by simp) (by simp) (by simp) (nameFieldLen v6) hn
  have hk : kernelBuffer v6 bufLen name payload =
      natLE 4 (nameFieldLen v6) ++ natLE 4 0 ++ natLE 4 payload.length ++
        natLE 4 (if payload.length > bufLen - 16 - nameFieldLen v6 then msgTrunc else 0) ++ name ++
        payload.take (bufLen - 16 - nameFieldLen v6) := rfl
  simp only [← hk] at hparts
  obtain ⟨hlen, h0, h8, h12, h16, hpay⟩ := hparts
  have hfl : (if payload.length > bufLen - 16 - nameFieldLen v6 then msgTrunc else 0) < 256 ^ 4 := by
    split <;> decide
  refine ⟨?_, h16⟩
  have hnot : ¬ (kernelBuffer v6 bufLen name payload).length < 16 + nameFieldLen v6 := by rw [hlen]; omega
  simp only [recvMsgOut, if_neg hnot, h0, h8, h12, hpay, hlen]
  rw [leNat_natLE 4 _ (nameField_lt v6), leNat_natLE 4 _ hp, leNat_natLE 4 _ hfl]
  have hmin : min payload.length (16 + nameFieldLen v6 + (List.take (bufLen - 16 - nameFieldLen v6) payload).length - (16 + nameFieldLen v6)) =
      (List.take (bufLen - 16 - nameFieldLen v6) payload).length := by
    simp only [List.length_take]; omega
  rw [hmin, List.take_of_length_le (Nat.le_refl _)]
  rw [if_neg (by omega)]

/-- **What `RecvHelper::parse` makes of a kernel-written buffer.** -/
theorem parse_kernelBuffer (v6 : Bool) (ms bufLen : Nat) (name payload : Bytes)
    (hn : name.length = nameFieldLen v6) (hp : payload.length < 256 ^ 4) :
    parse v6 ms (kernelBuffer v6 bufLen name payload) = verdict v6 ms bufLen name payload := by
  obtain ⟨hrm, hname⟩ := kernel_parts v6 bufLen name payload hn hp
  unfold parse verdict
  rw [hrm]
  simp only [hname]
  by_cases htr : payload.length > bufLen - 16 - nameFieldLen v6
  · rw [if_pos htr, if_pos htr]
    rw [if_pos (.inr (by decide))]
  · rw [if_neg htr, if_neg htr]
    rw [if_neg (by simp [msgTrunc])]
    simp only [List.take_of_length_le (Nat.le_of_not_gt htr)]
    try rfl

/-- the per-datagram decision on (source as reported, datagram), as `handle_recv_cqe` takes it -/
def decide' (ctx : Ctx) (v6 : Bool) (bufLen : Nat) (name payload : Bytes) : Option (ReplyKind × Nat) :=
  post ctx (verdict v6 ctx.maxScrape bufLen name payload)

theorem handleBuf_kernelBuffer (ctx : Ctx) (v6 : Bool) (bufLen : Nat) (name payload : Bytes)
    (hn : name.length = nameFieldLen v6) (hp : payload.length < 256 ^ 4) :
    handleBuf ctx v6 (kernelBuffer v6 bufLen name payload) = decide' ctx v6 bufLen name payload := by
  unfold handleBuf decide'
  rw [parse_kernelBuffer v6 ctx.maxScrape bufLen name payload hn hp]

theorem nameAddr_sockaddr_v4 (a port : Nat) (ha : a < 256 ^ 4) (hport : port < 256 ^ 2) :
    nameAddr false (sockaddr (.v4 a) port) = (.v4 a, port) := by
  have h1 : ((sockaddr (.v4 a) port).drop 2).take 2 = natBE 2 port := by
    simp only [sockaddr]
    have : natLE 2 2 ++ natBE 2 port ++ natBE 4 a ++ natBE 8 0 = natLE 2 2 ++ (natBE 2 port ++ (natBE 4 a ++ natBE 8 0)) := by
      simp [List.append_assoc]
    rw [this, List.drop_left' (by simp), take_natBE_append]
  have h2 : ((sockaddr (.v4 a) port).drop 4).take 4 = natBE 4 a := by
    simp only [sockaddr]
    have : natLE 2 2 ++ natBE 2 port ++ natBE 4 a ++ natBE 8 0 = (natLE 2 2 ++ natBE 2 port) ++ (natBE 4 a ++ natBE 8 0) := by
      simp [List.append_assoc]
    rw [this, List.drop_left' (by simp), take_natBE_append]
  simp only [nameAddr, h1, h2, beNat_natBE 2 port hport, beNat_natBE 4 a ha, Bool.false_eq_true, if_false]

theorem nameAddr_sockaddr_v6 (hi lo port : Nat) (hhi : hi < 256 ^ 12) (hlo : lo < 256 ^ 4) (hport : port < 256 ^ 2) :
    nameAddr true (sockaddr (.v6 hi lo) port) = (.v6 hi lo, port) := by
  have e : sockaddr (.v6 hi lo) port = natLE 2 10 ++ natBE 2 port ++ natBE 4 0 ++ natBE 12 hi ++ natBE 4 lo ++ natBE 4 0 := rfl
  have h1 : ((sockaddr (.v6 hi lo) port).drop 2).take 2 = natBE 2 port := by
    have : sockaddr (.v6 hi lo) port = natLE 2 10 ++ (natBE 2 port ++ (natBE 4 0 ++ natBE 12 hi ++ natBE 4 lo ++ natBE 4 0)) := by
      simp [e, List.append_assoc]
    rw [this, List.drop_left' (by simp), take_natBE_append]
  have h2 : ((sockaddr (.v6 hi lo) port).drop 8).take 12 = natBE 12 hi := by
    have : sockaddr (.v6 hi lo) port = (natLE 2 10 ++ natBE 2 port ++ natBE 4 0) ++ (natBE 12 hi ++ (natBE 4 lo ++ natBE 4 0)) := by
      simp [e, List.append_assoc]
    rw [this, List.drop_left' (by simp), take_natBE_append]
  have h3 : ((sockaddr (.v6 hi lo) port).drop 20).take 4 = natBE 4 lo := by
    have : sockaddr (.v6 hi lo) port = (natLE 2 10 ++ natBE 2 port ++ natBE 4 0 ++ natBE 12 hi) ++ (natBE 4 lo ++ natBE 4 0) := by
      simp [e, List.append_assoc]
    rw [this, List.drop_left' (by simp), take_natBE_append]
  simp only [nameAddr, h1, h2, h3, beNat_natBE 2 port hport, beNat_natBE 12 hi hhi, beNat_natBE 4 lo hlo, if_true]

theorem sockaddr_length (ip : Ip) (port : Nat) : (sockaddr ip port).length = nameFieldLen (!ip.isV4) := by
  cases ip <;> simp [sockaddr, nameFieldLen, Ip.isV4]

/-- **`handle_recv_cqe` on the buffer the kernel writes for a datagram from `(ip, port)` is
`handleUring` on that source and datagram** - an IPv4 client is served by the IPv4 socket, an IPv6
one by the IPv6 socket, buffers of REQUEST_BUF_LEN bytes. -/
theorem handleBuf_is_handleUring (ctx : Ctx) (ip : Ip) (port : Nat) (payload : Bytes)
    (hip : match ip with | .v4 a => a < 256 ^ 4 | .v6 hi lo => hi < 256 ^ 12 ∧ lo < 256 ^ 4)
    (hport : port < 256 ^ 2) (hp : payload.length < 256 ^ 4) :
    handleBuf ctx (!ip.isV4) (kernelBuffer (!ip.isV4) Generated.uringRequestBufLen (sockaddr ip port) payload) =
      handleUring ctx ip port payload := by
  rw [handleBuf_kernelBuffer ctx _ _ _ _ (sockaddr_length ip port) hp]
  have hna : nameAddr (!ip.isV4) (sockaddr ip port) = (ip, port) := by
    cases ip with
    | v4 a => exact nameAddr_sockaddr_v4 a port hip hport
    | v6 hi lo => exact nameAddr_sockaddr_v6 hi lo port hip.1 hip.2 hport
  unfold decide' verdict handleUring uringPayloadCap
  simp only [hna]
  have hcap : Generated.uringRequestBufLen - 16 - nameFieldLen (!ip.isV4) =
      Generated.uringRequestBufLen - 16 - (if (!ip.isV4) = true then 28 else 16) := by
    simp [nameFieldLen]
  rw [hcap]
  by_cases h1 : payload.length > Generated.uringRequestBufLen - 16 - (if (!ip.isV4) = true then 28 else 16)
  · simp only [h1, if_true, post]
  · simp only [h1, if_false]
    by_cases h2 : port = 0
    · simp only [h2, if_true, post]
    · simp only [h2, if_false]
      cases hpr : parseRequest payload ctx.maxScrape with
      | ok rq => simp only [post]
      | error e => cases e <;> simp only [post]

/-! ### C03 for this back end -/

/-- Whatever a buffer holds: when `parse` hands a request on, the address that goes with it is the
canonical form of what the name field says and nothing else - two buffers with the same name field
yield the same address, whatever their payloads. -/
theorem source_from_name_field_only (v6 : Bool) (ms : Nat) (buf : Bytes) (rq : Request) (ip : Ip) (port : Nat)
    (h : parse v6 ms buf = .ok (rq, ip, port)) :
    ip = canonical (nameAddr v6 ((buf.drop 16).take (nameFieldLen v6))).1 ∧
    port = (nameAddr v6 ((buf.drop 16).take (nameFieldLen v6))).2 ∧ port ≠ 0 := by
  unfold parse at h
  split at h
  · cases h
  · split at h
    · cases h
    · simp only at h
      split at h
      · cases h
      · rename_i hport
        split at h
        · simp only [Except.ok.injEq, Prod.mk.injEq] at h
          obtain ⟨_, rfl, rfl⟩ := h
          exact ⟨rfl, rfl, hport⟩
        · cases h

/-- an IPv4-mapped source reported by the IPv6 socket is handed on as the embedded IPv4 address -/
theorem mapped_source_is_ipv4 (lo port : Nat) (hlo : lo < 256 ^ 4) (hport : port < 256 ^ 2) :
    canonical (nameAddr true (sockaddr (.v6 0xffff lo) port)).1 = .v4 lo := by
  rw [nameAddr_sockaddr_v6 0xffff lo port (by decide) hlo hport]
  simp [canonical]

/-- a datagram from source port 0 is ignored whatever it contains (when it fits the buffer) -/
theorem port_zero_ignored (ctx : Ctx) (v6 : Bool) (bufLen : Nat) (name payload : Bytes)
    (hn : name.length = nameFieldLen v6) (hp : payload.length < 256 ^ 4) (h0 : (nameAddr v6 name).2 = 0) :
    handleBuf ctx v6 (kernelBuffer v6 bufLen name payload) = none := by
  rw [handleBuf_kernelBuffer ctx v6 bufLen name payload hn hp]
  unfold decide' verdict
  by_cases htr : payload.length > bufLen - 16 - nameFieldLen v6
  · simp only [htr, if_true, post]
  · simp only [htr, if_false, h0, if_true, post]

/-- the payload capacities behind finding F6 -/
theorem payload_capacity :
    Generated.uringRequestBufLen - 16 - nameFieldLen false = 480 ∧
    Generated.uringRequestBufLen - 16 - nameFieldLen true = 468 := by decide


/-! ### C06's no-amplification clause, on the bytes of the receive buffer -/

/-- A source that holds no valid connection id obtains, from the io_uring worker, nothing or the
16-byte connect reply to a datagram of at least 16 bytes - stated on the buffer the kernel wrote,
not on an abstract (source, datagram) pair. -/
theorem buffer_unauthenticated_only_connect (ctx : Ctx) (ip : Ip) (port : Nat) (payload : Bytes)
    (hip : match ip with | .v4 a => a < 256 ^ 4 | .v6 hi lo => hi < 256 ^ 12 ∧ lo < 256 ^ 4)
    (hport : port < 256 ^ 2) (hp : payload.length < 256 ^ 4) (k : ReplyKind) (tid : Nat)
    (hno : C06.NoValidId ctx (canonical ip))
    (h : handleBuf ctx (!ip.isV4) (kernelBuffer (!ip.isV4) Generated.uringRequestBufLen (sockaddr ip port) payload) = some (k, tid)) :
    k = .connect ∧ replyLen k 0 0 = 16 ∧ replyLen k 0 0 ≤ payload.length := by
  rw [handleBuf_is_handleUring ctx ip port payload hip hport hp] at h
  exact C06.unauthenticated_only_connect_uring ctx ip port payload k tid hno h

/-! ### non-vacuity -/

def demoConnect : Bytes := natBE 8 0x41727101980 ++ natBE 4 0 ++ natBE 4 77

example : parse false 70 (kernelBuffer false 512 (sockaddr (.v4 0x7f000001) 6881) demoConnect) =
    .ok (.connect 77, .v4 0x7f000001, 6881) := by decide +kernel

example : parse true 70 (kernelBuffer true 512 (sockaddr (.v6 0xffff 0x0a000001) 6881) demoConnect) =
    .ok (.connect 77, .v4 0x0a000001, 6881) := by decide +kernel

example : parse false 70 (kernelBuffer false 40 (sockaddr (.v4 0x7f000001) 6881) demoConnect) = .error .truncated := by decide +kernel

end Aquatic.UringRecv.Props
