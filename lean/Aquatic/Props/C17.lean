/-
  C17 — the WebTorrent tracker routes to the right connection; closed ones leave no peers.

  The logic of routing lives in the model of C08 / C09: every message carries its addressee (socket
  worker, slot key), and `Ws.refines` says the messages are the reference's.  Here: who is addressed
  by which message, that requests get exactly one reply on their own connection, that a second peer
  id is refused and the connection ends, that a close leaves nothing behind when the swarm worker
  sees the connection's messages in the order they were sent - and, for the two separate channels of
  the implementation (requests / control), that the order in which a close notice overtakes an
  announce left a peer behind on the pinned tree (finding F11) and no longer does with the swarm
  worker's memory of closed connections (its repair).  Exercised only: glommio channels and tasks, TCP, WebSocket framing.
-/
import Aquatic.Props.C08
import Aquatic.Props.C09

namespace Aquatic.Ws.C17

open Aquatic Aquatic.Ws

def isReplyTo (conn : ConnId) : Msg → Bool
  | .announce to _ _ _ => decide (to = conn)
  | _ => false

def isForward : Msg → Bool
  | .offer .. => true
  | .answer .. => true
  | _ => false

theorem offerMsgs_all_offers (es : List RW) (h s : Nat) (pairs : List ((Nat × Nat) × Nat)) :
    ∀ m ∈ Ref.offerMsgs es h s pairs, ∃ to oid payload, m = Msg.offer to h s oid payload := by
  intro m hm
  simp only [Ref.offerMsgs, List.mem_filterMap] at hm
  obtain ⟨x, _, hx⟩ := hm
  cases ho : Ref.ownerOf es h x.2 with
  | none => simp [ho] at hx
  | some o => simp [ho] at hx; exact ⟨o, x.1.1, x.1.2, hx.symm⟩

/-- **exactly one reply, on the announcing connection**: an announce that is not ignored produces, after
the forwarded offers / answer, exactly one announce reply, addressed to the sender, and nothing else
addressed as a reply -/
theorem announce_one_reply (cfg : WsCfg) (r : RefW) (conn : ConnId) (req : AnnReq) (now : Nat) (recv : List Nat) :
    ∃ front c i, (Ref.announceCore cfg r conn req now recv).2 = front ++ [Msg.announce conn req.hash c i] ∧
      ∀ m ∈ front, isReplyTo conn m = false := by
  unfold Ref.announceCore
  cases hst : wsStatus req.stopped req.left with
  | stopped => exact ⟨[], _, _, rfl, by intro m hm; cases hm⟩
  | seeding | leeching =>
    all_goals
      refine ⟨_, _, _, rfl, ?_⟩
      intro m hm
      rcases List.mem_append.mp hm with hm | hm
      · obtain ⟨to, oid, p, rfl⟩ := offerMsgs_all_offers _ _ _ _ m hm
        rfl
      · rcases C09.answer_only_to_offerer _ _ conn req m hm with ⟨_, _, _, _, _, _, _, rfl⟩ | rfl <;> rfl

/-- forwarded messages go to the connection that owns the addressed peer, and only there -/
theorem forwards_addressed_to_owner (cfg : WsCfg) (r : RefW) (conn : ConnId) (req : AnnReq) (now : Nat) (recv : List Nat)
    (hs : req.stopped = false) :
    ∀ m ∈ (Ref.announceCore cfg r conn req now recv).2, isForward m = true →
      ∃ pid e, Ref.find (Ref.announceCore cfg r conn req now recv).1.entries req.hash pid = some e ∧
        ((∃ oid p, m = Msg.offer e.owner req.hash req.pid oid p) ∨ (∃ oid p, m = Msg.answer e.owner req.hash req.pid oid p)) := by
  intro m hm hf
  have hst : wsStatus req.stopped req.left = .seeding ∨ wsStatus req.stopped req.left = .leeching := by
    simp only [wsStatus, hs, Bool.false_eq_true, if_false]; split <;> simp
  unfold Ref.announceCore at hm ⊢
  rcases hst with hst | hst <;>
  · rw [hst] at hm ⊢
    simp only at hm ⊢
    rcases List.mem_append.mp hm with hm | hm
    · rcases List.mem_append.mp hm with hm | hm
      · simp only [Ref.offerMsgs, List.mem_filterMap] at hm
        obtain ⟨x, _, hx⟩ := hm
        simp only [Ref.ownerOf, Option.map_map, Option.map_eq_some_iff, Function.comp] at hx
        obtain ⟨e, he, hme⟩ := hx
        exact ⟨x.2, e, he, .inl ⟨x.1.1, x.1.2, hme.symm⟩⟩
      · rcases C09.answer_only_to_offerer _ _ conn req m hm with ⟨toPid, oid, p, e, _, he, _, rfl⟩ | rfl
        · exact ⟨toPid, e, he, .inr ⟨oid, p, rfl⟩⟩
        · cases hf
    · simp only [List.mem_singleton] at hm; subst hm; cases hf

/-- a scrape gets exactly one reply, on the requesting connection -/
theorem scrape_one_reply (cfg : WsCfg) (s : Sys) (rs : RefSys) (h : SysSim s rs) (conn : ConnId) (hashes : List Nat) :
    ∃ files, sysStep cfg s (.scr conn hashes) = .ok (s, [Msg.scrape conn files]) := by
  obtain ⟨s', msgs, _, hstep, _, hrel⟩ := step_refines cfg s rs (.scr conn hashes) h trivial
  have hmsgs := hrel.1
  subst hmsgs
  have : s' = s := by
    simp only [sysStep, bind, Except.bind] at hstep
    split at hstep
    · cases hstep
    · simp only [pure, Except.pure] at hstep; injection hstep with h1; injection h1 with h2 _; exact h2.symm
  subst this
  exact ⟨_, hstep⟩

/-- a second peer id for a torrent the connection has announced and not stopped: one error reply to
it, and the connection is over - nothing it owned stays -/
theorem second_peer_id_refused (cfg : WsCfg) (s : Sys) (rs : RefSys) (h : SysSim s rs) (conn : ConnId) (req : AnnReq)
    (now o1 o2 pid' : Nat) (hb : IMap.get (rs.bookOf conn) req.hash = some pid') (hne : pid' ≠ req.pid) :
    ∃ s', sysStep cfg s (.ann conn true req now o1 o2) = .ok (s', [Msg.error conn (some req.hash)]) ∧
      ∀ hh pid, peerAt s'.m hh pid = (peerAt s.m hh pid).filter (fun p => !decide (p.owner = conn)) := by
  obtain ⟨s', hc, hp⟩ := C08.close_removes_exactly_own s rs h conn
  refine ⟨s', ?_, hp⟩
  simp [sysStep, bookOf_eq h, hb, hne, hc, bind, Except.bind, pure, Except.pure]

/-- closing: in the order the socket worker sent things, nothing the connection created remains -/
theorem closed_connection_leaves_nothing (s : Sys) (rs : RefSys) (h : SysSim s rs) (conn : ConnId) :
    ∃ s', sysClose s conn = .ok s' ∧ ∀ hh pid p, peerAt s'.m hh pid = some p → p.owner ≠ conn := by
  obtain ⟨s', hc, hp⟩ := C08.close_removes_exactly_own s rs h conn
  refine ⟨s', hc, ?_⟩
  intro hh pid p hg
  rw [hp] at hg
  cases hx : peerAt s.m hh pid with
  | none => simp [hx] at hg
  | some q =>
    simp only [hx, Option.filter] at hg
    split at hg
    · rename_i hq; cases hg; simpa using hq
    · cases hg

/-! ### the two channels between a socket worker and a swarm worker (F11, repaired) -/

/-- what a socket worker has sent to a swarm worker and the swarm worker has not processed yet:
announces in the request channel, close notices in the control channel; each channel is FIFO, the
swarm worker takes from either.  `closed`: the connections the swarm worker has been told are gone
(`TorrentMaps::closed_connections`, added by the repair of F11) -/
structure Pending where
  reqs : List (ConnId × AnnReq) := []
  ctrl : List (ConnId × List (Nat × Nat)) := []
  closed : List ConnId := []

/-- one scheduling decision of the swarm worker: `true` = next request, `false` = next control
message.  `remember`: whether close notices are remembered (the code as repaired) or not (as it was) -/
def drainStep (cfg : WsCfg) (remember : Bool) (x : WMap × Pending) (takeReq : Bool) : Except Panic (WMap × Pending) :=
  if takeReq then
    match x.2.reqs with
    | [] => .ok x
    | (c, rq) :: t =>
      if x.2.closed.contains c then .ok (x.1, { x.2 with reqs := t })      -- announce of a closed connection: dropped
      else do
        let r ← announce cfg x.1 c rq 0 0 0
        pure (r.1, { x.2 with reqs := t })
  else
    match x.2.ctrl with
    | [] => .ok x
    | (c, pairs) :: t => do
      let m ← closePairs x.1 c pairs
      pure (m, { x.2 with ctrl := t, closed := if remember then c :: x.2.closed else x.2.closed })

def drain (cfg : WsCfg) (remember : Bool) : WMap × Pending → List Bool → Except Panic (WMap × Pending)
  | x, [] => .ok x
  | x, b :: t => match drainStep cfg remember x b with
    | .error e => .error e
    | .ok y => drain cfg remember y t

def demoCfg : WsCfg := ⟨10, 255, 180, 120⟩
def demoConn : ConnId := ⟨0, 1⟩
/-- connection 0.1 announced torrent 7 as peer 100 and was then dropped -/
def demoPending : Pending := ⟨[(demoConn, ⟨7, 100, false, some 5, none, none⟩)], [(demoConn, [(7, 100)])], []⟩

/-- "nothing of a closed connection remains once everything it sent has been processed" -/
def LeavesNothing (remember : Bool) (sched : List Bool) : Prop :=
  match drain demoCfg remember ([], demoPending) sched with
  | .ok (m, p) => p.reqs = [] ∧ p.ctrl = [] ∧ peerAt m 7 100 = none
  | .error _ => False

instance (remember : Bool) (sched : List Bool) : Decidable (LeavesNothing remember sched) := by
  unfold LeavesNothing; split <;> infer_instance

/-- in sending order (request first) the entry is gone, with or without the memory of closed connections -/
theorem in_order_leaves_nothing : LeavesNothing false [true, false] ∧ LeavesNothing true [true, false] := by decide

/-- the swarm worker may take the control message first: without the memory the entry stays although
the connection is gone (F11 on the pinned tree) ... -/
theorem overtaking_left_a_peer : ¬ LeavesNothing false [false, true] := by decide

/-- ... with it, the overtaken announce is dropped -/
theorem overtaking_is_harmless : LeavesNothing true [false, true] := by decide

/-- in general: once a connection's close notice has been processed, no later announce of that
connection changes the store -/
theorem announce_after_close_dropped (cfg : WsCfg) (m : WMap) (p : Pending) (c : ConnId) (rq : AnnReq)
    (t : List (ConnId × AnnReq)) (hr : p.reqs = (c, rq) :: t) (hc : p.closed.contains c = true) :
    drainStep cfg true (m, p) true = .ok (m, { p with reqs := t }) := by
  have hm : c ∈ p.closed := by simpa using hc
  simp [drainStep, hr, hm]

/-! ### the two tasks of one connection (reader, writer) and the last reply

`ConnectionRunner::run_inner` races a reader and a writer task over one local queue of outgoing
messages; the connection ends when either returns.  An entry of the queue is the message and its
`close_connection` mark.  The writer sends the queue in order and returns after the first marked
message; a reader that returns by itself ends the connection with whatever the writer has not sent
yet still queued. -/

/-- the writer task on a queue nothing is added to any more: what it sends, and whether it ends the
connection itself -/
def writerRun {μ : Type} : List (μ × Bool) → List μ × Bool
  | [] => ([], false)                       -- waits for more
  | (m, true) :: _ => ([m], true)           -- sent, then `return Err(..)`
  | (m, false) :: t => let r := writerRun t; (m :: r.1, r.2)

/-- the end of a connection whose reader has queued `last` as its final message, given how many of
the queued messages the writer got to send before the reader's decision took effect:
`readerReturns = true` is the pinned behaviour (the reader returns an error right after queueing, the
race drops the writer where it is), `false` the repaired one (the message carries the mark, the
reader parks, the writer ends the connection) -/
def connectionEnd {μ : Type} (readerReturns : Bool) (queued : List μ) (last : μ) (writerDone : Nat) : List μ :=
  if readerReturns then queued.take writerDone
  else (writerRun (queued.map (·, false) ++ [(last, true)])).1

theorem writerRun_marked_last {μ : Type} (q : List μ) (last : μ) :
    writerRun (q.map (·, false) ++ [(last, true)]) = (q ++ [last], true) := by
  induction q with
  | nil => rfl
  | cons a t ih => simp [writerRun, ih]

/-- **the refusal reaches the client**: with the mark, everything queued before the error reply and
the error reply itself are sent, in order, before the connection ends — whatever the scheduling -/
theorem marked_reply_is_sent {μ : Type} (queued : List μ) (last : μ) (k : Nat) :
    connectionEnd false queued last k = queued ++ [last] := by
  simp [connectionEnd, writerRun_marked_last]

/-- F14 on the pinned tree: the reader's return ends the race with the reply still queued — it is
never among the messages sent, however far the writer got -/
theorem unmarked_reply_is_lost {μ : Type} (queued : List μ) (last : μ) (k : Nat) :
    (connectionEnd true queued last k).length ≤ queued.length := by
  simp only [connectionEnd, if_true, List.length_take]
  exact Nat.min_le_right _ _

example : connectionEnd false ["offer", "reply"] "error" 0 = ["offer", "reply", "error"] := by decide
example : connectionEnd true ["offer", "reply"] "error" 1 = ["offer"] := by decide

end Aquatic.Ws.C17
