/-
  C11 — Access list is enforced on announce, on cleaning and across reloads.
-/
import Aquatic.Props.Store
import Aquatic.Model.Acl
import Aquatic.Spec.AclFile

namespace Aquatic.C11

open Aquatic

/-! ### the decision -/

theorem gate_allow (list : List Nat) (h : Nat) : aclAllows .allow list h = true ↔ h ∈ list := by
  simp [aclAllows]

theorem gate_deny (list : List Nat) (h : Nat) : aclAllows .deny list h = true ↔ h ∉ list := by
  simp [aclAllows]

theorem gate_off (list : List Nat) (h : Nat) : aclAllows .off list h = true := rfl

/-! ### every other announce is answered with an error and creates no state -/

theorem denied_creates_no_state (cfg : StoreCfg) (mode : AclMode) (s : TState × List Nat)
    (v6 : Bool) (h : Nat) (key : Key) (st : Status) (pid dl n o1 o2 : Nat)
    (hd : aclAllows mode s.2 h = false) :
    gstep cfg mode s (.op (.ann v6 h key st pid dl n o1 o2)) = .ok (s, .denied) := by
  simp [gstep, hd, pure, Except.pure]

theorem allowed_is_plain_announce (cfg : StoreCfg) (mode : AclMode) (s : TState × List Nat)
    (v6 : Bool) (h : Nat) (key : Key) (st : Status) (pid dl n o1 o2 : Nat)
    (ha : aclAllows mode s.2 h = true) :
    gstep cfg mode s (.op (.ann v6 h key st pid dl n o1 o2)) =
      (step cfg s.1 (.ann v6 h key st pid dl n o1 o2)).map (fun r => ((r.1, s.2), .out r.2)) := by
  simp only [gstep, ha, ↓reduceIte, bind, Except.bind, pure, Except.pure, Except.map]

/-! ### reloads -/

/-- a reload that fails — the file cannot be opened, or any line at any position is
unreadable or malformed — leaves the previous list fully in force -/
theorem reload_fail_keeps (cur : List Nat) (file : Option (List (Option (List Char))))
    (hf : file = none ∨ ∃ lines, file = some lines ∧ createFromLines lines = none) :
    aclUpdate cur file = (cur, false) := by
  rcases hf with h | ⟨lines, h, hc⟩
  · subst h; rfl
  · subst h; simp [aclUpdate, hc]

/-- a malformed line at *any* position makes the whole parse fail -/
theorem bad_line_anywhere_fails (pre post : List (Option (List Char))) (bad : Option (List Char))
    (hbad : bad = none ∨ ∃ l, bad = some l ∧ (trimWs l).isEmpty = false ∧ parseInfoHash (trimWs l) = none) :
    createFromLines (pre ++ bad :: post) = none := by
  induction pre with
  | nil =>
    rcases hbad with h | ⟨l, h, h1, h2⟩
    · subst h; rfl
    · subst h; simp [createFromLines, h1, h2]
  | cons x t ih =>
    cases x with
    | none => rfl
    | some l =>
      simp only [List.cons_append, createFromLines, ih]
      split
      · rfl
      · split <;> simp

/-- a successful reload switches to exactly the new list -/
theorem reload_ok_switches (cur : List Nat) (lines : List (Option (List Char))) (l : List Nat)
    (h : createFromLines lines = some l) : aclUpdate cur (some lines) = (l, true) := by
  simp [aclUpdate, h]

/-- blank lines and surrounding white space are ignored -/
theorem blank_line_ignored (l : List Char) (t : List (Option (List Char))) (h : (trimWs l).isEmpty = true) :
    createFromLines (some l :: t) = createFromLines t := by
  simp [createFromLines, h]

theorem good_line_accepted (l : List Char) (t : List (Option (List Char))) (x : Nat) (rest : List Nat)
    (h0 : (trimWs l).isEmpty = false) (h : parseInfoHash (trimWs l) = some x) (ht : createFromLines t = some rest) :
    createFromLines (some l :: t) = some (x :: rest) := by
  simp [createFromLines, h0, h, ht]

/-- upper- and lower-case hex digits mean the same -/
theorem hex_case_insensitive :
    ∀ c ∈ ['a', 'b', 'c', 'd', 'e', 'f'], hexVal c = hexVal c.toUpper ∧ (hexVal c).isSome := by decide

theorem hash_needs_40_digits (s : List Char) (h : s.length ≠ 40) : parseInfoHash s = none := by
  simp [parseInfoHash, h]

theorem mode_off_reads_nothing (cur : List Nat) (file : Option (List (Option (List Char)))) :
    updateAccessList .off cur file = (cur, true) := rfl

/-! ### cleaning under the list in force -/

/-- the next cleaning pass removes every stored entry of a torrent the list forbids and
leaves permitted ones exactly as the expiry rule (C10) leaves them -/
theorem clean_removes_forbidden_only (r : RState) (now : Nat) (mode : AclMode) (list : List Nat) (e : REntry) :
    e ∈ Ref.clean r now (aclAllows mode list) ↔
      (e ∈ r ∧ now < e.peer.deadline ∧ aclAllows mode list e.hash = true) := by
  simp [Ref.clean, List.mem_filter]

/-! ### end to end: any interleaving of announce / scrape / reload (ok or failing) / clean -/

def GOutRel : AOp → AOut → AROut → Prop
  | .op o, .out a, .out b => OutRel o a b
  | _, .denied, .denied => True
  | _, .reloaded a, .reloaded b => a = b
  | _, _, _ => False

/-- one step of the gated tracker refines one step of the reference tracker guarded by the
same (latest successfully loaded) list; the lists stay equal -/
theorem gstep_refines (cfg : StoreCfg) (mode : AclMode) (s : TState) (r : RT) (list : List Nat) (op : AOp)
    (hs : Sim cfg.c s r) (hok : match op with | .op o => OpOk s o | _ => True) :
    ∃ s' out, gstep cfg mode (s, list) op = .ok (s', out) ∧
      Sim cfg.c s'.1 (grefStep cfg mode (r, list) op).1.1 ∧
      s'.2 = (grefStep cfg mode (r, list) op).1.2 ∧
      GOutRel op out (grefStep cfg mode (r, list) op).2 := by
  cases op with
  | reload file =>
    exact ⟨_, _, rfl, hs, rfl, rfl⟩
  | op o =>
    cases o with
    | ann v6 h key st pid dl n o1 o2 =>
      by_cases ha : aclAllows mode list h = true
      · obtain ⟨s', out, h1, h2, h3⟩ := step_refines cfg s r _ hs hok
        refine ⟨(s', list), .out out, ?_, ?_, ?_, ?_⟩
        · simp [gstep, ha, h1, bind, Except.bind, pure, Except.pure]
        · simpa [grefStep, ha] using h2
        · simp [grefStep, ha]
        · simpa [grefStep, ha, GOutRel] using h3
      · have ha' : aclAllows mode list h = false := by simpa using ha
        refine ⟨(s, list), .denied, ?_, ?_, ?_, ?_⟩
        · simp [gstep, ha', pure, Except.pure]
        · simpa [grefStep, ha'] using hs
        · simp [grefStep, ha']
        · simp [grefStep, ha', GOutRel]
    | scr v6 hs' =>
      obtain ⟨s', out, h1, h2, h3⟩ := step_refines cfg s r (.scr v6 hs') hs trivial
      refine ⟨(s', list), .out out, ?_, ?_, ?_, ?_⟩
      · simp [gstep, h1, bind, Except.bind, pure, Except.pure]
      · simpa [grefStep] using h2
      · simp [grefStep]
      · simpa [grefStep, GOutRel] using h3
    | cln now f =>
      obtain ⟨s', out, h1, h2, h3⟩ := step_refines cfg s r (.cln now (aclAllows mode list)) hs trivial
      refine ⟨(s', list), .out out, ?_, ?_, ?_, ?_⟩
      · simp [gstep, h1, bind, Except.bind, pure, Except.pure]
      · simpa [grefStep] using h2
      · simp [grefStep]
      · simp only [grefStep, GOutRel]
        cases out <;> cases hr : (refStep cfg r (.cln now (aclAllows mode list))).2 <;>
          simp_all [OutRel]

/-! ### the file format, against its statement -/

theorem hexValue_isSome (s : List Char) : (hexValue s).isSome = s.all (fun c => (hexVal c).isSome) := by
  induction s with
  | nil => rfl
  | cons c t ih =>
    simp only [hexValue, List.all_cons, ← ih]
    cases hexVal c <;> cases hexValue t <;> simp [bind, Option.bind, pure]

theorem parseInfoHash_isSome (s : List Char) :
    (parseInfoHash s).isSome = (decide (s.length = 40) && s.all (fun c => (hexVal c).isSome)) := by
  unfold parseInfoHash
  by_cases h : s.length = 40
  · simp [h, hexValue_isSome]
  · simp [h]

/-- **the parser decides exactly well-formedness and yields exactly the listed hashes**: a file loads iff
every line is readable and blank or forty hex digits once trimmed (so blank and white-space-only lines,
padding, either case never make a file fail), and then the list is the hashes of its non-blank lines in order -/
theorem createFromLines_spec (lines : List (Option (List Char))) :
    createFromLines lines = if AclSpec.fileOk lines then some (AclSpec.hashes lines) else none := by
  induction lines with
  | nil => rfl
  | cons x t ih =>
    cases x with
    | none => simp [createFromLines, AclSpec.fileOk, AclSpec.lineOk]
    | some l =>
      simp only [createFromLines, AclSpec.fileOk, List.all_cons, AclSpec.lineOk, AclSpec.hashes, List.filterMap_cons] at ih ⊢
      by_cases hb : (trimWs l).isEmpty = true
      · simp only [hb, if_true, Bool.true_or, Bool.true_and]
        exact ih
      · have hb' : (trimWs l).isEmpty = false := by simpa using hb
        have hp := parseInfoHash_isSome (trimWs l)
        cases hq : parseInfoHash (trimWs l) with
        | none =>
          rw [hq] at hp
          have : (decide ((trimWs l).length = 40) && (trimWs l).all (fun c => (hexVal c).isSome)) = false := by
            simpa using hp.symm
          simp [hb', this]
        | some h =>
          rw [hq] at hp
          have : (decide ((trimWs l).length = 40) && (trimWs l).all (fun c => (hexVal c).isSome)) = true := by
            simpa using hp.symm
          simp only [hb', this, Bool.false_or, Bool.true_and, ih]
          by_cases hf : t.all AclSpec.lineOk = true <;> simp [hf]

/-- a reload, as the code performs it, has exactly the stated effect -/
theorem reload_meets_statement (mode : AclMode) (cur : List Nat) (file : Option (List (Option (List Char)))) :
    updateAccessList mode cur file = AclSpec.afterReload mode cur file := by
  unfold updateAccessList AclSpec.afterReload aclUpdate
  by_cases hm : mode = .off
  · simp [hm]
  · simp only [hm, if_false]
    cases file with
    | none => rfl
    | some lines =>
      simp only [createFromLines_spec]
      by_cases hf : AclSpec.fileOk lines = true <;> simp [hf]

/-! ### non-vacuity -/

-- a file with an upper-case hash, a blank line, a padded lower-case hash
example : createFromLines
    [some ("AAAAAAAAAAAAAAAAAAAAAAAAAAAAAAAAAAAAAAAA".toList), some " \t".toList,
     some ("  0000000000000000000000000000000000000001\r".toList)] =
    some [0xAAAAAAAAAAAAAAAAAAAAAAAAAAAAAAAAAAAAAAAA, 1] := by decide

-- a 39-digit line in third position aborts the load; the previous list [7] stays in force
example : aclUpdate [7] (some [some ("AAAAAAAAAAAAAAAAAAAAAAAAAAAAAAAAAAAAAAAA".toList), some [],
     some ("000000000000000000000000000000000000001".toList)]) = ([7], false) := by decide

end Aquatic.C11
