/-
  C08 — WebTorrent swarm bookkeeping and per-connection ownership of peers.

  `Ws.refines` (Props/WsStore.lean) is the statement for all histories: the tracker model (swarm
  store + the socket worker's per-connection records) answers like the reference tracker, whose
  state is one entry per (torrent, peer id) owned by the connection that created it.  The theorems
  below spell out, on the reference and on the model, the clauses of the property.
-/
import Aquatic.Props.WsStore

namespace Aquatic.Ws.C08

open Aquatic Aquatic.Ws

/-- **all histories**: no panic, every message is the reference's (restated from `Ws.refines`) -/
theorem bookkeeping_refines_reference (cfg : WsCfg) (ops : List WOp) (hok : OpsOk cfg {} ops) :
    ∃ outs, run cfg {} ops = .ok outs ∧ Answers cfg {} {} ops outs :=
  refines_from_start cfg ops hok

/-! ### what the reference's replies say -/

/-- announce counts include the announcer: after a non-stopped accepted announce the announcer is
stored, as a seeder iff `left = 0`, and is counted in the reply -/
theorem announce_counts_include_announcer (cfg : WsCfg) (r : RefW) (conn : ConnId) (req : AnnReq) (now : Nat)
    (recv : List Nat) (hs : req.stopped = false) :
    let es' := (Ref.announceCore cfg r conn req now recv).1.entries
    Ref.find es' req.hash req.pid = some ⟨req.hash, req.pid, conn, decide (req.left = some 0), validUntilNew now cfg.maxPeerAge⟩ ∧
    Msg.announce conn req.hash (Ref.complete es' req.hash) (Ref.incomplete es' req.hash) ∈
      (Ref.announceCore cfg r conn req now recv).2 ∧
    1 ≤ Ref.complete es' req.hash + Ref.incomplete es' req.hash := by
  let e1 : RW := ⟨req.hash, req.pid, conn, decide (req.left = some 0), validUntilNew now cfg.maxPeerAge⟩
  have hboth : (Ref.announceCore cfg r conn req now recv).1.entries = Ref.rest r.entries req.hash req.pid ++ [e1] ∧
      Msg.announce conn req.hash (Ref.complete (Ref.rest r.entries req.hash req.pid ++ [e1]) req.hash)
        (Ref.incomplete (Ref.rest r.entries req.hash req.pid ++ [e1]) req.hash) ∈ (Ref.announceCore cfg r conn req now recv).2 := by
    by_cases h0 : req.left = some 0
    · have hst : wsStatus req.stopped req.left = .seeding := by simp [wsStatus, hs, h0]
      have he : e1 = ⟨req.hash, req.pid, conn, true, validUntilNew now cfg.maxPeerAge⟩ := by simp [e1, h0]
      rw [he]
      simp [Ref.announceCore, hst]
    · have hst : wsStatus req.stopped req.left = .leeching := by simp [wsStatus, hs, h0]
      have he : e1 = ⟨req.hash, req.pid, conn, false, validUntilNew now cfg.maxPeerAge⟩ := by simp [e1, h0]
      rw [he]
      simp [Ref.announceCore, hst]
  obtain ⟨hes, hmsg⟩ := hboth
  simp only
  rw [hes]
  refine ⟨?_, hmsg, ?_⟩
  · have := Ref.find_rest_append r.entries e1 req.hash req.pid
    simpa [e1] using this
  · have hm : e1 ∈ Ref.ofTorrent (Ref.rest r.entries req.hash req.pid ++ [e1]) req.hash := by
      simp [Ref.ofTorrent, e1]
    have hpos : 0 < (Ref.ofTorrent (Ref.rest r.entries req.hash req.pid ++ [e1]) req.hash).length :=
      List.length_pos_of_mem hm
    have hsum := List.length_eq_countP_add_countP (fun e : RW => e.seeder)
      (l := Ref.ofTorrent (Ref.rest r.entries req.hash req.pid ++ [e1]) req.hash)
    simp only [Ref.complete, Ref.incomplete]
    have hc : List.countP (fun e : RW => !e.seeder) (Ref.ofTorrent (Ref.rest r.entries req.hash req.pid ++ [e1]) req.hash) =
        List.countP (fun a => decide ¬(a.seeder = true)) (Ref.ofTorrent (Ref.rest r.entries req.hash req.pid ++ [e1]) req.hash) := by
      apply List.countP_congr; intro a _; cases a.seeder <;> simp
    omega

/-- `stopped` removes the entry (and only it) -/
theorem stopped_removes_entry (cfg : WsCfg) (r : RefW) (conn : ConnId) (req : AnnReq) (now : Nat) (recv : List Nat)
    (hs : req.stopped = true) (h' pid' : Nat) :
    Ref.find (Ref.announceCore cfg r conn req now recv).1.entries h' pid' =
      if h' = req.hash ∧ pid' = req.pid then none else Ref.find r.entries h' pid' := by
  have hst : wsStatus req.stopped req.left = .stopped := by simp [wsStatus, hs]
  simp only [Ref.announceCore, hst]
  exact Ref.find_rest r.entries req.hash req.pid h' pid'

/-- **announces that use a peer id stored by another connection are ignored**: no reply, no effect -
on the model: no message, every stored peer (and its outstanding offers) unchanged -/
theorem foreign_announce_ignored (cfg : WsCfg) (m : WMap) (r : RefW) (conn : ConnId) (req : AnnReq) (now o1 o2 : Nat)
    (hs : WSim m r) (p : WPeer) (hp : peerAt m req.hash req.pid = some p) (hne : p.owner ≠ conn) :
    ∃ m', announce cfg m conn req now o1 o2 = .ok (m', []) ∧ ∀ h pid, peerAt m' h pid = peerAt m h pid := by
  have hob : ownedByOther (torrentAt m req.hash) req.pid conn = true := by
    unfold peerAt at hp
    simp [ownedByOther, hp, hne]
  refine ⟨IMap.insert m req.hash (torrentAt m req.hash), ?_, ?_⟩
  · have hdef : announce cfg m conn req now o1 o2 =
        if ownedByOther (torrentAt m req.hash) req.pid conn then .ok (IMap.insert m req.hash (torrentAt m req.hash), [])
        else match announceLive cfg (torrentAt m req.hash) conn req now o1 o2 with
          | .error e => .error e
          | .ok r => .ok (IMap.insert m req.hash r.1, r.2) := rfl
    rw [hdef, if_pos hob]
  · intro h pid
    rw [peerAt_insert]
    split
    · rename_i e; subst e; rfl
    · rfl

/-- the same on the reference, including a later close of the ignored connection: the entry stays -/
theorem ignored_then_closed_keeps_entry (cfg : WsCfg) (r : RefW) (hn : Ref.KeysNodup r.entries) (conn : ConnId)
    (req : AnnReq) (now : Nat) (recv : List Nat) (e : RW) (he : Ref.find r.entries req.hash req.pid = some e)
    (hne : e.owner ≠ conn) :
    Ref.announce cfg r conn req now recv = (r, []) ∧
    Ref.find (Ref.close (Ref.announce cfg r conn req now recv).1 conn).entries req.hash req.pid = some e := by
  have h1 : Ref.announce cfg r conn req now recv = (r, []) := by simp [Ref.announce, he, hne]
  refine ⟨h1, ?_⟩
  rw [h1]
  simp only [Ref.close]
  rw [Ref.find_filter _ hn, he]
  simp [Option.filter, hne]

/-- **closing a connection removes exactly the entries it created** - on the model, in any state
reachable together with the reference: the peers owned by the connection disappear, every other
peer stays as it is -/
theorem close_removes_exactly_own (s : Sys) (rs : RefSys) (h : SysSim s rs) (conn : ConnId) :
    ∃ s', sysClose s conn = .ok s' ∧
      ∀ hh pid, peerAt s'.m hh pid = (peerAt s.m hh pid).filter (fun p => !decide (p.owner = conn)) := by
  obtain ⟨m', hc, _, hp⟩ := closePairs_spec conn (rs.bookOf conn) h.sim.inv
  refine ⟨⟨m', (IMap.swapRemove s.books conn).1⟩, ?_, ?_⟩
  · simp [sysClose, bookOf_eq h, hc, bind, Except.bind, pure, Except.pure]
  · intro hh pid
    simp only
    rw [hp]
    obtain ⟨x, hg⟩ : ∃ x, peerAt s.m hh pid = x := ⟨_, rfl⟩
    simp only [hg]
    cases x with
    | none => simp [ownedBy]
    | some p =>
      by_cases ho : p.owner = conn
      · have hA := h.sim.agree hh
        have hf : Ref.find rs.w.entries hh pid = some (toRW hh pid p) := by
          rw [← hA.ent]; unfold peerAt at hg; rw [hg]; rfl
        have hmem := covers_pairs h conn _ (Ref.find_some hf).1 (by simpa [toRW] using ho)
        simp only [toRW] at hmem
        simp [ownedBy, ho, hmem, Option.filter]
      · simp [ownedBy, ho, Option.filter]

/-- a scrape lists every requested torrent (within the limit) that has stored peers, with the
reference's counts, and never a non-zero count for any other (from `OutRel`, restated) -/
theorem scrape_lists_stored_torrents (cfg : WsCfg) (m : WMap) (r : RefW) (hs : WSim m r) (hashes : List Nat) :
    scrapeList m (hashes.take cfg.maxScrape) = .ok (listed m r (hashes.take cfg.maxScrape)) ∧
    (∀ f ∈ Ref.scrapeFiles cfg r hashes, f ∈ listed m r (hashes.take cfg.maxScrape)) ∧
    (∀ f ∈ listed m r (hashes.take cfg.maxScrape), f ∈ Ref.scrapeFiles cfg r hashes ∨
      (f.1 ∈ hashes.take cfg.maxScrape ∧ Ref.ofTorrent r.entries f.1 = [] ∧ f.2 = (0, 0))) :=
  ⟨scrapeList_sim hs _, scrape_listing cfg hs hashes⟩

/-- the representation invariants (cached seeder count = number of seeders, duplicate-free maps)
hold in every state reachable together with the reference, so no counter ever underflows -/
theorem reachable_invariants (cfg : WsCfg) (s : Sys) (rs : RefSys) (op : WOp) (h : SysSim s rs) (hok : OpOk cfg s op) :
    ∃ s' msgs, sysStep cfg s op = .ok (s', msgs) ∧ MInv s'.m := by
  obtain ⟨s', msgs, _, hstep, hsim, _⟩ := step_refines cfg s rs op h hok
  exact ⟨s', msgs, hstep, hsim.sim.inv⟩

/-! ### non-vacuity: a history with two connections sharing a slot key on different socket workers -/

def demoCfg : WsCfg := ⟨10, 255, 180, 120⟩
def demoOps : List WOp :=
  [.ann ⟨0, 1⟩ true ⟨7, 100, false, some 5, none, none⟩ 1 0 0,
   .ann ⟨1, 1⟩ true ⟨7, 100, true, some 5, none, none⟩ 2 0 0,      -- same slot key, other worker: ignored
   .close ⟨1, 1⟩,
   .scr ⟨0, 1⟩ [7]]

example : OpsOk demoCfg {} demoOps := by decide
example : run demoCfg {} demoOps =
    .ok [[Msg.announce ⟨0, 1⟩ 7 0 1], [], [], [Msg.scrape ⟨0, 1⟩ [(7, 0, 1)]]] := by decide

end Aquatic.Ws.C08
