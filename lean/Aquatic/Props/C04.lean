/-
  C04 — the UDP shared swarm state is linearizable and deadlock-free.

  Model: Aquatic.Model.Conc - threads running announce / scrape / clean over one shared state, one
  atomic step per lock-protected section, any interleaving.  Proved for every number of threads,
  every program and every schedule: no step ever fails or blocks; the sequential view of the state
  stays in simulation with the reference tracker to which each operation is applied at ONE of its
  own steps (its linearization point, hence between its start and its end), and the reply of every
  announce / every scrape entry is the reference's at that point.  The Arc every in-flight announce
  or cleaning pass holds stays attached to its torrent - the guard of `retain` - so no answered peer
  is lost to a concurrent cleaning pass.  Exercised only: the real locks (parking_lot), i.e. that
  each section is atomic and that acquiring them in the order shard -> peer map cannot deadlock.
-/
import Aquatic.Lemmas.Conc
import Aquatic.Props.Store

namespace Aquatic.Conc.C04

open Aquatic Aquatic.Conc

/-- every Arc a thread holds still belongs to the peer map stored for its torrent -/
def Attached (s : CState) (pcs : List Pc) : Prop :=
  ∀ pc ∈ pcs, ∀ x ∈ pc.arcs, ∃ pm, sget s.shard x.1 = some (x.2, pm)

/-- no access list in force (C04 quantifies over announce / scrape / clean only) -/
def NoAcl : Pc → Prop
  | .clnSnap _ allowed _ => ∀ h, allowed h = true
  | .clnTorrents _ allowed _ _ => ∀ h, allowed h = true
  | .clnRetain _ allowed _ => ∀ h, allowed h = true
  | _ => True

/-- the random draws of the announce about to answer are in range -/
def StepOk (s : CState) : Pc → Prop
  | .annHave a _ => (view s).OffOk a.h a.key a.n a.o1 a.o2
  | _ => True

/-- the reference operation applied by the step `pc` is about to take: the linearization points -/
def refEffect (r : RState) : Pc → RState
  | .annHave a _ => (Ref.announce r a.h a.key a.st a.pid a.dl).1
  | .clnTorrents now _ _ ((h, _) :: _) => cleanOne r h now
  | _ => r

/-- what the step answers, against the reference at this very point -/
def Reply (r : RState) : Pc → Pc → Prop
  | .annHave a _, pc' => ∃ o, pc' = .doneAnn o ∧
      o.seeders = (Ref.announce r a.h a.key a.st a.pid a.dl).2.seeders ∧
      o.leechers = (Ref.announce r a.h a.key a.st a.pid a.dl).2.leechers ∧
      PeersOk o.peers (Ref.announce r a.h a.key a.st a.pid a.dl).2.candidates a.n
  | .scr (h :: t) acc, pc' => pc' = .scr t (Ref.scrape r h :: acc)
  | _, _ => True

theorem sget_view {s : CState} {h a : Nat} {pm : PeerMap} (hg : sget s.shard h = some (a, pm)) :
    (view s).get h = some pm := by
  unfold view; rw [view_get, hg]; rfl

theorem view_store_attached {s : CState} {h a : Nat} {pm : PeerMap} (hg : sget s.shard h = some (a, pm)) (pm' : PeerMap) :
    store s h a pm' = { s with shard := sset s.shard h (a, pm') } ∧ view (store s h a pm') = (view s).set h pm' := by
  have h1 : store s h a pm' = { s with shard := sset s.shard h (a, pm') } := by simp [store, hg]
  refine ⟨h1, ?_⟩
  rw [h1]
  exact view_sset s.shard h a pm' (fun a' pm'' hx => by rw [hg] at hx; cases hx; rfl)

theorem attached_sset_same {s : CState} {pcs : List Pc} (hatt : Attached s pcs) (h a : Nat) (pm' : PeerMap)
    {pm : PeerMap} (hg : sget s.shard h = some (a, pm)) :
    Attached { s with shard := sset s.shard h (a, pm') } pcs := by
  intro pc hpc x hx
  obtain ⟨q, hq⟩ := hatt pc hpc x hx
  simp only
  rw [sget_sset]
  by_cases e : x.1 = h
  · rw [e] at hq; rw [hg] at hq; cases hq
    exact ⟨pm', by simp [e]⟩
  · exact ⟨q, by simp [e, hq]⟩

/-- **one step of one thread**: it never fails (nothing blocks it), the simulation moves to the
reference state with this step's operation applied, Arcs stay attached, the answer is the
reference's -/
theorem stepPc_linearizes (c : Nat) (s : CState) (others : List Pc) (pc : Pc) (r : RState)
    (hsim : Sim1 c (view s) r) (hown : Attached s [pc]) (hoth : Attached s others) (hna : NoAcl pc) (hok : StepOk s pc) :
    ∃ s' pc', stepPc c s others pc = .ok (s', pc') ∧ Sim1 c (view s') (refEffect r pc) ∧
      Attached s' [pc'] ∧ Attached s' others ∧ NoAcl pc' ∧ Reply r pc pc' := by
  cases pc with
  | annStart a =>
    cases hg : sget s.shard a.h with
    | some v =>
      obtain ⟨addr, pm⟩ := v
      refine ⟨s, .annHave a addr, by simp [stepPc, hg], hsim, ?_, hoth, trivial, trivial⟩
      intro pc hpc x hx
      simp only [List.mem_singleton] at hpc; subst hpc
      simp only [Pc.arcs, List.mem_singleton] at hx; subst hx
      exact ⟨pm, hg⟩
    | none =>
      refine ⟨{ s with shard := sset s.shard a.h (s.next, .small []), next := s.next + 1 }, .annHave a s.next,
        by simp [stepPc, hg], ?_, ?_, ?_, trivial, trivial⟩
      · -- an empty torrent appears: nothing changes for the reference
        have hv : view { s with shard := sset s.shard a.h (s.next, .small []), next := s.next + 1 } = (view s).set a.h (.small []) := by
          unfold view
          exact view_sset s.shard a.h s.next (.small []) (fun a' pm' hx => by rw [hg] at hx; cases hx)
        rw [hv]
        have hgv : (view s).get a.h = none := by unfold view; rw [view_get, hg]; rfl
        refine ⟨TMap.inv_set hsim.1 a.h ⟨List.nodup_nil, Nat.zero_le _⟩, ?_⟩
        intro h'
        unfold TMap.entriesOf
        rw [TMap.get_set]
        by_cases e : h' = a.h
        · subst e
          have := hsim.2 a.h
          unfold TMap.entriesOf at this
          rw [hgv] at this
          simpa [PeerMap.entries, refEffect] using this
        · simp only [e, if_false]; exact hsim.2 h'
      · intro pc hpc x hx
        simp only [List.mem_singleton] at hpc; subst hpc
        simp only [Pc.arcs, List.mem_singleton] at hx; subst hx
        exact ⟨.small [], by simp [sget_sset]⟩
      · intro pc hpc x hx
        obtain ⟨q, hq⟩ := hoth pc hpc x hx
        refine ⟨q, ?_⟩
        simp only
        rw [sget_sset]
        have : x.1 ≠ a.h := by intro e; rw [e, hg] at hq; cases hq
        simp [this, hq]
  | annHave a addr =>
    obtain ⟨pm, hg⟩ := hown _ List.mem_cons_self (a.h, addr) (by simp [Pc.arcs])
    have hgv := sget_view hg
    -- the announce on this peer map is the sequential announce on the view
    obtain ⟨m', out, ha, hsim', h1, h2, h3⟩ := sim1_announce c (view s) r a.h a.key a.st a.pid a.dl a.n a.o1 a.o2 hsim hok
    simp only [TMap.announce, hgv, Option.getD_some, bind, Except.bind] at ha
    cases hr : pm.announce c a.key a.st a.pid a.dl a.n a.o1 a.o2 with
    | error e => rw [hr] at ha; cases ha
    | ok rr =>
      rw [hr] at ha
      simp only [pure, Except.pure] at ha
      injection ha with ha
      injection ha with hm hout
      obtain ⟨hst, hview⟩ := view_store_attached hg rr.1
      refine ⟨store s a.h addr rr.1, .doneAnn rr.2, ?_, ?_, ?_, ?_, trivial, ?_⟩
      · simp [stepPc, deref, hg, hr, bind, Except.bind, pure, Except.pure]
      · rw [hview, hm]; exact hsim'
      · intro pc hpc x hx
        simp only [List.mem_singleton] at hpc; subst hpc
        simp [Pc.arcs] at hx
      · rw [hst]; exact attached_sset_same hoth a.h addr rr.1 hg
      · exact ⟨rr.2, rfl, by rw [hout]; exact h1, by rw [hout]; exact h2, by rw [hout]; exact h3⟩
  | scr todo acc =>
    cases todo with
    | nil => exact ⟨s, .doneScr acc.reverse, rfl, hsim, by intro pc hpc x hx; simp only [List.mem_singleton] at hpc; subst hpc; simp [Pc.arcs] at hx, hoth, trivial, trivial⟩
    | cons h t =>
      have hsc := sim1_scrapeOne c (view s) r h hsim
      have hatt' : Attached s [Pc.scr t (Ref.scrape r h :: acc)] := by
        intro pc hpc x hx; simp only [List.mem_singleton] at hpc; subst hpc; simp [Pc.arcs] at hx
      cases hg : sget s.shard h with
      | none =>
        have hgv : (view s).get h = none := by unfold view; rw [view_get, hg]; rfl
        simp only [TMap.scrapeOne, hgv] at hsc
        injection hsc with hsc
        refine ⟨s, .scr t ((0, 0) :: acc), by simp [stepPc, hg], hsim, ?_, hoth, trivial, ?_⟩
        · intro pc hpc x hx; simp only [List.mem_singleton] at hpc; subst hpc; simp [Pc.arcs] at hx
        · simp only [Reply]; rw [← hsc]
      | some v =>
        obtain ⟨addr, pm⟩ := v
        have hgv := sget_view hg
        simp only [TMap.scrapeOne, hgv] at hsc
        refine ⟨s, .scr t (Ref.scrape r h :: acc), ?_, hsim, hatt', hoth, trivial, rfl⟩
        simp [stepPc, hg, hsc, bind, Except.bind, pure, Except.pure]
  | clnSnap now allowed i =>
    by_cases hi : i ≥ numShards
    · refine ⟨s, .clnRetain now allowed 0, by simp [stepPc, hi], hsim, ?_, hoth, hna, trivial⟩
      intro pc hpc x hx; simp only [List.mem_singleton] at hpc; subst hpc; simp [Pc.arcs] at hx
    · refine ⟨s, .clnTorrents now allowed i ((s.shard.filter (fun x => shardOf x.1 = i)).map (fun x => (x.1, x.2.1))),
        by simp [stepPc, hi], hsim, ?_, hoth, hna, trivial⟩
      intro pc hpc x hx
      simp only [List.mem_singleton] at hpc; subst hpc
      simp only [Pc.arcs, List.mem_map, List.mem_filter] at hx
      obtain ⟨y, ⟨hy, _⟩, rfl⟩ := hx
      obtain ⟨k, a, pm⟩ := y
      -- keys of the shard list are distinct (from the view's invariant), so the entry found is this one
      have hn : (s.shard.map (·.1)).Nodup := by rw [← view_hashes]; exact hsim.1.1
      exact ⟨pm, sget_of_mem hn hy⟩
  | clnTorrents now allowed i arcs =>
    cases arcs with
    | nil =>
      refine ⟨s, .clnSnap now allowed (i + 1), rfl, hsim, ?_, hoth, hna, trivial⟩
      intro pc hpc x hx; simp only [List.mem_singleton] at hpc; subst hpc; simp [Pc.arcs] at hx
    | cons x t =>
      obtain ⟨h, addr⟩ := x
      obtain ⟨pm, hg⟩ := hown _ List.mem_cons_self (h, addr) (by simp [Pc.arcs])
      obtain ⟨pm', ns, ids, hclean, hsim'⟩ := sim1_cleanOne hsim h now (sget_view hg)
      obtain ⟨hst, hview⟩ := view_store_attached hg pm'
      refine ⟨store s h addr pm', .clnTorrents now allowed i t, ?_, ?_, ?_, ?_, hna, trivial⟩
      · simp [stepPc, deref, hg, hclean, bind, Except.bind, pure, Except.pure]
      · rw [hview]; exact hsim'
      · rw [hst]
        have : Attached s [Pc.clnTorrents now allowed i t] := by
          intro pc hpc y hy
          simp only [List.mem_singleton] at hpc; subst hpc
          exact hown _ List.mem_cons_self y (by simp only [Pc.arcs] at hy ⊢; exact List.mem_cons_of_mem _ hy)
        exact attached_sset_same this h addr pm' hg
      · rw [hst]; exact attached_sset_same hoth h addr pm' hg
  | clnRetain now allowed i =>
    by_cases hi : i ≥ numShards
    · refine ⟨s, .doneCln, by simp [stepPc, hi], hsim, ?_, hoth, trivial, trivial⟩
      intro pc hpc x hx; simp only [List.mem_singleton] at hpc; subst hpc; simp [Pc.arcs] at hx
    · have hall : ∀ h, allowed h = true := hna
      have hn : (s.shard.map (·.1)).Nodup := by rw [← view_hashes]; exact hsim.1.1
      have hdet := retain_detached_nil allowed hall others i s.shard
      have hsg := sget_retain allowed hall others i s.shard hn
      refine ⟨{ s with shard := (retainShard allowed others i s.shard).1, detached := (retainShard allowed others i s.shard).2 ++ s.detached },
        .clnRetain now allowed (i + 1), by simp [stepPc, hi], ?_, ?_, ?_, hna, trivial⟩
      · -- only empty, unshared torrents disappear: the reference is untouched
        have hkn := (retain_keys_sublist allowed others i s.shard).nodup hn
        refine ⟨⟨?_, ?_⟩, ?_⟩
        · rw [view_hashes]; exact hkn
        · intro x hx
          simp only [view, List.mem_map] at hx
          obtain ⟨y, hy, rfl⟩ := hx
          obtain ⟨k, a, pm⟩ := y
          have hgk : sget (retainShard allowed others i s.shard).1 k = some (a, pm) := sget_of_mem hkn hy
          rw [hsg] at hgk
          cases ho : sget s.shard k with
          | none => simp [ho] at hgk
          | some v =>
            obtain ⟨a', pm''⟩ := v
            simp only [ho] at hgk
            split at hgk
            · cases hgk
            · cases hgk
              exact hsim.1.2 (k, pm) (TMap.mem_of_get (sget_view ho))
        · intro h'
          have := hsim.2 h'
          refine List.Perm.trans ?_ this
          unfold TMap.entriesOf
          have e1 : TMap.get (view { s with shard := (retainShard allowed others i s.shard).1, detached := (retainShard allowed others i s.shard).2 ++ s.detached }) h' =
              (sget (retainShard allowed others i s.shard).1 h').map (·.2) := by unfold view; exact view_get _ h'
          have e2 : TMap.get (view s) h' = (sget s.shard h').map (·.2) := by unfold view; exact view_get _ h'
          rw [e1, e2, hsg]
          cases ho : sget s.shard h' with
          | none => exact List.Perm.refl _
          | some v =>
            obtain ⟨a', pm''⟩ := v
            by_cases hc : shardOf h' = i ∧ heldBy others a' = false ∧ pm''.entries.isEmpty = true
            · have : pm''.entries = [] := List.isEmpty_iff.mp hc.2.2
              simp [hc, this]
            · dsimp only
              rw [if_neg hc]
      · intro pc hpc x hx; simp only [List.mem_singleton] at hpc; subst hpc; simp [Pc.arcs] at hx
      · -- whatever another thread holds is kept
        intro pc hpc x hx
        obtain ⟨q, hq⟩ := hoth pc hpc x hx
        refine ⟨q, ?_⟩
        simp only
        rw [hsg, hq]
        have hheld : heldBy others x.2 = true := by
          simp only [heldBy, List.any_eq_true]
          exact ⟨pc, hpc, x, hx, by simp⟩
        simp [hheld]
  | doneAnn o => exact ⟨s, .doneAnn o, rfl, hsim, hown, hoth, trivial, trivial⟩
  | doneScr l => exact ⟨s, .doneScr l, rfl, hsim, hown, hoth, trivial, trivial⟩
  | doneCln => exact ⟨s, .doneCln, rfl, hsim, hown, hoth, trivial, trivial⟩

/-! ### threads and schedules -/

structure Good (c : Nat) (s : CState) (pcs : List Pc) (r : RState) : Prop where
  sim : Sim1 c (view s) r
  att : Attached s pcs
  noacl : ∀ pc ∈ pcs, NoAcl pc

def refEffectAt (r : RState) (pcs : List Pc) (t : Nat) : RState :=
  match pcs[t]? with
  | some pc => refEffect r pc
  | none => r

theorem mem_set_cases {α : Type} : ∀ (l : List α) (t : Nat) (b x : α), x ∈ l.set t b → x = b ∨ x ∈ l.eraseIdx t
  | [], _, _, x, h => by simp at h
  | a :: l, 0, b, x, h => by
    simp only [List.set_cons_zero, List.mem_cons] at h
    rcases h with h | h
    · exact .inl h
    · exact .inr (by simpa using h)
  | a :: l, t + 1, b, x, h => by
    simp only [List.set_cons_succ, List.mem_cons] at h
    rcases h with h | h
    · exact .inr (by simp [List.eraseIdx_cons_succ, h])
    · rcases mem_set_cases l t b x h with h' | h'
      · exact .inl h'
      · exact .inr (by simp [List.eraseIdx_cons_succ, h'])

theorem attached_sub {s : CState} {a b : List Pc} (h : Attached s b) (hsub : ∀ x ∈ a, x ∈ b) : Attached s a :=
  fun pc hpc x hx => h pc (hsub pc hpc) x hx

/-- **one scheduling decision**: whichever thread is chosen, its step succeeds (no thread ever blocks:
deadlock-freedom at this granularity), `Good` is preserved with the reference advanced by that
step's operation, and the step's answer is the reference's -/
theorem stepThread_linearizes (c : Nat) (s : CState) (pcs : List Pc) (t : Nat) (r : RState)
    (hg : Good c s pcs r) (hok : ∀ pc, pcs[t]? = some pc → StepOk s pc) :
    ∃ s' pcs', stepThread c s pcs t = .ok (s', pcs') ∧ Good c s' pcs' (refEffectAt r pcs t) ∧
      ∀ pc, pcs[t]? = some pc → ∃ pc', pcs'[t]? = some pc' ∧ Reply r pc pc' := by
  unfold stepThread refEffectAt
  cases hp : pcs[t]? with
  | none => exact ⟨s, pcs, rfl, hg, by intro pc h; cases h⟩
  | some pc =>
    have hmem : pc ∈ pcs := List.mem_of_getElem? hp
    have hown : Attached s [pc] := attached_sub hg.att (by intro x hx; simp only [List.mem_singleton] at hx; subst hx; exact hmem)
    have hoth : Attached s (pcs.eraseIdx t) := attached_sub hg.att (fun x hx => List.mem_of_mem_eraseIdx hx)
    obtain ⟨s', pc', hstep, hsim', hown', hoth', hna', hrep⟩ :=
      stepPc_linearizes c s (pcs.eraseIdx t) pc r hg.sim hown hoth (hg.noacl pc hmem) (hok pc hp)
    have hlt : t < pcs.length := by
      rcases Nat.lt_or_ge t pcs.length with h | h
      · exact h
      · rw [List.getElem?_eq_none h] at hp; cases hp
    refine ⟨s', pcs.set t pc', by simp [hstep, bind, Except.bind, pure, Except.pure], ⟨hsim', ?_, ?_⟩, ?_⟩
    · intro x hx y hy
      rcases mem_set_cases pcs t pc' x hx with e | e
      · subst e; exact hown' x List.mem_cons_self y hy
      · exact hoth' x e y hy
    · intro x hx
      rcases mem_set_cases pcs t pc' x hx with e | e
      · subst e; exact hna'
      · exact hg.noacl x (List.mem_of_mem_eraseIdx e)
    · intro pc0 h0
      cases h0
      exact ⟨pc', by simp [hlt], hrep⟩

/-- the reference state along a schedule: each step's operation applied when the step is taken -/
def refRun (c : Nat) : CState → List Pc → RState → List Nat → RState
  | _, _, r, [] => r
  | s, pcs, r, t :: rest =>
    match stepThread c s pcs t with
    | .ok x => refRun c x.1 x.2 (refEffectAt r pcs t) rest
    | .error _ => r

/-- the random draws of every announce along the schedule are in range when it answers -/
def SchedOk (c : Nat) : CState → List Pc → List Nat → Prop
  | _, _, [] => True
  | s, pcs, t :: rest =>
    (∀ pc, pcs[t]? = some pc → StepOk s pc) ∧
    (match stepThread c s pcs t with
     | .ok x => SchedOk c x.1 x.2 rest
     | .error _ => False)

/-- **linearizability, every schedule**: any number of threads, any programs, any interleaving of
their steps: the run never fails, and at the end (hence after every prefix) the shared state is in
simulation with the reference tracker that received each operation at one of that operation's own
steps, Arcs attached -/
theorem linearizable (c : Nat) (sched : List Nat) : ∀ (s : CState) (pcs : List Pc) (r : RState),
    Good c s pcs r → SchedOk c s pcs sched →
    ∃ s' pcs', runSched c s pcs sched = .ok (s', pcs') ∧ Good c s' pcs' (refRun c s pcs r sched) := by
  induction sched with
  | nil => intro s pcs r hg _; exact ⟨s, pcs, rfl, hg⟩
  | cons t rest ih =>
    intro s pcs r hg hok
    obtain ⟨hok1, hok2⟩ := hok
    obtain ⟨s1, pcs1, hstep, hg1, _⟩ := stepThread_linearizes c s pcs t r hg hok1
    rw [hstep] at hok2
    obtain ⟨s', pcs', hrun, hg'⟩ := ih s1 pcs1 _ hg1 hok2
    refine ⟨s', pcs', ?_, ?_⟩
    · simp [runSched, hstep, hrun]
    · simp only [refRun, hstep]; exact hg'

theorem good_init (c : Nat) (pcs : List Pc) (h1 : ∀ pc ∈ pcs, pc.arcs = []) (h2 : ∀ pc ∈ pcs, NoAcl pc) : Good c {} pcs [] :=
  ⟨sim1_init c, (fun pc hpc x hx => by rw [h1 pc hpc] at hx; cases hx), h2⟩

/-- **an answered announce is stored**: right after the step that answers it the peer is among the
stored entries of its torrent (unless it announced `stopped`) - and `Good` keeps every later step
from losing it to anything but its own expiry, a stop, or a newer announce of the same address -/
theorem answered_announce_is_stored (c : Nat) (s : CState) (pcs : List Pc) (t : Nat) (r : RState) (a : AnnArgs) (addr : Nat)
    (hg : Good c s pcs r) (hp : pcs[t]? = some (.annHave a addr)) (hok : StepOk s (.annHave a addr)) (hst : a.st ≠ .stopped) :
    ∃ s' pcs', stepThread c s pcs t = .ok (s', pcs') ∧ a.key ∈ keysOf ((view s').entriesOf a.h) := by
  obtain ⟨s', pcs', hstep, hg', _⟩ := stepThread_linearizes c s pcs t r hg (by intro pc h; rw [hp] at h; cases h; exact hok)
  refine ⟨s', pcs', hstep, ?_⟩
  have hperm := hg'.sim.2 a.h
  simp only [refEffectAt, hp, refEffect] at hperm
  have hmem : a.key ∈ keysOf (proj (Ref.announce r a.h a.key a.st a.pid a.dl).1 a.h) := by
    cases hs : a.st with
    | stopped => exact absurd hs hst
    | seeding => simp [Ref.announce, hs, proj_append, proj, keysOf]
    | leeching => simp [Ref.announce, hs, proj_append, proj, keysOf]
  exact (keysOf_perm hperm).mem_iff.mpr hmem

/-! ### non-vacuity: the cleaning pass that finds the torrent empty while an announce is in flight -/

def demoAnn (k dl : Nat) : AnnArgs := ⟨3 * 256 ^ 19 + 1, (k, 1000), .leeching, 7, dl, 5, 0, 0⟩

/-- torrent with one expired peer; thread 0 cleans at time 10, thread 1 announces a second peer.
Thread 1 takes its Arc, then thread 0 runs its whole pass, then thread 1 answers. -/
def demoStart : Except Panic (CState × List Pc) :=
  runSched 2 {} [.annStart (demoAnn 1 5)] [0, 0]

def demoRun : Except Panic (Nat × Nat) :=
  match demoStart with
  | .error e => .error e
  | .ok (s0, _) =>
    match runSched 2 s0 [.clnSnap 10 (fun _ => true) 0, .annStart (demoAnn 2 20)] ([1] ++ List.replicate 60 0 ++ [1]) with
    | .error e => .error e
    | .ok (s, _) => .ok ((s.shard.length, ((view s).entriesOf (3 * 256 ^ 19 + 1)).length))

example : demoRun = .ok (1, 1) := by decide

end Aquatic.Conc.C04
