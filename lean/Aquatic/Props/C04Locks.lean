/-
  C04, deadlock-freedom clause - "no interleaving can deadlock the workers".

  Model: Aquatic.Model.Locks - the lock skeleton of TorrentMapShards::announce / scrape /
  clean_and_get_statistics with explicit RwLock modes (read / upgradable read / write, upgrade), any
  number of worker threads each running any sequence of the three operations over any shards and
  peer maps.  Reachability uses the permissive lock semantics (every run of a real RwLock, whatever
  its queueing policy, is a run of the model); progress is stated with the strict notion
  `grantable` (a release, an acquire of a lock nobody holds, an upgrade when nobody else holds the
  lock), which no work-conserving lock can refuse for ever - so the theorem does not depend on
  whether parking_lot lets new readers pass a waiting writer.

  Proved, for every reachable state:
    * mutual exclusion (`reachable_excl`): a write holder is alone on its lock, two upgradable
      holders never share a lock;
    * every thread keeps the locking discipline (`reachable_disc`): shard locks are taken with empty
      hands, peer-map locks only on top of shard locks and released before anything else is taken;
    * progress (`deadlock_free`): unless every thread has finished, some thread has a grantable
      step, and that step is enabled;
    * termination (`runs_finish`): every run takes exactly as many steps as the programs have
      actions, so every maximal run ends with all operations completed.
  The lock calls of swarm.rs (which lock, which mode, in which order, inside which scope) are
  regenerated from the source into Generated/Locks.lean on every run; `lock_sites_as_modelled` pins
  them to the shape the programs below were read from.
-/
import Aquatic.Lemmas.Locks
import Aquatic.Generated.Locks

namespace Aquatic.Locks.C04

open Aquatic.Locks

/-! ### the three operations keep the discipline, for all their parameters -/

theorem annProg_disc (i m : Nat) (create : Bool) : Disc [] (annProg i m create) := by
  cases create <;> simp [annProg, Disc, LockId.isShard, holds, eraseLock]

theorem mapSections_disc (md : Mode) (hmd : md ≠ .upg) (held : Held) (hh : ∀ x ∈ held, x.1.isShard = true)
    (q : List Act) (hq : Disc held q) : ∀ ms : List Nat, Disc held (mapSections md ms ++ q)
  | [] => by simpa [mapSections] using hq
  | m :: t => by
    have ih := mapSections_disc md hmd held hh q hq t
    have herase : eraseLock ((LockId.map m, md) :: held) (.map m) = held := by
      simp only [eraseLock, List.filter_cons, ne_eq, not_true_eq_false, decide_false]
      apply List.filter_eq_self.mpr
      intro x hx
      have := hh x hx
      cases hx1 : x.1 with
      | shard i => simp
      | map k => rw [hx1] at this; cases this
    simp only [mapSections, List.cons_append, Disc]
    refine ⟨.inr ⟨rfl, hmd, hh⟩, by simp [holds], ?_⟩
    rw [herase]; exact ih

theorem scrProg_disc : ∀ l : List (Nat × Option Nat), Disc [] (scrProg l)
  | [] => by simp [scrProg, Disc]
  | (i, none) :: t => by
    have := scrProg_disc t
    simpa [scrProg, Disc, LockId.isShard, holds, eraseLock] using this
  | (i, some m) :: t => by
    have := scrProg_disc t
    simpa [scrProg, Disc, LockId.isShard, holds, eraseLock] using this

theorem clnSnapProg_disc (q : List Act) (hq : Disc [] q) : ∀ l : List (Nat × List Nat), Disc [] (clnSnapProg l ++ q)
  | [] => by simpa [clnSnapProg] using hq
  | (i, ms) :: t => by
    have ih := clnSnapProg_disc q hq t
    have := mapSections_disc .write (by decide) [] (by simp) _ ih ms
    simp only [clnSnapProg, List.cons_append, List.append_assoc, Disc, LockId.isShard, true_and, and_self, true_or,
      holds_cons, decide_true, Bool.true_or]
    simpa [eraseLock] using this

theorem clnRetainProg_disc : ∀ l : List (Nat × List Nat), Disc [] (clnRetainProg l)
  | [] => by simp [clnRetainProg, Disc]
  | (i, ms) :: t => by
    have ih := clnRetainProg_disc t
    have hq : Disc [(LockId.shard i, Mode.write)] (.rel (.shard i) :: clnRetainProg t) := by
      simpa [Disc, holds, eraseLock] using ih
    have := mapSections_disc .read (by decide) [(LockId.shard i, Mode.write)] (by simp [LockId.isShard]) _ hq ms
    simp only [clnRetainProg, Disc, LockId.isShard, true_and, and_self, true_or]
    exact this

theorem op_disc : ∀ op : OpSk, Disc [] op.prog
  | .ann i m c => annProg_disc i m c
  | .scr l => scrProg_disc l
  | .cln s r => by
    have := clnSnapProg_disc (clnRetainProg r) (clnRetainProg_disc r) s
    simpa [OpSk.prog, clnProg] using this

theorem worker_disc : ∀ ops : List OpSk, Disc [] (worker ops).prog
  | [] => by simp [worker, Disc]
  | op :: t => by
    have := disc_append op.prog (worker t).prog [] (op_disc op) (worker_disc t)
    simpa [worker] using this

/-! ### invariants of every reachable state -/

theorem init_disc (opss : List (List OpSk)) : AllDisc (opss.map worker) := by
  intro t ht
  obtain ⟨ops, _, rfl⟩ := List.mem_map.mp ht
  exact worker_disc ops

theorem init_excl (opss : List (List OpSk)) : Excl (opss.map worker) := by
  intro i j a b ha hb _
  have ha' : a ∈ opss.map worker := List.mem_of_getElem? ha
  have hb' : b ∈ opss.map worker := List.mem_of_getElem? hb
  obtain ⟨_, _, rfl⟩ := List.mem_map.mp ha'
  obtain ⟨_, _, rfl⟩ := List.mem_map.mp hb'
  intro l
  simp [worker, holds, holdsIn]

theorem run_inv : ∀ (sched : List Nat) (ts ts' : List Thread), runSched ts sched = some ts' →
    AllDisc ts → Excl ts → AllDisc ts' ∧ Excl ts'
  | [], ts, ts', h, hd, he => by simp only [runSched, Option.some.injEq] at h; subst h; exact ⟨hd, he⟩
  | i :: rest, ts, ts', h, hd, he => by
    simp only [runSched] at h
    cases hs : step ts i with
    | none => rw [hs] at h; cases h
    | some ts1 =>
      rw [hs] at h
      exact run_inv rest ts1 ts' h (step_disc hs hd) (step_excl hs he)

/-- mutual exclusion holds in every reachable state -/
theorem reachable_excl (opss : List (List OpSk)) (sched : List Nat) (ts : List Thread)
    (h : runSched (opss.map worker) sched = some ts) : Excl ts :=
  (run_inv sched _ ts h (init_disc opss) (init_excl opss)).2

/-- every thread keeps the discipline in every reachable state -/
theorem reachable_disc (opss : List (List OpSk)) (sched : List Nat) (ts : List Thread)
    (h : runSched (opss.map worker) sched = some ts) : AllDisc ts :=
  (run_inv sched _ ts h (init_disc opss) (init_excl opss)).1

/-! ### progress -/

/-- a grantable step is an enabled step -/
theorem grantable_enabled (others : List Thread) (t : Thread) (hg : grantable others t = true) :
    (stepT others t).isSome = true := by
  obtain ⟨held, prog⟩ := t
  unfold grantable at hg
  unfold stepT
  cases prog with
  | nil => cases hg
  | cons a p =>
    cases a with
    | acq l m =>
      simp only [Bool.and_eq_true, List.all_eq_true] at hg
      have hc : compatible others l m = true := by
        cases m with
        | read =>
          simp only [compatible, List.all_eq_true]
          intro o ho; have := hg.2 o ho
          simp only [Bool.not_eq_eq_eq_not, Bool.not_true] at this ⊢
          exact holds_false_holdsIn _ this
        | upg =>
          simp only [compatible, List.all_eq_true, Bool.and_eq_true]
          intro o ho; have := hg.2 o ho
          simp only [Bool.not_eq_eq_eq_not, Bool.not_true] at this ⊢
          exact ⟨holds_false_holdsIn _ this, holds_false_holdsIn _ this⟩
        | write =>
          simp only [compatible, List.all_eq_true]
          exact hg.2
      simp [hg.1, hc]
    | upgrade l =>
      simp only at hg
      simp [hg]
    | rel l =>
      simp only at hg
      simp [hg]

theorem held_shards_of_no_release {t : Thread} (hd : Disc t.held t.prog)
    (hr : ∀ l p, t.prog ≠ .rel l :: p) : ∀ x ∈ t.held, x.1.isShard = true := by
  obtain ⟨held, prog⟩ := t
  cases prog with
  | nil => simp only [Disc] at hd; subst hd; simp
  | cons a p =>
    cases a with
    | acq l m =>
      rcases hd.1 with ⟨_, h⟩ | ⟨_, _, h⟩
      · simp only at h; subst h; simp
      · exact h
    | upgrade l =>
      obtain ⟨hs, hh, _⟩ := hd
      simp only at hh; subst hh
      simpa using hs
    | rel l => exact absurd rfl (hr l p)

theorem not_holds_map_of_shards {h : Held} (hh : ∀ x ∈ h, x.1.isShard = true) (m : Nat) : holds h (.map m) = false := by
  cases hx : holds h (.map m) with
  | false => rfl
  | true =>
    unfold holds at hx
    rw [List.any_eq_true] at hx
    obtain ⟨x, hxm, hp⟩ := hx
    have := hh x hxm
    simp only [decide_eq_true_eq] at hp
    rw [hp] at this; cases this

/-- Progress: in a pool of disciplined threads under mutual exclusion, unless all have finished,
some thread has a grantable step. -/
theorem progress (ts : List Thread) (hd : AllDisc ts) (he : Excl ts) (hn : ∃ t ∈ ts, t.done = false) :
    ∃ (i : Nat) (t : Thread), ts[i]? = some t ∧ grantable (ts.eraseIdx i) t = true := by
  -- A: somebody is about to release
  by_cases hA : ∃ (i : Nat) (t : Thread) (l : LockId) (p : List Act), ts[i]? = some t ∧ t.prog = .rel l :: p
  · obtain ⟨i, t, l, p, hti, hp⟩ := hA
    refine ⟨i, t, hti, ?_⟩
    have := hd t (List.mem_of_getElem? hti)
    rw [hp] at this
    unfold grantable; rw [hp]; exact this.1
  -- nobody is about to release: nobody holds a peer-map lock
  have hshards : ∀ t ∈ ts, ∀ x ∈ t.held, x.1.isShard = true := by
    intro t ht
    obtain ⟨i, hti⟩ := List.mem_iff_getElem?.mp ht
    exact held_shards_of_no_release (hd t ht) (fun l p hp => hA ⟨i, t, l, p, hti, hp⟩)
  -- B1: somebody wants a peer-map lock
  by_cases hB : ∃ (i : Nat) (t : Thread) (m : Nat) (md : Mode) (p : List Act), ts[i]? = some t ∧ t.prog = .acq (.map m) md :: p
  · obtain ⟨i, t, m, md, p, hti, hp⟩ := hB
    refine ⟨i, t, hti, ?_⟩
    unfold grantable; rw [hp]
    simp only [Bool.and_eq_true, List.all_eq_true]
    refine ⟨?_, ?_⟩
    · rw [not_holds_map_of_shards (hshards t (List.mem_of_getElem? hti))]; rfl
    · intro o ho
      rw [not_holds_map_of_shards (hshards o (List.mem_of_mem_eraseIdx ho))]; rfl
  -- B2a: somebody wants to upgrade
  by_cases hC : ∃ (i : Nat) (t : Thread) (l : LockId) (p : List Act), ts[i]? = some t ∧ t.prog = .upgrade l :: p
  · obtain ⟨i, t, l, p, hti, hp⟩ := hC
    refine ⟨i, t, hti, ?_⟩
    have hdt := hd t (List.mem_of_getElem? hti)
    rw [hp] at hdt
    obtain ⟨_, hheld, _⟩ := hdt
    have hup : holdsIn t.held l .upg = true := by rw [hheld]; simp [holdsIn]
    unfold grantable; rw [hp]
    simp only [Bool.and_eq_true, List.all_eq_true]
    refine ⟨hup, ?_⟩
    intro o ho
    obtain ⟨j, hji, htj⟩ := mem_eraseIdx_index ho
    have hcompat := he i j t o hti htj (fun h => hji h.symm)
    cases hol : holds o.held l with
    | false => rfl
    | true =>
      exfalso
      -- o holds something, so it is not about to take a shard lock; it is not finished, not releasing,
      -- not after a peer-map lock: it is an upgrader of `l`, a second upgradable holder
      have hdo := hd o (List.mem_of_getElem? htj)
      have hne : o.held ≠ [] := by
        intro h; rw [h] at hol; simp [holds] at hol
      obtain ⟨oheld, oprog⟩ := o
      cases oprog with
      | nil => exact hne hdo
      | cons a q =>
        cases a with
        | acq l' m' =>
          cases l' with
          | shard k =>
            rcases hdo.1 with ⟨_, h⟩ | ⟨h, _⟩
            · exact hne h
            · simp [LockId.isShard] at h
          | map k => exact hB ⟨j, _, k, m', q, htj, rfl⟩
        | upgrade l' =>
          obtain ⟨_, hh, _⟩ := hdo
          simp only at hh
          simp only at hol
          rw [hh] at hol
          have hl' : l' = l := by simpa [holds] using hol
          subst hl'
          have h3 := (hcompat l').2.2 hup
          simp only at h3
          rw [hh] at h3
          simp [holdsIn] at h3
        | rel l' => exact hA ⟨j, _, l', q, htj, rfl⟩
  -- B2b: everybody left wants a shard lock, and nobody holds anything
  have hempty : ∀ t ∈ ts, t.held = [] := by
    intro t ht
    obtain ⟨i, hti⟩ := List.mem_iff_getElem?.mp ht
    have hdt := hd t ht
    obtain ⟨held, prog⟩ := t
    cases prog with
    | nil => exact hdt
    | cons a q =>
      cases a with
      | acq l' m' =>
        cases l' with
        | shard k =>
          rcases hdt.1 with ⟨_, h⟩ | ⟨h, _⟩
          · exact h
          · simp [LockId.isShard] at h
        | map k => exact absurd ⟨i, _, k, m', q, hti, rfl⟩ hB
      | upgrade l' => exact absurd ⟨i, _, l', q, hti, rfl⟩ hC
      | rel l' => exact absurd ⟨i, _, l', q, hti, rfl⟩ hA
  obtain ⟨t, ht, hdone⟩ := hn
  obtain ⟨i, hti⟩ := List.mem_iff_getElem?.mp ht
  refine ⟨i, t, hti, ?_⟩
  have hte := hempty t ht
  obtain ⟨held, prog⟩ := t
  simp only at hte; subst hte
  cases prog with
  | nil => simp [Thread.done] at hdone
  | cons a q =>
    cases a with
    | acq l' m' =>
      unfold grantable
      simp only [Bool.and_eq_true, List.all_eq_true]
      refine ⟨by simp [holds], ?_⟩
      intro o ho
      rw [hempty o (List.mem_of_mem_eraseIdx ho)]; simp [holds]
    | upgrade l' => exact absurd ⟨i, _, l', q, hti, rfl⟩ hC
    | rel l' => exact absurd ⟨i, _, l', q, hti, rfl⟩ hA

/-- **No interleaving deadlocks the workers.**  Any number of worker threads, each running any
sequence of announces, scrapes and cleaning passes over any shards and peer maps; after any schedule:
either every thread has finished, or some thread can take a step that no work-conserving lock may
refuse - and that step is a step of the system. -/
theorem deadlock_free (opss : List (List OpSk)) (sched : List Nat) (ts : List Thread)
    (h : runSched (opss.map worker) sched = some ts) :
    (∀ t ∈ ts, t.done = true) ∨
    ∃ (i : Nat) (t : Thread) (ts' : List Thread), ts[i]? = some t ∧ grantable (ts.eraseIdx i) t = true ∧ step ts i = some ts' := by
  by_cases hall : ∀ t ∈ ts, t.done = true
  · exact .inl hall
  · right
    have hn : ∃ t ∈ ts, t.done = false := by
      apply Classical.byContradiction
      intro hne
      apply hall
      intro t ht
      cases hd : t.done with
      | true => rfl
      | false => exact absurd ⟨t, ht, hd⟩ hne
    obtain ⟨i, t, hti, hg⟩ := progress ts (reachable_disc opss sched ts h) (reachable_excl opss sched ts h) hn
    have hen := grantable_enabled _ _ hg
    obtain ⟨t', ht'⟩ := Option.isSome_iff_exists.mp hen
    exact ⟨i, t, ts.set i t', hti, hg, by simp [step, hti, ht']⟩


/-- A lock nobody holds can be taken by ANY thread waiting for it, in any mode: whichever waiter a
lock implementation prefers (readers first, writers first, FIFO), granting a free lock is a step of
the system.  Together with `deadlock_free` (there always is a free lock somebody waits for, or a
release / upgrade that needs no grant): no queueing policy can stall the workers. -/
theorem any_waiter_can_take_free_lock (ts : List Thread) (i : Nat) (t : Thread) (l : LockId) (m : Mode) (p : List Act)
    (hti : ts[i]? = some t) (hp : t.prog = .acq l m :: p) (hfree : ∀ o ∈ ts, holds o.held l = false) :
    ∃ ts', step ts i = some ts' := by
  have hself : holds t.held l = false := hfree t (List.mem_of_getElem? hti)
  have hothers : ∀ o ∈ ts.eraseIdx i, holds o.held l = false := fun o ho => hfree o (List.mem_of_mem_eraseIdx ho)
  have hc : compatible (ts.eraseIdx i) l m = true := by
    cases m with
    | read =>
      simp only [compatible, List.all_eq_true]
      intro o ho; simp [holds_false_holdsIn _ (hothers o ho)]
    | upg =>
      simp only [compatible, List.all_eq_true]
      intro o ho; simp [holds_false_holdsIn _ (hothers o ho)]
    | write =>
      simp only [compatible, List.all_eq_true]
      intro o ho; simp [hothers o ho]
  obtain ⟨held, prog⟩ := t
  simp only at hp hself
  subst hp
  refine ⟨ts.set i ⟨(l, m) :: held, p⟩, ?_⟩
  simp [step, hti, stepT, hself, hc]

/-! ### termination: every run is as long as the programs, no longer -/

def todo (ts : List Thread) : Nat := (ts.map (fun t => t.prog.length)).sum

theorem stepT_todo {others : List Thread} {t t' : Thread} (hs : stepT others t = some t') :
    t.prog.length = t'.prog.length + 1 := by
  obtain ⟨held, prog⟩ := t
  unfold stepT at hs
  cases prog with
  | nil => simp at hs
  | cons a p =>
    cases a <;> simp only at hs <;> split at hs <;> first | (cases hs; simp) | cases hs

theorem sum_set_len (ts : List Thread) (i : Nat) (t t' : Thread) (hti : ts[i]? = some t)
    (hl : t.prog.length = t'.prog.length + 1) : todo ts = todo (ts.set i t') + 1 := by
  induction ts generalizing i with
  | nil => simp at hti
  | cons x xs ih =>
    cases i with
    | zero =>
      simp only [List.getElem?_cons_zero, Option.some.injEq] at hti
      subst hti
      simp only [todo, List.set_cons_zero, List.map_cons, List.sum_cons]
      omega
    | succ k =>
      simp only [List.getElem?_cons_succ] at hti
      have := ih k hti
      simp only [todo, List.set_cons_succ, List.map_cons, List.sum_cons] at this ⊢
      omega

theorem step_todo {ts ts' : List Thread} {i : Nat} (hs : step ts i = some ts') : todo ts = todo ts' + 1 := by
  unfold step at hs
  cases hti : ts[i]? with
  | none => rw [hti] at hs; cases hs
  | some t =>
    rw [hti] at hs
    simp only [Option.map_eq_some_iff] at hs
    obtain ⟨t', hst, rfl⟩ := hs
    exact sum_set_len ts i t t' hti (stepT_todo hst)

theorem run_todo : ∀ (sched : List Nat) (ts ts' : List Thread), runSched ts sched = some ts' →
    todo ts = todo ts' + sched.length
  | [], ts, ts', h => by simp only [runSched, Option.some.injEq] at h; subst h; simp
  | i :: rest, ts, ts', h => by
    simp only [runSched] at h
    cases hs : step ts i with
    | none => rw [hs] at h; cases h
    | some ts1 =>
      rw [hs] at h
      have := run_todo rest ts1 ts' h
      have := step_todo hs
      simp only [List.length_cons]; omega

theorem todo_zero_done : ∀ ts : List Thread, todo ts = 0 → ∀ t ∈ ts, t.done = true
  | [], _, t, ht => by cases ht
  | x :: xs, h, t, ht => by
    simp only [todo, List.map_cons, List.sum_cons] at h
    rcases List.mem_cons.mp ht with rfl | h'
    · have : t.prog.length = 0 := by omega
      simp [Thread.done, List.length_eq_zero_iff.mp this]
    · exact todo_zero_done xs (by simp only [todo]; omega) t h'

/-- No run is longer than the programs, and a run of that length has completed every operation:
together with `deadlock_free` (a run that is shorter can always be extended) every maximal run
ends with all workers finished. -/
theorem runs_finish (opss : List (List OpSk)) (sched : List Nat) (ts : List Thread)
    (h : runSched (opss.map worker) sched = some ts) :
    sched.length ≤ todo (opss.map worker) ∧
    (sched.length = todo (opss.map worker) → ∀ t ∈ ts, t.done = true) := by
  have := run_todo sched _ ts h
  exact ⟨by omega, fun hl => todo_zero_done ts (by omega)⟩

/-! ### the discipline is what excludes deadlock: without it the same locks do deadlock -/

/-- Two threads taking two peer-map locks in opposite orders (which `Disc` forbids) reach a state
in which neither can move. -/
def crossed : List Thread :=
  [⟨[], [.acq (.map 0) .write, .acq (.map 1) .write, .rel (.map 1), .rel (.map 0)]⟩,
   ⟨[], [.acq (.map 1) .write, .acq (.map 0) .write, .rel (.map 0), .rel (.map 1)]⟩]

theorem undisciplined_deadlocks :
    ∃ ts, runSched crossed [0, 1] = some ts ∧ (∃ t ∈ ts, t.done = false) ∧ ∀ i, step ts i = none := by
  refine ⟨_, rfl, ⟨_, List.mem_cons_self, rfl⟩, ?_⟩
  intro i
  match i with
  | 0 => rfl
  | 1 => rfl
  | n + 2 => rfl

/-- A scrape that kept its shard read lock while the thread went on to take another shard's lock
(again forbidden by `Disc`) deadlocks against an inserting announce and a cleaning pass?  No - but a
thread that re-acquires a shard lock it already holds in read mode blocks for ever once a writer
got in between; the discipline's "empty hands" rule is what excludes it. -/
example : ¬ Disc [] [.acq (.shard 0) .read, .acq (.shard 1) .read, .rel (.shard 1), .rel (.shard 0)] := by
  simp [Disc, LockId.isShard]

/-! ### non-vacuity: a concrete pool with every kind of operation, run to completion -/

def demoPool : List (List OpSk) :=
  [[.ann 3 7 true, .scr [(3, some 7), (4, none)]],
   [.cln [(3, [7]), (4, [])] [(3, [7]), (4, [])]],
   [.ann 3 7 false, .ann 4 9 true]]

/-- an interleaving of the three threads that runs every operation to its end -/
def demoSched : List Nat :=
  [0, 1, 1, 0, 1, 0, 1, 2, 0, 1, 2, 0, 1, 2, 0, 2, 0, 2, 0, 2, 0, 1, 2, 0, 1, 2, 0, 1, 2, 1, 1, 1]

example : todo (demoPool.map worker) = 32 := by decide
example : (runSched (demoPool.map worker) demoSched).map (fun ts => ts.all Thread.done) = some true := by decide

/-- an interleaved partial run in which the inserting announce is inside its upgrade while the
cleaning pass and another announce wait: the state is reachable, not finished, and (by the theorem)
not stuck -/
example : (runSched (demoPool.map worker) [0, 0, 2]).isNone = true := by decide   -- second upgradable reader must wait
example : (runSched (demoPool.map worker) [0, 0, 1]).isNone = true := by decide   -- reader may not pass a writer
example : (runSched (demoPool.map worker) [0, 0, 0, 1, 2]).isSome = true := by decide

/-! ### tie to the source: the lock calls as they stand in swarm.rs -/

/-- (function, receiver, call, how the guard is bound) for every lock call in
`impl TorrentMapShards`, in source order: exactly the calls `annProg`, `scrProg`, `clnSnapProg`
and `clnRetainProg` were read from. -/
def expectedLockSites : List (String × String × String × String) :=
  [("announce", "self.get_shard(&request.info_hash)", "upgradable_read", "let"),
   ("announce", "RwLockUpgradableReadGuard", "upgrade", "temp"),
   ("announce", "peer_map", "write", "let"),
   ("scrape", "torrent_map_shard", "read", "temp"),
   ("scrape", "peer_map", "read", "temp"),
   ("clean_and_get_statistics", "torrent_map_shard", "read", "temp"),
   ("clean_and_get_statistics", "peer_map", "write", "let"),
   ("clean_and_get_statistics", "torrent_map_shard", "write", "let"),
   ("clean_and_get_statistics", "peer_map", "read", "temp")]

theorem lock_sites_as_modelled : Generated.lockSites = expectedLockSites := by decide

/-- Scopes: in `announce` the shard guard lives in an inner block (depth 1) that has ended when the
peer-map lock is taken (depth 0); in `scrape` the peer-map read sits inside the statement holding the
shard read guard; in the cleaning pass the peer-map write lock is taken in the loop body after the
snapshot statement has ended and is dropped explicitly, the peer-map read sits inside the `retain`
closure under the shard write guard. -/
theorem lock_scopes_as_modelled :
    Generated.lockSiteScopes =
      [(1, false), (2, false), (0, false), (1, true), (2, true), (1, true), (2, true), (1, true), (3, true)] ∧
    Generated.lockDrops = [("clean_and_get_statistics", "peer_map")] := by decide

end Aquatic.Locks.C04
