/-
  C14 — HTTP wire codec: requests round-trip, replies are canonical bencode.

  Model: Model/HttpCodec.lean (the byte-string literals of the writers and the
  parser's key table are regenerated from crates/http_protocol on every run).
  Independent encoder: Spec/Bencode.lean.  Trusted and passed as parameters:
  `urlencoding::{encode, decode}` (only used for the optional `key` field),
  httparse (extracts the path), serde_bencode (the client-side reader).
-/
import Aquatic.Lemmas.HttpCodec

namespace Aquatic.C14

open Aquatic Aquatic.Http Aquatic.Bencode Aquatic.Generated.Http

def Id20 (b : S) : Prop := b.length = 20 ∧ ∀ x ∈ b, x < 256

/-- the decidable well-formedness predicate of an announce request; for the optional
`key`: the trusted url-encoder's output decodes back, contains no separator and is within the
parser's documented 100-byte cap -/
def Announce.wf (urlEncode : S → S) (urlDecode : S → Option S) (a : Announce) : Prop :=
  Id20 a.infoHash ∧ Id20 a.peerId ∧ a.port < 65536 ∧ a.uploaded < usizeBound ∧ a.downloaded < usizeBound ∧
  a.left < usizeBound ∧ a.event ≤ 3 ∧ (∀ n, a.numwant = some n → n < usizeBound) ∧
  (∀ k, a.key = some k → urlDecode (urlEncode k) = some k ∧ Clean (urlEncode k) ∧
    ((urlEncode k).map utf8Len).sum ≤ keyMaxLen)

theorem eventOf_eventName (e : Nat) (n : S) (h : eventName e = some n) : eventOf n = some e := by
  match e, h with
  | 0, h => injection h with h; subst h; decide
  | 1, h => injection h with h; subst h; decide
  | 2, h => injection h with h; subst h; decide

theorem keys_clean : Clean kInfoHash ∧ Clean kPeerId ∧ Clean kPort ∧ Clean kLeft ∧ Clean kUploaded ∧
    Clean kDownloaded ∧ Clean kEvent ∧ Clean kCompact ∧ Clean kNumwant ∧ Clean kKey := by
  refine ⟨?_, ?_, ?_, ?_, ?_, ?_, ?_, ?_, ?_, ?_⟩ <;> exact ⟨by decide, by decide⟩

theorem eventName_clean (e : Nat) (n : S) (h : eventName e = some n) : Clean n := by
  match e, h with
  | 0, h => injection h with h; subst h; exact ⟨by decide, by decide⟩
  | 1, h => injection h with h; subst h; exact ⟨by decide, by decide⟩
  | 2, h => injection h with h; subst h; exact ⟨by decide, by decide⟩

/-- **requests written by the library parse back to an equal request** — every field value, all
events, arbitrary binary identifiers, optional fields present or absent -/
theorem parse_write_announce (urlEncode : S → S) (urlDecode : S → Option S) (a : Announce)
    (h : Announce.wf urlEncode urlDecode a) :
    parsePath urlDecode (writeAnnouncePath urlEncode a) = some (.announce a) := by
  obtain ⟨hi, hp, hport, hu, hd, hl, hev, hnw, hkey⟩ := h
  obtain ⟨c0, c1, c2, c3, c4, c5, c6, c7, c8, c9⟩ := keys_clean
  have hsp := splitPath_of [47, 97, 110, 110, 111, 117, 110, 99, 101] (joinKV (announceKVs urlEncode a)) (by decide)
  rw [writeAnnouncePath_eq]
  simp only [parsePath, hsp, ↓reduceIte]
  -- the query splits into exactly the written pairs
  have hclean : ∀ kv ∈ announceKVs urlEncode a, Clean kv.1 ∧ Clean kv.2 := by
    intro kv hkv
    simp only [announceKVs, List.mem_append, List.mem_cons, List.mem_nil_iff, or_false] at hkv
    rcases hkv with ((((h | h | h | h | h | h) | h) | h) | h) | h
    · subst h; exact ⟨c0, enc20_clean _ hi.2⟩
    · subst h; exact ⟨c1, enc20_clean _ hp.2⟩
    · subst h; exact ⟨c2, itoa_clean _⟩
    · subst h; exact ⟨c4, itoa_clean _⟩
    · subst h; exact ⟨c5, itoa_clean _⟩
    · subst h; exact ⟨c3, itoa_clean _⟩
    · cases he : eventName a.event with
      | none => simp [he] at h
      | some n => simp only [he, List.mem_singleton] at h; subst h; exact ⟨c6, eventName_clean _ _ he⟩
    · cases hn : a.numwant with
      | none => simp [hn] at h
      | some n => simp only [hn, List.mem_singleton] at h; subst h; exact ⟨c8, itoa_clean _⟩
    · cases hk : a.key with
      | none => simp [hk] at h
      | some k => simp only [hk, List.mem_singleton] at h; subst h; exact ⟨c9, (hkey k hk).2.1⟩
    · subst h; exact ⟨c7, by decide, by decide⟩
  have hne : announceKVs urlEncode a ≠ [] := by simp [announceKVs]
  simp only [parseAnnounceQuery, segments_joinKV _ hne hclean, Option.bind_eq_bind, Option.bind_some]
  -- fold over the pairs
  have f1 := dec20_enc20 a.infoHash hi.1 hi.2
  have f2 := dec20_enc20 a.peerId hp.1 hp.2
  have f3 := parseUInt_itoa 65536 a.port hport
  have f4 := parseUInt_itoa usizeBound a.uploaded hu
  have f5 := parseUInt_itoa usizeBound a.downloaded hd
  have f6 := parseUInt_itoa usizeBound a.left hl
  have hev' : a.event = 0 ∨ a.event = 1 ∨ a.event = 2 ∨ a.event = 3 := by omega
  obtain ⟨ih, pid, port, ul, dl, left, ev, nw, key⟩ := a
  simp only at *
  have hk1 : ∀ k, key = some k → ¬ keyMaxLen < ((urlEncode k).map utf8Len).sum := by
    intro k hk; have := (hkey k hk).2.2; omega
  have hk2 : ∀ k, key = some k → urlDecode (urlEncode k) = some k := fun k hk => (hkey k hk).1
  have hn1 : ∀ n, nw = some n → parseUInt usizeBound (itoa n) = some n :=
    fun n hn => parseUInt_itoa usizeBound n (hnw n hn)
  clear hkey hnw hclean hsp
  rcases hev' with he | he | he | he <;> subst he <;> cases nw <;> cases key <;>
    simp [announceKVs, eventName, foldAcc, step_infoHash, step_peerId, step_port, step_uploaded,
      step_downloaded, step_left, step_event, step_numwant, step_key, step_compact, eventOf,
      f1, f2, f3, f4, f5, f6, hk1, hk2, hn1, Option.bind]

/-! ### scrape requests -/

theorem scrapeHashes_eq (hs : List S) : scrapeHashes hs = joinKV (hs.map (fun h => (kInfoHash, enc20 h))) := by
  induction hs with
  | nil => rfl
  | cons h t ih =>
    cases t with
    | nil => simp [scrapeHashes, joinKV, L, scrapeRequestLits, kInfoHash]
    | cons h2 t2 =>
      simp only [scrapeHashes, List.map_cons, joinKV_cons_cons] at ih ⊢
      rw [ih]
      simp [L, scrapeRequestLits, kInfoHash]

theorem foldScrape_map (l : List S) (hl : ∀ h ∈ l, Id20 h) : ∀ acc,
    foldScrape acc (l.map (fun h => (kInfoHash, enc20 h))) = some (acc.reverse ++ l) := by
  induction l with
  | nil => intro acc; simp [foldScrape]
  | cons h t ih =>
    intro acc
    have hh := hl h List.mem_cons_self
    have := ih (fun y hy => hl y (List.mem_cons_of_mem _ hy)) (h :: acc)
    simp [foldScrape, announceKeys_eq, kInfoHash, dec20_enc20 h hh.1 hh.2] at this ⊢
    simpa [kInfoHash] using this

theorem parse_write_scrape (urlDecode : S → Option S) (hs : List S) (hne : hs ≠ []) (hl : ∀ h ∈ hs, Id20 h) :
    parsePath urlDecode (writeScrapePath hs) = some (.scrape hs) := by
  have hw : writeScrapePath hs = [47, 115, 99, 114, 97, 112, 101] ++ 63 :: joinKV (hs.map (fun h => (kInfoHash, enc20 h))) := by
    simp [writeScrapePath, scrapeHashes_eq, L, scrapeRequestLits]
  have hsp := splitPath_of [47, 115, 99, 114, 97, 112, 101] (joinKV (hs.map (fun h => (kInfoHash, enc20 h)))) (by decide)
  have hclean : ∀ kv ∈ hs.map (fun h => (kInfoHash, enc20 h)), Clean kv.1 ∧ Clean kv.2 := by
    intro kv hkv
    simp only [List.mem_map] at hkv
    obtain ⟨h, hh, rfl⟩ := hkv
    exact ⟨keys_clean.1, enc20_clean _ (hl h hh).2⟩
  have hne' : hs.map (fun h => (kInfoHash, enc20 h)) ≠ [] := by simpa using hne
  have hfold := foldScrape_map hs hl []
  have hemp : hs.isEmpty = false := by cases hs <;> simp_all
  rw [hw]
  have hloc : ¬ ([47, 115, 99, 114, 97, 112, 101] : S) = [47, 97, 110, 110, 111, 117, 110, 99, 101] := by decide
  simp only [parsePath, hsp, hloc, ↓reduceIte, parseScrapeQuery, segments_joinKV _ hne' hclean,
    Option.bind_eq_bind, Option.bind_some, hfold, List.reverse_nil, List.nil_append, hemp,
    Bool.false_eq_true, pure, Option.map_some]

/-! ### parameter order -/

/-- **well-formed `key=value` parameters are accepted in any order**: for every permutation of
pairs with pairwise different keys whose keys and values contain no `=` / `&`, the query string
parses to the same result -/
theorem param_order_irrelevant (d : S → Option S) (l₁ l₂ : List (S × S)) (hp : l₁.Perm l₂)
    (hne : l₁ ≠ []) (hn : (l₁.map (·.1)).Nodup) (hc : ∀ kv ∈ l₁, Clean kv.1 ∧ Clean kv.2) :
    parseAnnounceQuery d (joinKV l₁) = parseAnnounceQuery d (joinKV l₂) := by
  have hne2 : l₂ ≠ [] := by
    intro e; subst e; exact hne (List.Perm.eq_nil hp)
  have hc2 : ∀ kv ∈ l₂, Clean kv.1 ∧ Clean kv.2 := fun kv h => hc kv (hp.mem_iff.mpr h)
  simp only [parseAnnounceQuery, segments_joinKV _ hne hc, segments_joinKV _ hne2 hc2,
    Option.bind_eq_bind, Option.bind_some, foldAcc_perm d l₁ l₂ hp hn {}]

/-! ### unknown keys, identifiers -/

/-- parameters with unrecognised keys do not change the result, wherever they stand -/
theorem unknown_keys_ignored (d : S → Option S) (pre post : List (S × S)) (k v : S) (h : k ∉ announceKeys)
    (a : Acc) : foldAcc d a (pre ++ (k, v) :: post) = foldAcc d a (pre ++ post) := by
  induction pre generalizing a with
  | nil => simp [foldAcc, step_unknown d a k v h]
  | cons x t ih =>
    simp only [List.cons_append, foldAcc]
    cases accStep d a x with
    | none => rfl
    | some a' => simpa using ih a'

/-- percent-encoded 20-byte identifiers decode exactly (every byte value) -/
theorem urldecode_encode (b : S) (h : Id20 b) : dec20 (enc20 b) = some b := dec20_enc20 b h.1 h.2

/-- raw identifiers of exactly 20 single-byte characters are accepted as they are; 19 and 21 are rejected;
a character above U+00FF is rejected -/
theorem urldecode_exact_20 :
    (∀ s : S, s.length = 20 → (∀ c ∈ s, c ≤ 255 ∧ c ≠ 37) → dec20 s = some s) ∧
    (∀ s : S, s.length ≠ 20 → (∀ c ∈ s, c ≤ 255 ∧ c ≠ 37) → dec20 s = none) ∧
    (∀ (pre post : S) (c : Nat), c > 255 → pre.length < 20 → (∀ x ∈ pre, x ≤ 255 ∧ x ≠ 37) →
      dec20 (pre ++ c :: post) = none) :=
  ⟨dec20_raw, dec20_raw_wrong_length, dec20_rejects_wide⟩

/-- both hex cases are accepted in percent-escapes; anything else is not a hex digit -/
theorem hex_both_cases : hexVal 65 = hexVal 97 ∧ hexVal 70 = hexVal 102 ∧ hexVal 71 = none ∧ hexVal 103 = none := by
  decide

/-! ### replies are canonical bencode, identical to the independent encoder -/

theorem itoa_small : itoa 5 = [53] ∧ itoa 6 = [54] ∧ itoa 8 = [56] ∧ itoa 10 = [49, 48] ∧ itoa 14 = [49, 52] ∧
    itoa 15 = [49, 53] ∧ itoa 20 = [50, 48] := by decide

theorem peerBytes_length (ps : List HPeer) (w : Nat) (h : ∀ p ∈ ps, p.ip.length = w) :
    (peerBytes ps).length = ps.length * (w + 2) := by
  induction ps with
  | nil => simp [peerBytes]
  | cons p t ih =>
    have hp := h p List.mem_cons_self
    have := ih (fun y hy => h y (List.mem_cons_of_mem _ hy))
    simp only [peerBytes, List.flatMap_cons, List.length_append, be2, List.length_cons, List.length_nil,
      hp] at this ⊢
    rw [this]
    simp [Nat.succ_mul]; omega

/-- announce replies: exactly the canonical bencoding of the BEP 3/7/23 dictionary (compact 6- and
18-byte peer entries), with and without a warning message -/
theorem announce_reply_is_bencode (r : AnnounceResp) (h4 : ∀ p ∈ r.peers, p.ip.length = 4)
    (h6 : ∀ p ∈ r.peers6, p.ip.length = 16) : writeAnnounceResp r = (announceValue r).enc := by
  have l4 := peerBytes_length r.peers 4 h4
  have l6 := peerBytes_length r.peers6 16 h6
  obtain ⟨i5, i6, i8, i10, i14, i15, i20⟩ := itoa_small
  cases hw : r.warning <;>
    simp [writeAnnounceResp, announceValue, hw, L, announceResponseLits, B.enc, KV.enc, KV.ofList, encStr,
      i5, i6, i8, i10, i15, l4, l6]

theorem announce_keys_sorted (r : AnnounceResp) :
    sortedKeys (match announceValue r with | .dict kv => kv.keys | _ => []) = true := by
  cases hw : r.warning <;> simp [announceValue, hw, KV.ofList, KV.keys] <;> decide

theorem failure_reply_is_bencode (reason : S) : writeFailureResp reason = (failureValue reason).enc := by
  obtain ⟨i5, i6, i8, i10, i14, i15, i20⟩ := itoa_small
  simp [writeFailureResp, failureValue, L, failureResponseLits, B.enc, KV.enc, KV.ofList, encStr, i14]

theorem scrape_files_enc (files : List (S × Nat × Nat × Nat)) (h : ∀ f ∈ files, f.1.length = 20) :
    (KV.ofList (files.map fileValue)).enc =
      files.flatMap (fun f =>
        L scrapeResponseLits 1 ++ f.1 ++ L scrapeResponseLits 2 ++ itoa f.2.1 ++ L scrapeResponseLits 3 ++
        itoa f.2.2.1 ++ L scrapeResponseLits 4 ++ itoa f.2.2.2 ++ L scrapeResponseLits 5) := by
  obtain ⟨i5, i6, i8, i10, i14, i15, i20⟩ := itoa_small
  induction files with
  | nil => simp [KV.ofList, KV.enc]
  | cons f t ih =>
    have hf := h f List.mem_cons_self
    have := ih (fun y hy => h y (List.mem_cons_of_mem _ hy))
    simp only [List.map_cons, KV.ofList, KV.enc, List.flatMap_cons, this]
    simp [fileValue, B.enc, KV.enc, KV.ofList, encStr, L, scrapeResponseLits, hf, i20, i8, i10]

/-- scrape replies: the canonical bencoding of `{files: {<20-byte hash>: {complete, downloaded, incomplete}}}` -/
theorem scrape_reply_is_bencode (files : List (S × Nat × Nat × Nat)) (h : ∀ f ∈ files, f.1.length = 20) :
    writeScrapeResp files = (scrapeValue files).enc := by
  obtain ⟨i5, i6, i8, i10, i14, i15, i20⟩ := itoa_small
  simp only [writeScrapeResp, scrapeValue, B.enc, KV.enc, KV.ofList, scrape_files_enc files h]
  simp [L, scrapeResponseLits, encStr, i5]

/-- the keys inside every file entry and the outer key are sorted; the file entries are in the order of
their hashes (the reply is built from a `BTreeMap`) -/
theorem scrape_inner_keys_sorted (f : S × Nat × Nat × Nat) :
    sortedKeys (match (fileValue f).2 with | .dict kv => kv.keys | _ => []) = true := by
  simp [fileValue, KV.ofList, KV.keys]; decide

/-! ### non-vacuity -/

example : Id20 (List.replicate 20 255) ∧ Id20 ((List.range 20).map (· * 13)) := by
  refine ⟨⟨by decide, by decide⟩, ⟨by decide, by decide⟩⟩

-- "/scrape?info_hash=<20 raw bytes>" written for a binary hash, and a hand-written query with an
-- unknown key and the parameters in another order
example : parsePath (fun s => some s)
    ([47, 115, 99, 114, 97, 112, 101, 63] ++ [120, 61, 49, 38] ++ kInfoHash ++ [61] ++ List.replicate 20 97) =
    some (.scrape [List.replicate 20 97]) := by decide

end Aquatic.C14
