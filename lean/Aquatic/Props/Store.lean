/-
  The refinement theorem shared by C01 (UDP), C07 (HTTP), C10, C11 and C20:

    every history of announce / scrape / clean on the two-representation store
    (any inline capacity `c`, either cleaning variant) runs without a panic
    outcome and answers like the reference tracker.

  Only statements live here; helper lemmas are in Aquatic/Lemmas.
-/
import Aquatic.Lemmas.Count

namespace Aquatic

/-- simulation relation: both families agree with the reference, torrent by torrent -/
def Sim (c : Nat) (s : TState) (r : RT) : Prop := Sim1 c s.m4 r.r4 ∧ Sim1 c s.m6 r.r6

/-- the two random draws of an announce lie in the ranges the code asks the generator for -/
def OpOk (s : TState) : Op → Prop
  | .ann v6 h key _ _ _ n o1 o2 => (if v6 then s.m6 else s.m4).OffOk h key n o1 o2
  | _ => True

/-- what "equal to the reference" means per operation: equal counts, and a peer list
that is duplicate-free, drawn from the reference's candidates, within the limit,
complete when the candidates fit and at least `limit - 1` long otherwise (C02) -/
def OutRel : Op → Out → ROut → Prop
  | .ann _ _ _ _ _ _ n _ _, .ann o, .ann v =>
    o.seeders = v.seeders ∧ o.leechers = v.leechers ∧ PeersOk o.peers v.candidates n
  | .scr _ _, .scr l, .scr l' => l = l'
  | .cln _ _, .cln a b c d, .cln a' b' c' d' => a = a' ∧ b = b' ∧ c = c' ∧ d = d'
  | _, _, _ => False

theorem sim_init (c : Nat) : Sim c {} {} := ⟨sim1_init c, sim1_init c⟩

/-- One operation: no panic, simulation preserved, reply related to the reference's. -/
theorem step_refines (cfg : StoreCfg) (s : TState) (r : RT) (op : Op)
    (hs : Sim cfg.c s r) (hok : OpOk s op) :
    ∃ s' out, step cfg s op = .ok (s', out) ∧ Sim cfg.c s' (refStep cfg r op).1 ∧
      OutRel op out (refStep cfg r op).2 := by
  cases op with
  | ann v6 h key st pid dl n o1 o2 =>
    by_cases hv : v6
    · subst hv
      obtain ⟨m', out, ha, hsim, h1, h2, h3⟩ :=
        sim1_announce cfg.c s.m6 r.r6 h key st pid dl n o1 o2 hs.2 hok
      refine ⟨{ s with m6 := m' }, .ann out, ?_, ⟨hs.1, hsim⟩, h1, h2, h3⟩
      simp [step, ha, bind, Except.bind, pure, Except.pure]
    · have hv' : v6 = false := by simpa using hv
      subst hv'
      obtain ⟨m', out, ha, hsim, h1, h2, h3⟩ :=
        sim1_announce cfg.c s.m4 r.r4 h key st pid dl n o1 o2 hs.1 hok
      refine ⟨{ s with m4 := m' }, .ann out, ?_, ⟨hsim, hs.2⟩, h1, h2, h3⟩
      simp [step, ha, bind, Except.bind, pure, Except.pure]
  | scr v6 hs' =>
    by_cases hv : v6
    · subst hv
      refine ⟨s, .scr _, ?_, hs, rfl⟩
      simp [step, refStep, sim1_scrapeList cfg.c s.m6 r.r6 hs.2, bind, Except.bind, pure, Except.pure]
    · have hv' : v6 = false := by simpa using hv
      subst hv'
      refine ⟨s, .scr _, ?_, hs, rfl⟩
      simp [step, refStep, sim1_scrapeList cfg.c s.m4 r.r4 hs.1, bind, Except.bind, pure, Except.pure]
  | cln now allowed =>
    by_cases hh : cfg.http
    · obtain ⟨a, na, ha, hpa⟩ := TMap.cleanHttp_spec cfg.c s.m4 now allowed hs.1.1
      obtain ⟨b, nb, hb, hpb⟩ := TMap.cleanHttp_spec cfg.c s.m6 now allowed hs.2.1
      have sa := sim1_of_cleanPost hs.1 hpa
      have sb := sim1_of_cleanPost hs.2 hpb
      refine ⟨⟨a, b⟩, .cln a.length 0 b.length 0, ?_, ⟨sa, sb⟩, ?_⟩
      · simp [step, hh, ha, hb, bind, Except.bind, pure, Except.pure]
      · simp only [refStep, hh, ↓reduceIte, OutRel, and_true, true_and]
        exact ⟨length_eq_numTorrents a _ hpa.inv.1 sa.2 hpa.nonempty,
               length_eq_numTorrents b _ hpb.inv.1 sb.2 hpb.nonempty⟩
    · obtain ⟨a, oa, ha, hpa, hta, hla⟩ := TMap.cleanUdp_spec cfg.c s.m4 now allowed hs.1.1
      obtain ⟨b, ob, hb, hpb, htb, hlb⟩ := TMap.cleanUdp_spec cfg.c s.m6 now allowed hs.2.1
      have sa := sim1_of_cleanPost hs.1 hpa
      have sb := sim1_of_cleanPost hs.2 hpb
      refine ⟨⟨a, b⟩, .cln oa.torrents oa.peers ob.torrents ob.peers, ?_, ⟨sa, sb⟩, ?_⟩
      · simp [step, hh, ha, hb, bind, Except.bind, pure, Except.pure]
      · simp only [refStep, hh, Bool.false_eq_true, ↓reduceIte, OutRel]
        exact ⟨hta.trans (length_eq_numTorrents a _ hpa.inv.1 sa.2 hpa.nonempty),
               hla.trans (liveSum_eq now s.m4 r.r4 hs.1.1.1 hs.1.2),
               htb.trans (length_eq_numTorrents b _ hpb.inv.1 sb.2 hpb.nonempty),
               hlb.trans (liveSum_eq now s.m6 r.r6 hs.2.1.1 hs.2.2)⟩

/-- the draws of every announce of the history are in range, each w.r.t. the state it meets -/
def OpsOk (cfg : StoreCfg) : TState → List Op → Prop
  | _, [] => True
  | s, op :: ops =>
    OpOk s op ∧ (match step cfg s op with
      | .ok r => OpsOk cfg r.1 ops
      | .error _ => False)

instance (s : TState) (op : Op) : Decidable (OpOk s op) := by
  cases op <;> simp only [OpOk, TMap.OffOk] <;> infer_instance

def decOpsOk (cfg : StoreCfg) : (s : TState) → (ops : List Op) → Decidable (OpsOk cfg s ops)
  | _, [] => isTrue trivial
  | s, op :: ops =>
    match hstep : step cfg s op with
    | .ok r =>
      match decOpsOk cfg r.1 ops with
      | isTrue h1 =>
        if h2 : OpOk s op then isTrue (by simp only [OpsOk, hstep]; exact ⟨h2, h1⟩)
        else isFalse (by simp only [OpsOk]; exact fun h => h2 h.1)
      | isFalse h1 => isFalse (by simp only [OpsOk, hstep]; exact fun h => h1 h.2)
    | .error _ => isFalse (by simp only [OpsOk, hstep]; exact fun h => h.2)

instance (cfg : StoreCfg) (s : TState) (ops : List Op) : Decidable (OpsOk cfg s ops) := decOpsOk cfg s ops

def AllRel : List Op → List Out → List ROut → Prop
  | [], [], [] => True
  | op :: ops, o :: os, r :: rs => OutRel op o r ∧ AllRel ops os rs
  | _, _, _ => False

/-- **Refinement.** For every inline capacity, either cleaning variant, every
history and every in-range outcome of the random draws: the store never panics
and each reply is the reference tracker's. -/
theorem refines (cfg : StoreCfg) (ops : List Op) : ∀ (s : TState) (r : RT),
    Sim cfg.c s r → OpsOk cfg s ops →
    ∃ outs, run cfg s ops = .ok outs ∧ AllRel ops outs (runRef cfg r ops) := by
  induction ops with
  | nil => intro s r _ _; exact ⟨[], rfl, trivial⟩
  | cons op ops ih =>
    intro s r hs hok
    obtain ⟨hop, hrest⟩ := hok
    obtain ⟨s', out, hstep, hsim', hrel⟩ := step_refines cfg s r op hs hop
    rw [hstep] at hrest
    obtain ⟨outs, hrun, hall⟩ := ih s' _ hsim' hrest
    refine ⟨out :: outs, ?_, hrel, hall⟩
    simp [run, hstep, hrun, bind, Except.bind, pure, Except.pure]

/-- the representation invariant holds in every reachable state (part of `Sim`) -/
theorem reachable_inv (cfg : StoreCfg) (s : TState) (r : RT) (op : Op) (hs : Sim cfg.c s r)
    (hok : OpOk s op) : ∀ s' out, step cfg s op = .ok (s', out) →
      TMap.Inv cfg.c s'.m4 ∧ TMap.Inv cfg.c s'.m6 := by
  intro s' out h
  obtain ⟨s'', out', h', hsim, _⟩ := step_refines cfg s r op hs hok
  rw [h] at h'
  injection h' with h'
  injection h' with h1 h2
  subst h1
  exact ⟨hsim.1.1, hsim.2.1⟩

end Aquatic
