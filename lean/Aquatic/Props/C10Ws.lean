/-
  C10 for the WebTorrent tracker: stored peers and pending offers expire exactly at their deadline,
  never earlier, and every announce sets a fresh deadline.  Stated on the reference tracker of
  `Spec/RefWs`, which the store model refines for every history (`WsStore.refines`, C08) and the
  `n`-worker tracker refines per worker (`C17Shards`); `store_clean_follows` is the transport.
-/
import Aquatic.Props.WsStore
import Aquatic.Props.C10

namespace Aquatic.Ws.C10

open Aquatic Aquatic.Ws

/-- never earlier: an entry of a permitted torrent whose deadline is still in the future survives the pass -/
theorem ws_kept_before (r : RefW) (now : Nat) (allowed : Nat → Bool) (e : RW) (he : e ∈ r.entries)
    (ha : allowed e.hash = true) (hd : now < e.validUntil) : e ∈ (Ref.clean r now allowed).entries := by
  simp only [Ref.clean, List.mem_filter, Ref.keep, Bool.and_eq_true]
  exact ⟨he, ha, by simp [validAt, hd]⟩

/-- exactly at the deadline: a pass at or after the deadline removes the entry -/
theorem ws_gone_at (r : RefW) (now : Nat) (allowed : Nat → Bool) (e : RW) (hd : e.validUntil ≤ now) :
    e ∉ (Ref.clean r now allowed).entries := by
  simp only [Ref.clean, List.mem_filter, Ref.keep, Bool.and_eq_true, not_and]
  intro _ _
  simp [validAt, Nat.not_lt.mpr hd]

/-- a pass removes nothing but expired entries and entries of forbidden torrents -/
theorem ws_clean_only_expired_or_forbidden (r : RefW) (now : Nat) (allowed : Nat → Bool) (e : RW)
    (he : e ∈ r.entries) (hgone : e ∉ (Ref.clean r now allowed).entries) :
    allowed e.hash = false ∨ e.validUntil ≤ now := by
  simp only [Ref.clean, List.mem_filter, Ref.keep, Bool.and_eq_true, not_and] at hgone
  cases ha : allowed e.hash with
  | false => exact .inl rfl
  | true =>
    right
    have := hgone he ha
    simpa [validAt] using this

/-- pending offers: a pass keeps the offer of a kept peer exactly while its own deadline is in the future -/
theorem ws_offer_kept_iff (r : RefW) (now : Nat) (allowed : Nat → Bool) (e : RW) (k : ExpKey) (vu : Nat)
    (hf : Ref.find r.entries e.hash e.pid = some e) (hk : Ref.keep now allowed e = true)
    (hx : r.exps e.hash e.pid k = some vu) :
    (Ref.clean r now allowed).exps e.hash e.pid k = (if now < vu then some vu else none) := by
  simp only [Ref.clean, hf, hk, if_true, hx, Option.filter, validAt]
  by_cases h : now < vu <;> simp [h]


/-- the offers of a peer that is removed go with it -/
theorem ws_offers_of_removed_peer_gone (r : RefW) (now : Nat) (allowed : Nat → Bool) (e : RW) (k : ExpKey)
    (hf : Ref.find r.entries e.hash e.pid = some e) (hk : Ref.keep now allowed e = false) :
    (Ref.clean r now allowed).exps e.hash e.pid k = none := by
  simp [Ref.clean, hf, hk]

/-- every announce that is not a stop sets a fresh deadline: the stored entry afterwards carries
`now + max_peer_age` (saturated at u32::MAX, see C10 for the arithmetic), whatever it carried before and
whether or not the peer's status changed -/
theorem ws_reannounce_refreshes (cfg : WsCfg) (r : RefW) (conn : ConnId) (req : AnnReq) (now : Nat) (recv : List Nat)
    (hst : req.stopped = false) :
    Ref.find (Ref.announceCore cfg r conn req now recv).1.entries req.hash req.pid =
      some ⟨req.hash, req.pid, conn, decide (wsStatus req.stopped req.left = .seeding), validUntilNew now cfg.maxPeerAge⟩ := by
  have hns : wsStatus req.stopped req.left ≠ .stopped := by
    unfold wsStatus; simp [hst]; split <;> simp
  have key : ∀ b : Bool, Ref.find (Ref.rest r.entries req.hash req.pid ++
      [⟨req.hash, req.pid, conn, b, validUntilNew now cfg.maxPeerAge⟩]) req.hash req.pid =
      some ⟨req.hash, req.pid, conn, b, validUntilNew now cfg.maxPeerAge⟩ := by
    intro b
    have := Ref.find_rest_append r.entries ⟨req.hash, req.pid, conn, b, validUntilNew now cfg.maxPeerAge⟩ req.hash req.pid
    simpa using this
  unfold Ref.announceCore
  cases hw : wsStatus req.stopped req.left with
  | stopped => exact absurd hw hns
  | seeding => simpa using key (decide (WStatus.seeding = WStatus.seeding))
  | leeching => simpa using key (decide (WStatus.leeching = WStatus.seeding))

/-- forwarded offers are recorded with the deadline `now + max_offer_age` -/
theorem ws_offer_deadline (x : Exps) (h pid now age : Nat) (off : Nat × Nat) (to : Nat) :
    Ref.recordOffers x h pid (validUntilNew now age) [(off, to)] h pid (to, off.1) = some (validUntilNew now age) := by
  simp [Ref.recordOffers, Ref.setExp]


/-- Transport to the store: a cleaning pass of the WebTorrent store model is the reference's, so the four
statements above hold of what the store keeps and hands out -/
theorem store_clean_follows (cfg : WsCfg) (s : Sys) (rs : RefSys) (now : Nat) (allowed : Nat → Bool) (h : SysSim s rs) :
    ∃ s', sysStep cfg s (.clean now allowed) = .ok (s', []) ∧ SysSim s' ⟨Ref.clean rs.w now allowed, rs.books⟩ := by
  obtain ⟨s', msgs, recv, hstep, hsim, hrel⟩ := step_refines cfg s rs (.clean now allowed) h trivial
  have : msgs = [] := by
    simp only [sysStep, bind, Except.bind] at hstep
    split at hstep
    · cases hstep
    · simp only [pure, Except.pure, Except.ok.injEq, Prod.mk.injEq] at hstep
      exact hstep.2.symm
  subst this
  exact ⟨s', hstep, by simpa [refStep] using hsim⟩

/-! ### non-vacuity -/
example : validUntilNew 5 10 = 15 ∧ validAt 15 14 = true ∧ validAt 15 15 = false := by decide

end Aquatic.Ws.C10
