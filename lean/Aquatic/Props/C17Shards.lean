/-
  C17 for any number of swarm workers: the `n`-worker tracker of `Model/WsShards` refines the ONE reference
  tracker of `Spec/RefWs` - announces (gate, one peer id per torrent and connection, routing, replies and
  forwards), closes (every worker drops exactly what the connection owned there), per-worker cleaning,
  and scrapes (one merged reply).  F15 (a scrape naming no torrent was never answered) is the pinned
  behaviour `shScrapePinned`; the repaired tracker answers it with an empty list.
-/
import Aquatic.Lemmas.WsShards

namespace Aquatic.Ws

open Aquatic

/-! ### the workers together behave like the one reference tracker -/

theorem recvOk_restrict (n i : Nat) (cfg : WsCfg) (es : List RW) (req : AnnReq) (recv : List Nat)
    (hr : route n req.hash = i) :
    Ref.recvOk cfg (es.filter (fun e => onW n i e.hash)) req recv ↔ Ref.recvOk cfg es req recv := by
  simp only [Ref.recvOk, find_restrict, hr, if_true, ofTorrent_restrict n i es req.hash hr]

/-- announces: routed to one worker, answered like the reference; every worker stays in simulation -/
theorem sharded_announce (cfg : WsCfg) (n : Nat) (hn : 0 < n) {s : ShSys} {rs : RefSys} (h : ShSim n s rs)
    (conn : ConnId) (req : AnnReq) (now o1 o2 : Nat)
    (ho : ∀ m, s.ms[route n req.hash]? = some m → AnnOffOk cfg m conn req o1 o2)
    (hbook : ∀ pid', IMap.get (rs.bookOf conn) req.hash = some pid' → pid' = req.pid) :
    ∃ s' msgs recv, shAnnounce cfg n s conn req now o1 o2 = .ok (s', msgs) ∧
      msgs = (Ref.announce cfg rs.w conn req now recv).2 ∧
      ShSim n s' ⟨(Ref.announce cfg rs.w conn req now recv).1, IMap.insert rs.books conn (bookAfter (rs.bookOf conn) req)⟩ ∧
      (Accepted rs.w conn req → req.stopped = false →
        Ref.recvOk cfg (Ref.announce cfg rs.w conn req now recv).1.entries req recv) := by
  have hi : route n req.hash < s.ms.length := by rw [h.len]; exact Nat.mod_lt _ hn
  have hget : s.ms[route n req.hash]? = some s.ms[route n req.hash] := by simp [hi]
  obtain ⟨m', msgs, recv, hok, hsim, hmsgs, hrecv⟩ :=
    announce_sim cfg s.ms[route n req.hash] (restrictW n (route n req.hash) rs.w) conn req now o1 o2 (h.sim _ hi) (ho _ hget)
  rw [announce_restrict_same n _ cfg rs.w conn req now recv rfl] at hsim hmsgs hrecv
  refine ⟨⟨s.ms.set (route n req.hash) m', IMap.insert s.books conn (bookAfter (shBookOf s conn) req)⟩, msgs, recv, ?_, hmsgs,
    ⟨by simp [h.len], ?_, ?_, refInv_announce cfg h.inv conn req now recv hbook⟩, ?_⟩
  · simp [shAnnounce, hget, hok, bind, Except.bind, pure, Except.pure]
  · intro j hj
    have hj' : j < s.ms.length := by simpa using hj
    by_cases e : j = route n req.hash
    · subst e
      simp only [List.getElem_set_self]
      exact hsim
    · rw [List.getElem_set_ne (fun x => e x.symm)]
      simp only
      rw [announce_restrict_other n j cfg rs.w conn req now recv (fun x => e x.symm)]
      exact h.sim j hj'
  · simp [shBookOf, RefSys.bookOf, h.books]
  · intro hacc hns
    have hacc' : Accepted (restrictW n (route n req.hash) rs.w) conn req := by
      intro e he
      simp only [restrictW, find_restrict, if_true] at he
      exact hacc e he
    have := hrecv hacc' hns
    simp only [restrictW] at this
    exact (recvOk_restrict n _ cfg _ req recv rfl).mp this

theorem covers_restrict (n i : Nat) {rs : RefSys} (h : RefInv rs) (conn : ConnId) :
    Covers (restrictW n i rs.w) conn (pairsOn n i (rs.bookOf conn)) := by
  intro e he ho
  simp only [restrictW, List.mem_filter] at he
  have := h.covers e he.1
  rw [ho] at this
  simp only [pairsOn, List.mem_filter]
  exact ⟨IMap.mem_of_get this, he.2⟩

theorem shCloseAll_spec (n : Nat) (conn : ConnId) {rs : RefSys} (hinv : RefInv rs) :
    ∀ (l : List WMap) (i0 : Nat), (∀ j (hj : j < l.length), WSim l[j] (restrictW n (i0 + j) rs.w)) →
      ∃ l', shCloseAll n conn (rs.bookOf conn) l i0 = .ok l' ∧ l'.length = l.length ∧
        ∀ j (hj : j < l'.length), WSim l'[j] (restrictW n (i0 + j) (Ref.close rs.w conn)) := by
  intro l
  induction l with
  | nil => intro i0 _; exact ⟨[], rfl, rfl, by intro j hj; cases hj⟩
  | cons m t ih =>
    intro i0 hall
    have h0 := hall 0 (by simp)
    simp only [List.getElem_cons_zero, Nat.add_zero] at h0
    obtain ⟨m', hc, hs'⟩ := close_sim h0 conn (pairsOn n i0 (rs.bookOf conn)) (covers_restrict n i0 hinv conn)
    rw [close_restrict] at hs'
    obtain ⟨t', ht, hlen, hrest⟩ := ih (i0 + 1) (by
      intro j hj
      have := hall (j + 1) (by simpa using hj)
      simpa [Nat.add_assoc, Nat.add_comm 1 j] using this)
    refine ⟨m' :: t', by simp [shCloseAll, hc, ht, bind, Except.bind, pure, Except.pure], by simp [hlen], ?_⟩
    intro j hj
    cases j with
    | zero => simpa using hs'
    | succ j =>
      have := hrest j (by simpa using hj)
      simpa [Nat.add_assoc, Nat.add_comm 1 j] using this

/-- closing a connection: every worker drops what the connection owned there -/
theorem sharded_close (n : Nat) {s : ShSys} {rs : RefSys} (h : ShSim n s rs) (conn : ConnId) :
    ∃ s', shClose n s conn = .ok s' ∧ ShSim n s' (refClose rs conn) := by
  obtain ⟨l', hc, hlen, hall⟩ := shCloseAll_spec n conn h.inv s.ms 0 (by
    intro j hj; simpa using h.sim j hj)
  refine ⟨⟨l', (IMap.swapRemove s.books conn).1⟩, ?_, ⟨by simp [hlen, h.len], ?_, by simp [refClose, h.books], refInv_close h.inv conn⟩⟩
  · have hb : shBookOf s conn = rs.bookOf conn := by simp [shBookOf, RefSys.bookOf, h.books]
    simp [shClose, hb, hc, bind, Except.bind, pure, Except.pure]
  · intro j hj
    have := hall j hj
    simpa [refClose] using this

/-- worker `i` cleans: it follows its share of the cleaned reference, nobody else notices -/
theorem sharded_clean (n : Nat) {s : ShSys} {rs : RefSys} (h : ShSim n s rs) (i now : Nat) (allowed : Nat → Bool)
    (hi : i < n) :
    ∃ s', shClean s i now allowed = .ok s' ∧ ShSim n s' ⟨cleanOn n i rs.w now allowed, rs.books⟩ := by
  have hi' : i < s.ms.length := by rw [h.len]; exact hi
  have hget : s.ms[i]? = some s.ms[i] := by simp [hi']
  obtain ⟨m', hc, hs'⟩ := clean_sim (h.sim i hi') now allowed
  rw [clean_restrict, ← cleanOn_restrict_same] at hs'
  refine ⟨⟨s.ms.set i m', s.books⟩, by simp [shClean, hget, hc, bind, Except.bind, pure, Except.pure],
    ⟨by simp [h.len], ?_, h.books, refInv_filter h.inv _ _⟩⟩
  intro j hj
  have hj' : j < s.ms.length := by simpa using hj
  by_cases e : j = i
  · subst e
    simp only [List.getElem_set_self]
    exact hs'
  · rw [List.getElem_set_ne (fun x => e x.symm)]
    simp only
    rw [cleanOn_restrict_other n i j rs.w now allowed e]
    exact h.sim j hj'

/-! #### scrapes -/

theorem mem_scrapeParts (n : Nat) (hashes : List Nat) (p : Nat × List Nat) :
    p ∈ scrapeParts n hashes ↔ p.1 < n ∧ p.2 = hashes.filter (onW n p.1) ∧ p.2 ≠ [] := by
  simp only [scrapeParts, List.mem_filterMap, List.mem_range]
  constructor
  · rintro ⟨i, hi, hp⟩
    by_cases he : (hashes.filter (onW n i)).isEmpty = true
    · simp [he] at hp
    · simp only [he] at hp
      cases hp
      exact ⟨hi, rfl, by simpa using he⟩
  · rintro ⟨hi, hl, hne⟩
    refine ⟨p.1, hi, ?_⟩
    have : (hashes.filter (onW n p.1)).isEmpty = false := by
      rw [← hl]; cases hq : p.2 with
      | nil => exact absurd hq hne
      | cons a t => rfl
    simp only [this]
    rw [← hl]
    rfl

theorem scrapeParts_nil (n : Nat) : scrapeParts n [] = [] := by
  simp [scrapeParts]

theorem scrapeParts_ne_nil (n : Nat) (hn : 0 < n) (hashes : List Nat) (hne : hashes ≠ []) : scrapeParts n hashes ≠ [] := by
  cases hashes with
  | nil => exact absurd rfl hne
  | cons h t =>
    intro he
    have hm : (route n h, (h :: t).filter (onW n (route n h))) ∈ scrapeParts n (h :: t) := by
      rw [mem_scrapeParts]
      refine ⟨Nat.mod_lt _ hn, rfl, ?_⟩
      intro hx
      have : h ∈ (h :: t).filter (onW n (route n h)) := by simp [onW]
      simp only at hx
      rw [hx] at this
      cases this
    rw [he] at hm
    cases hm

theorem shScrapeParts_mem (cfg : WsCfg) (n : Nat) (ms : List WMap) (r : RefW) :
    ∀ (parts : List (Nat × List Nat)),
      (∀ p ∈ parts, ∃ hi : p.1 < ms.length, WSim ms[p.1] (restrictW n p.1 r)) →
      ∃ files, shScrapeParts cfg ms parts = .ok files ∧
        ∀ f, f ∈ files ↔ ∃ p ∈ parts, f ∈ listed ((ms[p.1]?).getD []) (restrictW n p.1 r) (p.2.take cfg.maxScrape) := by
  intro parts
  induction parts with
  | nil => intro _; exact ⟨[], rfl, by simp⟩
  | cons p t ih =>
    intro hall
    obtain ⟨hi, hs⟩ := hall p (by simp)
    obtain ⟨rest, hr, hmem⟩ := ih (fun q hq => hall q (by simp [hq]))
    have hget : (ms[p.1]?).getD [] = ms[p.1] := by simp [hi]
    have h1 := scrapeList_sim hs (p.2.take cfg.maxScrape)
    refine ⟨listed ms[p.1] (restrictW n p.1 r) (p.2.take cfg.maxScrape) ++ rest, ?_, ?_⟩
    · obtain ⟨i, l⟩ := p
      simp only at hget h1
      simp [shScrapeParts, hget, h1, hr, bind, Except.bind, pure, Except.pure]
    · intro f
      simp only [List.mem_append, List.mem_cons, hmem f]
      constructor
      · rintro (hf | ⟨q, hq, hf⟩)
        · exact ⟨p, .inl rfl, by rw [hget]; exact hf⟩
        · exact ⟨q, .inr hq, hf⟩
      · rintro ⟨q, hq | hq, hf⟩
        · subst hq; left; rw [hget] at hf; exact hf
        · exact .inr ⟨q, hq, hf⟩

/-- **one merged reply**: a scrape of at most `max_scrape_torrents` hashes (none included) gets exactly one
reply, on the requesting connection, which lists every requested torrent with stored peers with the
reference's counts whichever worker holds it, and otherwise only requested torrents without peers, with zeros -/
theorem sharded_scrape (cfg : WsCfg) (n : Nat) (hn : 0 < n) {s : ShSys} {rs : RefSys} (h : ShSim n s rs)
    (conn : ConnId) (hashes : List Nat) (hlen : hashes.length ≤ cfg.maxScrape) :
    ∃ files, shScrape cfg n s conn hashes = .ok [Msg.scrape conn (httpScrapeFiles files)] ∧
      (∀ f ∈ Ref.scrapeFiles cfg rs.w hashes, f ∈ files) ∧
      (∀ f ∈ files, f ∈ Ref.scrapeFiles cfg rs.w hashes ∨
        (f.1 ∈ hashes ∧ Ref.ofTorrent rs.w.entries f.1 = [] ∧ f.2 = (0, 0))) := by
  have hparts : ∀ p ∈ scrapeParts n hashes, ∃ hi : p.1 < s.ms.length, WSim s.ms[p.1] (restrictW n p.1 rs.w) := by
    intro p hp
    have hi : p.1 < s.ms.length := by rw [h.len]; exact ((mem_scrapeParts n hashes p).mp hp).1
    exact ⟨hi, h.sim _ hi⟩
  obtain ⟨files, hok, hmem⟩ := shScrapeParts_mem cfg n s.ms rs.w (scrapeParts n hashes) hparts
  have htake : ∀ i, (hashes.filter (onW n i)).take cfg.maxScrape = hashes.filter (onW n i) := by
    intro i
    apply List.take_of_length_le
    exact Nat.le_trans (List.length_filter_le _ _) hlen
  have htakeAll : hashes.take cfg.maxScrape = hashes := List.take_of_length_le hlen
  refine ⟨files, ?_, ?_, ?_⟩
  · simp [shScrape, hok, bind, Except.bind, pure, Except.pure]
  · intro f hf
    simp only [Ref.scrapeFiles, List.mem_filterMap, htakeAll] at hf
    obtain ⟨hh, hhm, hf⟩ := hf
    by_cases he : (Ref.ofTorrent rs.w.entries hh).isEmpty = true
    · simp [he] at hf
    · simp only [he] at hf
      cases hf
      have hi : route n hh < n := Nat.mod_lt _ hn
      have hin : hh ∈ hashes.filter (onW n (route n hh)) := by simp [hhm, onW]
      have hp : (route n hh, hashes.filter (onW n (route n hh))) ∈ scrapeParts n hashes := by
        rw [mem_scrapeParts]
        exact ⟨hi, rfl, fun hx => by simp only at hx; rw [hx] at hin; cases hin⟩
      obtain ⟨hi', hs'⟩ := hparts _ hp
      rw [hmem]
      refine ⟨_, hp, ?_⟩
      have hget : (s.ms[route n hh]?).getD [] = s.ms[route n hh] := by simp [hi']
      rw [hget]
      apply (scrape_listing cfg hs' (hashes.filter (onW n (route n hh)))).1
      simp only [Ref.scrapeFiles, List.mem_filterMap, htake]
      refine ⟨hh, hin, ?_⟩
      have ho := ofTorrent_restrict n (route n hh) rs.w.entries hh rfl
      have hc := complete_restrict n (route n hh) rs.w.entries hh rfl
      simp only [restrictW, ho, he, hc.1, hc.2]
      simp
  · intro f hf
    rw [hmem] at hf
    obtain ⟨p, hp, hf⟩ := hf
    obtain ⟨hi', hs'⟩ := hparts _ hp
    obtain ⟨hi, hl, _⟩ := (mem_scrapeParts n hashes p).mp hp
    have hget : (s.ms[p.1]?).getD [] = s.ms[p.1] := by simp [hi']
    rw [hget] at hf
    rcases (scrape_listing cfg hs' p.2).2 f hf with hin | ⟨h1, h2, h3⟩
    · left
      simp only [Ref.scrapeFiles, List.mem_filterMap] at hin ⊢
      obtain ⟨hh, hhm, hx⟩ := hin
      rw [hl, htake] at hhm
      have hhm' := List.mem_filter.mp hhm
      have hr : route n hh = p.1 := by simpa [onW] using hhm'.2
      have ho := ofTorrent_restrict n p.1 rs.w.entries hh hr
      have hc := complete_restrict n p.1 rs.w.entries hh hr
      simp only [restrictW, ho, hc.1, hc.2] at hx
      exact ⟨hh, by rw [htakeAll]; exact hhm'.1, hx⟩
    · right
      rw [hl, htake] at h1
      have h1' := List.mem_filter.mp h1
      have hr : route n f.1 = p.1 := by simpa [onW] using h1'.2
      have ho := ofTorrent_restrict n p.1 rs.w.entries f.1 hr
      simp only [restrictW, ho] at h2
      exact ⟨h1'.1, h2, h3⟩

/-- F15 on the pinned tree: a scrape that names no torrent was passed to no swarm worker, so nothing ever
completed its pending reply - it stayed unanswered ... -/
theorem empty_scrape_unanswered_pinned (cfg : WsCfg) (n : Nat) (s : ShSys) (conn : ConnId) :
    shScrapePinned cfg n s conn [] = .ok [] := by
  simp [shScrapePinned, scrapeParts_nil]

/-- ... and is now answered with an empty list -/
theorem empty_scrape_answered (cfg : WsCfg) (n : Nat) (s : ShSys) (conn : ConnId) :
    shScrape cfg n s conn [] = .ok [Msg.scrape conn []] := by
  simp [shScrape, scrapeParts_nil, shScrapeParts, httpScrapeFiles, bind, Except.bind, pure, Except.pure]

/-- with at least one hash named the pinned and the repaired tracker agree -/
theorem scrape_pinned_eq (cfg : WsCfg) (n : Nat) (hn : 0 < n) (s : ShSys) (conn : ConnId) (hashes : List Nat)
    (hne : hashes ≠ []) : shScrapePinned cfg n s conn hashes = shScrape cfg n s conn hashes := by
  have hnn := scrapeParts_ne_nil n hn hashes hne
  unfold shScrapePinned shScrape
  cases hq : scrapeParts n hashes with
  | nil => exact absurd hq hnn
  | cons a t => rfl

/-! #### the whole announce path: gate, one peer id per torrent and connection, store -/

/-- **`n` swarm workers refine the one reference tracker** on every announce: refused by the gate, refused for a
second peer id (and the connection's entries gone from every worker), or stored by the worker the torrent maps
to - with exactly the reference's messages, to exactly the reference's connections -/
theorem sharded_ann_step (cfg : WsCfg) (n : Nat) (hn : 0 < n) {s : ShSys} {rs : RefSys} (h : ShSim n s rs)
    (conn : ConnId) (allowed : Bool) (req : AnnReq) (now o1 o2 : Nat)
    (ho : ∀ m, s.ms[route n req.hash]? = some m → AnnOffOk cfg m conn req o1 o2) :
    ∃ s' msgs recv, shStep cfg n s (.ann conn allowed req now o1 o2) = .ok (s', msgs) ∧
      msgs = (refStep cfg rs recv (.ann conn allowed req now o1 o2)).2 ∧
      ShSim n s' (refStep cfg rs recv (.ann conn allowed req now o1 o2)).1 := by
  have hb : shBookOf s conn = rs.bookOf conn := by simp [shBookOf, RefSys.bookOf, h.books]
  cases hal : allowed with
  | false => exact ⟨s, [Msg.error conn (some req.hash)], [], by simp [shStep], by simp [refStep], by simpa [refStep] using h⟩
  | true =>
    cases hg : IMap.get (rs.bookOf conn) req.hash with
    | none =>
      obtain ⟨s', msgs, recv, hok, hm, hs', _⟩ := sharded_announce cfg n hn h conn req now o1 o2 ho (by simp [hg])
      exact ⟨s', msgs, recv, by simp [shStep, hb, hg, hok], by simp [refStep, hg, hm], by simpa [refStep, hg] using hs'⟩
    | some pid' =>
      by_cases hp : pid' = req.pid
      · subst hp
        obtain ⟨s', msgs, recv, hok, hm, hs', _⟩ := sharded_announce cfg n hn h conn req now o1 o2 ho (by
          intro p hp'; rw [hg] at hp'; cases hp'; rfl)
        exact ⟨s', msgs, recv, by simp [shStep, hb, hg, hok], by simp [refStep, hg, hm], by simpa [refStep, hg] using hs'⟩
      · obtain ⟨s', hc, hs'⟩ := sharded_close n h conn
        refine ⟨s', [Msg.error conn (some req.hash)], [], ?_, ?_, ?_⟩
        · simp [shStep, hb, hg, hp, hc, bind, Except.bind, pure, Except.pure]
        · simp [refStep, hg, hp]
        · simpa [refStep, hg, hp] using hs'


/-! ### non-vacuity -/

-- torrents 0x01.. and 0x02.. live on different workers of two
example : route 2 (1 * 256 ^ 19) = 1 ∧ route 2 (2 * 256 ^ 19) = 0 := by decide

-- the request is split in two parts, ascending by worker, each with its hashes in request order
example : scrapeParts 2 [1 * 256 ^ 19, 2 * 256 ^ 19, 3 * 256 ^ 19] =
    [(0, [2 * 256 ^ 19]), (1, [1 * 256 ^ 19, 3 * 256 ^ 19])] := by decide

end Aquatic.Ws
