/-
  C16 (request side) - the request loop of an HTTP connection: a well-formed request is recognised
  exactly when its last byte has arrived, however the transport cuts it into reads; input that never
  completes ends the connection when the buffer is full.  The hypothesis `PrefixStable` (no proper prefix of a
  request is itself accepted) is checked against the real `parse_request` by the `httpprefix` target of
  the raw-bytes run, on every generated request that ends in its first blank line.
-/
import Aquatic.Model.HttpRead

namespace Aquatic.HttpRead

theorem readLoop_segmentation {ρ : Type} (parse : List UInt8 → ParseRes ρ) (cap : Nat) (req : List UInt8) (r : ρ)
    (hs : PrefixStable parse req r) (hcap : req.length ≤ cap) (hne : 0 < req.length) :
    ∀ (reads : List Nat) (pos : Nat), pos < req.length → Covers pos req.length reads →
      readLoop parse cap req pos reads = .request r req.length := by
  intro reads
  induction reads with
  | nil => intro pos hp hc; simp [Covers] at hc; omega
  | cons k ks ih =>
    intro pos hp hc
    have hpc : pos ≠ cap := by omega
    simp only [readLoop, hpc, if_false]
    have hn : min (min (k + 1) (cap - pos)) (req.length - pos) ≠ 0 := by omega
    simp only [hn, if_false]
    by_cases hfin : pos + min (min (k + 1) (cap - pos)) (req.length - pos) = req.length
    · rw [hfin, List.take_length, hs.1]
    · have hlt : pos + min (min (k + 1) (cap - pos)) (req.length - pos) < req.length := by omega
      have hcov : Covers (pos + min (min (k + 1) (cap - pos)) (req.length - pos)) req.length ks := by
        rcases hc with hc | hc
        · omega
        · -- the read delivered k+1 bytes or was cut by the buffer / the stream; in the latter cases
          -- it would have completed the request
          have hk : min (min (k + 1) (cap - pos)) (req.length - pos) = k + 1 := by omega
          rw [hk]; exact hc
      cases hq : parse (req.take (pos + min (min (k + 1) (cap - pos)) (req.length - pos))) with
      | done r' => exact absurd hq (hs.2 _ r' hlt)
      | more => exact ih _ hlt hcov
      | bad => exact ih _ hlt hcov

/-- **segmentation invariance**: a complete request that fits the buffer is parsed exactly when its
last byte has been read, however the transport cuts it into reads -/
theorem segmentation_invariant {ρ : Type} (parse : List UInt8 → ParseRes ρ) (cap : Nat) (req : List UInt8) (r : ρ)
    (hs : PrefixStable parse req r) (hcap : req.length ≤ cap) (hne : 0 < req.length)
    (reads : List Nat) (hc : Covers 0 req.length reads) :
    readRequest parse cap req reads = .request r req.length :=
  readLoop_segmentation parse cap req r hs hcap hne reads 0 hne hc

/-- **an over-long or never-completing request ends the connection**: if nothing the buffer can hold
parses as a request, then once the buffer is full the loop returns `RequestBufferFull` - it neither
spins nor reads on (C12: no input keeps a connection task busy forever) -/
theorem oversize_ends {ρ : Type} (parse : List UInt8 → ParseRes ρ) (cap : Nat) (stream : List UInt8)
    (hnever : ∀ n r, n ≤ cap → parse (stream.take n) ≠ .done r) (hlen : cap ≤ stream.length) :
    ∀ (reads : List Nat) (pos : Nat), pos ≤ cap → Covers pos cap reads →
      readLoop parse cap stream pos reads = .bufferFull := by
  intro reads
  induction reads with
  | nil =>
    intro pos hp hc
    have : pos = cap := by simp [Covers] at hc; omega
    simp [readLoop, this]
  | cons k ks ih =>
    intro pos hp hc
    by_cases hpc : pos = cap
    · simp [readLoop, hpc]
    · simp only [readLoop, hpc, if_false]
      have hn : min (min (k + 1) (cap - pos)) (stream.length - pos) ≠ 0 := by omega
      simp only [hn, if_false]
      have hle : pos + min (min (k + 1) (cap - pos)) (stream.length - pos) ≤ cap := by omega
      have hcov : Covers (pos + min (min (k + 1) (cap - pos)) (stream.length - pos)) cap ks := by
        rcases hc with hc | hc
        · omega
        · by_cases hk : min (min (k + 1) (cap - pos)) (stream.length - pos) = k + 1
          · rw [hk]; exact hc
          · have : pos + min (min (k + 1) (cap - pos)) (stream.length - pos) = cap := by omega
            rw [this]
            cases ks with
            | nil => simp [Covers]
            | cons a t => exact Or.inl (Nat.le_refl _)
      cases hq : parse (stream.take (pos + min (min (k + 1) (cap - pos)) (stream.length - pos))) with
      | done r => exact absurd hq (hnever _ r hle)
      | more => exact ih _ hle hcov
      | bad => exact ih _ hle hcov

example : readRequest demoParse 64 [71, 69, 84, 13, 10, 13, 10] [4, 0, 0] = .request 7 7 := by decide
example : readRequest demoParse 64 [71, 69, 84, 13, 10, 13, 10] [0, 0, 0, 0, 0, 0, 0] = .request 7 7 := by decide
example : readRequest demoParse 4 [71, 69, 84, 13, 10, 13, 10] [9, 9, 9] = .bufferFull := by decide
example : PrefixStable demoParse [71, 69, 84, 13, 10, 13, 10] 7 := by
  refine ⟨by decide, ?_⟩
  have h : ∀ n : Fin 7, demoParse (([71, 69, 84, 13, 10, 13, 10] : List UInt8).take n.val) = .more := by decide
  intro n r' hn
  rw [h ⟨n, hn⟩]
  intro h
  cases h

end Aquatic.HttpRead
