/-
  The refinement theorem shared by C08 and C09 (and the no-panic part of C12 for this store):

    every history of announces (with offers / answers), scrapes, connection closures and cleaning
    passes on the model of the WebTorrent swarm worker plus the socket worker's per-connection
    records runs without a panic outcome and answers like the reference tracker, which keeps one
    entry per (torrent, peer id) owned by the connection that created it and drops, on close,
    what the connection owns.

  Only statements live here; helper lemmas are in Aquatic/Lemmas/Ws*.lean.
-/
import Aquatic.Lemmas.WsSys

namespace Aquatic.Ws

/-- the two random draws of an announce lie in the ranges the code asks the generator for -/
def OpOk (cfg : WsCfg) (s : Sys) : WOp → Prop
  | .ann conn _ req _ o1 o2 => AnnOffOk cfg s.m conn req o1 o2
  | _ => True

/-- the announce reaches the swarm worker (passes the gate and the one-peer-id-per-torrent rule) -/
def Reaches (rs : RefSys) (conn : ConnId) (allowed : Bool) (req : AnnReq) : Prop :=
  allowed = true ∧ ∀ pid', IMap.get (rs.bookOf conn) req.hash = some pid' → pid' = req.pid

/-- what "answers like the reference" means per operation -/
def OutRel (cfg : WsCfg) (s : Sys) (rs : RefSys) (recv : List Nat) : WOp → List Msg → List Msg → RefSys → Prop
  | .ann conn allowed req _ _ _, msgs, rmsgs, rs' =>
    msgs = rmsgs ∧
    (Reaches rs conn allowed req → Accepted rs.w conn req → req.stopped = false → Ref.recvOk cfg rs'.w.entries req recv)
  | .scr conn hashes, msgs, _, _ =>
    msgs = [Msg.scrape conn (httpScrapeFiles (listed s.m rs.w (hashes.take cfg.maxScrape)))] ∧
    (∀ f ∈ Ref.scrapeFiles cfg rs.w hashes, f ∈ listed s.m rs.w (hashes.take cfg.maxScrape)) ∧
    (∀ f ∈ listed s.m rs.w (hashes.take cfg.maxScrape), f ∈ Ref.scrapeFiles cfg rs.w hashes ∨
      (f.1 ∈ hashes.take cfg.maxScrape ∧ Ref.ofTorrent rs.w.entries f.1 = [] ∧ f.2 = (0, 0)))
  | .close _, msgs, rmsgs, _ => msgs = rmsgs
  | .clean _ _, msgs, rmsgs, _ => msgs = rmsgs

/-- One operation: no panic, simulation preserved, messages related to the reference's. -/
theorem step_refines (cfg : WsCfg) (s : Sys) (rs : RefSys) (op : WOp) (h : SysSim s rs) (hok : OpOk cfg s op) :
    ∃ s' msgs recv, sysStep cfg s op = .ok (s', msgs) ∧ SysSim s' (refStep cfg rs recv op).1 ∧
      OutRel cfg s rs recv op msgs (refStep cfg rs recv op).2 (refStep cfg rs recv op).1 := by
  cases op with
  | ann conn allowed req now o1 o2 =>
    cases hal : allowed with
    | false =>
      refine ⟨s, [Msg.error conn (some req.hash)], [], by simp [sysStep], by simpa [refStep] using h, by simp [refStep], ?_⟩
      intro hr; exact absurd hr.1 (by simp)
    | true =>
      have hbk := bookOf_eq h conn
      cases hg : IMap.get (rs.bookOf conn) req.hash with
      | some pid' =>
        by_cases hne : pid' = req.pid
        · -- same peer id as before on this torrent
          obtain ⟨m', msgs, recv, hok', hmsgs, hsim, hrecv⟩ := sysAnnounce_sim cfg h conn req now o1 o2 hok
            (by intro p hp; rw [hg] at hp; cases hp; exact hne)
          refine ⟨⟨m', IMap.insert s.books conn (bookAfter (bookOf s conn) req)⟩, msgs, recv, ?_, ?_, ?_, ?_⟩
          · simp [sysStep, hbk, hg, hne, hok', bind, Except.bind, pure, Except.pure]
          · simpa [refStep, hg, hne] using hsim
          · simp [refStep, hg, hne, hmsgs]
          · intro _ ha hs; simpa [refStep, hg, hne] using hrecv ha hs
        · -- a second peer id for the torrent: error reply, the connection ends
          obtain ⟨s', hc, hs'⟩ := sysClose_sim h conn
          refine ⟨s', [Msg.error conn (some req.hash)], [], ?_, ?_, ?_, ?_⟩
          · simp [sysStep, hbk, hg, hne, hc, bind, Except.bind, pure, Except.pure]
          · simpa [refStep, hg, hne] using hs'
          · simp [refStep, hg, hne]
          · intro hr; exact absurd (hr.2 pid' hg) hne
      | none =>
        obtain ⟨m', msgs, recv, hok', hmsgs, hsim, hrecv⟩ := sysAnnounce_sim cfg h conn req now o1 o2 hok
          (by intro p hp; rw [hg] at hp; cases hp)
        refine ⟨⟨m', IMap.insert s.books conn (bookAfter (bookOf s conn) req)⟩, msgs, recv, ?_, ?_, ?_, ?_⟩
        · simp [sysStep, hbk, hg, hok', bind, Except.bind, pure, Except.pure]
        · simpa [refStep, hg] using hsim
        · simp [refStep, hg, hmsgs]
        · intro _ ha hs; simpa [refStep, hg] using hrecv ha hs
  | scr conn hashes =>
    have hl := scrapeList_sim h.sim (hashes.take cfg.maxScrape)
    obtain ⟨ha, hb⟩ := scrape_listing cfg h.sim hashes
    refine ⟨s, [Msg.scrape conn (httpScrapeFiles (listed s.m rs.w (hashes.take cfg.maxScrape)))], [], ?_, by simpa [refStep] using h, rfl, ha, hb⟩
    simp [sysStep, scrape, hl, bind, Except.bind, pure, Except.pure]
  | close conn =>
    obtain ⟨s', hc, hs'⟩ := sysClose_sim h conn
    refine ⟨s', [], [], ?_, by simpa [refStep] using hs', by simp [refStep, OutRel]⟩
    simp [sysStep, hc, bind, Except.bind, pure, Except.pure]
  | clean now allowed =>
    obtain ⟨m', hc, hs'⟩ := clean_sim h.sim now allowed
    refine ⟨⟨m', s.books⟩, [], [], ?_, ?_, by simp [refStep, OutRel]⟩
    · simp [sysStep, hc, bind, Except.bind, pure, Except.pure]
    · exact ⟨by simpa [refStep] using hs', by simp [refStep, h.books], by simpa [refStep] using h.booksNodup,
        by intro c; simpa [refStep, RefSys.bookOf] using h.bookNodup c,
        by
          intro e he
          simp only [refStep, Ref.clean, List.mem_filter] at he
          simpa [refStep, RefSys.bookOf] using h.covers e he.1⟩

/-! ### histories -/

def run (cfg : WsCfg) : Sys → List WOp → Except Panic (List (List Msg))
  | _, [] => .ok []
  | s, op :: ops =>
    match sysStep cfg s op with
    | .error e => .error e
    | .ok r =>
      match run cfg r.1 ops with
      | .error e => .error e
      | .ok outs => .ok (r.2 :: outs)

/-- the draws of every announce of the history are in range, each w.r.t. the state it meets -/
def OpsOk (cfg : WsCfg) : Sys → List WOp → Prop
  | _, [] => True
  | s, op :: ops =>
    OpOk cfg s op ∧ (match sysStep cfg s op with
      | .ok r => OpsOk cfg r.1 ops
      | .error _ => False)

instance (cfg : WsCfg) (s : Sys) (op : WOp) : Decidable (OpOk cfg s op) := by
  cases op <;> simp only [OpOk] <;> infer_instance

def decOpsOk (cfg : WsCfg) : (s : Sys) → (ops : List WOp) → Decidable (OpsOk cfg s ops)
  | _, [] => isTrue trivial
  | s, op :: ops =>
    match hstep : sysStep cfg s op with
    | .ok r =>
      match decOpsOk cfg r.1 ops with
      | isTrue h1 =>
        if h2 : OpOk cfg s op then isTrue (by simp only [OpsOk, hstep]; exact ⟨h2, h1⟩)
        else isFalse (by simp only [OpsOk]; exact fun h => h2 h.1)
      | isFalse h1 => isFalse (by simp only [OpsOk, hstep]; exact fun h => h1 h.2)
    | .error _ => isFalse (by simp only [OpsOk, hstep]; exact fun h => h.2)

instance (cfg : WsCfg) (s : Sys) (ops : List WOp) : Decidable (OpsOk cfg s ops) := decOpsOk cfg s ops

/-- the history answers like the reference run for some allowed choices of offer receivers -/
def Answers (cfg : WsCfg) : Sys → RefSys → List WOp → List (List Msg) → Prop
  | _, _, [], [] => True
  | s, rs, op :: ops, o :: os =>
    ∃ recv, OutRel cfg s rs recv op o (refStep cfg rs recv op).2 (refStep cfg rs recv op).1 ∧
      (match sysStep cfg s op with
       | .ok r => Answers cfg r.1 (refStep cfg rs recv op).1 ops os
       | .error _ => False)
  | _, _, _, _ => False

/-- **Refinement.** Every history, every in-range outcome of the random draws: the tracker never
panics and each operation's messages are the reference tracker's. -/
theorem refines (cfg : WsCfg) (ops : List WOp) : ∀ (s : Sys) (rs : RefSys),
    SysSim s rs → OpsOk cfg s ops → ∃ outs, run cfg s ops = .ok outs ∧ Answers cfg s rs ops outs := by
  induction ops with
  | nil => intro s rs _ _; exact ⟨[], rfl, trivial⟩
  | cons op ops ih =>
    intro s rs hs hok
    obtain ⟨hop, hrest⟩ := hok
    obtain ⟨s', msgs, recv, hstep, hsim', hrel⟩ := step_refines cfg s rs op hs hop
    rw [hstep] at hrest
    obtain ⟨outs, hrun, hall⟩ := ih s' _ hsim' hrest
    refine ⟨msgs :: outs, ?_, recv, hrel, ?_⟩
    · simp [run, hstep, hrun]
    · rw [hstep]; exact hall

theorem refines_from_start (cfg : WsCfg) (ops : List WOp) (hok : OpsOk cfg {} ops) :
    ∃ outs, run cfg {} ops = .ok outs ∧ Answers cfg {} {} ops outs :=
  refines cfg ops {} {} sysSim_init hok

end Aquatic.Ws
