/-
  C03 — Stored peer addresses are the real source addresses.

  Pure parts proved here: canonicalisation of IPv4-mapped addresses (all three
  trackers agree on the family), and which text of which header occurrence the
  reverse-proxy mode hands to the IP parser.  Non-interference of in-request
  address fields: the store models (Model/Store.lean, Model/Ws.lean) take the
  key from the network-level source only — the request's own `ip_address` field
  is not an input of `step`; the correspondence run varies it on the real code.
  The socket configuration clause (dual-stack sockets) is exercised by the
  socket-level runs of C06/C16, not proved.
-/
import Aquatic.Model.Forwarded

namespace Aquatic.C03

open Aquatic

theorem canonical_idem (ip : Ip) : canonical (canonical ip) = canonical ip := by
  cases ip with
  | v4 a => rfl
  | v6 hi lo =>
    by_cases h : hi = 0xffff
    · simp [canonical, h]
    · simp [canonical, h]

/-- `::ffff:a.b.c.d` is the IPv4 address `a.b.c.d` -/
theorem canonical_mapped (lo : Nat) : canonical (.v6 0xffff lo) = .v4 lo := by
  simp [canonical]

/-- only IPv4-mapped addresses change -/
theorem canonical_other_v6 (hi lo : Nat) (h : hi ≠ 0xffff) : canonical (.v6 hi lo) = .v6 hi lo := by
  simp [canonical, h]

/-- the result is never an IPv4-mapped IPv6 address -/
theorem canonical_never_mapped (ip : Ip) (lo : Nat) : canonical ip ≠ .v6 0xffff lo := by
  cases ip with
  | v4 a => simp [canonical]
  | v6 hi lo' =>
    by_cases h : hi = 0xffff
    · simp [canonical, h]
    · simp only [canonical, h, ↓reduceIte]
      intro e
      injection e with e1 _
      exact h e1

/-- the WebTorrent tracker's family choice agrees with the canonical address of UDP and HTTP:
a host reached through a dual-stack socket and through plain IPv4 lands in the same swarm -/
theorem families_agree (ip : Ip) : wsFamilyV4 ip = (canonical ip).isV4 := by
  cases ip with
  | v4 a => rfl
  | v6 hi lo =>
    by_cases h : hi = 0xffff
    · simp [wsFamilyV4, canonical, h, Ip.isV4]
    · simp [wsFamilyV4, canonical, h, Ip.isV4]

theorem same_peer_via_both_socket_types (lo : Nat) : canonical (.v6 0xffff lo) = canonical (.v4 lo) := by
  simp [canonical]

/-- the 12-octet prefix `0,…,0,0xff,0xff` is the number 0xffff (the pattern matched in the source) -/
theorem mapped_prefix_octets :
    ([0, 0, 0, 0, 0, 0, 0, 0, 0, 0, 0xff, 0xff] : List Nat).foldl (fun acc b => acc * 256 + b) 0 = 0xffff := by
  decide

/-! ### reverse-proxy mode: last address of the last occurrence of the configured header -/

theorem lastHeader_append_hit (name : String) (pre post : List (String × HBytes)) (v : HBytes)
    (hpost : ∀ x ∈ post, x.1 ≠ name) :
    lastHeader name (pre ++ (name, v) :: post) = some v := by
  have hp : lastHeader name post = none := by
    induction post with
    | nil => rfl
    | cons x t ih =>
      have := ih (fun y hy => hpost y (List.mem_cons_of_mem _ hy))
      have hx := hpost x List.mem_cons_self
      obtain ⟨n, w⟩ := x
      simp only [lastHeader, this]
      simp only at hx
      simp [hx]
  induction pre with
  | nil => simp [lastHeader, hp]
  | cons x t ih =>
    obtain ⟨n, w⟩ := x
    simp only [List.cons_append, lastHeader, ih]

theorem lastHeader_none (name : String) (hs : List (String × HBytes)) (h : ∀ x ∈ hs, x.1 ≠ name) :
    lastHeader name hs = none := by
  induction hs with
  | nil => rfl
  | cons x t ih =>
    have := ih (fun y hy => h y (List.mem_cons_of_mem _ hy))
    have hx := h x List.mem_cons_self
    obtain ⟨n, w⟩ := x
    simp only at hx
    simp [lastHeader, this, hx]

theorem lastPiece_no_comma (b : HBytes) (h : (44 : UInt8) ∉ b) : lastPiece b = b := by
  induction b with
  | nil => rfl
  | cons c t ih =>
    simp only [List.mem_cons, not_or] at h
    have hc : c ≠ 44 := fun e => h.1 e.symm
    simp [lastPiece, h.2, hc]

theorem lastPiece_append (a b : HBytes) (h : (44 : UInt8) ∉ b) : lastPiece (a ++ 44 :: b) = b := by
  induction a with
  | nil => simp [lastPiece, h]
  | cons c t ih =>
    have : (44 : UInt8) ∈ t ++ 44 :: b := by simp
    simp [lastPiece, this, ih]

/-- the address used is the last comma-separated piece of the last header named `name`,
whatever other occurrences of the header and other pieces precede it -/
theorem forwarded_last_of_last (parseIp : HBytes → Option Ip) (name : String)
    (pre post : List (String × HBytes)) (a b : HBytes)
    (hpost : ∀ x ∈ post, x.1 ≠ name) (hb : (44 : UInt8) ∉ b) :
    forwardedIp parseIp name (pre ++ (name, a ++ 44 :: b) :: post) = parseIp (trimAscii b) := by
  simp [forwardedIp, forwardedText, lastHeader_append_hit name pre post _ hpost, lastPiece_append a b hb]

theorem forwarded_single_value (parseIp : HBytes → Option Ip) (name : String)
    (pre post : List (String × HBytes)) (b : HBytes)
    (hpost : ∀ x ∈ post, x.1 ≠ name) (hb : (44 : UInt8) ∉ b) :
    forwardedIp parseIp name (pre ++ (name, b) :: post) = parseIp (trimAscii b) := by
  simp [forwardedIp, forwardedText, lastHeader_append_hit name pre post _ hpost, lastPiece_no_comma b hb]

theorem forwarded_missing (parseIp : HBytes → Option Ip) (name : String) (hs : List (String × HBytes))
    (h : ∀ x ∈ hs, x.1 ≠ name) : forwardedIp parseIp name hs = none := by
  simp [forwardedIp, forwardedText, lastHeader_none name hs h]

/-! ### non-vacuity -/
-- bytes of "1, 2" then (second occurrence) " 3 ,\t4 " → "4"
example : (forwardedText "X" [("X", [49, 44, 32, 50]), ("H", [104]), ("X", [32, 51, 32, 44, 9, 52, 32])]).map
    (·.map UInt8.toNat) = some [52] := by
  decide

end Aquatic.C03
