/-
  C15 — WebTorrent JSON codec round-trips; 20-byte ids are exact.
  Part 1: the identifier layer (repository code).  Part 2 (messages ↔ JSON values)
  is in Props/C15Msg.lean.
-/
import Aquatic.Model.Ws20

namespace Aquatic.C15

open Aquatic

theorem de20Loop_spec (k : Nat) : ∀ (cs : List Nat),
    (∀ bs rest, de20Loop k cs = .ok (bs, rest) ↔
      (k ≤ cs.length ∧ bs = cs.take k ∧ rest = cs.drop k ∧ ∀ c ∈ cs.take k, c ≤ 255)) := by
  induction k with
  | zero =>
    intro cs bs rest
    simp only [de20Loop, Except.ok.injEq, Prod.mk.injEq, Nat.zero_le, List.take_zero, List.drop_zero,
      List.not_mem_nil, false_imp_iff, implies_true, and_true, true_and]
    constructor
    · rintro ⟨e1, e2⟩; exact ⟨e1.symm, e2.symm⟩
    · rintro ⟨e1, e2⟩; exact ⟨e1.symm, e2.symm⟩
  | succ k ih =>
    intro cs bs rest
    cases cs with
    | nil => simp [de20Loop]
    | cons c t =>
      by_cases hc : c > 255
      · simp only [de20Loop, hc, ↓reduceIte, List.length_cons, List.take_succ_cons, List.mem_cons,
          forall_eq_or_imp, List.drop_succ_cons]
        constructor
        · intro h; cases h
        · intro h; omega
      · have hc' : c ≤ 255 := by omega
        simp only [de20Loop, hc, ↓reduceIte, List.length_cons, List.take_succ_cons, List.mem_cons,
          forall_eq_or_imp, List.drop_succ_cons]
        cases hl : de20Loop k t with
        | error e =>
          simp only [reduceCtorEq, false_iff, not_and]
          intro hk hb hr _
          have := (ih t (t.take k) (t.drop k)).mpr
          intro hall
          have h2 := this ⟨by omega, rfl, rfl, hall⟩
          rw [hl] at h2; cases h2
        | ok p =>
          obtain ⟨bs', rest'⟩ := p
          have := (ih t bs' rest').mp hl
          obtain ⟨h1, h2, h3, h4⟩ := this
          simp only [Except.ok.injEq, Prod.mk.injEq]
          constructor
          · rintro ⟨e1, e2⟩
            subst e1; subst e2
            exact ⟨by omega, by rw [h2], h3, hc', h4⟩
          · rintro ⟨_, e1, e2, _, _⟩
            exact ⟨by rw [e1, h2], by rw [e2, h3]⟩

/-- **exactly** the strings of 20 characters in U+0000–U+00FF are accepted — no shorter,
no longer, no other characters — and the bytes are the code points -/
theorem de20_exact (chars bs : List Nat) :
    de20 chars = .ok bs ↔ (chars.length = 20 ∧ (∀ c ∈ chars, c ≤ 255) ∧ bs = chars) := by
  unfold de20
  cases hl : de20Loop 20 chars with
  | error e =>
    simp only [reduceCtorEq, false_iff, not_and]
    intro hlen hall
    have := (de20Loop_spec 20 chars (chars.take 20) (chars.drop 20)).mpr
      ⟨by omega, rfl, rfl, fun c hc => hall c (List.mem_of_mem_take hc)⟩
    rw [hl] at this; cases this
  | ok p =>
    obtain ⟨b, rest⟩ := p
    obtain ⟨h1, h2, h3, h4⟩ := (de20Loop_spec 20 chars b rest).mp hl
    simp only
    by_cases he : rest.isEmpty
    · have hr : chars.drop 20 = [] := by rw [← h3]; simpa using he
      have hlen : chars.length = 20 := by
        have := congrArg List.length hr
        simp only [List.length_drop, List.length_nil] at this
        omega
      have ht : chars.take 20 = chars := List.take_of_length_le (by omega)
      simp only [he, ↓reduceIte, Except.ok.injEq]
      constructor
      · intro e; subst e
        exact ⟨hlen, by rw [ht] at h4; exact h4, by rw [h2, ht]⟩
      · rintro ⟨_, _, e⟩; rw [e, h2, ht]
    · simp only [he, Bool.false_eq_true, ↓reduceIte, reduceCtorEq, false_iff, not_and]
      intro hlen
      exfalso; apply he
      rw [h3]
      simp [List.drop_eq_nil_iff, hlen]

/-- a 20-byte identifier is encoded as exactly 20 characters in U+0000–U+00FF … -/
theorem ser20_shape (bytes : List Nat) (hl : bytes.length = 20) (hb : ∀ b ∈ bytes, b ≤ 255) :
    (ser20 bytes).length = 20 ∧ ∀ c ∈ ser20 bytes, c ≤ 255 := ⟨hl, hb⟩

/-- … and decodes back to itself -/
theorem de20_ser20 (bytes : List Nat) (hl : bytes.length = 20) (hb : ∀ b ∈ bytes, b ≤ 255) :
    de20 (ser20 bytes) = .ok bytes :=
  (de20_exact (ser20 bytes) bytes).mpr ⟨hl, hb, rfl⟩

theorem de20_rejects_longer (chars : List Nat) (h : 20 < chars.length) : ∀ bs, de20 chars ≠ .ok bs := by
  intro bs hb
  have := (de20_exact chars bs).mp hb
  omega

theorem de20_rejects_shorter (chars : List Nat) (h : chars.length < 20) : ∀ bs, de20 chars ≠ .ok bs := by
  intro bs hb
  have := (de20_exact chars bs).mp hb
  omega

/-- Finding F1 (fixed): the visitor of the pinned commit accepted 21 characters, truncating -/
theorem pinned_visitor_accepted_overlong :
    de20Pinned (List.replicate 21 97) = .ok (List.replicate 20 97) := by decide

example : de20 (List.replicate 20 255) = .ok (List.replicate 20 255) ∧
    de20 (List.replicate 21 97) = .error .not20 ∧ de20 (List.replicate 19 97) = .error .not20 ∧
    de20 (256 :: List.replicate 19 97) = .error .notSingleByte := by decide

end Aquatic.C15
