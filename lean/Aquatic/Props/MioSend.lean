/-
  C06, mio back end - "each datagram causes at most one datagram to be sent": what the send path with
  its resend buffer does to a computed reply, whatever `send_to` returns.

  Model: Aquatic.Model.MioSend.  Proved for every sequence of replies and resend passes and every
  outcome of every `send_to`: each reply is, exactly once, on the wire, in the resend buffer, or
  dropped (`reply_accounted_once`) - so no reply goes out twice, resends included; the buffer never
  exceeds `resend_buffer_max_len` and stays empty when it is disabled (`buffer_bounded`); a resend pass
  leaves the buffer empty: a reply is tried at most twice (`resend_empties`).
  Tie: the two call shapes (`false` on the first attempt, `true` inside `resend_failed`) are
  regenerated from socket.rs and pinned (`resend_flags_as_modelled`); the `sent` path is what the
  socket-level runs of C06 exercise.  EWOULDBLOCK cannot be provoked deterministically on loopback: the
  other outcomes are modelled, not exercised.
-/
import Aquatic.Model.MioSend
import Aquatic.Generated.Locks

namespace Aquatic.MioSend.Props

open Aquatic.MioSend

/-- everything the state accounts for -/
def acct {ρ : Type} (s : S ρ) : List ρ := s.wire ++ buffered s ++ s.dropped

theorem sendResponse_acct {ρ : Type} (s : S ρ) (r : ρ) (d : Bool) (o : SendRes) :
    (acct (sendResponse s r d o)).Perm (acct s ++ [r]) := by
  cases o with
  | sent =>
    simp only [sendResponse, acct, buffered, List.append_assoc]
    exact List.Perm.append_left _ (by
      simpa [List.append_assoc] using
        (List.perm_append_comm : ([r] ++ (s.resend.getD [] ++ s.dropped)).Perm ((s.resend.getD [] ++ s.dropped) ++ [r])))
  | otherErr => simp only [sendResponse, acct, buffered, List.append_assoc]; exact List.Perm.refl _
  | wouldBlock =>
    simp only [sendResponse]
    cases hb : s.resend with
    | none => simp only [acct, buffered, hb, List.append_assoc]; exact List.Perm.refl _
    | some buf =>
      simp only
      cases d with
      | true => simp only [Bool.not_true, Bool.false_eq_true, if_false, acct, buffered, hb, List.append_assoc]; exact List.Perm.refl _
      | false =>
        simp only [Bool.not_false, if_true]
        split
        · simp only [acct, buffered, hb, Option.getD_some, List.append_assoc]
          exact List.Perm.append_left _ (List.Perm.append_left _ List.perm_append_comm)
        · simp only [acct, buffered, hb, List.append_assoc]; exact List.Perm.refl _

theorem sendAll_acct {ρ : Type} : ∀ (rs : List ρ) (os : List SendRes) (s : S ρ),
    (acct (sendAll s rs os)).Perm (acct s ++ rs)
  | [], _, s => by simp [sendAll]
  | r :: rs, [], s => by
    have h1 := sendAll_acct rs [] (sendResponse s r true .sent)
    have h2 := (sendResponse_acct s r true .sent).append_right rs
    simpa [sendAll, List.append_assoc] using h1.trans h2
  | r :: rs, o :: os, s => by
    have h1 := sendAll_acct rs os (sendResponse s r true o)
    have h2 := (sendResponse_acct s r true o).append_right rs
    simpa [sendAll, List.append_assoc] using h1.trans h2

theorem resendFailed_acct {ρ : Type} (s : S ρ) (os : List SendRes) : (acct (resendFailed s os)).Perm (acct s) := by
  unfold resendFailed
  cases hb : s.resend with
  | none => exact List.Perm.refl _
  | some buf =>
    simp only
    have h := sendAll_acct buf os { s with resend := some [] }
    refine h.trans ?_
    simp only [acct, buffered, hb, Option.getD_some, List.append_nil, List.append_assoc]
    exact List.Perm.append_left _ List.perm_append_comm

/-- **Each reply is accounted for exactly once**: on the wire, waiting in the resend buffer, or
dropped - after any sequence of first attempts and resend passes with any outcomes. -/
theorem reply_accounted_once {ρ : Type} : ∀ (evs : List (Ev ρ)) (s : S ρ),
    (acct (run s evs)).Perm (acct s ++ replies evs)
  | [], s => by simp [run, replies]
  | .reply r o :: t, s => by
    have h1 := reply_accounted_once t (sendResponse s r false o)
    have h2 := (sendResponse_acct s r false o).append_right (replies t)
    simpa [run, step, replies, List.append_assoc] using h1.trans h2
  | .resend os :: t, s => by
    have h1 := reply_accounted_once t (resendFailed s os)
    have h2 := (resendFailed_acct s os).append_right (replies t)
    simpa [run, step, replies] using h1.trans h2

/-- from a fresh worker: what went out, what waits and what was given up is, as a multiset, exactly
the replies computed - in particular no reply is on the wire twice -/
theorem fresh_worker {ρ : Type} (maxLen : Nat) (evs : List (Ev ρ)) :
    (acct (run ⟨if maxLen > 0 then some [] else none, maxLen, [], []⟩ evs)).Perm (replies evs) := by
  have := reply_accounted_once evs (⟨if maxLen > 0 then some [] else none, maxLen, [], []⟩ : S ρ)
  refine this.trans ?_
  split <;> simp [acct, buffered]

def Bounded {ρ : Type} (s : S ρ) : Prop := (buffered s).length ≤ s.maxLen

theorem sendResponse_bounded {ρ : Type} (s : S ρ) (r : ρ) (d : Bool) (o : SendRes) (h : Bounded s) :
    Bounded (sendResponse s r d o) := by
  cases o with
  | sent => exact h
  | otherErr => exact h
  | wouldBlock =>
    unfold Bounded buffered at *
    simp only [sendResponse]
    cases hb : s.resend with
    | none => simp
    | some buf =>
      rw [hb] at h
      simp only [Option.getD_some] at h
      cases d with
      | true => simpa [hb] using h
      | false =>
        simp only [Bool.not_false, if_true]
        split
        · simp only [Option.getD_some, List.length_append, List.length_cons, List.length_nil]; omega
        · simpa [hb] using h

theorem sendAll_resend {ρ : Type} : ∀ (rs : List ρ) (os : List SendRes) (s : S ρ),
    (sendAll s rs os).resend = s.resend ∧ (sendAll s rs os).maxLen = s.maxLen
  | [], _, s => ⟨rfl, rfl⟩
  | r :: rs, [], s => by
    have h := sendAll_resend rs [] (sendResponse s r true .sent)
    simpa [sendAll, sendResponse] using h
  | r :: rs, o :: os, s => by
    have h := sendAll_resend rs os (sendResponse s r true o)
    simp only [sendAll]
    refine ⟨h.1.trans ?_, h.2.trans ?_⟩
    · cases o with
      | sent => rfl
      | otherErr => rfl
      | wouldBlock => simp only [sendResponse]; cases s.resend <;> simp
    · cases o with
      | sent => rfl
      | otherErr => rfl
      | wouldBlock => simp only [sendResponse]; cases s.resend <;> simp

/-- a resend pass leaves the buffer empty (or absent): nothing is tried a third time -/
theorem resend_empties {ρ : Type} (s : S ρ) (os : List SendRes) : buffered (resendFailed s os) = [] := by
  unfold resendFailed
  cases hb : s.resend with
  | none => simp [buffered, hb]
  | some buf =>
    simp only
    have := (sendAll_resend buf os { s with resend := some [] }).1
    simp [buffered, this]

/-- the resend buffer never holds more than `resend_buffer_max_len` replies -/
theorem buffer_bounded {ρ : Type} : ∀ (evs : List (Ev ρ)) (s : S ρ), Bounded s → Bounded (run s evs)
  | [], s, h => h
  | .reply r o :: t, s, h => by
    have := sendResponse_bounded s r false o h
    exact buffer_bounded t _ this
  | .resend os :: t, s, h => by
    have h0 : Bounded (resendFailed s os) := by simp [Bounded, resend_empties]
    exact buffer_bounded t _ h0

/-! ### tie: the two call shapes of `send_response` in socket.rs -/

theorem resend_flags_as_modelled :
    Generated.mioSendResponseFlags = [("read_and_handle_requests", "false"), ("read_and_handle_requests", "false"), ("resend_failed", "true")] := by
  decide

/-! ### non-vacuity -/
example : (run (⟨some [], 1, [], []⟩ : S Nat) [.reply 1 .wouldBlock, .reply 2 .wouldBlock, .reply 3 .sent, .resend [.wouldBlock]]).wire = [3] ∧
    (run (⟨some [], 1, [], []⟩ : S Nat) [.reply 1 .wouldBlock, .reply 2 .wouldBlock, .reply 3 .sent, .resend [.wouldBlock]]).dropped = [2, 1] := by decide

example : (run (⟨some [], 2, [], []⟩ : S Nat) [.reply 1 .wouldBlock, .reply 2 .sent, .resend [.sent]]).wire = [2, 1] := by decide

end Aquatic.MioSend.Props
