/-
  C13 — UDP wire codec conforms to BEP 15 and round-trips.

  * `Spec/Bep15.lean`   the BEP 15 byte tables, written independently
  * `Generated/Layouts` field order / widths / discriminants / action codes
                        extracted from crates/udp_protocol on every run
  * `Model/UdpCodec`    the writers and parsers over the generated layouts
-/
import Aquatic.Lemmas.Bytes

namespace Aquatic.C13

open Aquatic Aquatic.Bep15 Aquatic.UdpCodec

/-! ### conformance of what the source declares -/

/-- the packed structs of the source have exactly the BEP 15 field order and widths -/
theorem layouts_conform :
    Generated.announceRequest = Bep15.announceRequest ∧
    Generated.connectResponse = Bep15.connectResponse ∧
    Generated.announceResponseFixed = Bep15.announceResponseFixed ∧
    Generated.scrapeStats = Bep15.scrapeStats ∧
    Generated.responsePeerV4 = Bep15.responsePeerV4 ∧
    Generated.responsePeerV6 = Bep15.responsePeerV6 := by decide

/-- enum discriminants, action codes written and matched, protocol id, action offset -/
theorem codes_conform :
    (∀ e, evCodeGen e = some (evCode e)) ∧
    Generated.announceActionPlaceholder = actionCode .announce ∧
    (∀ k, k ≠ Kind.error → codeOf Generated.requestParseActions k = some (actionCode k)) ∧
    (∀ k, codeOf Generated.responseParseActions k = some (actionCode k)) ∧
    (∀ k, codeOf Generated.responseWriteActions k = some (actionCode k)) ∧
    codeOf Generated.requestWriteActions .connect = some (actionCode .connect) ∧
    codeOf Generated.requestWriteActions .scrape = some (actionCode .scrape) ∧
    Generated.protocolIdentifier = protocolId ∧
    Generated.requestActionOffset = 8 ∧ Generated.requestActionEnd = 12 := by
  refine ⟨by intro e; cases e <;> decide, by decide, ?_, by intro k; cases k <;> decide,
    by intro k; cases k <;> decide, by decide, by decide, by decide, by decide, by decide⟩
  intro k hk; cases k <;> first | decide | exact absurd rfl hk

/-! ### every message serialises to exactly the BEP 15 byte layout -/

theorem encode_request_conforms (r : Request) : encodeRequest r = encRequest r := by
  cases r with
  | connect tid => simp [encodeRequest, encRequest, codeOf, Generated.requestWriteActions,
      Generated.protocolIdentifier, protocolId]
  | announce a =>
    have he : (evCodeGen a.event).getD 0 = evCode a.event := by cases a.event <;> decide
    simp [encodeRequest, encRequest, encodeStruct, Generated.announceRequest, annVals, he,
      Generated.announceActionPlaceholder]
  | scrape cid tid hs => simp [encodeRequest, encRequest, codeOf, Generated.requestWriteActions]

theorem encode_response_conforms (r : Response) : encodeResponse r = encResponse r := by
  cases r with
  | connect tid cid =>
    simp [encodeResponse, encResponse, wAct, codeOf, Generated.responseWriteActions, encodeStruct,
      Generated.connectResponse, connVals]
  | announce v6 tid i l s peers =>
    cases v6 <;>
    simp [encodeResponse, encResponse, wAct, codeOf, Generated.responseWriteActions, encodeStruct,
      Generated.announceResponseFixed, peerLayout, Generated.responsePeerV4, Generated.responsePeerV6,
      peerVals, fixedVals] <;> rfl
  | scrape tid stats =>
    simp [encodeResponse, encResponse, wAct, codeOf, Generated.responseWriteActions, encodeStruct,
      Generated.scrapeStats, statsVals]
    rfl
  | error tid msg =>
    simp [encodeResponse, encResponse, wAct, codeOf, Generated.responseWriteActions]

/-! ### the request parser accepts every conforming datagram with the right field values -/

theorem parse_connect (tid : Nat) (ext : Bytes) (ms : Nat) (h : tid < 256 ^ 4) :
    parseRequest (encRequest (.connect tid) ++ ext) ms = .ok (.connect tid) := by
  have e : encRequest (.connect tid) ++ ext = natBE 8 protocolId ++ (natBE 4 0 ++ (natBE 4 tid ++ ext)) := by
    simp [encRequest]
  obtain ⟨s0, s1, s2, _⟩ := header_slices protocolId 0 tid ext
  rw [e, parseRequest_connect _ _ ms s1 (beNat_natBE 4 0 (by omega)), parseConnect_of _ _ _ _ s0 s1 s2,
    beNat_natBE 8 protocolId (by decide), beNat_natBE 4 tid h, codes_conform.2.2.2.2.2.2.2.1]
  simp

theorem announce_bytes (a : AnnReq) (ext : Bytes) :
    encRequest (.announce a) ++ ext = natBE 8 a.connectionId ++ (natBE 4 1 ++
        (natBE 4 a.transactionId ++ (natBE 20 a.infoHash ++ natBE 20 a.peerId ++ natBE 8 a.downloaded ++
         natBE 8 a.left ++ natBE 8 a.uploaded ++ natBE 4 (evCode a.event) ++ natBE 4 a.ip ++
         natBE 4 a.key ++ natBE 4 a.numWant ++ natBE 2 a.port ++ ext))) := by
  simp [encRequest]

/-- announces followed by extension bytes (BEP 41) are accepted, every field with its value -/
theorem parse_announce (a : AnnReq) (ext : Bytes) (ms : Nat) (h : a.wf) (hp : a.port ≠ 0) :
    parseRequest (encRequest (.announce a) ++ ext) ms = .ok (.announce a) := by
  obtain ⟨h1, h2, h3, h4, h5, h6, h7, h8, h9, h10, h11⟩ := h
  have he : (evCodeGen a.event).getD 0 = evCode a.event := by cases a.event <;> decide
  have hev : evCode a.event < 256 ^ 4 := by cases a.event <;> simp [evCode]
  have hvals : ∀ fw ∈ Generated.announceRequest, annVals a fw.1 < 256 ^ fw.2 := by
    intro fw hfw
    simp only [Generated.announceRequest, List.mem_cons, List.mem_nil_iff, or_false] at hfw
    rcases hfw with e | e | e | e | e | e | e | e | e | e | e | e | e <;> subst e <;>
      simp only [annVals, he, Generated.announceActionPlaceholder] <;> first | assumption | omega
  have hdec := decodeStruct_encodeStruct Generated.announceRequest (annVals a) ext hvals
  have henc : encodeStruct Generated.announceRequest (annVals a) = encRequest (.announce a) :=
    encode_request_conforms (.announce a)
  rw [henc] at hdec
  have hsl : slice (encRequest (.announce a) ++ ext) 8 12 = some (natBE 4 1) := by
    rw [announce_bytes]
    exact (header_slices _ _ _ _).2.1
  have hann : annOfVals (Generated.announceRequest.map (fun fw => (fw.1, annVals a fw.1))) =
      some (a, Generated.announceActionPlaceholder) := by
    have : evOfCodeGen (evCode a.event) = some a.event := by
      rw [evOfCodeGen_eq]; cases a.event <;> rfl
    simp [annOfVals, Generated.announceRequest, get?, annVals, he, this, bind, Option.bind]
  rw [parseRequest_announce _ _ ms hsl (beNat_natBE 4 1 (by omega))]
  exact parseAnnounce_ok _ _ _ a hdec hann hp

/-- a scrape is accepted and cut to the first `max_scrape_torrents` hashes, in request order -/
theorem parse_scrape (cid tid : Nat) (hs : List Nat) (ms : Nat) (hc : cid < 256 ^ 8) (ht : tid < 256 ^ 4)
    (hh : ∀ x ∈ hs, x < 256 ^ 20) (hne : hs ≠ []) :
    parseRequest (encRequest (.scrape cid tid hs)) ms = .ok (.scrape cid tid (hs.take ms)) := by
  have e : encRequest (.scrape cid tid hs) =
      natBE 8 cid ++ (natBE 4 2 ++ (natBE 4 tid ++ hs.flatMap (natBE 20))) := by simp [encRequest]
  obtain ⟨s0, s1, s2, hd⟩ := header_slices cid 2 tid (hs.flatMap (natBE 20))
  have hl := flatMap_natBE_length 20 hs
  have hpos : 0 < hs.length := List.length_pos_iff.mpr hne
  have hemp : (hs.flatMap (natBE 20)).isEmpty = false := by
    rw [List.isEmpty_eq_false_iff]
    intro h0; rw [h0] at hl; simp at hl; omega
  have hmod : (hs.flatMap (natBE 20)).length % 20 = 0 := by rw [hl]; simp
  have hdiv : (hs.flatMap (natBE 20)).length / 20 = hs.length := by rw [hl]; simp
  have hch := chunkNats_take 20 (min ms hs.length) hs [] hh (Nat.min_le_right _ _)
  simp only [List.append_nil] at hch
  rw [e, parseRequest_scrape _ _ ms s1 (beNat_natBE 4 2 (by omega)), parseScrape_of _ _ _ _ ms s0 s1 s2, hd,
    beNat_natBE 8 cid hc, beNat_natBE 4 tid ht, hdiv, hch]
  simp only [hemp, Bool.false_eq_true, ↓reduceIte, hmod, ne_eq, not_true_eq_false]
  congr 2
  by_cases hm : ms ≤ hs.length
  · rw [Nat.min_eq_left hm]
  · rw [Nat.min_eq_right (by omega), List.take_of_length_le (Nat.le_refl _), List.take_of_length_le (by omega)]

/-! ### rejections -/

/-- too few bytes for the action field -/
theorem reject_short (b : Bytes) (ms : Nat) (h : b.length < 12) : parseRequest b ms = .error .unsendable :=
  parseRequest_short b ms h

/-- an action code other than 0, 1, 2 -/
theorem reject_unknown_action (b ab : Bytes) (ms : Nat) (h : slice b 8 12 = some ab) (hn : 3 ≤ beNat ab) :
    parseRequest b ms = .error .unsendable :=
  parseRequest_unknown b ab ms h hn

/-- connect with a wrong protocol id -/
theorem reject_wrong_protocol_id (pid tid : Nat) (ext : Bytes) (ms : Nat) (hp : pid < 256 ^ 8)
    (hne : pid ≠ protocolId) :
    parseRequest (natBE 8 pid ++ (natBE 4 0 ++ (natBE 4 tid ++ ext))) ms = .error .unsendable := by
  obtain ⟨s0, s1, s2, _⟩ := header_slices pid 0 tid ext
  rw [parseRequest_connect _ _ ms s1 (beNat_natBE 4 0 (by omega)), parseConnect_of _ _ _ _ s0 s1 s2,
    beNat_natBE 8 pid hp, codes_conform.2.2.2.2.2.2.2.1]
  simp [hne]

/-- a connect or scrape shorter than its 16-byte header -/
theorem reject_short_header (b x : Bytes) (ms : Nat) (h : slice b 8 12 = some x) (hk : beNat x = 0 ∨ beNat x = 2)
    (hl : b.length < 16) : parseRequest b ms = .error .unsendable := by
  have hs := slice_none_of_short b 12 16 hl
  rcases hk with hk | hk
  · rw [parseRequest_connect b x ms h hk]
    simp only [parseConnect, hs]
    split <;> simp_all
  · rw [parseRequest_scrape b x ms h hk]
    simp only [parseScrape, hs]
    split <;> simp_all

/-- an announce shorter than the 98-byte table -/
theorem reject_short_announce (b : Bytes) (ms : Nat) (h : slice b 8 12 = some (natBE 4 1)) (hl : b.length < 98) :
    parseRequest b ms = .error .unsendable := by
  have : decodeStruct Generated.announceRequest b = none :=
    decodeStruct_none_of_short _ _ (by simpa [width, Generated.announceRequest] using hl)
  rw [parseRequest_announce b _ ms h (beNat_natBE 4 1 (by omega))]
  exact parseAnnounce_short b this

/-- the bytes of an announce whose event field holds `ev` and whose port field holds `port` -/
def rawAnnounce (a : AnnReq) (ev port : Nat) : Bytes :=
  natBE 8 a.connectionId ++ (natBE 4 1 ++ (natBE 4 a.transactionId ++ (natBE 20 a.infoHash ++
    natBE 20 a.peerId ++ natBE 8 a.downloaded ++ natBE 8 a.left ++ natBE 8 a.uploaded ++ natBE 4 ev ++
    natBE 4 a.ip ++ natBE 4 a.key ++ natBE 4 a.numWant ++ natBE 2 port)))

def rawVals (a : AnnReq) (ev port : Nat) : F → Nat
  | .event => ev
  | .port => port
  | f => annVals a f

theorem rawAnnounce_eq (a : AnnReq) (ev port : Nat) :
    rawAnnounce a ev port = encodeStruct Generated.announceRequest (rawVals a ev port) := by
  simp [rawAnnounce, encodeStruct, Generated.announceRequest, rawVals, annVals,
    Generated.announceActionPlaceholder]

theorem raw_decode (a : AnnReq) (ev port : Nat) (ext : Bytes) (h : a.wf) (hev : ev < 256 ^ 4)
    (hport : port < 256 ^ 2) :
    decodeStruct Generated.announceRequest (rawAnnounce a ev port ++ ext) =
      some (Generated.announceRequest.map (fun fw => (fw.1, rawVals a ev port fw.1)), ext) := by
  obtain ⟨h1, h2, h3, h4, h5, h6, h7, h8, h9, h10, h11⟩ := h
  rw [rawAnnounce_eq]
  apply decodeStruct_encodeStruct
  intro fw hfw
  simp only [Generated.announceRequest, List.mem_cons, List.mem_nil_iff, or_false] at hfw
  rcases hfw with e | e | e | e | e | e | e | e | e | e | e | e | e <;> subst e <;>
    simp only [rawVals, annVals, Generated.announceActionPlaceholder] <;> first | assumption | omega

theorem raw_action (a : AnnReq) (ev port : Nat) (ext : Bytes) :
    slice (rawAnnounce a ev port ++ ext) 8 12 = some (natBE 4 1) := by
  have : rawAnnounce a ev port ++ ext = natBE 8 a.connectionId ++ (natBE 4 1 ++ (natBE 4 a.transactionId ++
      (natBE 20 a.infoHash ++ natBE 20 a.peerId ++ natBE 8 a.downloaded ++ natBE 8 a.left ++
       natBE 8 a.uploaded ++ natBE 4 ev ++ natBE 4 a.ip ++ natBE 4 a.key ++ natBE 4 a.numWant ++
       natBE 2 port ++ ext))) := by
    simp [rawAnnounce]
  rw [this]
  exact (header_slices _ _ _ _).2.1

/-- an announce with an unknown event code -/
theorem reject_unknown_event (a : AnnReq) (ev : Nat) (ext : Bytes) (ms : Nat) (h : a.wf)
    (hev : ev < 256 ^ 4) (hbad : 4 ≤ ev) :
    parseRequest (rawAnnounce a ev a.port ++ ext) ms = .error .unsendable := by
  have hnone : evOfCodeGen ev = none := by
    rw [evOfCodeGen_eq]
    match ev, hbad with
    | n + 4, _ => rfl
  have hann : annOfVals (Generated.announceRequest.map (fun fw => (fw.1, rawVals a ev a.port fw.1))) = none := by
    simp [annOfVals, Generated.announceRequest, get?, rawVals, hnone, bind, Option.bind]
  rw [parseRequest_announce _ _ ms (raw_action a ev a.port ext) (beNat_natBE 4 1 (by omega))]
  exact parseAnnounce_invalid _ _ _ (raw_decode a ev a.port ext h hev h.2.2.2.2.2.2.2.2.2.2) hann

/-- port 0: rejected with an error that can be sent back (it carries the ids) -/
theorem reject_port_zero (a : AnnReq) (ext : Bytes) (ms : Nat) (h : a.wf) :
    parseRequest (rawAnnounce a (evCode a.event) 0 ++ ext) ms =
      .error (.sendable a.connectionId a.transactionId) := by
  have hev : evCode a.event < 256 ^ 4 := by cases a.event <;> simp [evCode]
  have hsome : evOfCodeGen (evCode a.event) = some a.event := by
    rw [evOfCodeGen_eq]; cases a.event <;> rfl
  have hann : annOfVals (Generated.announceRequest.map (fun fw => (fw.1, rawVals a (evCode a.event) 0 fw.1))) =
      some ({ a with port := 0 }, Generated.announceActionPlaceholder) := by
    simp [annOfVals, Generated.announceRequest, get?, rawVals, annVals, hsome, bind, Option.bind]
  rw [parseRequest_announce _ _ ms (raw_action a _ 0 ext) (beNat_natBE 4 1 (by omega))]
  exact parseAnnounce_port0 _ _ _ { a with port := 0 }
    (raw_decode a (evCode a.event) 0 ext h hev (by omega)) hann rfl

/-- a scrape whose hash list is empty or not a multiple of 20 bytes -/
theorem reject_bad_hash_list (cid tid : Nat) (tail : Bytes) (ms : Nat) (hc : cid < 256 ^ 8) (ht : tid < 256 ^ 4)
    (hbad : tail = [] ∨ tail.length % 20 ≠ 0) :
    parseRequest (natBE 8 cid ++ (natBE 4 2 ++ (natBE 4 tid ++ tail))) ms = .error (.sendable cid tid) := by
  obtain ⟨s0, s1, s2, hd⟩ := header_slices cid 2 tid tail
  rw [parseRequest_scrape _ _ ms s1 (beNat_natBE 4 2 (by omega)), parseScrape_of _ _ _ _ ms s0 s1 s2, hd,
    beNat_natBE 8 cid hc, beNat_natBE 4 tid ht]
  rcases hbad with h | h
  · subst h; simp
  · by_cases he : tail.isEmpty
    · simp [he]
    · simp [he, h]

/-! ### replies parse back to an equal value (client side of the protocol library) -/

theorem resp_head (k tid : Nat) (tail : Bytes) :
    slice (natBE 4 k ++ (natBE 4 tid ++ tail)) 0 4 = some (natBE 4 k) ∧
    (natBE 4 k ++ (natBE 4 tid ++ tail)).drop 4 = natBE 4 tid ++ tail ∧
    slice (natBE 4 tid ++ tail) 0 4 = some (natBE 4 tid) ∧ (natBE 4 tid ++ tail).drop 4 = tail := by
  refine ⟨?_, by simp, ?_, by simp⟩
  · have := slice_mid [] (natBE 4 k) (natBE 4 tid ++ tail) 0 4 (by simp) (by simp)
    simpa using this
  · have := slice_mid [] (natBE 4 tid) tail 0 4 (by simp) (by simp)
    simpa using this

theorem parse_response_connect (tid cid : Nat) (v4 : Bool) (ht : tid < 256 ^ 4) (hc : cid < 256 ^ 8) :
    parseResponse (encResponse (.connect tid cid)) v4 = some (.connect tid cid) := by
  have e : encResponse (.connect tid cid) = natBE 4 0 ++ (natBE 4 tid ++ natBE 8 cid) := by simp [encResponse]
  obtain ⟨s0, hd, _, _⟩ := resp_head 0 tid (natBE 8 cid)
  have hdec := decodeStruct_encodeStruct Generated.connectResponse (connVals tid cid) [] (by
      intro fw hfw
      simp only [Generated.connectResponse, List.mem_cons, List.mem_nil_iff, or_false] at hfw
      rcases hfw with e | e <;> subst e <;> simp only [connVals] <;> assumption)
  have henc : encodeStruct Generated.connectResponse (connVals tid cid) = natBE 4 tid ++ natBE 8 cid := by
    simp [encodeStruct, Generated.connectResponse, connVals]
  rw [henc, List.append_nil] at hdec
  rw [e]
  simp only [parseResponse, s0, hd, beNat_natBE 4 0 (by omega), kindOf_response_0, hdec]
  simp [Generated.connectResponse, get?, bind, Option.bind, connVals]

theorem parse_response_error (tid : Nat) (msg : Bytes) (v4 : Bool) (ht : tid < 256 ^ 4) :
    parseResponse (encResponse (.error tid msg)) v4 = some (.error tid msg) := by
  have e : encResponse (.error tid msg) = natBE 4 3 ++ (natBE 4 tid ++ msg) := by simp [encResponse]
  obtain ⟨s0, hd, s1, hd2⟩ := resp_head 3 tid msg
  rw [e]
  simp only [parseResponse, s0, hd, beNat_natBE 4 3 (by omega), kindOf_response_3, s1, hd2, beNat_natBE 4 tid ht]

theorem parse_response_scrape (tid : Nat) (stats : List Stats) (v4 : Bool) (ht : tid < 256 ^ 4)
    (hs : ∀ x ∈ stats, x.seeders < 256 ^ 4 ∧ x.completed < 256 ^ 4 ∧ x.leechers < 256 ^ 4) :
    parseResponse (encResponse (.scrape tid stats)) v4 = some (.scrape tid stats) := by
  have e : encResponse (.scrape tid stats) =
      natBE 4 2 ++ (natBE 4 tid ++ stats.flatMap (fun x => encodeStruct Generated.scrapeStats (statsVals x))) := by
    have := encode_response_conforms (.scrape tid stats)
    rw [← this]
    simp [encodeResponse, wAct, codeOf, Generated.responseWriteActions]
  obtain ⟨s0, hd, s1, hd2⟩ := resp_head 2 tid (stats.flatMap (fun x => encodeStruct Generated.scrapeStats (statsVals x)))
  have hmany := decodeMany_flatMap Generated.scrapeStats (by decide) statsVals stats (by
      intro x hx fw hfw
      obtain ⟨h1, h2, h3⟩ := hs x hx
      simp only [Generated.scrapeStats, List.mem_cons, List.mem_nil_iff, or_false] at hfw
      rcases hfw with e | e | e <;> subst e <;> simp only [statsVals] <;> assumption)
    (natBE 4 tid ++ stats.flatMap (fun x => encodeStruct Generated.scrapeStats (statsVals x))).length (by simp)
  have hall := allSome_map_map (fun x => Generated.scrapeStats.map (fun fw => (fw.1, statsVals x fw.1)))
    statsOfVals stats (by
      intro x _
      simp [statsOfVals, Generated.scrapeStats, get?, statsVals, bind, Option.bind])
  rw [e]
  simp only [parseResponse, s0, hd, beNat_natBE 4 2 (by omega), kindOf_response_2, s1, hd2, hmany,
    beNat_natBE 4 tid ht, bind, Option.bind, hall, pure]

theorem parse_response_announce (v6 : Bool) (tid i l s : Nat) (peers : List RPeer)
    (h : (Response.announce v6 tid i l s peers).wf) :
    parseResponse (encResponse (.announce v6 tid i l s peers)) (!v6) = some (.announce v6 tid i l s peers) := by
  obtain ⟨ht, hi, hl, hs, hp⟩ := h
  have e : encResponse (.announce v6 tid i l s peers) =
      natBE 4 1 ++ (encodeStruct Generated.announceResponseFixed (fixedVals tid i l s) ++
        peers.flatMap (fun p => encodeStruct (peerLayout v6) (peerVals p))) := by
    have := encode_response_conforms (.announce v6 tid i l s peers)
    rw [← this]
    simp [encodeResponse, wAct, codeOf, Generated.responseWriteActions]
  have s0 : slice (natBE 4 1 ++ (encodeStruct Generated.announceResponseFixed (fixedVals tid i l s) ++
        peers.flatMap (fun p => encodeStruct (peerLayout v6) (peerVals p)))) 0 4 = some (natBE 4 1) := by
    have := slice_mid [] (natBE 4 1) (encodeStruct Generated.announceResponseFixed (fixedVals tid i l s) ++
        peers.flatMap (fun p => encodeStruct (peerLayout v6) (peerVals p))) 0 4 (by simp) (by simp)
    simpa using this
  have hdec := decodeStruct_encodeStruct Generated.announceResponseFixed (fixedVals tid i l s)
    (peers.flatMap (fun p => encodeStruct (peerLayout v6) (peerVals p))) (by
      intro fw hfw
      simp only [Generated.announceResponseFixed, List.mem_cons, List.mem_nil_iff, or_false] at hfw
      rcases hfw with e | e | e | e <;> subst e <;> simp only [fixedVals] <;> assumption)
  have hw : 0 < width (peerLayout v6) := by cases v6 <;> decide
  have hmany := decodeMany_flatMap (peerLayout v6) hw peerVals peers (by
      intro p hp' fw hfw
      obtain ⟨h1, h2⟩ := hp p hp'
      cases v6 <;>
        simp only [peerLayout, Generated.responsePeerV4, Generated.responsePeerV6, Bool.false_eq_true,
          ↓reduceIte, List.mem_cons, List.mem_nil_iff, or_false] at hfw h1 <;>
        rcases hfw with e | e <;> subst e <;> simp only [peerVals] <;> assumption)
    (peers.flatMap (fun p => encodeStruct (peerLayout v6) (peerVals p))).length (Nat.le_refl _)
  have hall := allSome_map_map (fun p => (peerLayout v6).map (fun fw => (fw.1, peerVals p fw.1)))
    peerOfVals peers (by
      intro x _
      cases v6 <;> simp [peerOfVals, peerLayout, Generated.responsePeerV4, Generated.responsePeerV6, get?,
        peerVals, bind, Option.bind])
  have hget : get? (Generated.announceResponseFixed.map (fun fw => (fw.1, fixedVals tid i l s fw.1))) .transactionId = some tid
      ∧ get? (Generated.announceResponseFixed.map (fun fw => (fw.1, fixedVals tid i l s fw.1))) .interval = some i
      ∧ get? (Generated.announceResponseFixed.map (fun fw => (fw.1, fixedVals tid i l s fw.1))) .leechers = some l
      ∧ get? (Generated.announceResponseFixed.map (fun fw => (fw.1, fixedVals tid i l s fw.1))) .seeders = some s := by
    simp [Generated.announceResponseFixed, get?, fixedVals]
  rw [e]
  simp only [parseResponse, s0, drop_natBE_append, beNat_natBE 4 1 (by omega), kindOf_response_1, hdec,
    Bool.not_not, hmany, bind, Option.bind, hall, hget.1, hget.2.1, hget.2.2.1, hget.2.2.2, pure]

/-! ### non-vacuity -/

example : ({ connectionId := 5, transactionId := 7, infoHash := 1, peerId := 2, downloaded := 0, left := 3,
             uploaded := 0, event := .stopped, ip := 0, key := 9, numWant := 2 ^ 32 - 1, port := 6881 } : AnnReq).wf := by
  decide

example : parseRequest (encRequest (.scrape 5 7 [1, 2, 3])) 2 = .ok (.scrape 5 7 [1, 2]) := by decide

end Aquatic.C13
