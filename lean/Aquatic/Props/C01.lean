/-
  C01 — UDP swarm bookkeeping equals a reference tracker.

  The model (Model/Store.lean, Model/Tracker.lean) follows
  crates/udp/src/swarm.rs statement by statement; the inline capacity is the
  value extracted from the source on every run (`Generated.udpSmallCap`).
  The reference tracker is Spec/Ref.lean.
-/
import Aquatic.Props.Store
import Aquatic.Generated.Consts

namespace Aquatic.C01

open Aquatic

/-- the UDP store: inline capacity from the source, cleaning shrinks heap maps,
scrapes are not cut at store level (the request parser cuts them, C13) -/
def udpCfg (maxScrape : Nat) : StoreCfg := ⟨Generated.udpSmallCap, false, maxScrape⟩

/-- **C01.** Every finite history of announces, scrapes and cleaning passes on the
UDP store — whatever the in-range outcome of the random draws, and across the
inline ↔ heap switch in both directions — runs without a panic outcome, and
every reply (seeders, leechers, the peer list, scrape counts, the torrent and
peer totals of a cleaning pass) is the reference tracker's. -/
theorem udp_refines (maxScrape : Nat) (ops : List Op) (h : OpsOk (udpCfg maxScrape) {} ops) :
    ∃ outs, run (udpCfg maxScrape) {} ops = .ok outs ∧
      AllRel ops outs (runRef (udpCfg maxScrape) {} ops) :=
  refines (udpCfg maxScrape) ops {} {} (sim_init _) h

/-- Non-vacuity of `udp_refines`: a history that fills the inline map, switches to the
heap map with a seeder present, takes the two-half selection branch (4 others, limit 2,
draws 0 and 2), stops a peer and cleans at a deadline satisfies the hypothesis. -/
def sampleHistory : List Op :=
  [ .ann false 7 (1, 1000) .seeding 0 10 30 0 0,
    .ann false 7 (2, 1000) .leeching 1 10 30 0 0,
    .ann false 7 (3, 1000) .leeching 2 5 30 0 0,
    .ann false 7 (4, 1000) .seeding 3 10 30 0 0,
    .ann false 7 (5, 1000) .leeching 0 10 2 0 2,
    .scr false [7, 8],
    .ann false 7 (2, 1000) .stopped 1 10 30 0 0,
    .cln 5 (fun _ => true),
    .scr false [7] ]

example : OpsOk (udpCfg 70) {} sampleHistory := by decide

/-- The same from any state that simulates a reference state (e.g. mid-history). -/
theorem udp_refines_from (maxScrape : Nat) (ops : List Op) (s : TState) (r : RT)
    (hs : Sim Generated.udpSmallCap s r) (h : OpsOk (udpCfg maxScrape) s ops) :
    ∃ outs, run (udpCfg maxScrape) s ops = .ok outs ∧
      AllRel ops outs (runRef (udpCfg maxScrape) r ops) :=
  refines (udpCfg maxScrape) ops s r hs h

/-- Announce counts exclude the announcer itself and the peer list never contains it:
the reply is a function of the *other* entries of the torrent. -/
theorem udp_announce_excludes_self (s : TState) (r : RT) (v6 : Bool) (h : Nat) (key : Key)
    (st : Status) (pid dl n o1 o2 : Nat) (hs : Sim Generated.udpSmallCap s r)
    (hok : OpOk s (.ann v6 h key st pid dl n o1 o2)) :
    ∃ s' o, step (udpCfg 0) s (.ann v6 h key st pid dl n o1 o2) = .ok (s', .ann o) ∧
      let others := Ref.others (if v6 then r.r6 else r.r4) h key
      o.seeders = others.countP (·.peer.seeder) ∧
      o.leechers = others.countP (fun e => !e.peer.seeder) ∧
      key ∉ o.peers ∧ (∀ k ∈ o.peers, k ∈ others.map (·.key)) := by
  obtain ⟨s', out, hstep, _, hrel⟩ := step_refines (udpCfg 0) s r _ hs hok
  cases out with
  | ann o =>
    refine ⟨s', o, hstep, ?_⟩
    cases v6 <;> simp only [refStep, OutRel, Bool.false_eq_true, ↓reduceIte] at hrel ⊢
    all_goals
      obtain ⟨h1, h2, h3⟩ := hrel
      refine ⟨by rw [h1]; cases st <;> rfl, by rw [h2]; cases st <;> rfl, ?_, ?_⟩
      · intro hmem
        have := h3.sound key hmem
        have hv : ∀ x, (Ref.announce x h key st pid dl).2.candidates = (Ref.others x h key).map (·.key) := by
          intro x; cases st <;> rfl
        rw [hv] at this
        simp [Ref.others] at this
        obtain ⟨a, ⟨_, _, hne⟩, he⟩ := this
        exact hne he
      · intro k hk
        have := h3.sound k hk
        have hv : ∀ x, (Ref.announce x h key st pid dl).2.candidates = (Ref.others x h key).map (·.key) := by
          intro x; cases st <;> rfl
        rw [hv] at this
        exact this
  | scr l => simp [OutRel] at hrel
  | cln a b c d => simp [OutRel] at hrel

/-- Scrape counts include every stored peer of the torrent. -/
theorem udp_scrape_counts_all (s : TState) (r : RT) (v6 : Bool) (hs' : List Nat)
    (hs : Sim Generated.udpSmallCap s r) (maxScrape : Nat) :
    step (udpCfg maxScrape) s (.scr v6 hs') =
      .ok (s, .scr ((hs'.take maxScrape).map (fun h =>
        (h, ((Ref.ofTorrent (if v6 then r.r6 else r.r4) h).countP (·.peer.seeder)),
            ((Ref.ofTorrent (if v6 then r.r6 else r.r4) h).countP (fun e => !e.peer.seeder)))))) := by
  obtain ⟨s', out, hstep, _, hrel⟩ := step_refines (udpCfg maxScrape) s r (.scr v6 hs') hs trivial
  cases out with
  | scr l =>
    simp only [OutRel, refStep] at hrel
    subst hrel
    have : s' = s := by
      simp only [step, bind, Except.bind] at hstep
      split at hstep
      · cases hstep
      · simp only [pure, Except.pure] at hstep; injection hstep with e; injection e with e1 _; exact e1.symm
    subst this
    rw [hstep]
    cases v6 <;> rfl
  | ann o => simp [OutRel] at hrel
  | cln a b c d => simp [OutRel] at hrel

/-- The reference holds at most one entry per torrent and (source IP, port): the
latest announce wins. -/
theorem ref_one_entry_per_key (r : RState) (h : Nat) (k : Key) (st : Status) (pid dl : Nat)
    (hn : (r.map (fun e => (e.hash, e.key))).Nodup) :
    ((Ref.announce r h k st pid dl).1.map (fun e => (e.hash, e.key))).Nodup := by
  have hsub : ((r.filter (fun e => ¬ (e.hash = h ∧ e.key = k))).map (fun e => (e.hash, e.key))).Sublist
      (r.map (fun e => (e.hash, e.key))) := List.Sublist.map _ List.filter_sublist
  have hnd := hsub.nodup hn
  have hnot : (h, k) ∉ (r.filter (fun e => ¬ (e.hash = h ∧ e.key = k))).map (fun e => (e.hash, e.key)) := by
    simp [List.mem_map, List.mem_filter]
    intro x _ hx e1 e2
    rcases hx with hx | hx
    · exact hx e1
    · exact hx e2
  cases st with
  | stopped => exact hnd
  | seeding =>
    simp only [Ref.announce, List.map_append, List.map_cons, List.map_nil]
    rw [List.nodup_append]
    refine ⟨hnd, by simp, ?_⟩
    intro a ha b hb
    simp only [List.mem_singleton] at hb
    subst hb; intro e; subst e; exact hnot ha
  | leeching =>
    simp only [Ref.announce, List.map_append, List.map_cons, List.map_nil]
    rw [List.nodup_append]
    refine ⟨hnd, by simp, ?_⟩
    intro a ha b hb
    simp only [List.mem_singleton] at hb
    subst hb; intro e; subst e; exact hnot ha

/-- `stopped` removes the entry: after a stopped announce the reference has no entry
for that (torrent, key); otherwise it has exactly the new one, seeder iff `left = 0`. -/
theorem ref_stopped_removes (r : RState) (h : Nat) (k : Key) (pid dl : Nat) :
    ∀ e ∈ (Ref.announce r h k .stopped pid dl).1, ¬ (e.hash = h ∧ e.key = k) := by
  intro e he
  simp only [Ref.announce, List.mem_filter, decide_eq_true_eq] at he
  exact he.2

theorem status_seeder_iff_left_zero (stopped : Bool) (left : Int) :
    statusOf stopped left = .seeding ↔ (stopped = false ∧ left = 0) := by
  unfold statusOf
  cases stopped <;> simp

theorem status_stopped_iff (stopped : Bool) (left : Int) :
    statusOf stopped left = .stopped ↔ stopped = true := by
  unfold statusOf
  cases stopped <;> simp
  split <;> simp

/-- A torrent whose peers are all gone is indistinguishable from one never seen:
replies are determined by the reference state alone, and the reference has no
notion of a torrent apart from its entries.  Two store states related to the same
reference state (e.g. one still holding an empty peer map, one not) answer alike. -/
theorem udp_replies_determined_by_reference (s₁ s₂ : TState) (r : RT) (op : Op) (maxScrape : Nat)
    (h₁ : Sim Generated.udpSmallCap s₁ r) (h₂ : Sim Generated.udpSmallCap s₂ r)
    (ok₁ : OpOk s₁ op) (ok₂ : OpOk s₂ op) :
    ∃ s₁' s₂' o₁ o₂, step (udpCfg maxScrape) s₁ op = .ok (s₁', o₁) ∧
      step (udpCfg maxScrape) s₂ op = .ok (s₂', o₂) ∧
      OutRel op o₁ (refStep (udpCfg maxScrape) r op).2 ∧ OutRel op o₂ (refStep (udpCfg maxScrape) r op).2 ∧
      Sim Generated.udpSmallCap s₁' (refStep (udpCfg maxScrape) r op).1 ∧
      Sim Generated.udpSmallCap s₂' (refStep (udpCfg maxScrape) r op).1 := by
  obtain ⟨a, oa, ha, sa, ra⟩ := step_refines (udpCfg maxScrape) s₁ r op h₁ ok₁
  obtain ⟨b, ob, hb, sb, rb⟩ := step_refines (udpCfg maxScrape) s₂ r op h₂ ok₂
  exact ⟨a, b, oa, ob, ha, hb, ra, rb, sa, sb⟩

/-- an emptied torrent kept as an empty inline map simulates the same reference
state as no torrent at all (non-vacuity of the previous theorem) -/
example : Sim Generated.udpSmallCap ⟨[(7, .small [])], []⟩ {} ∧ Sim Generated.udpSmallCap {} {} := by
  refine ⟨⟨⟨⟨by simp [TMap.hashes], ?_⟩, ?_⟩, sim1_init _⟩, sim_init _⟩
  · intro x hx
    simp only [List.mem_singleton] at hx
    subst hx
    exact ⟨List.nodup_nil, Nat.zero_le _⟩
  · intro h
    by_cases e : (7 : Nat) = h <;> simp [TMap.entriesOf, TMap.get, e, PeerMap.entries]

end Aquatic.C01
