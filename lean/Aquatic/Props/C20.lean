/-
  C20 — UDP operator reports are faithful; the scrape export is replaced atomically.

  Proved here, for every history of announces (any events, re-announces under a new peer id, stops
  under another id) and cleaning passes, with `statistics.peer_clients` and exports on and no access
  list in force (C20's quantifier): the per-client tally equals the number of stored peers carrying
  each id, the reported totals equal what is stored, the export lists exactly the torrents with
  stored peers with their true counts - and, on a model of the file system steps of an export, that
  the export path always holds the previous or the new complete file.
  Exercised only: `rename(2)` being atomic, the BufWriter, the statistics worker thread itself.
-/
import Aquatic.Lemmas.Stats
import Aquatic.Props.Store

namespace Aquatic.Stats.C20

open Aquatic Aquatic.Stats

/-- stored peers carrying `id`, both families -/
def stored (rt : RT) (id : Nat) : Nat := idCount rt.r4 id + idCount rt.r6 id

structure SSim (cfg : StoreCfg) (s : SState) (rt : RT) : Prop where
  sim : Sim cfg.c s.ts rt
  tally : TallyIs s.tally (stored rt)

def toOp : SOp → Op
  | .ann v6 h key st pid dl n o1 o2 => .ann v6 h key st pid dl n o1 o2
  | .cln now allowed => .cln now allowed

/-- in-range random draws; no access list in force at a cleaning pass -/
def SOpOk (s : SState) : SOp → Prop
  | .ann v6 h key _ _ _ n o1 o2 => (if v6 then s.ts.m6 else s.ts.m4).OffOk h key n o1 o2
  | .cln _ allowed => ∀ h, allowed h = true

/-- what a cleaning pass reports, against the reference state after the pass -/
def Faithful (rt' : RT) : SOut → Prop
  | .ann _ => True
  | .cln rep =>
    rep.torrents4 = Ref.numTorrents rt'.r4 ∧ rep.peers4 = rt'.r4.length ∧
    rep.torrents6 = Ref.numTorrents rt'.r6 ∧ rep.peers6 = rt'.r6.length ∧
    -- the export: every line is a torrent with stored peers and its true counts, every such torrent has its line, once
    (∀ l ∈ rep.lines, proj (if l.1 then rt'.r6 else rt'.r4) l.2.1 ≠ [] ∧
        Ref.scrape (if l.1 then rt'.r6 else rt'.r4) l.2.1 = l.2.2) ∧
    (∀ v6 h, proj (if v6 then rt'.r6 else rt'.r4) h ≠ [] →
        (v6, h, Ref.scrape (if v6 then rt'.r6 else rt'.r4) h) ∈ rep.lines) ∧
    (rep.lines.map (fun l => (l.1, l.2.1))).Nodup

theorem ssim_init (cfg : StoreCfg) : SSim cfg {} {} :=
  ⟨sim_init cfg.c, tallyIs_congr tallyIs_nil (fun id => by simp [stored, idCount])⟩

theorem clean_all (r : RState) (now : Nat) (allowed : Nat → Bool) (h : ∀ x, allowed x = true) :
    Ref.clean r now allowed = Ref.clean r now (fun _ => true) := by
  have : allowed = fun _ => true := funext h
  rw [this]

theorem count_le_of_removed (now id : Nat) (m : TMap) (r : RState) (hn : m.hashes.Nodup) (ha : Agree m r) :
    (removedOf now m).count id ≤ idCount r id := by
  have := removed_count now id m r hn ha; omega

/-- **one operation**: no panic, tally exact, reports faithful -/
theorem sstep_faithful (cfg : StoreCfg) (hudp : cfg.http = false) (s : SState) (rt : RT) (op : SOp)
    (hs : SSim cfg s rt) (hok : SOpOk s op) :
    ∃ s' out, sstep cfg s op = .ok (s', out) ∧ SSim cfg s' (refStep cfg rt (toOp op)).1 ∧
      Faithful (refStep cfg rt (toOp op)).1 out := by
  cases op with
  | ann v6 h key st pid dl n o1 o2 =>
    cases v6 with
    | true =>
      obtain ⟨m', out, ha, hinv', _, _, _, hrem, _⟩ := TMap.announce_spec cfg.c s.ts.m6 h key st pid dl n o1 o2 hs.sim.2.1 hok
      obtain ⟨m'', out', ha', hsim', _⟩ := sim1_announce cfg.c s.ts.m6 rt.r6 h key st pid dl n o1 o2 hs.sim.2 hok
      rw [ha] at ha'; cases ha'
      have hnd := keysOf_proj_nodup hs.sim.2 h
      have hprev : out.removed = (prevE rt.r6 h key).map (·.peer) := by
        rw [hrem, lookup_perm (hs.sim.2.2 h) hnd, lookup_proj]
      have ht : TallyIs s.tally (fun id => idCount rt.r6 id + idCount rt.r4 id) :=
        tallyIs_congr hs.tally (fun id => by simp [stored]; omega)
      have := tally_announce s.tally rt.r6 (fun id => idCount rt.r4 id) h key st pid dl hnd ht
      refine ⟨⟨{ s.ts with m6 := m' }, tallyRun s.tally (annMsgs st pid out.removed)⟩, .ann (annMsgs st pid out.removed), ?_, ?_, trivial⟩
      · simp [sstep, ha, bind, Except.bind, pure, Except.pure]
      · have hr : (refStep cfg rt (toOp (.ann true h key st pid dl n o1 o2))).1 = { rt with r6 := (Ref.announce rt.r6 h key st pid dl).1 } := by
          simp [refStep, toOp]
        rw [hr]
        refine ⟨⟨hs.sim.1, hsim'⟩, ?_⟩
        rw [hprev]
        refine tallyIs_congr this (fun id => ?_)
        simp only [stored]; omega
    | false =>
      obtain ⟨m', out, ha, hinv', _, _, _, hrem, _⟩ := TMap.announce_spec cfg.c s.ts.m4 h key st pid dl n o1 o2 hs.sim.1.1 hok
      obtain ⟨m'', out', ha', hsim', _⟩ := sim1_announce cfg.c s.ts.m4 rt.r4 h key st pid dl n o1 o2 hs.sim.1 hok
      rw [ha] at ha'; cases ha'
      have hnd := keysOf_proj_nodup hs.sim.1 h
      have hprev : out.removed = (prevE rt.r4 h key).map (·.peer) := by
        rw [hrem, lookup_perm (hs.sim.1.2 h) hnd, lookup_proj]
      have ht : TallyIs s.tally (fun id => idCount rt.r4 id + idCount rt.r6 id) := hs.tally
      have := tally_announce s.tally rt.r4 (fun id => idCount rt.r6 id) h key st pid dl hnd ht
      refine ⟨⟨{ s.ts with m4 := m' }, tallyRun s.tally (annMsgs st pid out.removed)⟩, .ann (annMsgs st pid out.removed), ?_, ?_, trivial⟩
      · simp [sstep, ha, bind, Except.bind, pure, Except.pure]
      · have hr : (refStep cfg rt (toOp (.ann false h key st pid dl n o1 o2))).1 = { rt with r4 := (Ref.announce rt.r4 h key st pid dl).1 } := by
          simp [refStep, toOp]
        rw [hr]
        refine ⟨⟨hsim', hs.sim.2⟩, ?_⟩
        rw [hprev]
        exact tallyIs_congr this (fun id => by simp only [stored])
  | cln now allowed =>
    have hall : ∀ h, allowed h = true := hok
    obtain ⟨a, oa, ha, hpa, hta, hla⟩ := TMap.cleanUdp_spec cfg.c s.ts.m4 now allowed hs.sim.1.1
    obtain ⟨b, ob, hb, hpb, htb, hlb⟩ := TMap.cleanUdp_spec cfg.c s.ts.m6 now allowed hs.sim.2.1
    obtain ⟨ra, la⟩ := cleanUdp_reports cfg.c s.ts.m4 now allowed hs.sim.1.1 a oa ha
    obtain ⟨rb, lb⟩ := cleanUdp_reports cfg.c s.ts.m6 now allowed hs.sim.2.1 b ob hb
    have sa := sim1_of_cleanPost hs.sim.1 hpa
    have sb := sim1_of_cleanPost hs.sim.2 hpb
    have hr4 : (refStep cfg rt (toOp (.cln now allowed))).1.r4 = Ref.clean rt.r4 now (fun _ => true) := by
      simp [refStep, toOp, clean_all _ _ _ hall]
    have hr6 : (refStep cfg rt (toOp (.cln now allowed))).1.r6 = Ref.clean rt.r6 now (fun _ => true) := by
      simp [refStep, toOp, clean_all _ _ _ hall]
    have hrt : (refStep cfg rt (toOp (.cln now allowed))).1 = ⟨Ref.clean rt.r4 now allowed, Ref.clean rt.r6 now allowed⟩ := by
      simp [refStep, toOp]
    -- tally after the PeerRemoved messages of the pass
    have hc4 := fun id => removed_count now id s.ts.m4 rt.r4 hs.sim.1.1.1 hs.sim.1.2
    have hc6 := fun id => removed_count now id s.ts.m6 rt.r6 hs.sim.2.1.1 hs.sim.2.2
    have htally := tally_removed_list (oa.removed ++ ob.removed) hs.tally (by
      intro id
      rw [ra, rb, List.count_append]
      have := hc4 id; have := hc6 id
      simp only [stored]; omega)
    refine ⟨⟨⟨a, b⟩, tallyRun s.tally ((oa.removed ++ ob.removed).map StatMsg.removed)⟩,
      .cln ⟨oa.torrents, oa.peers, ob.torrents, ob.peers,
        oa.lines.map (fun l => (false, l)) ++ ob.lines.map (fun l => (true, l)), (oa.removed ++ ob.removed).map StatMsg.removed⟩,
      ?_, ⟨?_, ?_⟩, ?_⟩
    · simp [sstep, ha, hb, bind, Except.bind, pure, Except.pure]
    · rw [hrt]; exact ⟨sa, sb⟩
    · refine tallyIs_congr htally (fun id => ?_)
      rw [ra, rb, List.count_append]
      have := hc4 id; have := hc6 id
      simp only [stored, hr4, hr6]; omega
    · have e4 := export_lines_exact hs.sim.1 now
      have e6 := export_lines_exact hs.sim.2 now
      simp only at e4 e6
      simp only [Faithful, hr4, hr6]
      refine ⟨?_, ?_, ?_, ?_, ?_, ?_, ?_⟩
      · rw [hta, ← clean_all _ _ _ hall]
        exact length_eq_numTorrents a _ hpa.inv.1 sa.2 hpa.nonempty
      · rw [hla]; exact liveSum_eq now s.ts.m4 rt.r4 hs.sim.1.1.1 hs.sim.1.2
      · rw [htb, ← clean_all _ _ _ hall]
        exact length_eq_numTorrents b _ hpb.inv.1 sb.2 hpb.nonempty
      · rw [hlb]; exact liveSum_eq now s.ts.m6 rt.r6 hs.sim.2.1.1 hs.sim.2.2
      · intro l hl
        rw [la, lb] at hl
        rcases List.mem_append.mp hl with hl | hl
        · obtain ⟨x, hx, rfl⟩ := List.mem_map.mp hl
          simpa using e4.1 x hx
        · obtain ⟨x, hx, rfl⟩ := List.mem_map.mp hl
          simpa using e6.1 x hx
      · intro v6 h hne
        rw [la, lb]
        cases v6 with
        | false =>
          refine List.mem_append.mpr (.inl (List.mem_map.mpr ⟨_, e4.2.1 h (by simpa using hne), ?_⟩))
          simp
        | true =>
          refine List.mem_append.mpr (.inr (List.mem_map.mpr ⟨_, e6.2.1 h (by simpa using hne), ?_⟩))
          simp
      · rw [la, lb, List.map_append, List.map_map, List.map_map]
        have h4 : (List.map ((fun l => (l.1, l.2.1)) ∘ fun l => ((false : Bool), l)) (linesOf now s.ts.m4)) =
            ((linesOf now s.ts.m4).map (·.1)).map (fun h => (false, h)) := by simp [List.map_map, Function.comp]
        have h6 : (List.map ((fun l => (l.1, l.2.1)) ∘ fun l => ((true : Bool), l)) (linesOf now s.ts.m6)) =
            ((linesOf now s.ts.m6).map (·.1)).map (fun h => (true, h)) := by simp [List.map_map, Function.comp]
        rw [h4, h6, List.nodup_append]
        refine ⟨List.Pairwise.map _ (fun a b hab hc => hab (by cases hc; rfl)) e4.2.2,
          List.Pairwise.map _ (fun a b hab hc => hab (by cases hc; rfl)) e6.2.2, ?_⟩
        intro x hx y hy
        obtain ⟨_, _, rfl⟩ := List.mem_map.mp hx
        obtain ⟨_, _, rfl⟩ := List.mem_map.mp hy
        simp

/-! ### histories -/

def srun (cfg : StoreCfg) : SState → List SOp → Except Panic (List SOut × SState)
  | s, [] => .ok ([], s)
  | s, op :: ops =>
    match sstep cfg s op with
    | .error e => .error e
    | .ok r =>
      match srun cfg r.1 ops with
      | .error e => .error e
      | .ok x => .ok (r.2 :: x.1, x.2)

def refRun (cfg : StoreCfg) : RT → List SOp → RT
  | r, [] => r
  | r, op :: ops => refRun cfg (refStep cfg r (toOp op)).1 ops

def SOpsOk (cfg : StoreCfg) : SState → List SOp → Prop
  | _, [] => True
  | s, op :: ops => SOpOk s op ∧ (match sstep cfg s op with | .ok r => SOpsOk cfg r.1 ops | .error _ => False)

/-- **every history**: the tracker never panics and, at the end (hence after every prefix), the
per-client tally is the number of stored peers with each id -/
theorem tally_exact (cfg : StoreCfg) (hudp : cfg.http = false) (ops : List SOp) : ∀ (s : SState) (rt : RT),
    SSim cfg s rt → SOpsOk cfg s ops →
    ∃ outs s', srun cfg s ops = .ok (outs, s') ∧ SSim cfg s' (refRun cfg rt ops) ∧
      ∀ id, IMap.get s'.tally id = if stored (refRun cfg rt ops) id = 0 then none else some (stored (refRun cfg rt ops) id) := by
  induction ops with
  | nil => intro s rt hs _; exact ⟨[], s, rfl, hs, hs.tally.2⟩
  | cons op ops ih =>
    intro s rt hs hok
    obtain ⟨hop, hrest⟩ := hok
    obtain ⟨s1, out, hstep, hsim1, _⟩ := sstep_faithful cfg hudp s rt op hs hop
    rw [hstep] at hrest
    obtain ⟨outs, s', hrun, hsim', htal⟩ := ih s1 _ hsim1 hrest
    exact ⟨out :: outs, s', by simp [srun, hstep, hrun], hsim', htal⟩

/-! ### the export file is replaced atomically -/

theorem tmpPath_ne (path : List Nat) : tmpPath path ≠ path := by
  intro h
  have := congrArg List.length h
  simp [tmpPath] at this

/-- content of the export path -/
def readExport (fs : Fs) (path : List Nat) : Option (List String) := IMap.get fs path

theorem fsRun_appends (fs : Fs) (tmp path : List Nat) (hne : tmp ≠ path) (lines : List String) :
    readExport (fsRun fs (lines.map (FsStep.append tmp))) path = readExport fs path := by
  induction lines generalizing fs with
  | nil => rfl
  | cons l t ih =>
    simp only [List.map_cons, fsRun, List.foldl_cons]
    have := ih (fsStep fs (FsStep.append tmp l))
    simp only [fsRun] at this
    rw [this]
    simp [readExport, fsStep, IMap.get_insert, hne]

theorem fsRun_appends_tmp (fs : Fs) (tmp : List Nat) (lines : List String) :
    IMap.get (fsRun fs (lines.map (FsStep.append tmp))) tmp = some ((IMap.get fs tmp).getD [] ++ lines) ∨ lines = [] := by
  induction lines generalizing fs with
  | nil => exact .inr rfl
  | cons l t ih =>
    left
    simp only [List.map_cons, fsRun, List.foldl_cons]
    rcases ih (fsStep fs (FsStep.append tmp l)) with h | h
    · simp only [fsRun] at h
      rw [h]
      simp [fsStep, IMap.get_insert]
    · subst h
      simp [fsStep, IMap.get_insert]

/-- **atomic replacement**: whatever the file system held, after any number `k` of the steps of an
export of `lines` the export path holds what it held before (crash before the rename) or exactly
`lines` (after it); in particular never an empty or partial file -/
theorem export_atomic (fs : Fs) (path : List Nat) (lines : List String) (k : Nat) :
    readExport (fsRun fs ((exportSteps path lines).take k)) path = readExport fs path ∨
    readExport (fsRun fs ((exportSteps path lines).take k)) path = some lines := by
  have hne := tmpPath_ne path
  by_cases hk : k ≤ 1 + lines.length
  · -- before the rename
    left
    have hsteps : (exportSteps path lines).take k =
        ([FsStep.create (tmpPath path)] ++ lines.map (FsStep.append (tmpPath path))).take k := by
      unfold exportSteps
      rw [List.take_append_of_le_length (by simp; omega)]
    rw [hsteps]
    cases k with
    | zero => rfl
    | succ k =>
      simp only [List.singleton_append, List.take_succ_cons, fsRun, List.foldl_cons]
      rw [← List.map_take]
      have := fsRun_appends (fsStep fs (FsStep.create (tmpPath path))) (tmpPath path) path hne (lines.take k)
      simp only [fsRun] at this
      rw [this]
      simp [readExport, fsStep, IMap.get_insert, hne]
  · -- all steps done
    right
    have hall : (exportSteps path lines).take k = exportSteps path lines := by
      apply List.take_of_length_le
      simp [exportSteps]; omega
    rw [hall]
    unfold exportSteps
    simp only [fsRun, List.foldl_append, List.foldl_cons, List.foldl_nil]
    have htmp : IMap.get (List.foldl fsStep (fsStep fs (FsStep.create (tmpPath path))) (lines.map (FsStep.append (tmpPath path)))) (tmpPath path) = some lines := by
      rcases fsRun_appends_tmp (fsStep fs (FsStep.create (tmpPath path))) (tmpPath path) lines with h | h
      · simp only [fsRun] at h
        rw [h]; simp [fsStep, IMap.get_insert]
      · subst h; simp [fsStep, IMap.get_insert]
    simp only [fsStep] at htmp ⊢
    rw [htmp]
    simp [readExport, IMap.get_insert]

/-! ### non-vacuity -/

example : tallyRun [] (annMsgs .leeching 7 none ++ annMsgs .leeching 8 (some ⟨7, false, 10⟩)) = [(8, 1)] := by decide

example : readExport (fsRun [([1], ["old"])] ((exportSteps [1] ["a", "b"]).take 2)) [1] = some ["old"] := by decide
example : readExport (fsRun [([1], ["old"])] (exportSteps [1] ["a", "b"])) [1] = some ["a", "b"] := by decide

end Aquatic.Stats.C20
