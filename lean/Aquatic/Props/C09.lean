/-
  C09 — WebRTC offers and answers are relayed only along real, unused offers.

  By `Ws.refines` every message of every history is the reference tracker's, for receiver choices
  satisfying `Ref.recvOk`.  The theorems here say what that means for offers and answers: who
  receives offers, how many, tagged and addressed how; when exactly an answer is forwarded; that a
  forwarded answer consumes the outstanding offer; and that outstanding offers only ever come from
  offers the tracker forwarded.
-/
import Aquatic.Props.WsStore

namespace Aquatic.Ws.C09

open Aquatic Aquatic.Ws

/-! ### offers -/

/-- the receivers the model picks are an allowed choice, and the messages are the reference's
(restated from `announce_sim`): for every reachable store, announce and in-range draws -/
theorem offers_follow_reference (cfg : WsCfg) (m : WMap) (r : RefW) (conn : ConnId) (req : AnnReq) (now o1 o2 : Nat)
    (hs : WSim m r) (ho : AnnOffOk cfg m conn req o1 o2) :
    ∃ m' msgs recv, announce cfg m conn req now o1 o2 = .ok (m', msgs) ∧
      msgs = (Ref.announce cfg r conn req now recv).2 ∧
      (Accepted r conn req → req.stopped = false → Ref.recvOk cfg (Ref.announce cfg r conn req now recv).1.entries req recv) := by
  obtain ⟨m', msgs, recv, h1, _, h3, h4⟩ := announce_sim cfg m r conn req now o1 o2 hs ho
  exact ⟨m', msgs, recv, h1, h3, h4⟩

/-- an allowed choice of receivers: distinct stored peers of the same torrent, never the sender,
exactly min(offers sent, max_offers, other peers) many -/
theorem receivers_allowed (cfg : WsCfg) (es : List RW) (req : AnnReq) (recv : List Nat) (h : Ref.recvOk cfg es req recv) :
    recv.Nodup ∧ req.pid ∉ recv ∧ (∀ x ∈ recv, ∃ e, Ref.find es req.hash x = some e ∧ e.hash = req.hash ∧ e.pid = x) ∧
    recv.length = min (min ((req.offers.getD []).length) cfg.maxOffers)
      ((Ref.ofTorrent es req.hash).filter (fun e => !decide (e.pid = req.pid))).length := by
  obtain ⟨h1, h2, h3, h4⟩ := h
  refine ⟨h1, h2, ?_, h4⟩
  intro x hx
  obtain ⟨e, he⟩ := Option.isSome_iff_exists.mp (h3 x hx)
  exact ⟨e, he, (Ref.find_some he).2⟩

/-- one message per paired (offer, receiver): addressed to the connection that owns the receiving
peer, tagged with the sender's peer id, carrying the offer id and payload unchanged -/
theorem offerMsgs_shape (es : List RW) (h sender : Nat) :
    ∀ (offers : List (Nat × Nat)) (recv : List Nat), (∀ x ∈ recv, (Ref.find es h x).isSome) →
      (Ref.offerMsgs es h sender (offers.zip recv)).length = min offers.length recv.length ∧
      ∀ msg ∈ Ref.offerMsgs es h sender (offers.zip recv), ∃ off rcv e, (off, rcv) ∈ offers.zip recv ∧
        Ref.find es h rcv = some e ∧ msg = Msg.offer e.owner h sender off.1 off.2
  | [], recv, _ => by simp [Ref.offerMsgs]
  | o :: ot, [], _ => by simp [Ref.offerMsgs]
  | o :: ot, r :: rt, hall => by
    obtain ⟨e, he⟩ := Option.isSome_iff_exists.mp (hall r List.mem_cons_self)
    obtain ⟨ihl, ihm⟩ := offerMsgs_shape es h sender ot rt (fun x hx => hall x (List.mem_cons_of_mem _ hx))
    have hown : Ref.ownerOf es h r = some e.owner := by simp [Ref.ownerOf, he]
    have hcons : Ref.offerMsgs es h sender ((o :: ot).zip (r :: rt)) =
        Msg.offer e.owner h sender o.1 o.2 :: Ref.offerMsgs es h sender (ot.zip rt) := by
      simp [Ref.offerMsgs, hown]
    rw [hcons]
    refine ⟨by simp [ihl], ?_⟩
    intro msg hm
    rcases List.mem_cons.mp hm with hm | hm
    · exact ⟨o, r, e, by simp, he, hm⟩
    · obtain ⟨off, rcv, e', h1, h2, h3⟩ := ihm msg hm
      exact ⟨off, rcv, e', by simp [h1], h2, h3⟩

theorem map_snd_zip_prefix {α β : Type} : ∀ (a : List α) (b : List β), (a.zip b).map (·.2) <+: b
  | [], b => by simp
  | _ :: _, [] => by simp
  | x :: a, y :: b => by
    simp only [List.zip_cons_cons, List.map_cons]
    exact (List.prefix_cons_inj y).mpr (map_snd_zip_prefix a b)

/-- in total min(offers sent, max_offers, other peers) offers are forwarded, to distinct peers -/
theorem offers_forwarded_count (cfg : WsCfg) (es : List RW) (req : AnnReq) (recv : List Nat) (h : Ref.recvOk cfg es req recv) :
    (Ref.offerMsgs es req.hash req.pid ((req.offers.getD []).zip recv)).length =
      min (min ((req.offers.getD []).length) cfg.maxOffers)
        ((Ref.ofTorrent es req.hash).filter (fun e => !decide (e.pid = req.pid))).length ∧
    ((req.offers.getD []).zip recv).map (·.2) <+: recv ∧ recv.Nodup := by
  obtain ⟨h1, _, h3, h4⟩ := h
  have := (offerMsgs_shape es req.hash req.pid (req.offers.getD []) recv h3).1
  refine ⟨by rw [this, h4]; omega, ?_, h1⟩
  exact map_snd_zip_prefix _ _  -- the receivers used are a prefix of the chosen ones

/-- a `stopped` announce forwards nothing: the only message is the reply to the announcer -/
theorem stopped_forwards_nothing (cfg : WsCfg) (r : RefW) (conn : ConnId) (req : AnnReq) (now : Nat) (recv : List Nat)
    (hs : req.stopped = true) :
    ∃ c i, (Ref.announceCore cfg r conn req now recv).2 = [Msg.announce conn req.hash c i] := by
  have hst : wsStatus req.stopped req.left = .stopped := by simp [wsStatus, hs]
  refine ⟨Ref.complete (Ref.rest r.entries req.hash req.pid) req.hash,
    Ref.incomplete (Ref.rest r.entries req.hash req.pid) req.hash, ?_⟩
  simp [Ref.announceCore, hst]

/-! ### answers -/

/-- **an answer is forwarded exactly when** the addressed peer is stored and holds an outstanding
offer with that id towards the answering peer; then it goes to the offering peer's connection only,
and the offer is consumed.  Otherwise: an error reply to the answerer (peer stored, no such offer) or
nothing (peer not stored) - never a forwarded message. -/
theorem answer_forwarded_iff (es : List RW) (x : Exps) (conn : ConnId) (req : AnnReq) (toPid oid payload : Nat)
    (ha : req.answer = some (toPid, oid, payload)) :
    (∀ e vu, Ref.find es req.hash toPid = some e → x req.hash toPid (req.pid, oid) = some vu →
      (Ref.answerPart es x conn req).2 = [Msg.answer e.owner req.hash req.pid oid payload] ∧
      (Ref.answerPart es x conn req).1 req.hash toPid (req.pid, oid) = none) ∧
    (∀ e, Ref.find es req.hash toPid = some e → x req.hash toPid (req.pid, oid) = none →
      Ref.answerPart es x conn req = (x, [Msg.error conn (some req.hash)])) ∧
    (Ref.find es req.hash toPid = none → Ref.answerPart es x conn req = (x, [])) := by
  refine ⟨?_, ?_, ?_⟩
  · intro e vu he hx
    simp [Ref.answerPart, ha, he, hx, Ref.setExp]
  · intro e he hx
    simp [Ref.answerPart, ha, he, hx]
  · intro he
    simp [Ref.answerPart, ha, he]

/-- so the same answer arriving twice is forwarded once: the second time the offer is gone -/
theorem second_answer_refused (es : List RW) (x : Exps) (conn : ConnId) (req : AnnReq) (toPid oid payload : Nat)
    (ha : req.answer = some (toPid, oid, payload)) (e : RW) (vu : Nat) (he : Ref.find es req.hash toPid = some e)
    (hx : x req.hash toPid (req.pid, oid) = some vu) :
    Ref.answerPart es (Ref.answerPart es x conn req).1 conn req =
      ((Ref.answerPart es x conn req).1, [Msg.error conn (some req.hash)]) := by
  have h1 := ((answer_forwarded_iff es x conn req toPid oid payload ha).1 e vu he hx).2
  exact (answer_forwarded_iff es _ conn req toPid oid payload ha).2.1 e he h1

/-- no message other than those three shapes: an announce never makes the tracker forward an answer
to anybody but the owner of the addressed peer -/
theorem answer_only_to_offerer (es : List RW) (x : Exps) (conn : ConnId) (req : AnnReq) :
    ∀ msg ∈ (Ref.answerPart es x conn req).2,
      (∃ toPid oid payload e, req.answer = some (toPid, oid, payload) ∧ Ref.find es req.hash toPid = some e ∧
        (x req.hash toPid (req.pid, oid)).isSome ∧ msg = Msg.answer e.owner req.hash req.pid oid payload) ∨
      msg = Msg.error conn (some req.hash) := by
  intro msg hm
  unfold Ref.answerPart at hm
  cases ha : req.answer with
  | none => simp [ha] at hm
  | some a =>
    obtain ⟨toPid, oid, payload⟩ := a
    simp only [ha] at hm
    cases he : Ref.find es req.hash toPid with
    | none => simp [he] at hm
    | some e =>
      simp only [he] at hm
      cases hx : x req.hash toPid (req.pid, oid) with
      | none => simp [hx] at hm; exact .inr hm
      | some vu =>
        simp [hx] at hm
        exact .inl ⟨toPid, oid, payload, e, rfl, he, by simp [hx], hm⟩

/-! ### outstanding offers come only from forwarded offers, and are dropped with their peer or by
expiry -/

theorem expAfterR_some (f : ExpKey → Option Nat) (vu : Nat) (pairs : List ((Nat × Nat) × Nat)) (k : ExpKey) (v : Nat)
    (h : expAfterR f vu pairs k = some v) : f k = some v ∨ ∃ off rcv, (off, rcv) ∈ pairs ∧ k = (rcv, off.1) := by
  induction pairs generalizing f with
  | nil => exact .inl h
  | cons a t ih =>
    obtain ⟨off, rcv⟩ := a
    simp only [expAfterR] at h
    rcases ih _ h with h' | ⟨o, r, hm, hk⟩
    · by_cases e : k = (rcv, off.1)
      · exact .inr ⟨off, rcv, List.mem_cons_self, e⟩
      · simp [e] at h'; exact .inl h'
    · exact .inr ⟨o, r, List.mem_cons_of_mem _ hm, hk⟩

/-- every outstanding offer after an announce was outstanding before or belongs to an offer
forwarded by this very announce -/
theorem outstanding_from_forwarded (cfg : WsCfg) (r : RefW) (conn : ConnId) (req : AnnReq) (now : Nat) (recv : List Nat)
    (h p : Nat) (k : ExpKey) (v : Nat)
    (hx : (Ref.announceCore cfg r conn req now recv).1.exps h p k = some v) :
    r.exps h p k = some v ∨
    (h = req.hash ∧ p = req.pid ∧ ∃ off rcv, (off, rcv) ∈ (req.offers.getD []).zip recv ∧ k = (rcv, off.1)) := by
  unfold Ref.announceCore at hx
  cases hst : wsStatus req.stopped req.left with
  | stopped =>
    rw [hst] at hx
    simp only [Ref.clearExps] at hx
    split at hx
    · cases hx
    · exact .inl hx
  | seeding | leeching =>
    all_goals
      rw [hst] at hx
      simp only at hx
      -- the answer part only removes
      have hans : ∀ (es : List RW) (x : Exps), (Ref.answerPart es x conn req).1 h p k = some v → x h p k = some v := by
        intro es x hh
        unfold Ref.answerPart at hh
        split at hh
        · exact hh
        · split at hh
          · exact hh
          · split at hh
            · simp only [Ref.setExp] at hh
              split at hh
              · cases hh
              · exact hh
            · exact hh
      have h2 := hans _ _ hx
      rw [ref_recordOffers_eq] at h2
      split at h2
      · rename_i hc
        rcases expAfterR_some _ _ _ _ _ h2 with h3 | h3
        · rw [hc.1, hc.2]; exact .inl h3
        · exact .inr ⟨hc.1, hc.2, h3⟩
      · exact .inl h2

/-- closing a connection and cleaning only ever remove outstanding offers; cleaning drops the
expired ones -/
theorem close_clean_only_remove (r : RefW) (conn : ConnId) (now : Nat) (allowed : Nat → Bool) (h p : Nat) (k : ExpKey) (v : Nat) :
    ((Ref.close r conn).exps h p k = some v → r.exps h p k = some v) ∧
    ((Ref.clean r now allowed).exps h p k = some v → r.exps h p k = some v ∧ validAt v now = true) := by
  constructor
  · intro hx
    simp only [Ref.close] at hx
    split at hx
    · split at hx
      · cases hx
      · exact hx
    · exact hx
  · intro hx
    simp only [Ref.clean] at hx
    split at hx
    · split at hx
      · cases hr : r.exps h p k with
        | none => simp [hr, Option.filter] at hx
        | some w =>
          simp only [hr, Option.filter] at hx
          split at hx
          · cases hx; exact ⟨rfl, by assumption⟩
          · cases hx
      · cases hx
    · cases hx

/-! ### non-vacuity: an offer is forwarded, answered once, and the second answer is refused -/

def demoCfg : WsCfg := ⟨10, 255, 180, 120⟩
def demoOps : List WOp :=
  [.ann ⟨0, 1⟩ true ⟨7, 100, false, some 5, none, none⟩ 1 0 0,
   .ann ⟨0, 2⟩ true ⟨7, 200, false, some 5, some [(900, 42)], none⟩ 2 0 0,     -- offer 900 goes to peer 100
   .ann ⟨0, 1⟩ true ⟨7, 100, false, some 5, none, some (200, 900, 43)⟩ 3 0 0,  -- answered
   .ann ⟨0, 1⟩ true ⟨7, 100, false, some 5, none, some (200, 900, 44)⟩ 4 0 0]  -- again: refused

example : OpsOk demoCfg {} demoOps := by decide
example : run demoCfg {} demoOps =
    .ok [[Msg.announce ⟨0, 1⟩ 7 0 1],
         [Msg.offer ⟨0, 1⟩ 7 200 900 42, Msg.announce ⟨0, 2⟩ 7 0 2],
         [Msg.answer ⟨0, 2⟩ 7 100 900 43, Msg.announce ⟨0, 1⟩ 7 0 2],
         [Msg.error ⟨0, 1⟩ (some 7), Msg.announce ⟨0, 1⟩ 7 0 2]] := by decide

end Aquatic.Ws.C09
