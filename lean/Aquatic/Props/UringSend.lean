/-
  C06 / C18, io_uring back end - what happens to a reply between the moment it is computed and the
  moment the kernel has sent it: "exactly one datagram for a well-formed request" (C06) and "never
  dropped because a fixed-size internal send buffer is too small" (C18) on the send side of the
  socket worker, where the pool of reply buffers is finite and a reply that finds no free buffer is
  put back at the front of the queue.

  Model: Aquatic.Model.UringSend (SendBuffers of send_buffers.rs; the queue handling at the top of
  the worker's loop and the send completions of handle_cqe in mod.rs).  Proved for every pool size,
  every sequence of arrivals, send phases with any room in the submission queue, completions in any
  order and iteration ends:
    * the buffer handed out is free, is the first free one at or after the hint, and is never one
      the kernel may still be reading (`prepared_buffer_is_free`, `never_reuses_inflight`);
    * a buffer is marked taken exactly when an uncompleted send uses it - no buffer leaks, no two
      sends share one (`reachable_pool`);
    * replies leave the queue in the order they were queued, each exactly once, and each is then
      in flight, sent, or was dropped because it does not serialise into the buffer - nothing else is
      ever dropped (`reachable_flow`, `no_reply_lost_or_duplicated`);
    * with the limits of an accepted configuration (C18: every reply fits) nothing is dropped at
      all (`nothing_dropped_when_all_fit`);
    * a send phase stops only because the queue is empty, the submission queue is full, or no
      buffer is free from the hint on (`enqueue_stops_for_a_reason`); after an iteration end, with
      one free buffer and room for one entry, the head of the queue is handed to the kernel
      (`enqueue_progress`).
  Tie: the real `SendBuffers` is driven in-process (hook `verif_uring`) through generated sequences
  of prepare / mark-free / reset and compared call by call (family `uringsend`); the queue handling
  is inline in the worker's loop and is exercised by the socket-level runs of C06 / C18 only.
-/
import Aquatic.Lemmas.UringSend
import Aquatic.Generated.Locks

namespace Aquatic.UringSend.Props

open Aquatic.UringSend

/-! ### the pool -/

/-- `prepare_entry` hands out a buffer that is free, the first free one from the hint on, marks
it taken and moves the hint past it; everything else stays as it was. -/
theorem prepared_buffer_is_free (s s' : SB) (fits : Bool) (i : Nat) (h : s.prepare fits = (s', .ok i)) :
    s.free[i]? = some true ∧ s.likely ≤ i ∧ (∀ j, s.likely ≤ j → j < i → s.free[j]? = some false) ∧
    s' = ⟨s.free.set i false, i + 1⟩ := by
  unfold SB.prepare at h
  cases hn : s.nextFree with
  | none => rw [hn] at h; simp at h
  | some k =>
    rw [hn] at h
    simp only at h
    split at h
    · simp only [Prod.mk.injEq, Prep.ok.injEq] at h
      obtain ⟨rfl, rfl⟩ := h
      obtain ⟨h1, h2, h3⟩ := nextFree_some s k hn
      exact ⟨h2, h1, h3, rfl⟩
    · simp at h

/-- "no buffers" is reported only when every buffer from the hint on is taken, and changes nothing -/
theorem no_buffers_means_none_free (s s' : SB) (fits : Bool) (h : s.prepare fits = (s', .noBuffers)) :
    s' = s ∧ ∀ j, s.likely ≤ j → j < s.free.length → s.free[j]? = some false := by
  unfold SB.prepare at h
  cases hn : s.nextFree with
  | none => rw [hn] at h; simp only [Prod.mk.injEq, and_true] at h; exact ⟨h.symm, nextFree_none s hn⟩
  | some k => rw [hn] at h; simp only at h; split at h <;> simp at h

/-- a reply that does not serialise leaves the pool exactly as it was -/
theorem ser_failure_changes_nothing (s s' : SB) (fits : Bool) (h : s.prepare fits = (s', .serFailed)) :
    s' = s ∧ fits = false := by
  unfold SB.prepare at h
  cases hn : s.nextFree with
  | none => rw [hn] at h; simp at h
  | some k =>
    rw [hn] at h; simp only at h
    split at h
    · simp at h
    · rename_i hf; simp only [Prod.mk.injEq, and_true] at h; exact ⟨h.symm, by simpa using hf⟩

/-! ### every reachable state -/

theorem step_inv {ρ : Type} (fits : ρ → Bool) (w w' : W ρ) (e : Ev ρ) (hs : w.step fits e = .ok w')
    (hp : PoolInv w) (hf : FlowInv fits w) : PoolInv w' ∧ FlowInv fits w' := by
  cases e with
  | arrive r =>
    simp only [W.step, Except.ok.injEq] at hs; subst hs
    refine ⟨⟨hp.nodup, hp.agree⟩, ?_, hf.accounted, hf.droppedNoFit⟩
    simp only [W.arrive, ← List.append_assoc, hf.fifo]
  | enqueue k =>
    simp only [W.step, Except.ok.injEq] at hs; subst hs
    exact ⟨enqueue_pool fits k w hp, enqueue_flow fits k w hf⟩
  | complete i =>
    simp only [W.step] at hs
    exact ⟨complete_pool w w' i hp hs, complete_flow fits w w' i hf hs⟩
  | endIter =>
    simp only [W.step, Except.ok.injEq] at hs; subst hs
    exact ⟨⟨hp.nodup, hp.agree⟩, hf.fifo, hf.accounted, hf.droppedNoFit⟩

theorem init_inv {ρ : Type} (fits : ρ → Bool) (cap : Nat) : PoolInv (W.new ρ cap) ∧ FlowInv fits (W.new ρ cap) := by
  refine ⟨⟨by simp [W.new], ?_⟩, by simp [W.new], by simp [W.new], by simp [W.new]⟩
  intro i
  simp only [W.new, SB.new, List.map_nil, List.not_mem_nil, false_iff]
  intro h
  rw [List.getElem?_replicate] at h
  split at h <;> simp at h

theorem run_inv {ρ : Type} (fits : ρ → Bool) : ∀ (evs : List (Ev ρ)) (w w' : W ρ), W.run fits w evs = .ok w' →
    PoolInv w → FlowInv fits w → PoolInv w' ∧ FlowInv fits w'
  | [], w, w', h, hp, hf => by simp only [W.run, Except.ok.injEq] at h; subst h; exact ⟨hp, hf⟩
  | e :: es, w, w', h, hp, hf => by
    simp only [W.run] at h
    cases hs : w.step fits e with
    | error p => rw [hs] at h; cases h
    | ok w1 =>
      rw [hs] at h
      obtain ⟨hp1, hf1⟩ := step_inv fits w w1 e hs hp hf
      exact run_inv fits es w1 w' h hp1 hf1

/-- In every reachable state a buffer is marked taken exactly when an uncompleted send uses it, and
no two uncompleted sends share a buffer. -/
theorem reachable_pool {ρ : Type} (fits : ρ → Bool) (cap : Nat) (evs : List (Ev ρ)) (w : W ρ)
    (h : W.run fits (W.new ρ cap) evs = .ok w) : PoolInv w :=
  (run_inv fits evs _ w h (init_inv fits cap).1 (init_inv fits cap).2).1

/-- In every reachable state: the replies that have left the queue, followed by the queue, are the
replies ever queued, in order; and those that have left it are, each exactly once, sent, in flight,
or dropped for not fitting the buffer. -/
theorem reachable_flow {ρ : Type} (fits : ρ → Bool) (cap : Nat) (evs : List (Ev ρ)) (w : W ρ)
    (h : W.run fits (W.new ρ cap) evs = .ok w) : FlowInv fits w :=
  (run_inv fits evs _ w h (init_inv fits cap).1 (init_inv fits cap).2).2

/-- The buffer `prepare_entry` writes into is never one the kernel may still be reading. -/
theorem never_reuses_inflight {ρ : Type} (fits : ρ → Bool) (cap : Nat) (evs : List (Ev ρ)) (w : W ρ)
    (h : W.run fits (W.new ρ cap) evs = .ok w) (b : Bool) (s' : SB) (i : Nat)
    (hp : w.sb.prepare b = (s', .ok i)) : i ∉ w.inflight.map Prod.fst := by
  intro hm
  have hfree := (prepared_buffer_is_free _ _ _ _ hp).1
  rw [((reachable_pool fits cap evs w h).agree i).mp hm] at hfree
  cases hfree

/-- **No reply is lost or duplicated**: every reply ever queued is, exactly once, still queued, in
flight, sent, or dropped - and dropped only if it does not serialise into the buffer. -/
theorem no_reply_lost_or_duplicated {ρ : Type} (fits : ρ → Bool) (cap : Nat) (evs : List (Ev ρ)) (w : W ρ)
    (h : W.run fits (W.new ρ cap) evs = .ok w) :
    (w.sent ++ w.inflight.map Prod.snd ++ w.dropped ++ w.queue).Perm w.log ∧ ∀ r ∈ w.dropped, fits r = false := by
  have hf := reachable_flow fits cap evs w h
  refine ⟨?_, hf.droppedNoFit⟩
  rw [← hf.fifo]
  exact hf.accounted.append_right _

/-- With limits under which every reply fits the buffer (C18.accepted_replies_fit for the io_uring
back end) nothing is ever dropped. -/
theorem nothing_dropped_when_all_fit {ρ : Type} (fits : ρ → Bool) (hall : ∀ r, fits r = true) (cap : Nat)
    (evs : List (Ev ρ)) (w : W ρ) (h : W.run fits (W.new ρ cap) evs = .ok w) : w.dropped = [] := by
  have hf := reachable_flow fits cap evs w h
  cases hd : w.dropped with
  | nil => rfl
  | cons r t =>
    have := hf.droppedNoFit r (by rw [hd]; exact List.mem_cons_self)
    rw [hall r] at this; cases this

/-! ### the send phase -/

/-- A send phase with room for `k` entries stops early only when the queue is empty or no buffer is
free from the hint on. -/
theorem enqueue_stops_for_a_reason {ρ : Type} (fits : ρ → Bool) : ∀ (k : Nat) (w : W ρ),
    (enqueuePhase fits k w).queue = [] ∨ (enqueuePhase fits k w).handled.length = w.handled.length + k ∨
    (enqueuePhase fits k w).sb.nextFree = none
  | 0, w => .inr (.inl rfl)
  | k + 1, w => by
    unfold enqueuePhase
    cases hq : w.queue with
    | nil => exact .inl hq
    | cons r q =>
      simp only
      unfold SB.prepare
      cases hn : w.sb.nextFree with
      | none => exact .inr (.inr hn)
      | some i =>
        simp only
        cases hf : fits r with
        | false =>
          simp only [Bool.false_eq_true, if_false]
          rcases enqueue_stops_for_a_reason fits k { w with sb := w.sb, queue := q, dropped := w.dropped ++ [r], handled := w.handled ++ [r] } with h | h | h
          · exact .inl h
          · refine .inr (.inl ?_); rw [h]; simp only [List.length_append, List.length_cons, List.length_nil]; omega
          · exact .inr (.inr h)
        | true =>
          simp only [if_true]
          rcases enqueue_stops_for_a_reason fits k { w with sb := ⟨w.sb.free.set i false, i + 1⟩, queue := q, inflight := w.inflight ++ [(i, r)], handled := w.handled ++ [r] } with h | h | h
          · exact .inl h
          · refine .inr (.inl ?_); rw [h]; simp only [List.length_append, List.length_cons, List.length_nil]; omega
          · exact .inr (.inr h)

/-- After an iteration end (hint back at 0), with a reply waiting, room for one entry and one free
buffer anywhere in the pool, the head of the queue leaves it in this send phase. -/
theorem enqueue_progress {ρ : Type} (fits : ρ → Bool) (k : Nat) (w : W ρ) (r : ρ) (q : List ρ)
    (hq : w.queue = r :: q) (hl : w.sb.likely = 0) (j : Nat) (hj : w.sb.free[j]? = some true) :
    w.handled.length < (enqueuePhase fits (k + 1) w).handled.length := by
  have hsome := nextFree_isSome w.sb j (by omega) hj
  obtain ⟨i, hi⟩ := Option.isSome_iff_exists.mp hsome
  unfold enqueuePhase
  rw [hq]
  simp only
  unfold SB.prepare
  rw [hi]
  simp only
  cases hf : fits r with
  | false =>
    simp only [Bool.false_eq_true, if_false]
    have := handled_mono fits k { w with sb := w.sb, queue := q, dropped := w.dropped ++ [r], handled := w.handled ++ [r] }
    simp only [List.length_append, List.length_cons, List.length_nil] at this
    omega
  | true =>
    simp only [if_true]
    have := handled_mono fits k { w with sb := ⟨w.sb.free.set i false, i + 1⟩, queue := q, inflight := w.inflight ++ [(i, r)], handled := w.handled ++ [r] }
    simp only [List.length_append, List.length_cons, List.length_nil] at this
    omega


/-- A reply is put back only when the whole pool is in flight: after an iteration end (hint at 0), in
a state satisfying the pool invariant, "no buffers" means that as many sends are uncompleted as the
pool has buffers. -/
theorem no_buffers_means_all_in_flight {ρ : Type} (w : W ρ) (hp : PoolInv w) (hl : w.sb.likely = 0)
    (hn : w.sb.nextFree = none) : w.inflight.length = w.sb.free.length := by
  have hall : ∀ j, j < w.sb.free.length → w.sb.free[j]? = some false := fun j hj => nextFree_none w.sb hn j (by omega) hj
  have hperm : (w.inflight.map Prod.fst).Perm (List.range w.sb.free.length) := by
    rw [List.perm_ext_iff_of_nodup hp.nodup List.nodup_range]
    intro a
    rw [hp.agree a, List.mem_range]
    constructor
    · intro h; exact lt_of_getElem?_some h
    · exact hall a
  have := hperm.length_eq
  simpa using this


/-! ### tie for the queue handling, which is inline in the worker's loop -/

/-- The operations on `local_responses` as they stand in uring/mod.rs (regenerated on every run): the
send phase takes replies from the front, the only put-back goes to the front and is followed by
`break`, completions append at the back - what `enqueuePhase` and `W.arrive` were read from. -/
theorem queue_ops_as_modelled :
    Generated.uringQueueOps =
      [("run_inner", "pop_front", "-"), ("run_inner", "push_front", "break"),
       ("handle_cqe", "push_back", "-"), ("handle_cqe", "push_back", "-")] := by decide

/-! ### non-vacuity: a pool of two buffers under pressure -/

def demo : List (Ev Nat) :=
  [.arrive 10, .arrive 11, .arrive 12, .arrive 99, .enqueue 8, .endIter,      -- 10, 11 in flight; 12 finds no buffer
   .complete 1, .endIter, .enqueue 8,                                          -- buffer 1 free again: 12 goes out in it
   .complete 0, .complete 1, .endIter, .enqueue 1, .arrive 13, .endIter, .enqueue 8, .complete 0]

/-- replies above 50 do not serialise -/
def demoFits (r : Nat) : Bool := decide (r ≤ 50)

example : (W.run demoFits (W.new Nat 2) demo).toOption.map
    (fun w => (w.sent, w.inflight, w.dropped, w.queue, w.sb.free)) =
    some ([11, 10, 12, 13], [], [99], [], [true, true]) := by rfl

/-- the step in which 12 is put back: no buffer is free, nothing changes -/
example : (W.run demoFits (W.new Nat 2) (demo.take 5)).toOption.map (fun w => (w.queue, w.inflight, w.dropped)) =
    some ([12, 99], [(0, 10), (1, 11)], []) := by rfl

/-- out of range: `mark_buffer_as_free` would panic (a completion the kernel never sends) -/
example : (W.run demoFits (W.new Nat 2) [.complete 2]).toOption.isNone = true := by rfl

end Aquatic.UringSend.Props
