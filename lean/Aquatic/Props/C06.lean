/-
  C06 — UDP request/reply contract: one reply, to the sender, no amplification.

  The model (Aquatic.Model.UdpHandle) is the per-datagram decision of both socket back ends: a
  function from (source, datagram) to at most one (kind, transaction id), so "at most one datagram
  per datagram, addressed to the source" is the *shape* of the function the socket-level run
  compares the real tracker with (replies are matched to the client socket that sent the request).
  Proved here for every datagram, source and configuration: who gets an answer, of which kind and
  size.  Exercised only: the kernel's delivery, the resend queue under EWOULDBLOCK.
-/
import Aquatic.Lemmas.UdpHandle
import Aquatic.Props.C13

namespace Aquatic.C06

open Aquatic Aquatic.Bep15 Aquatic.UdpCodec Aquatic.UdpHandle

/-- every source for which no connection id is valid -/
def NoValidId (ctx : Ctx) (src : Ip) : Prop := ∀ id, ctx.idValid src id = false

theorem handleRequest_unauth (ctx : Ctx) (src : Ip) (r : Request) (k : ReplyKind) (tid : Nat)
    (hno : NoValidId ctx src) (h : handleRequest ctx src r = some (k, tid)) :
    ∃ t, r = .connect t ∧ k = .connect ∧ tid = t := by
  cases r with
  | connect t => simp [handleRequest] at h; exact ⟨t, rfl, h.1.symm, h.2.symm⟩
  | announce a => simp [handleRequest, hno a.connectionId] at h
  | scrape cid t hs => simp [handleRequest, hno cid] at h

/-- **no reply but the connect reply without a valid connection id, and never a larger one than the
request**: whatever the datagram, a source holding no valid id obtains nothing or the 16-byte connect
reply to a datagram of at least 16 bytes. (mio) -/
theorem unauthenticated_only_connect_mio (ctx : Ctx) (ip : Ip) (port : Nat) (b : Bytes) (k : ReplyKind) (tid : Nat)
    (hno : NoValidId ctx (canonical ip)) (h : handleMio ctx ip port b = some (k, tid)) :
    k = .connect ∧ replyLen k 0 0 = 16 ∧ replyLen k 0 0 ≤ b.length := by
  unfold handleMio at h
  split at h
  · cases h
  · simp only at h
    split at h
    · rename_i r hp
      obtain ⟨t, hr, hk, _⟩ := handleRequest_unauth ctx _ r k tid hno h
      subst hr hk
      rcases parseRequest_inv b _ _ hp with ⟨hl, _⟩ | ⟨a, ha, _⟩ | ⟨c, t', hs, ha, _⟩
      · exact ⟨rfl, rfl, hl⟩
      · cases ha
      · cases ha
    · simp [hno _] at h
    · cases h

theorem unauthenticated_only_connect_uring (ctx : Ctx) (ip : Ip) (port : Nat) (b : Bytes) (k : ReplyKind) (tid : Nat)
    (hno : NoValidId ctx (canonical ip)) (h : handleUring ctx ip port b = some (k, tid)) :
    k = .connect ∧ replyLen k 0 0 = 16 ∧ replyLen k 0 0 ≤ b.length := by
  unfold handleUring at h
  split at h
  · cases h
  · have : handleMio ctx ip port b = some (k, tid) := by unfold handleMio; exact h
    exact unauthenticated_only_connect_mio ctx ip port b k tid hno this

/-- more precisely: an announce / scrape / error reply is sent only when the id *carried by the
datagram* is valid for the (canonical) source -/
theorem non_connect_needs_valid_id (ctx : Ctx) (ip : Ip) (port : Nat) (b : Bytes) (k : ReplyKind) (tid : Nat)
    (h : handleMio ctx ip port b = some (k, tid)) (hk : k ≠ .connect) :
    ∃ cid, ctx.idValid (canonical ip) cid = true ∧
      ((∃ a, parseRequest b ctx.maxScrape = .ok (.announce a) ∧ a.connectionId = cid) ∨
       (∃ t hs, parseRequest b ctx.maxScrape = .ok (.scrape cid t hs)) ∨
       (∃ t, parseRequest b ctx.maxScrape = .error (.sendable cid t))) := by
  unfold handleMio at h
  split at h
  · cases h
  · simp only at h
    split at h
    · rename_i r hp
      cases r with
      | connect t => simp [handleRequest] at h; exact absurd h.1.symm hk
      | announce a =>
        by_cases hv : ctx.idValid (canonical ip) a.connectionId = true
        · exact ⟨_, hv, .inl ⟨a, hp, rfl⟩⟩
        · simp [handleRequest, hv] at h
      | scrape cid t hs =>
        by_cases hv : ctx.idValid (canonical ip) cid = true
        · exact ⟨_, hv, .inr (.inl ⟨t, hs, hp⟩)⟩
        · simp [handleRequest, hv] at h
    · rename_i cid t hp
      by_cases hv : ctx.idValid (canonical ip) cid = true
      · exact ⟨_, hv, .inr (.inr ⟨t, hp⟩)⟩
      · simp [hv] at h
    · cases h

/-- datagrams from source port 0 are ignored by both back ends -/
theorem port0_ignored (ctx : Ctx) (ip : Ip) (b : Bytes) :
    handleMio ctx ip 0 b = none ∧ handleUring ctx ip 0 b = none := by
  constructor
  · simp [handleMio]
  · unfold handleUring; split <;> simp

/-- a well-formed connect request is answered by exactly the connect reply with its transaction id,
whatever follows it in the datagram and whoever sends it -/
theorem connect_answered (ctx : Ctx) (ip : Ip) (port tid : Nat) (ext : Bytes) (hp : port ≠ 0) (ht : tid < 256 ^ 4) :
    handleMio ctx ip port (encRequest (.connect tid) ++ ext) = some (.connect, tid) := by
  simp [handleMio, hp, C13.parse_connect tid ext _ ht, handleRequest]

/-- a well-formed announce under a valid id: exactly one reply, of the sender's address family (or the
"not allowed" error), carrying the transaction id -/
theorem announce_answered (ctx : Ctx) (ip : Ip) (port : Nat) (a : AnnReq) (ext : Bytes) (hp : port ≠ 0)
    (hw : a.wf) (hport : a.port ≠ 0) (hv : ctx.idValid (canonical ip) a.connectionId = true) :
    handleMio ctx ip port (encRequest (.announce a) ++ ext) =
      some (if ctx.allowed a.infoHash then .announce (!(canonical ip).isV4) else .error, a.transactionId) := by
  simp only [handleMio, hp, if_false, C13.parse_announce a ext _ hw hport, handleRequest, hv, if_true]
  split <;> rfl

/-- a well-formed scrape under a valid id: exactly one scrape reply with one entry per requested
torrent up to `max_scrape_torrents`, for the first ones in request order (the parser hands
`hs.take max` to the store, whose reply lists them in that order: `C01`) -/
theorem scrape_answered (ctx : Ctx) (ip : Ip) (port cid tid : Nat) (hs : List Nat) (hp : port ≠ 0)
    (hc : cid < 256 ^ 8) (ht : tid < 256 ^ 4) (hh : ∀ x ∈ hs, x < 256 ^ 20) (hne : hs ≠ [])
    (hv : ctx.idValid (canonical ip) cid = true) :
    parseRequest (encRequest (.scrape cid tid hs)) ctx.maxScrape = .ok (.scrape cid tid (hs.take ctx.maxScrape)) ∧
    handleMio ctx ip port (encRequest (.scrape cid tid hs)) = some (.scrape (min ctx.maxScrape hs.length), tid) := by
  have hpz := C13.parse_scrape cid tid hs ctx.maxScrape hc ht hh hne
  refine ⟨hpz, ?_⟩
  simp [handleMio, hp, hpz, handleRequest, hv]

/-- a well-formed request under an id that is *not* valid for this source (stale, foreign, forged):
silence -/
theorem invalid_id_silence (ctx : Ctx) (ip : Ip) (port : Nat) (a : AnnReq) (ext : Bytes)
    (hw : a.wf) (hport : a.port ≠ 0) (hv : ctx.idValid (canonical ip) a.connectionId = false) :
    handleMio ctx ip port (encRequest (.announce a) ++ ext) = none := by
  unfold handleMio
  split
  · rfl
  · simp [C13.parse_announce a ext _ hw hport, handleRequest, hv]

/-- datagrams no parser arm accepts and that carry no usable ids are never answered -/
theorem unsendable_silence (ctx : Ctx) (ip : Ip) (port : Nat) (b : Bytes)
    (h : parseRequest b ctx.maxScrape = .error .unsendable) : handleMio ctx ip port b = none := by
  unfold handleMio
  split
  · rfl
  · simp [h]

/-- the two back ends take the same decision for every datagram the io_uring receive buffer holds -/
theorem uring_eq_mio (ctx : Ctx) (ip : Ip) (port : Nat) (b : Bytes) (h : b.length ≤ uringPayloadCap (!ip.isV4)) :
    handleUring ctx ip port b = handleMio ctx ip port b := by
  unfold handleUring handleMio
  have : ¬ b.length > uringPayloadCap (!ip.isV4) := by omega
  simp [this]

/-! ### full statement, and where the io_uring back end falls short of it (finding F6) -/

/-- "exactly one reply for any well-formed request carrying a valid connection id", for a back end -/
def ScrapeAnswered (handle : Ctx → Ip → Nat → Bytes → Option (ReplyKind × Nat)) : Prop :=
  ∀ (ctx : Ctx) (ip : Ip) (port cid tid : Nat) (hs : List Nat), port ≠ 0 → cid < 256 ^ 8 → tid < 256 ^ 4 →
    (∀ x ∈ hs, x < 256 ^ 20) → hs ≠ [] → ctx.idValid (canonical ip) cid = true →
    handle ctx ip port (encRequest (.scrape cid tid hs)) = some (.scrape (min ctx.maxScrape hs.length), tid)

theorem mio_scrape_answered : ScrapeAnswered handleMio :=
  fun ctx ip port cid tid hs hp hc ht hh hne hv => (scrape_answered ctx ip port cid tid hs hp hc ht hh hne hv).2

/-- io_uring, partial: requests that fit the receive buffer -/
theorem uring_scrape_answered_partial (ctx : Ctx) (ip : Ip) (port cid tid : Nat) (hs : List Nat) (hp : port ≠ 0)
    (hc : cid < 256 ^ 8) (ht : tid < 256 ^ 4) (hh : ∀ x ∈ hs, x < 256 ^ 20) (hne : hs ≠ [])
    (hv : ctx.idValid (canonical ip) cid = true)
    (hfit : (encRequest (.scrape cid tid hs)).length ≤ uringPayloadCap (!ip.isV4)) :
    handleUring ctx ip port (encRequest (.scrape cid tid hs)) = some (.scrape (min ctx.maxScrape hs.length), tid) := by
  rw [uring_eq_mio ctx ip port _ hfit]
  exact (scrape_answered ctx ip port cid tid hs hp hc ht hh hne hv).2

/-- io_uring does *not* meet the full statement: a well-formed scrape of 24 torrents (496 bytes; the
default limit is 70) under a valid id gets no reply, because the 512-byte receive buffer also holds
the kernel's message header and the source address (F6, recorded as a known finding) -/
theorem uring_not_scrape_answered : ¬ ScrapeAnswered handleUring := by
  intro h
  have := h ⟨70, fun _ _ => true, fun _ => true⟩ (.v4 1) 1 0 0 (List.replicate 24 0) (by decide) (by decide)
    (by decide) (by intro x hx; rw [List.eq_of_mem_replicate hx]; decide) (by decide) rfl
  have hlen : (encRequest (.scrape 0 0 (List.replicate 24 0))).length = 496 := by
    simp [encRequest, flatMap_natBE_length]
  have hdrop : handleUring ⟨70, fun _ _ => true, fun _ => true⟩ (.v4 1) 1 (encRequest (.scrape 0 0 (List.replicate 24 0))) = none := by
    unfold handleUring
    rw [if_pos (by rw [hlen]; decide)]
  rw [hdrop] at this
  cases this

/-! ### non-vacuity -/

example : handleMio ⟨70, fun _ id => id == 5, fun _ => true⟩ (.v4 1) 9 (encRequest (.scrape 5 7 [1, 2, 3])) =
    some (.scrape 3, 7) := by decide
example : handleMio ⟨70, fun _ id => id == 5, fun _ => true⟩ (.v4 1) 9 (encRequest (.scrape 6 7 [1, 2, 3])) = none := by
  decide

end Aquatic.C06
