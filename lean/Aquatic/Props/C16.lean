/-
  C16 — HTTP tracker: one well-framed reply per request; workers are invisible.

  Proved here (logic): the framing of every reply inside the reused, growing buffer, and that
  `n` swarm workers routed by the first byte of the info hash answer like one reference tracker.
  Exercised only (socket-level runs of this check): TCP segmentation, keep-alive, SO_REUSEPORT
  listeners, glommio scheduling.
-/
import Aquatic.Lemmas.HttpConn
import Aquatic.Lemmas.HttpShards
import Aquatic.Lemmas.HttpCodec
import Aquatic.Props.Store

namespace Aquatic.C16

open Aquatic Aquatic.Http

/-! ### framing -/

/-- Whatever an earlier, longer or shorter reply left in the buffer, the bytes written for a reply
are `HTTP/1.1 200 OK`, a `Content-Length` of `|body| + 2` padded with spaces, a blank line, the whole
body and CRLF — and the header stays intact for the next reply on the connection. -/
theorem reply_well_framed (buf body : S) (hok : HdrOk buf) (hd : (itoa (body.length + 2)).length ≤ 8) :
    (writeResponse buf body).2 =
      hdrA ++ itoa (body.length + 2) ++ List.replicate (8 - (itoa (body.length + 2)).length) 32 ++ hdrC ++
        body ++ [13, 10] ∧
    HdrOk (writeResponse buf body).1 :=
  writeResponse_frame buf body hok hd

/-- the number announced in `Content-Length` is the number of bytes that follow the blank line -/
theorem content_length_exact (buf body : S) (hok : HdrOk buf) (hd : (itoa (body.length + 2)).length ≤ 8) :
    parseUInt (body.length + 3) (itoa (body.length + 2)) = some (body ++ [13, 10]).length ∧
    ((writeResponse buf body).2).length = hdrLen + (body ++ [13, 10]).length := by
  have h := (reply_well_framed buf body hok hd).1
  refine ⟨by rw [parseUInt_itoa _ _ (by omega)]; simp, ?_⟩
  rw [h]
  have := hdr_lens
  simp only [List.length_append, List.length_replicate, this.1, this.2.2.1, this.2.2.2, List.length_cons,
    List.length_nil]
  omega

/-- every reply of a connection, in order, is well framed (the buffer invariant is inductive) -/
theorem replies_well_framed (bodies : List S) : ∀ (buf : S), HdrOk buf →
    (∀ b ∈ bodies, (itoa (b.length + 2)).length ≤ 8) →
    ∀ b ∈ bodies, ∃ buf', HdrOk buf' ∧
      (writeResponse buf' b).2 =
        hdrA ++ itoa (b.length + 2) ++ List.replicate (8 - (itoa (b.length + 2)).length) 32 ++ hdrC ++ b ++ [13, 10] := by
  induction bodies with
  | nil => intro _ _ _ b hb; cases hb
  | cons x t ih =>
    intro buf hok hd b hb
    rcases List.mem_cons.mp hb with e | e
    · subst e
      exact ⟨buf, hok, (reply_well_framed buf b hok (hd b List.mem_cons_self)).1⟩
    · exact ih (writeResponse buf x).1 (reply_well_framed buf x hok (hd x List.mem_cons_self)).2
        (fun y hy => hd y (List.mem_cons_of_mem _ hy)) b e

/-- a fresh connection's buffer satisfies the invariant -/
theorem fresh_buffer_ok (size : Nat) : HdrOk (freshBuffer size) := freshBuffer_ok size

/-! ### `n` swarm workers behave like one reference tracker -/

theorem shardSim_init (c n : Nat) : ShardSim c n (List.replicate n []) [] := by
  refine ⟨by simp, ?_⟩
  intro i hi
  simp only [List.getElem_replicate]
  exact sim1_init c

theorem getElem?_of_lt {α : Type} (l : List α) (i : Nat) (h : i < l.length) : l[i]? = some l[i] := by
  simp [h]

/-- announces: routed to one worker, answered like the reference, all workers stay in simulation -/
theorem sharded_announce (c n : Nat) (hn : 0 < n) (ss : Shards) (r : RState) (h : Nat) (key : Key) (st : Status)
    (pid dl k o1 o2 : Nat) (hs : ShardSim c n ss r)
    (hoff : ∀ m, ss[route n h]? = some m → m.OffOk h key k o1 o2) :
    ∃ ss' out, shardAnnounce c n ss h key st pid dl k o1 o2 = .ok (ss', out) ∧
      ShardSim c n ss' (Ref.announce r h key st pid dl).1 ∧
      out.seeders = (Ref.announce r h key st pid dl).2.seeders ∧
      out.leechers = (Ref.announce r h key st pid dl).2.leechers ∧
      PeersOk out.peers (Ref.announce r h key st pid dl).2.candidates k := by
  obtain ⟨hlen, hsim⟩ := hs
  have hi : route n h < ss.length := by rw [hlen]; exact Nat.mod_lt _ hn
  have hget := getElem?_of_lt ss _ hi
  obtain ⟨m', out, ha, hsim', h1, h2, h3⟩ :=
    sim1_announce c ss[route n h] (restrict n (route n h) r) h key st pid dl k o1 o2 (hsim _ hi) (hoff _ hget)
  rw [announce_restrict_same n (route n h) r h key st pid dl rfl] at hsim' h1 h2 h3
  refine ⟨ss.set (route n h) m', out, ?_, ⟨by simp [hlen], ?_⟩, h1, h2, h3⟩
  · simp [shardAnnounce, hget, ha, bind, Except.bind, pure, Except.pure]
  · intro i hi'
    by_cases e : i = route n h
    · subst e
      simp only [List.getElem_set_self]
      exact hsim'
    · have hi'' : i < ss.length := by simpa using hi'
      rw [List.getElem_set_ne (fun x => e x.symm)]
      rw [announce_restrict_other n i r h key st pid dl (fun x => e x.symm)]
      exact hsim i hi''

/-- scrapes: each requested torrent is answered by its worker with the reference's counts; the
request is cut to `max_scrape_torrents` as a whole; the merged map lists every torrent once -/
theorem sharded_scrape (c n : Nat) (hn : 0 < n) (ss : Shards) (r : RState) (maxScrape : Nat) (hs' : List Nat)
    (hs : ShardSim c n ss r) :
    shardScrape n maxScrape ss hs' =
      .ok (httpScrapeFiles ((hs'.take maxScrape).map (fun h => (h, (Ref.scrape r h).1, (Ref.scrape r h).2)))) := by
  obtain ⟨hlen, hsim⟩ := hs
  have hl : ∀ l : List Nat, shardScrapeList n ss l = .ok (l.map (fun h => (h, (Ref.scrape r h).1, (Ref.scrape r h).2))) := by
    intro l
    induction l with
    | nil => rfl
    | cons h t ih =>
      have hi : route n h < ss.length := by rw [hlen]; exact Nat.mod_lt _ hn
      have hget := getElem?_of_lt ss _ hi
      have := sim1_scrapeOne c ss[route n h] (restrict n (route n h) r) h (hsim _ hi)
      rw [scrape_restrict n _ r h rfl] at this
      simp [shardScrapeList, hget, this, ih, bind, Except.bind, pure, Except.pure]
  simp [shardScrape, hl, Except.map]

/-- a worker's cleaning pass keeps it in simulation with its share of the cleaned reference and
leaves the other workers alone -/
theorem sharded_clean (c n : Nat) (ss : Shards) (r : RState) (i now : Nat) (allowed : Nat → Bool)
    (hi : i < ss.length) (hs : ShardSim c n ss r) :
    ∃ ss', shardClean c ss i now allowed = .ok ss' ∧ ss'.length = ss.length ∧
      Sim1 c ss'[i]! (Ref.clean (restrict n i r) now allowed) ∧
      ∀ j, (hj : j < ss.length) → j ≠ i → ss'[j]? = some ss[j] := by
  obtain ⟨hlen, hsim⟩ := hs
  obtain ⟨m', np, hc, hpost⟩ := TMap.cleanHttp_spec c ss[i] now allowed (hsim i hi).1
  have hget := getElem?_of_lt ss i hi
  refine ⟨ss.set i m', ?_, by simp, ?_, ?_⟩
  · simp [shardClean, hget, hc, bind, Except.bind, pure, Except.pure]
  · have : (ss.set i m')[i]! = m' := by simp [hi]
    rw [this]
    exact sim1_of_cleanPost (hsim i hi) hpost
  · intro j hj hne
    simp [List.getElem?_set, hne.symm, hj]

/-! ### non-vacuity -/

-- a second, shorter reply after a longer one: the stale digit is blanked
example : (writeResponse (writeResponse (freshBuffer 64) (List.replicate 10 65)).1 [66]).2 =
    hdrA ++ [51] ++ List.replicate 7 32 ++ hdrC ++ [66] ++ [13, 10] := by decide

end Aquatic.C16
