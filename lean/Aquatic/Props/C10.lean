/-
  C10 — Peers (and WebTorrent offers) expire exactly at their deadline, never earlier.

  Three layers:
   1. `ValidUntil` arithmetic (Model/Time.lean, u32 seconds, saturating after fix F8);
   2. one cleaning pass on a peer map in either representation keeps exactly the
      entries whose deadline is in the future (Lemmas/PeerMap.lean `clean_spec`);
   3. on the reference tracker the C10 clauses are membership facts of a `filter`;
      the refinement theorem (Props/Store.lean) transports them to the UDP and HTTP
      stores for every history.  (The WebTorrent store and offers: Props/C08/C09.)
-/
import Aquatic.Props.Store
import Aquatic.Model.Time

namespace Aquatic.C10

open Aquatic

/-! ### 1. deadline arithmetic -/

theorem valid_iff (d t : Nat) : validAt d t = true ↔ t < d := by simp [validAt]

/-- the deadline is "time sample + maximum age" whenever that is representable -/
theorem deadline_exact (now age : Nat) (h : now + age ≤ u32Max) : validUntilNew now age = now + age := by
  simp [validUntilNew, Nat.min_eq_left h]

/-- the full-strength statement about the clock arithmetic: for every time sample,
age and clock value of the u32 clock, the entry is valid iff the clock has not
reached `now + age` -/
def FullStatement : Prop :=
  ∀ now age t, now ≤ u32Max → age ≤ u32Max → t ≤ u32Max →
    (validAt (validUntilNew now age) t = true ↔ t < now + age)

/-- It holds at every clock value except the very last representable second. -/
theorem available_until_deadline_partial (now age t : Nat) (ht : t < u32Max) :
    validAt (validUntilNew now age) t = true ↔ t < now + age := by
  simp only [validAt, validUntilNew, decide_eq_true_eq, Nat.lt_min]
  omega

/-- … and for every clock value when the deadline is representable. -/
theorem available_until_deadline (now age t : Nat) (h : now + age ≤ u32Max) :
    validAt (validUntilNew now age) t = true ↔ t < now + age := by
  rw [deadline_exact now age h, valid_iff]

/-- Negation witness (known finding F8b): a deadline beyond u32::MAX is saturated, so at
clock value u32::MAX — after 136 years of uptime — the entry counts as expired one
second early.  (Before fix F8 the addition overflowed for all these inputs.) -/
theorem full_statement_fails : ¬ FullStatement := by
  intro h
  have := h 1 u32Max u32Max (by decide) (by decide) (by decide)
  simp [validAt, validUntilNew, u32Max] at this

/-! ### 2. one cleaning pass, either representation -/

/-- A cleaning pass at `now` keeps exactly the entries with `now < deadline`, in the
inline and in the heap representation alike, whatever else the torrent holds;
the cached seeder counter stays exact; no panic. -/
theorem clean_keeps_exactly_unexpired (c : Nat) (shrink : Bool) (pm : PeerMap) (now : Nat)
    (hinv : pm.Inv c) :
    ∃ pm' s removed, pm.clean c shrink now = .ok (pm', s, removed) ∧ pm'.Inv c ∧
      (∀ e, e ∈ pm'.entries ↔ (e ∈ pm.entries ∧ now < e.2.deadline)) ∧
      s = numSeeders pm'.entries := by
  obtain ⟨pm', h1, h2, h3⟩ := clean_spec c shrink pm now hinv
  refine ⟨pm', _, _, h1, h2, ?_, by rw [h3]⟩
  intro e
  rw [h3]
  simp [List.mem_filter, validE, isValid]

/-! ### 3. the reference tracker -/

/-- never earlier: an entry whose deadline is still in the future survives the pass
(unless its torrent is forbidden by the access list, C11) -/
theorem ref_kept_before (r : RState) (now : Nat) (allowed : Nat → Bool) (e : REntry)
    (he : e ∈ r) (hd : now < e.peer.deadline) (ha : allowed e.hash = true) :
    e ∈ Ref.clean r now allowed := by
  simp [Ref.clean, List.mem_filter, he, hd, ha]

/-- exactly at the deadline: a pass at or after the deadline removes the entry -/
theorem ref_gone_at (r : RState) (now : Nat) (allowed : Nat → Bool) (e : REntry)
    (hd : e.peer.deadline ≤ now) : e ∉ Ref.clean r now allowed := by
  simp only [Ref.clean, List.mem_filter, Bool.and_eq_true, decide_eq_true_eq, not_and]
  intro _ h; omega

/-- a pass removes nothing else -/
theorem ref_clean_only_expired_or_forbidden (r : RState) (now : Nat) (allowed : Nat → Bool)
    (e : REntry) (he : e ∈ r) (hn : e ∉ Ref.clean r now allowed) :
    e.peer.deadline ≤ now ∨ allowed e.hash = false := by
  simp only [Ref.clean, List.mem_filter, Bool.and_eq_true, decide_eq_true_eq, not_and] at hn
  by_cases h : now < e.peer.deadline
  · right
    have := hn he h
    simpa using this
  · left; omega

/-- every re-announce sets a fresh deadline: after a non-stopped announce the
(torrent, key) entry is the new one, with the deadline of this announce -/
theorem ref_reannounce_refreshes (r : RState) (h : Nat) (k : Key) (st : Status) (pid dl : Nat)
    (hst : st ≠ .stopped) :
    ∀ e ∈ (Ref.announce r h k st pid dl).1, e.hash = h → e.key = k → e.peer.deadline = dl := by
  intro e he eh ek
  cases st with
  | stopped => exact absurd rfl hst
  | seeding =>
    simp only [Ref.announce, List.mem_append, List.mem_filter, List.mem_singleton] at he
    rcases he with ⟨_, hne⟩ | he
    · simp [eh, ek] at hne
    · subst he; rfl
  | leeching =>
    simp only [Ref.announce, List.mem_append, List.mem_filter, List.mem_singleton] at he
    rcases he with ⟨_, hne⟩ | he
    · simp [eh, ek] at hne
    · subst he; rfl

/-- cleaning later never resurrects: passes are monotone -/
theorem ref_clean_monotone (r : RState) (t1 t2 : Nat) (allowed : Nat → Bool) (h : t1 ≤ t2) (e : REntry)
    (he : e ∈ Ref.clean r t2 allowed) : e ∈ Ref.clean r t1 allowed := by
  simp only [Ref.clean, List.mem_filter, Bool.and_eq_true, decide_eq_true_eq] at he ⊢
  exact ⟨he.1, by omega, he.2.2⟩

/-- Transport to the stores (UDP: `http = false`, HTTP: `http = true`; any inline
capacity): a cleaning pass keeps the store in simulation with the cleaned
reference, hence every later reply is the reference's — whatever representation
each torrent is in and however many other peers it has. -/
theorem store_clean_refines (cfg : StoreCfg) (s : TState) (r : RT) (now : Nat) (allowed : Nat → Bool)
    (hs : Sim cfg.c s r) :
    ∃ s' out, step cfg s (.cln now allowed) = .ok (s', out) ∧
      Sim cfg.c s' ⟨Ref.clean r.r4 now allowed, Ref.clean r.r6 now allowed⟩ := by
  obtain ⟨s', out, h1, h2, _⟩ := step_refines cfg s r (.cln now allowed) hs trivial
  exact ⟨s', out, h1, by simpa [refStep] using h2⟩

/-! ### non-vacuity -/

-- issued at t = 100 with age 120: valid at 219, gone at 220
example : validAt (validUntilNew 100 120) 219 = true ∧ validAt (validUntilNew 100 120) 220 = false := by
  decide

-- a heap map (capacity 2, three entries, one seeder expiring) cleaned exactly at a deadline
example :
    (PeerMap.large [((1, 1), ⟨0, true, 5⟩), ((2, 1), ⟨0, false, 6⟩), ((3, 1), ⟨0, true, 9⟩)] 2).Inv 2
    ∧ ((PeerMap.large [((1, 1), ⟨0, true, 5⟩), ((2, 1), ⟨0, false, 6⟩), ((3, 1), ⟨0, true, 9⟩)] 2).clean 2 true 5).toOption.map
        (fun x => (x.1.entries.map (·.1), x.2.1)) = some ([(2, 1), (3, 1)], 1) := by
  refine ⟨⟨by decide, by decide⟩, by decide⟩

end Aquatic.C10
