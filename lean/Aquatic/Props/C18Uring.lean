/-
  C18 for the io_uring back end, end to end on the send side: under every configuration the tracker
  accepts at start-up, no reply it computes is ever dropped between being computed and being handed
  to the kernel - it fits the send buffer (C18.accepted_replies_fit) and the buffer pool / reply queue
  loses nothing that fits (UringSend.reachable_flow).  Composition of the two developments.
-/
import Aquatic.Props.C18
import Aquatic.Props.UringSend

namespace Aquatic.C18Uring

open Aquatic Aquatic.Bep15 Aquatic.UdpCodec Aquatic.UdpHandle Aquatic.UringSend

/-- does the serialised reply fit RESPONSE_BUF_LEN -/
def fitsUring (r : Response) : Bool := decide ((encodeResponse r).length ≤ sendBufLen true)

/-- the replies a tracker computes under limits `mp` / `ms`: announce replies of at most `mp` peers,
scrape replies of at most `ms` entries, connect replies, error replies whose text fits -/
def WithinLimits (mp ms : Nat) : Response → Prop
  | .connect _ _ => True
  | .announce _ _ _ _ _ peers => peers.length ≤ mp
  | .scrape _ stats => stats.length ≤ ms
  | .error tid msg => (encodeResponse (.error tid msg)).length ≤ sendBufLen true

theorem within_limits_fits (mp ms : Nat) (h : acceptsCfg true mp ms = true) (r : Response) (hr : WithinLimits mp ms r) :
    fitsUring r = true := by
  unfold fitsUring
  rw [decide_eq_true_eq]
  cases r with
  | connect tid cid =>
    rw [C18.connect_reply_len]; exact (C18.accepted_replies_fit true mp ms h).2.2
  | announce v6 tid i l s peers => exact C18.accepted_announce_bytes_fit true mp ms h v6 tid i l s peers hr
  | scrape tid stats => exact C18.accepted_scrape_bytes_fit true mp ms h tid stats hr
  | error tid msg => exact hr

def arrivals {ρ : Type} : List (Ev ρ) → List ρ
  | [] => []
  | .arrive r :: t => r :: arrivals t
  | _ :: t => arrivals t

theorem enqueue_log {ρ : Type} (fits : ρ → Bool) : ∀ (k : Nat) (w : W ρ), (enqueuePhase fits k w).log = w.log
  | 0, w => rfl
  | k + 1, w => by
    unfold enqueuePhase
    cases hq : w.queue with
    | nil => rfl
    | cons r q =>
      simp only
      cases hp : w.sb.prepare (fits r) with
      | mk sb' res =>
        cases res with
        | ok i => simp only; rw [enqueue_log fits k]
        | noBuffers => rfl
        | serFailed => simp only; rw [enqueue_log fits k]

theorem step_log {ρ : Type} (fits : ρ → Bool) (w w' : W ρ) (e : Ev ρ) (h : w.step fits e = .ok w') :
    w'.log = w.log ++ arrivals [e] := by
  cases e with
  | arrive r => simp only [W.step, Except.ok.injEq] at h; subst h; simp [W.arrive, arrivals]
  | enqueue k => simp only [W.step, Except.ok.injEq] at h; subst h; simp [arrivals, enqueue_log]
  | complete i =>
    simp only [W.step, W.complete] at h
    cases hm : w.sb.markFree i with
    | error e => rw [hm] at h; cases h
    | ok sb' =>
      rw [hm] at h
      simp only at h
      cases ht : takeOut i w.inflight with
      | none => rw [ht] at h; cases h; simp [arrivals]
      | some x => obtain ⟨r, rest⟩ := x; rw [ht] at h; cases h; simp [arrivals]
  | endIter => simp only [W.step, Except.ok.injEq] at h; subst h; simp [W.endIter, arrivals]

theorem arrivals_cons {ρ : Type} (e : Ev ρ) (es : List (Ev ρ)) : arrivals (e :: es) = arrivals [e] ++ arrivals es := by
  cases e <;> simp [arrivals]

theorem run_log {ρ : Type} (fits : ρ → Bool) : ∀ (evs : List (Ev ρ)) (w w' : W ρ), W.run fits w evs = .ok w' →
    w'.log = w.log ++ arrivals evs
  | [], w, w', h => by simp only [W.run, Except.ok.injEq] at h; subst h; simp [arrivals]
  | e :: es, w, w', h => by
    simp only [W.run] at h
    cases hs : w.step fits e with
    | error p => rw [hs] at h; cases h
    | ok w1 =>
      rw [hs] at h
      rw [run_log fits es w1 w' h, step_log fits w w1 e hs, arrivals_cons e es, List.append_assoc]

/-- **Under an accepted configuration the io_uring send side drops nothing**: whatever the pool size,
the order of completions and the room in the submission queue, every reply within the configured
limits that the worker computes is still queued, in flight or sent - never dropped. -/
theorem accepted_cfg_drops_nothing (mp ms : Nat) (h : acceptsCfg true mp ms = true) (cap : Nat)
    (evs : List (Ev Response)) (hall : ∀ r ∈ arrivals evs, WithinLimits mp ms r) (w : W Response)
    (hrun : W.run fitsUring (W.new Response cap) evs = .ok w) :
    w.dropped = [] ∧ (w.sent ++ w.inflight.map Prod.snd ++ w.queue).Perm (arrivals evs) := by
  have hf := Props.reachable_flow fitsUring cap evs w hrun
  have hlog : w.log = arrivals evs := by
    have := run_log fitsUring evs _ w hrun
    simpa [W.new] using this
  have hd : w.dropped = [] := by
    cases hdr : w.dropped with
    | nil => rfl
    | cons r t =>
      exfalso
      have hmem : r ∈ w.dropped := by rw [hdr]; exact List.mem_cons_self
      have hnf := hf.droppedNoFit r hmem
      have hacc : r ∈ w.handled := hf.accounted.mem_iff.mp (by simp [hmem])
      have hlogm : r ∈ w.log := by rw [← hf.fifo]; exact List.mem_append_left _ hacc
      rw [hlog] at hlogm
      rw [within_limits_fits mp ms h r (hall r hlogm)] at hnf
      cases hnf
  refine ⟨hd, ?_⟩
  have := (Props.no_reply_lost_or_duplicated fitsUring cap evs w hrun).1
  rw [hd, hlog] at this
  simpa using this

/-- the defaults are such a configuration -/
example : acceptsCfg true Generated.udpDefaultMaxResponsePeers Generated.udpDefaultMaxScrapeTorrents = true := by decide

end Aquatic.C18Uring
