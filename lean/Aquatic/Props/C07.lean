/-
  C07 — HTTP swarm bookkeeping equals a reference tracker.

  Same store model as C01 with the inline capacity extracted from
  crates/http/src/workers/swarm/storage.rs (`Generated.httpSmallCap`), the HTTP
  cleaning variant (forbidden torrents dropped unseen, no shrink) and the scrape
  reply built as a `BTreeMap` over the first `max_scrape_torrents` hashes.
-/
import Aquatic.Props.Store
import Aquatic.Generated.Consts

namespace Aquatic.C07

open Aquatic

def httpCfg (maxScrape : Nat) : StoreCfg := ⟨Generated.httpSmallCap, true, maxScrape⟩

/-- **C07.** Every finite history of HTTP announces, scrapes and cleaning passes runs
without a panic outcome and every reply is the reference tracker's: `complete` /
`incomplete` exclude the announcer, the peer list obeys C02, scrapes report the first
`max_scrape_torrents` requested torrents, and after a cleaning pass the number of
stored torrents is the number of torrents that still have a live entry. -/
theorem http_refines (maxScrape : Nat) (ops : List Op) (h : OpsOk (httpCfg maxScrape) {} ops) :
    ∃ outs, run (httpCfg maxScrape) {} ops = .ok outs ∧
      AllRel ops outs (runRef (httpCfg maxScrape) {} ops) :=
  refines (httpCfg maxScrape) ops {} {} (sim_init _) h

/-- a torrent whose peers have all stopped or been cleaned is dropped by the next
cleaning pass: afterwards exactly the torrents with a live, permitted entry are stored -/
theorem http_clean_drops_empty (maxScrape : Nat) (s : TState) (r : RT) (now : Nat) (allowed : Nat → Bool)
    (hs : Sim Generated.httpSmallCap s r) :
    ∃ s', step (httpCfg maxScrape) s (.cln now allowed) =
        .ok (s', .cln s'.m4.length 0 s'.m6.length 0) ∧
      s'.m4.length = Ref.numTorrents (Ref.clean r.r4 now allowed) ∧
      s'.m6.length = Ref.numTorrents (Ref.clean r.r6 now allowed) ∧
      (∀ x ∈ s'.m4, x.2.entries ≠ []) ∧ (∀ x ∈ s'.m6, x.2.entries ≠ []) := by
  obtain ⟨a, na, ha, hpa⟩ := TMap.cleanHttp_spec Generated.httpSmallCap s.m4 now allowed hs.1.1
  obtain ⟨b, nb, hb, hpb⟩ := TMap.cleanHttp_spec Generated.httpSmallCap s.m6 now allowed hs.2.1
  have sa := sim1_of_cleanPost hs.1 hpa
  have sb := sim1_of_cleanPost hs.2 hpb
  refine ⟨⟨a, b⟩, ?_, length_eq_numTorrents a _ hpa.inv.1 sa.2 hpa.nonempty,
    length_eq_numTorrents b _ hpb.inv.1 sb.2 hpb.nonempty, hpa.nonempty, hpb.nonempty⟩
  simp [step, httpCfg, ha, hb, bind, Except.bind, pure, Except.pure]

/-! ### the scrape reply is a map: each of the first `max_scrape_torrents` hashes once -/

def keys {α : Type} (l : List (Nat × α)) : List Nat := l.map (·.1)

theorem btreeInsert_keys_mem {α : Type} (k : Nat) (v : α) (l : List (Nat × α)) (x : Nat) :
    x ∈ keys (btreeInsert k v l) ↔ x = k ∨ x ∈ keys l := by
  induction l with
  | nil => simp [btreeInsert, keys]
  | cons e t ih =>
    obtain ⟨k', v'⟩ := e
    simp only [keys] at ih
    by_cases h1 : k = k'
    · subst h1; simp [btreeInsert, keys]
    · by_cases h2 : k < k'
      · simp [btreeInsert, keys, h1, h2]
      · simp only [btreeInsert, h1, h2, ↓reduceIte, keys, List.map_cons, List.mem_cons, ih]
        constructor
        · rintro (h | h | h)
          · exact Or.inr (Or.inl h)
          · exact Or.inl h
          · exact Or.inr (Or.inr h)
        · rintro (h | h | h)
          · exact Or.inr (Or.inl h)
          · exact Or.inl h
          · exact Or.inr (Or.inr h)

theorem btreeInsert_sorted {α : Type} (k : Nat) (v : α) (l : List (Nat × α))
    (hs : (keys l).Pairwise (· < ·)) : (keys (btreeInsert k v l)).Pairwise (· < ·) := by
  induction l with
  | nil => simp [btreeInsert, keys]
  | cons e t ih =>
    obtain ⟨k', v'⟩ := e
    simp only [keys, List.map_cons, List.pairwise_cons] at hs
    by_cases h1 : k = k'
    · subst h1
      simp only [btreeInsert, ↓reduceIte, keys, List.map_cons, List.pairwise_cons]
      exact hs
    · by_cases h2 : k < k'
      · simp only [btreeInsert, h1, h2, ↓reduceIte, keys, List.map_cons, List.pairwise_cons,
          List.mem_cons]
        refine ⟨?_, hs⟩
        intro a ha
        rcases ha with ha | ha
        · omega
        · have := hs.1 a ha; omega
      · simp only [btreeInsert, h1, h2, ↓reduceIte]
        have := ih hs.2
        simp only [keys, List.map_cons, List.pairwise_cons] at this ⊢
        refine ⟨?_, this⟩
        intro a ha
        have hm := (btreeInsert_keys_mem k v t a).mp ha
        rcases hm with hm | hm
        · omega
        · exact hs.1 a hm

theorem foldl_sorted {α : Type} (l : List (Nat × α)) : ∀ acc : List (Nat × α),
    (keys acc).Pairwise (· < ·) →
    (keys (l.foldl (fun acc x => btreeInsert x.1 x.2 acc) acc)).Pairwise (· < ·) := by
  induction l with
  | nil => intro acc h; exact h
  | cons e t ih => intro acc h; exact ih _ (btreeInsert_sorted e.1 e.2 acc h)

theorem foldl_keys_mem {α : Type} (l : List (Nat × α)) : ∀ (acc : List (Nat × α)) (x : Nat),
    x ∈ keys (l.foldl (fun acc x => btreeInsert x.1 x.2 acc) acc) ↔ x ∈ keys l ∨ x ∈ keys acc := by
  induction l with
  | nil => intro acc x; simp [keys]
  | cons e t ih =>
    intro acc x
    rw [List.foldl_cons, ih, btreeInsert_keys_mem]
    simp only [keys, List.map_cons, List.mem_cons]
    constructor
    · rintro (h | h | h)
      · exact Or.inl (Or.inr h)
      · exact Or.inl (Or.inl h)
      · exact Or.inr h
    · rintro ((h | h) | h)
      · exact Or.inr (Or.inl h)
      · exact Or.inl h
      · exact Or.inr (Or.inr h)

/-- the reply lists its torrents in strictly increasing hash order: each one once -/
theorem http_scrape_each_once (l : List (Nat × Nat × Nat)) :
    (keys (httpScrapeFiles l)).Pairwise (· < ·) :=
  foldl_sorted l [] (by simp [keys])

/-- … and exactly the taken hashes (the first `max_scrape_torrents` of the request) -/
theorem http_scrape_exactly_taken (l : List (Nat × Nat × Nat)) (x : Nat) :
    x ∈ keys (httpScrapeFiles l) ↔ x ∈ keys l := by
  rw [httpScrapeFiles, foldl_keys_mem]
  simp [keys]

/-- the counts put into the reply are the reference's scrape counts of the first
`max_scrape_torrents` requested hashes, zeros for torrents that are not stored -/
theorem http_scrape_counts (maxScrape : Nat) (s : TState) (r : RT) (v6 : Bool) (hs' : List Nat)
    (hs : Sim Generated.httpSmallCap s r) :
    step (httpCfg maxScrape) s (.scr v6 hs') =
      .ok (s, .scr ((hs'.take maxScrape).map (fun h =>
        (h, (Ref.scrape (if v6 then r.r6 else r.r4) h).1, (Ref.scrape (if v6 then r.r6 else r.r4) h).2)))) := by
  cases v6
  · simp [step, httpCfg, sim1_scrapeList _ s.m4 r.r4 hs.1, bind, Except.bind, pure, Except.pure]
  · simp [step, httpCfg, sim1_scrapeList _ s.m6 r.r6 hs.2, bind, Except.bind, pure, Except.pure]

theorem ref_scrape_unknown_is_zero (r : RState) (h : Nat) (hn : ∀ e ∈ r, e.hash ≠ h) :
    Ref.scrape r h = (0, 0) := by
  have : Ref.ofTorrent r h = [] := by
    simp only [Ref.ofTorrent, List.filter_eq_nil_iff, decide_eq_true_eq]
    exact hn
  simp [Ref.scrape, this]

/-! ### non-vacuity -/

def sampleHistory : List Op :=
  [ .ann false 7 (1, 1000) .seeding 0 10 30 0 0,
    .ann false 7 (2, 1000) .leeching 1 10 30 0 0,
    .ann false 7 (3, 1000) .leeching 2 5 30 0 0,
    .ann false 7 (4, 1000) .seeding 3 10 30 0 0,
    .ann false 7 (5, 1000) .leeching 0 10 30 0 0,     -- inline (4) → heap
    .ann false 7 (6, 1000) .leeching 0 10 2 0 3,      -- 5 others, limit 2: two-half branch
    .scr false [7, 8, 7, 9],                           -- repeated hash, cut to 3
    .ann false 7 (2, 1000) .stopped 1 10 30 0 0,
    .cln 5 (fun h => h != 9),
    .cln 10 (fun _ => true),                           -- everything expires: torrent dropped
    .scr false [7] ]

example : OpsOk (httpCfg 3) {} sampleHistory := by decide

example : httpScrapeFiles [(7, 2, 4), (8, 0, 0), (7, 2, 4)] = [(7, 2, 4), (8, 0, 0)] := by decide

end Aquatic.C07
