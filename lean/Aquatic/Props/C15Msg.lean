/-
  C15, part 2 — every WebTorrent message survives JSON encoding and decoding
  (at the level of JSON values; the JSON text layer — serde_json writer,
  simd-json reader — is trusted and exercised by the correspondence run).

  The shapes (`Generated.Ws.*`) are regenerated from the serde attributes of
  crates/ws_protocol on every run; the theorems below are re-checked against them.
-/
import Aquatic.Lemmas.WsJson
import Aquatic.Props.C15

namespace Aquatic.C15

open Aquatic Aquatic.Generated.Ws

/-! ### what the source declares: JSON names of the WebTorrent protocol, variant orders -/

def cp (s : List Char) : List Nat := s.map Char.toNat

/-- the field names on the wire are those of the WebTorrent tracker protocol -/
theorem names_conform :
    names announceRequest = [cp ['a','c','t','i','o','n'], cp ['i','n','f','o','_','h','a','s','h'],
      cp ['p','e','e','r','_','i','d'], cp ['l','e','f','t'], cp ['e','v','e','n','t'],
      cp ['o','f','f','e','r','s'], cp ['n','u','m','w','a','n','t'], cp ['a','n','s','w','e','r'],
      cp ['t','o','_','p','e','e','r','_','i','d'], cp ['o','f','f','e','r','_','i','d']] ∧
    names scrapeRequest = [cp ['a','c','t','i','o','n'], cp ['i','n','f','o','_','h','a','s','h']] ∧
    names announceRequestOffer = [cp ['o','f','f','e','r'], cp ['o','f','f','e','r','_','i','d']] ∧
    names rtcOffer = [cp ['t','y','p','e'], cp ['s','d','p']] ∧ names rtcAnswer = [cp ['t','y','p','e'], cp ['s','d','p']] ∧
    names offerOutMessage = [cp ['a','c','t','i','o','n'], cp ['p','e','e','r','_','i','d'],
      cp ['i','n','f','o','_','h','a','s','h'], cp ['o','f','f','e','r'], cp ['o','f','f','e','r','_','i','d']] ∧
    names answerOutMessage = [cp ['a','c','t','i','o','n'], cp ['p','e','e','r','_','i','d'],
      cp ['i','n','f','o','_','h','a','s','h'], cp ['a','n','s','w','e','r'], cp ['o','f','f','e','r','_','i','d']] ∧
    names announceResponse = [cp ['a','c','t','i','o','n'], cp ['i','n','f','o','_','h','a','s','h'],
      cp ['c','o','m','p','l','e','t','e'], cp ['i','n','c','o','m','p','l','e','t','e'], cp ['i','n','t','e','r','v','a','l']] ∧
    names scrapeResponse = [cp ['a','c','t','i','o','n'], cp ['f','i','l','e','s']] ∧
    names scrapeStatistics = [cp ['c','o','m','p','l','e','t','e'], cp ['i','n','c','o','m','p','l','e','t','e'],
      cp ['d','o','w','n','l','o','a','d','e','d']] ∧
    names errorResponse = [cp ['f','a','i','l','u','r','e',' ','r','e','a','s','o','n'], cp ['a','c','t','i','o','n'],
      cp ['i','n','f','o','_','h','a','s','h']] := by decide

theorem enums_conform :
    announceActionNames = [cp ['a','n','n','o','u','n','c','e']] ∧ scrapeActionNames = [cp ['s','c','r','a','p','e']] ∧
    rtcOfferTypeNames = [cp ['o','f','f','e','r']] ∧ rtcAnswerTypeNames = [cp ['a','n','s','w','e','r']] ∧
    announceEventNames = [cp ['s','t','a','r','t','e','d'], cp ['s','t','o','p','p','e','d'],
      cp ['c','o','m','p','l','e','t','e','d'], cp ['u','p','d','a','t','e']] ∧
    errorResponseActionNames = [cp ['a','n','n','o','u','n','c','e'], cp ['s','c','r','a','p','e']] ∧
    inMessageVariants = [.announceRequest, .scrapeRequest] ∧
    outMessageVariants = [.offerOutMessage, .answerOutMessage, .announceResponse, .scrapeResponse, .errorResponse] ∧
    infoHashesVariants = [.single, .multiple] := by decide

/-- within every struct the JSON names (and the field tags) are pairwise distinct -/
theorem shapes_distinct :
    (names announceRequest).Nodup ∧ (tags announceRequest).Nodup ∧
    (names scrapeRequest).Nodup ∧ (tags scrapeRequest).Nodup ∧
    (names announceRequestOffer).Nodup ∧ (tags announceRequestOffer).Nodup ∧
    (names rtcOffer).Nodup ∧ (tags rtcOffer).Nodup ∧ (names rtcAnswer).Nodup ∧ (tags rtcAnswer).Nodup ∧
    (names offerOutMessage).Nodup ∧ (tags offerOutMessage).Nodup ∧
    (names answerOutMessage).Nodup ∧ (tags answerOutMessage).Nodup ∧
    (names announceResponse).Nodup ∧ (tags announceResponse).Nodup ∧
    (names scrapeResponse).Nodup ∧ (tags scrapeResponse).Nodup ∧
    (names scrapeStatistics).Nodup ∧ (tags scrapeStatistics).Nodup ∧
    (names errorResponse).Nodup ∧ (tags errorResponse).Nodup := by decide

/-! ### helpers -/

theorem req_by_tag (shape : List WsField) (vals : WsF → Option J) (hn : (names shape).Nodup)
    (ht : (tags shape).Nodup) (t : WsF) (j : J) (hm : t ∈ tags shape) (hv : vals t = some j) :
    reqField shape (kvOf shape vals) t = some j := by
  obtain ⟨f, hf, rfl⟩ := List.mem_map.mp hm
  exact reqField_some shape vals hn ht f hf j hv

theorem opt_by_tag (shape : List WsField) (vals : WsF → Option J) (hn : (names shape).Nodup)
    (ht : (tags shape).Nodup) (t : WsF) (hm : t ∈ tags shape) (hnn : vals t ≠ some J.null) :
    optField shape (kvOf shape vals) t = vals t := by
  obtain ⟨f, hf, rfl⟩ := List.mem_map.mp hm
  exact optField_structToJ shape vals hn ht f hf hnn

theorem jStr20_ser20 (b : List Nat) (h : Id20 b) : jStr20 (.str (ser20 b)) = some b := by
  simp [jStr20, de20_ser20 b h.1 h.2]

theorem sdp_roundtrip_offer (sdp : List Nat) : sdpOfJ rtcOffer rtcOfferTypeNames (sdpToJ rtcOffer rtcOfferTypeNames sdp) = some sdp := by
  have hd := shapes_distinct
  simp only [sdpToJ, structToJ_eq, sdpOfJ, noDupKnown_kvOf _ _ hd.2.2.2.2.2.2.1, ↓reduceIte]
  rw [req_by_tag rtcOffer _ hd.2.2.2.2.2.2.1 hd.2.2.2.2.2.2.2.1 .t _ (by decide) rfl,
    req_by_tag rtcOffer _ hd.2.2.2.2.2.2.1 hd.2.2.2.2.2.2.2.1 .sdp _ (by decide) rfl]
  simp [jEnum, enumToJ, rtcOfferTypeNames, jStr, bind, Option.bind]

theorem sdp_roundtrip_answer (sdp : List Nat) : sdpOfJ rtcAnswer rtcAnswerTypeNames (sdpToJ rtcAnswer rtcAnswerTypeNames sdp) = some sdp := by
  have hd := shapes_distinct
  simp only [sdpToJ, structToJ_eq, sdpOfJ, noDupKnown_kvOf _ _ hd.2.2.2.2.2.2.2.2.1, ↓reduceIte]
  rw [req_by_tag rtcAnswer _ hd.2.2.2.2.2.2.2.2.1 hd.2.2.2.2.2.2.2.2.2.1 .t _ (by decide) rfl,
    req_by_tag rtcAnswer _ hd.2.2.2.2.2.2.2.2.1 hd.2.2.2.2.2.2.2.2.2.1 .sdp _ (by decide) rfl]
  simp [jEnum, enumToJ, rtcAnswerTypeNames, jStr, bind, Option.bind]

theorem offer_roundtrip (o : WsOffer) (h : Id20 o.offerId) : offerOfJ (offerToJ o) = some o := by
  have hd := shapes_distinct
  simp only [offerToJ, structToJ_eq, offerOfJ, noDupKnown_kvOf _ _ hd.2.2.2.2.1, ↓reduceIte]
  rw [req_by_tag announceRequestOffer _ hd.2.2.2.2.1 hd.2.2.2.2.2.1 .offer _ (by decide) rfl,
    req_by_tag announceRequestOffer _ hd.2.2.2.2.1 hd.2.2.2.2.2.1 .offerId _ (by decide) rfl]
  simp [sdp_roundtrip_offer, jStr20_ser20 _ h, bind, Option.bind]

theorem event_roundtrip (e : WsEvent) :
    (jEnum announceEventNames (enumToJ announceEventNames e.idx)).bind WsEvent.ofIdx = some e := by
  cases e <;> decide

/-! ### incoming messages -/

theorem announce_roundtrip (a : WsAnnounce) (h : a.wf) : announceOfJ (announceToJ a) = some a := by
  obtain ⟨h1, h2, h3, h4, h5⟩ := h
  have hd := shapes_distinct
  have hn := hd.1
  have ht := hd.2.1
  have r := fun t j hm hv => req_by_tag announceRequest (announceVals a) hn ht t j hm hv
  have o := fun t hm hnn => opt_by_tag announceRequest (announceVals a) hn ht t hm hnn
  simp only [announceToJ, structToJ_eq, announceOfJ, noDupKnown_kvOf _ _ hn, ↓reduceIte]
  rw [r .action _ (by decide) rfl, r .infoHash _ (by decide) rfl, r .peerId _ (by decide) rfl,
    o .bytesLeft (by decide) (by simp only [announceVals]; cases a.bytesLeft <;> simp),
    o .event (by decide) (by simp only [announceVals]; cases a.event <;> simp [enumToJ]),
    o .offers (by decide) (by simp only [announceVals]; cases a.offers <;> simp),
    o .numwant (by decide) (by simp only [announceVals]; cases a.numwant <;> simp),
    o .answer (by decide) (by simp only [announceVals]; cases a.answer <;> simp [sdpToJ, structToJ]),
    o .answerToPeerId (by decide) (by simp only [announceVals]; cases a.answerToPeerId <;> simp),
    o .answerOfferId (by decide) (by simp only [announceVals]; cases a.answerOfferId <;> simp)]
  have e1 : jEnum announceActionNames (enumToJ announceActionNames 0) = some 0 := by decide
  have e2 := optWith_map a.bytesLeft J.num jNat (fun n _ => rfl)
  have e3 := optWith_map a.event (fun e => enumToJ announceEventNames e.idx)
    (fun j => (jEnum announceEventNames j).bind WsEvent.ofIdx) (fun e _ => event_roundtrip e)
  have e4 := optWith_map a.offers (fun l => J.arr (l.map offerToJ)) offersOfJ
    (fun l hl => allSomeL_map offerToJ offerOfJ l (fun x hx => offer_roundtrip x (h3 l hl x hx)))
  have e5 := optWith_map a.numwant J.num jNat (fun n _ => rfl)
  have e6 := optWith_map a.answer (sdpToJ rtcAnswer rtcAnswerTypeNames) (sdpOfJ rtcAnswer rtcAnswerTypeNames)
    (fun s _ => sdp_roundtrip_answer s)
  have e7 := optWith_map a.answerToPeerId (fun p => J.str (ser20 p)) jStr20 (fun p hp => jStr20_ser20 p (h4 p hp))
  have e8 := optWith_map a.answerOfferId (fun p => J.str (ser20 p)) jStr20 (fun p hp => jStr20_ser20 p (h5 p hp))
  simp only [announceVals, Option.bind_eq_bind, Option.bind_some, e1, jStr20_ser20 _ h1, jStr20_ser20 _ h2,
    e2, e3, e4, e5, e6, e7, e8, pure]

theorem hashes_roundtrip (hs : WsHashes) (h : InMsg.wf (.scrape (some hs))) : hashesOfJ (hashesToJ hs) = some hs := by
  cases hs with
  | single x =>
    have : jStr20 (.str (ser20 x)) = some x := jStr20_ser20 x h
    simp [hashesOfJ, hashesToJ, infoHashesVariants, List.findSome?, this]
  | multiple l =>
    have hall := allSomeL_map (fun x => J.str (ser20 x)) jStr20 l (fun x hx => jStr20_ser20 x (h x hx))
    simp only [List.map_map] at hall
    simp [hashesOfJ, hashesToJ, infoHashesVariants, List.findSome?, jStr20, hall]

theorem scrape_roundtrip (hs : Option WsHashes) (h : InMsg.wf (.scrape hs)) : scrapeOfJ (scrapeToJ hs) = some hs := by
  have hd := shapes_distinct
  have hn := hd.2.2.1
  have ht := hd.2.2.2.1
  simp only [scrapeToJ, structToJ_eq, scrapeOfJ, noDupKnown_kvOf _ _ hn, ↓reduceIte]
  rw [req_by_tag scrapeRequest _ hn ht .action _ (by decide) rfl,
    opt_by_tag scrapeRequest _ hn ht .infoHashes (by decide)
      (by simp only [scrapeVals]; cases hs with
          | none => simp
          | some x => cases x <;> simp [hashesToJ])]
  have e1 : jEnum scrapeActionNames (enumToJ scrapeActionNames 0) = some 0 := by decide
  have e2 := optWith_map hs hashesToJ hashesOfJ (fun x hx => hashes_roundtrip x (by rw [hx] at h; exact h))
  simp only [scrapeVals, Option.bind_eq_bind, Option.bind_some, e1, e2]

/-- a serialised announce is not mistaken for a scrape and vice versa: the `action` literal differs -/
theorem in_roundtrip (m : InMsg) (h : m.wf) : inOfJ (inToJ m) = some m := by
  cases m with
  | announce a =>
    simp [inOfJ, inToJ, inMessageVariants, List.findSome?, announce_roundtrip a h]
  | scrape hs =>
    have hd := shapes_distinct
    -- the announce variant is tried first and fails on the action literal
    have hfail : announceOfJ (scrapeToJ hs) = none := by
      simp only [scrapeToJ, structToJ_eq, announceOfJ]
      split
      · -- `action` is "scrape", not "announce"
        have hact : reqField announceRequest (kvOf scrapeRequest (scrapeVals hs)) .action =
            some (enumToJ scrapeActionNames 0) := by
          simp [reqField, nameOf, announceRequest, kvOf, scrapeRequest, entryOf, scrapeVals, lookupKey]
        rw [hact]
        have : jEnum announceActionNames (enumToJ scrapeActionNames 0) = none := by decide
        simp [this]
      · rfl
    simp [inOfJ, inToJ, inMessageVariants, List.findSome?, hfail, scrape_roundtrip hs h]

/-! ### outgoing messages -/

theorem req_absent (shapeA shapeB : List WsField) (vals : WsF → Option J) (t : WsF) (n : List Nat)
    (hname : nameOf shapeA t = some n) (habs : n ∉ names shapeB) :
    reqField shapeA (kvOf shapeB vals) t = none := by
  simp only [reqField, hname, Option.bind_some]
  exact lookupKey_kvOf_none shapeB vals n habs

theorem stats_roundtrip (c i d : Nat) : statsOfJ (statsToJ c i d) = some (c, i, d) := by
  have hd := shapes_distinct
  have hn := hd.2.2.2.2.2.2.2.2.2.2.2.2.2.2.2.2.2.2.1
  have ht := hd.2.2.2.2.2.2.2.2.2.2.2.2.2.2.2.2.2.2.2.1
  simp only [statsToJ, structToJ_eq, statsOfJ, noDupKnown_kvOf _ _ hn, ↓reduceIte]
  rw [req_by_tag scrapeStatistics _ hn ht .complete _ (by decide) rfl,
    req_by_tag scrapeStatistics _ hn ht .incomplete _ (by decide) rfl,
    req_by_tag scrapeStatistics _ hn ht .downloaded _ (by decide) rfl]
  simp [jNat, bind, Option.bind]

theorem offer_msg_roundtrip (p i s o : List Nat) (h : (OutMsg.offer p i s o).wf) :
    offerMsgOfJ (outToJ (.offer p i s o)) = some (.offer p i s o) := by
  obtain ⟨hp, hi, ho⟩ := h
  have hd := shapes_distinct
  have hn := hd.2.2.2.2.2.2.2.2.2.2.1
  have ht := hd.2.2.2.2.2.2.2.2.2.2.2.1
  have r := fun t j hm hv => req_by_tag offerOutMessage (offerMsgVals p i s o) hn ht t j hm hv
  simp only [outToJ, structToJ_eq, offerMsgOfJ, noDupKnown_kvOf _ _ hn, ↓reduceIte]
  rw [r .action _ (by decide) rfl, r .peerId _ (by decide) rfl, r .infoHash _ (by decide) rfl,
    r .offer _ (by decide) rfl, r .offerId _ (by decide) rfl]
  have e1 : jEnum announceActionNames (enumToJ announceActionNames 0) = some 0 := by decide
  simp only [Option.bind_eq_bind, Option.bind_some, e1, jStr20_ser20 _ hp, jStr20_ser20 _ hi, jStr20_ser20 _ ho,
    sdp_roundtrip_offer, pure]

theorem answer_msg_roundtrip (p i s o : List Nat) (h : (OutMsg.answer p i s o).wf) :
    answerMsgOfJ (outToJ (.answer p i s o)) = some (.answer p i s o) := by
  obtain ⟨hp, hi, ho⟩ := h
  have hd := shapes_distinct
  have hn := hd.2.2.2.2.2.2.2.2.2.2.2.2.1
  have ht := hd.2.2.2.2.2.2.2.2.2.2.2.2.2.1
  have r := fun t j hm hv => req_by_tag answerOutMessage (answerMsgVals p i s o) hn ht t j hm hv
  simp only [outToJ, structToJ_eq, answerMsgOfJ, noDupKnown_kvOf _ _ hn, ↓reduceIte]
  rw [r .action _ (by decide) rfl, r .peerId _ (by decide) rfl, r .infoHash _ (by decide) rfl,
    r .answer _ (by decide) rfl, r .offerId _ (by decide) rfl]
  have e1 : jEnum announceActionNames (enumToJ announceActionNames 0) = some 0 := by decide
  simp only [Option.bind_eq_bind, Option.bind_some, e1, jStr20_ser20 _ hp, jStr20_ser20 _ hi, jStr20_ser20 _ ho,
    sdp_roundtrip_answer, pure]

theorem announce_resp_roundtrip (i : List Nat) (c n k : Nat) (h : (OutMsg.announce i c n k).wf) :
    announceRespOfJ (outToJ (.announce i c n k)) = some (.announce i c n k) := by
  have hd := shapes_distinct
  have hn := hd.2.2.2.2.2.2.2.2.2.2.2.2.2.2.1
  have ht := hd.2.2.2.2.2.2.2.2.2.2.2.2.2.2.2.1
  have r := fun t j hm hv => req_by_tag announceResponse (announceRespVals i c n k) hn ht t j hm hv
  simp only [outToJ, structToJ_eq, announceRespOfJ, noDupKnown_kvOf _ _ hn, ↓reduceIte]
  rw [r .action _ (by decide) rfl, r .infoHash _ (by decide) rfl, r .complete _ (by decide) rfl,
    r .incomplete _ (by decide) rfl, r .announceInterval _ (by decide) rfl]
  have e1 : jEnum announceActionNames (enumToJ announceActionNames 0) = some 0 := by decide
  simp only [Option.bind_eq_bind, Option.bind_some, e1, jStr20_ser20 _ h, jNat, pure]

theorem scrape_resp_roundtrip (files : List (List Nat × Nat × Nat × Nat)) (h : (OutMsg.scrape files).wf) :
    scrapeRespOfJ (outToJ (.scrape files)) = some (.scrape files) := by
  have hd := shapes_distinct
  have hn := hd.2.2.2.2.2.2.2.2.2.2.2.2.2.2.2.2.1
  have ht := hd.2.2.2.2.2.2.2.2.2.2.2.2.2.2.2.2.2.1
  have r := fun t j hm hv => req_by_tag scrapeResponse (scrapeRespVals files) hn ht t j hm hv
  simp only [outToJ, structToJ_eq, scrapeRespOfJ, noDupKnown_kvOf _ _ hn, ↓reduceIte]
  rw [r .action _ (by decide) rfl, r .files _ (by decide) rfl]
  have e1 : jEnum scrapeActionNames (enumToJ scrapeActionNames 0) = some 0 := by decide
  have e2 := allSomeL_map (fun f : List Nat × Nat × Nat × Nat => (ser20 f.1, statsToJ f.2.1 f.2.2.1 f.2.2.2))
    fileOfKV files (by
      intro x hx
      simp [fileOfKV, jStr20_ser20 _ (h.2 x hx), stats_roundtrip, bind, Option.bind])
  simp only [Option.bind_eq_bind, Option.bind_some, e1, filesOfJ, e2, pure, Option.map_some, dedupLast_of_nodup _ h.1]

theorem error_resp_roundtrip (reason : List Nat) (a : Option Nat) (i : Option (List Nat))
    (h : (OutMsg.error reason a i).wf) :
    errorRespOfJ (outToJ (.error reason a i)) = some (.error reason a i) := by
  obtain ⟨ha, hi⟩ := h
  have hd := shapes_distinct
  have hn := hd.2.2.2.2.2.2.2.2.2.2.2.2.2.2.2.2.2.2.2.2.1
  have ht := hd.2.2.2.2.2.2.2.2.2.2.2.2.2.2.2.2.2.2.2.2.2
  simp only [outToJ, structToJ_eq, errorRespOfJ, noDupKnown_kvOf _ _ hn, ↓reduceIte]
  rw [req_by_tag errorResponse _ hn ht .failureReason _ (by decide) rfl,
    opt_by_tag errorResponse _ hn ht .action (by decide)
      (by simp only [errorRespVals]; cases a <;> simp [enumToJ]),
    opt_by_tag errorResponse _ hn ht .infoHash (by decide)
      (by simp only [errorRespVals]; cases i <;> simp)]
  have e2 := optWith_map a (enumToJ errorResponseActionNames) (jEnum errorResponseActionNames) (by
    intro x hx
    have := ha x hx
    match x, this with
    | 0, _ => decide
    | 1, _ => decide)
  have e3 := optWith_map i (fun h => J.str (ser20 h)) jStr20 (fun x hx => jStr20_ser20 x (hi x hx))
  simp only [errorRespVals, Option.bind_eq_bind, Option.bind_some, jStr, e2, e3, pure]

/-- Every reply the tracker sends decodes back to itself; the untagged variants are unambiguous:
no serialised message is accepted by an earlier variant of `OutMessage`. -/
theorem out_roundtrip (m : OutMsg) (h : m.wf) : outOfJ (outToJ m) = some m := by
  have hd := shapes_distinct
  cases m with
  | offer p i s o =>
    simp [outOfJ, outMessageVariants, List.findSome?, offer_msg_roundtrip p i s o h]
  | answer p i s o =>
    have f1 : offerMsgOfJ (outToJ (.answer p i s o)) = none := by
      simp only [outToJ, structToJ_eq, offerMsgOfJ]
      split
      · have hab := fun vals => req_absent offerOutMessage answerOutMessage vals .offer ((nameOf offerOutMessage .offer).getD []) (by decide) (by decide)
        simp only [Option.bind_eq_bind, hab, Option.bind_none, Option.bind_fun_none]
      · rfl
    simp [outOfJ, outMessageVariants, List.findSome?, f1, answer_msg_roundtrip p i s o h]
  | announce i c n k =>
    have f1 : offerMsgOfJ (outToJ (.announce i c n k)) = none := by
      simp only [outToJ, structToJ_eq, offerMsgOfJ]
      split
      · have hab := fun vals => req_absent offerOutMessage announceResponse vals .peerId ((nameOf offerOutMessage .peerId).getD []) (by decide) (by decide)
        simp only [Option.bind_eq_bind, hab, Option.bind_none, Option.bind_fun_none]
      · rfl
    have f2 : answerMsgOfJ (outToJ (.announce i c n k)) = none := by
      simp only [outToJ, structToJ_eq, answerMsgOfJ]
      split
      · have hab := fun vals => req_absent answerOutMessage announceResponse vals .peerId ((nameOf answerOutMessage .peerId).getD []) (by decide) (by decide)
        simp only [Option.bind_eq_bind, hab, Option.bind_none, Option.bind_fun_none]
      · rfl
    simp [outOfJ, outMessageVariants, List.findSome?, f1, f2, announce_resp_roundtrip i c n k h]
  | scrape files =>
    have f1 : offerMsgOfJ (outToJ (.scrape files)) = none := by
      simp only [outToJ, structToJ_eq, offerMsgOfJ]
      split
      · have hab := fun vals => req_absent offerOutMessage scrapeResponse vals .peerId ((nameOf offerOutMessage .peerId).getD []) (by decide) (by decide)
        simp only [Option.bind_eq_bind, hab, Option.bind_none, Option.bind_fun_none]
      · rfl
    have f2 : answerMsgOfJ (outToJ (.scrape files)) = none := by
      simp only [outToJ, structToJ_eq, answerMsgOfJ]
      split
      · have hab := fun vals => req_absent answerOutMessage scrapeResponse vals .peerId ((nameOf answerOutMessage .peerId).getD []) (by decide) (by decide)
        simp only [Option.bind_eq_bind, hab, Option.bind_none, Option.bind_fun_none]
      · rfl
    have f3 : announceRespOfJ (outToJ (.scrape files)) = none := by
      simp only [outToJ, structToJ_eq, announceRespOfJ]
      split
      · have hab := fun vals => req_absent announceResponse scrapeResponse vals .infoHash ((nameOf announceResponse .infoHash).getD []) (by decide) (by decide)
        simp only [Option.bind_eq_bind, hab, Option.bind_none, Option.bind_fun_none]
      · rfl
    simp [outOfJ, outMessageVariants, List.findSome?, f1, f2, f3, scrape_resp_roundtrip files h]
  | error reason a i =>
    have f1 : offerMsgOfJ (outToJ (.error reason a i)) = none := by
      simp only [outToJ, structToJ_eq, offerMsgOfJ]
      split
      · have hab := fun vals => req_absent offerOutMessage errorResponse vals .peerId ((nameOf offerOutMessage .peerId).getD []) (by decide) (by decide)
        simp only [Option.bind_eq_bind, hab, Option.bind_none, Option.bind_fun_none]
      · rfl
    have f2 : answerMsgOfJ (outToJ (.error reason a i)) = none := by
      simp only [outToJ, structToJ_eq, answerMsgOfJ]
      split
      · have hab := fun vals => req_absent answerOutMessage errorResponse vals .peerId ((nameOf answerOutMessage .peerId).getD []) (by decide) (by decide)
        simp only [Option.bind_eq_bind, hab, Option.bind_none, Option.bind_fun_none]
      · rfl
    have f3 : announceRespOfJ (outToJ (.error reason a i)) = none := by
      simp only [outToJ, structToJ_eq, announceRespOfJ]
      split
      · have hab := fun vals => req_absent announceResponse errorResponse vals .complete ((nameOf announceResponse .complete).getD []) (by decide) (by decide)
        simp only [Option.bind_eq_bind, hab, Option.bind_none, Option.bind_fun_none]
      · rfl
    have f4 : scrapeRespOfJ (outToJ (.error reason a i)) = none := by
      simp only [outToJ, structToJ_eq, scrapeRespOfJ]
      split
      · have hab := fun vals => req_absent scrapeResponse errorResponse vals .files ((nameOf scrapeResponse .files).getD []) (by decide) (by decide)
        simp only [Option.bind_eq_bind, hab, Option.bind_none, Option.bind_fun_none]
      · rfl
    simp [outOfJ, outMessageVariants, List.findSome?, f1, f2, f3, f4, error_resp_roundtrip reason a i h]

/-! ### non-vacuity -/

example : (InMsg.announce ⟨List.replicate 20 255, List.replicate 20 0, some 0, some .stopped,
    some [⟨[34, 92, 128512], List.replicate 20 7⟩], some 1, some [10], some (List.replicate 20 1),
    some (List.replicate 20 2)⟩).wf := by
  refine ⟨by decide, by decide, ?_, ?_, ?_⟩
  · intro l hl o ho; injection hl with hl; subst hl; simp at ho; subst ho; decide
  · intro p hp; injection hp with hp; subst hp; decide
  · intro p hp; injection hp with hp; subst hp; decide

end Aquatic.C15
