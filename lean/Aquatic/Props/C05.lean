/-
  C05 — UDP connection ids are bound to source IP and time window.
  `mac` is universally quantified: the statements hold for every keyed hash, the
  "up to 2^-32" clause is made precise as "acceptance ⇒ the presented tag equals
  the MAC of (embedded time, presenting address)".
-/
import Aquatic.Model.ConnId

namespace Aquatic.C05

open Aquatic

variable {ι : Type} (mac : Nat → ι → Nat)

/-- An id the tracker issued at time `t` for `ip` is accepted from `ip` exactly while
fewer than `age` seconds have passed, and never when its issue time lies more than
60 s in the tracker's future. -/
theorem own_id_window (t now age : Nat) (ip : ι) :
    idValid mac now age ip (createId mac t ip) = true ↔ (now < t + age ∧ t ≤ now + 60) := by
  simp only [idValid, createId, ne_eq, not_true_eq_false, ↓reduceIte, gt_iff_lt, Bool.and_eq_true,
    decide_eq_true_eq]
  constructor
  · rintro ⟨h1, h2⟩; exact ⟨h1, of_decide_eq_true h2⟩
  · rintro ⟨h1, h2⟩; exact ⟨h1, decide_eq_true h2⟩

/-- for an id issued in the past (the clock is monotone): accepted iff `now - t < age` -/
theorem issued_then_accepted_until (t now age : Nat) (ip : ι) (h : t ≤ now) :
    idValid mac now age ip (createId mac t ip) = true ↔ now - t < age := by
  rw [own_id_window]; omega

/-- rejected at every later time -/
theorem rejected_when_expired (t now age : Nat) (ip : ι) (id : ConnId) (h : id.t + age ≤ now) :
    idValid mac now age ip id = false := by
  simp only [idValid]
  split
  · rfl
  · simp; omega

/-- `max_connection_age = 0`: no id issued at or before now is ever accepted -/
theorem age_zero_never (now : Nat) (ip : ι) (id : ConnId) (h : id.t ≤ now) :
    idValid mac now 0 ip id = false :=
  rejected_when_expired mac id.t now 0 ip id (by omega)

/-- ids whose embedded time is more than 60 s ahead of the tracker's clock are rejected -/
theorem rejected_far_future (now age : Nat) (ip : ι) (id : ConnId) (h : now + 60 < id.t) :
    idValid mac now age ip id = false := by
  simp only [idValid]
  split
  · rfl
  · simp; omega

/-- Acceptance of *any* id from *any* address means the presented 32-bit tag is the MAC of
(embedded time, that address): forging, altering or replaying an id from another address
succeeds only by hitting the right tag. -/
theorem accept_implies_mac (now age : Nat) (ip : ι) (id : ConnId)
    (h : idValid mac now age ip id = true) : id.tag = mac id.t ip := by
  simp only [idValid] at h
  split at h
  · cases h
  · rename_i hne; simpa using hne

/-- an id issued for `ip` is accepted from `ip'` only if the MACs collide -/
theorem other_ip_needs_collision (t now age : Nat) (ip ip' : ι)
    (h : idValid mac now age ip' (createId mac t ip) = true) : mac t ip = mac t ip' :=
  accept_implies_mac mac now age ip' (createId mac t ip) h

/-- altering the time half of an issued id requires the MAC of the *new* time -/
theorem altered_time_needs_mac (t t' now age : Nat) (ip : ι)
    (h : idValid mac now age ip ⟨t', mac t ip⟩ = true) : mac t ip = mac t' ip :=
  accept_implies_mac mac now age ip ⟨t', mac t ip⟩ h

/-- altering the tag half always fails -/
theorem altered_tag_rejected (t now age tag' : Nat) (ip : ι) (h : tag' ≠ mac t ip) :
    idValid mac now age ip ⟨t, tag'⟩ = false := by
  simp [idValid, h]

/-- the u64 sums cannot overflow for u32 operands (so the model over ℕ is exact) -/
theorem no_overflow (t now age : Nat) (ht : t < 2 ^ 32) (hn : now < 2 ^ 32) (ha : age < 2 ^ 32) :
    t + age < 2 ^ 64 ∧ now + 60 < 2 ^ 64 := by
  constructor <;> omega

/-! ### non-vacuity: an id issued at t = 100 with age 120 checked at 219 / 220; and 61 s early -/
example : idValid (fun t (ip : Nat) => (t * 31 + ip) % 2 ^ 32) 219 120 7 (createId (fun t ip => (t * 31 + ip) % 2 ^ 32) 100 7) = true
    ∧ idValid (fun t (ip : Nat) => (t * 31 + ip) % 2 ^ 32) 220 120 7 (createId (fun t ip => (t * 31 + ip) % 2 ^ 32) 100 7) = false
    ∧ idValid (fun t (ip : Nat) => (t * 31 + ip) % 2 ^ 32) 39 120 7 (createId (fun t ip => (t * 31 + ip) % 2 ^ 32) 100 7) = false
    ∧ idValid (fun t (ip : Nat) => (t * 31 + ip) % 2 ^ 32) 40 120 7 (createId (fun t ip => (t * 31 + ip) % 2 ^ 32) 100 7) = true := by
  decide

end Aquatic.C05
