/-
  C02 — Peer lists are sound, bounded and never contain the requester.

  Selection functions:
    UDP / HTTP heap map  `extractHalves`  (LargePeerMap::extract_response_peers)
    UDP / HTTP inline    `take n`          (SmallPeerMap::extract_response_peers)
    WebTorrent           `extractWs`       (extract_response_peers, filters the sender)
  and the numwant clamps.  All statements are for every list of distinct keys,
  every limit and *every* pair of draws in the ranges the code passes to
  `random_range`.
-/
import Aquatic.Props.Store
import Aquatic.Lemmas.WsSelect

namespace Aquatic.C02

open Aquatic

/-- Heap-map selection (UDP, HTTP): no panic; the result is a duplicate-free sublist of
the stored keys, at most `n` long; everything when the map holds no more than `n`;
otherwise exactly `2·(n/2) ≥ n − 1` keys. -/
theorem halves_spec {α : Type} (keys : List α) (n o1 o2 : Nat) (hn : keys.Nodup)
    (ho : keys.length ≤ n ∨ offsetsOk keys.length n o1 o2) :
    ∃ r, extractHalves keys n o1 o2 = .ok r ∧ r.Sublist keys ∧ r.Nodup ∧ r.length ≤ n ∧
      (keys.length ≤ n → r = keys) ∧ (n < keys.length → n - 1 ≤ r.length) := by
  obtain ⟨r, h1, h2, h3, h4, h5⟩ := extractHalves_spec keys n o1 o2 ho
  exact ⟨r, h1, h2, h2.nodup hn, h3, h4, fun h => (h5 h).2⟩

/-- the index arithmetic `middle - n/2`, `len - n/2` never underflows when the branch is taken -/
theorem halves_no_underflow (len n : Nat) (h : n < len) : ∃ b, halvesBounds len n = .ok b :=
  halvesBounds_no_panic len n h

/-- in-range draws exist for every size, so `halves_spec` is not vacuous -/
theorem halves_draws_exist (len n : Nat) (h : n < len) : ∃ o1 o2, offsetsOk len n o1 o2 :=
  ⟨0, len / 2, offsetsOk_exists len n h⟩

/-- Inline-map selection (UDP, HTTP): the first `n` keys. -/
theorem inline_spec (l : Entries) (n : Nat) (hn : (keysOf l).Nodup) :
    PeersOk ((l.take n).map (·.1)) (keysOf l) n := peersOk_take l n hn

/-- WebTorrent selection of offer receivers: no panic; a duplicate-free sublist of the
stored peers other than the sender; never the sender; at most `n`; all others when
there are at most `n` of them; otherwise exactly `n`. -/
theorem ws_spec {α : Type} [DecidableEq α] (keys : List α) (n : Nat) (sender : α) (o1 o2 : Nat)
    (hn : keys.Nodup) (ho : keys.length ≤ n + 1 ∨ wsOffsetsOk keys.length n o1 o2) :
    ∃ r, extractWs keys n sender o1 o2 = .ok r ∧
      r.Sublist (keys.filter (fun x => !decide (x = sender))) ∧ r.Nodup ∧ sender ∉ r ∧ r.length ≤ n ∧
      ((keys.filter (fun x => !decide (x = sender))).length ≤ n →
        r = keys.filter (fun x => !decide (x = sender))) ∧
      (n < (keys.filter (fun x => !decide (x = sender))).length → r.length = n) :=
  extractWs_spec keys n sender o1 o2 hn ho

theorem ws_draws_exist (len n : Nat) (h : n + 1 < len) : ∃ o1 o2, wsOffsetsOk len n o1 o2 :=
  ⟨0, len / 2, wsOffsetsOk_exists len n h⟩

/-! ### clamps: "a non-positive or absent request means the configured maximum" -/

theorem clamp_udp_nonpositive (mx : Nat) (w : Int) (h : w ≤ 0) : clampUdp mx w = mx := by
  simp [clampUdp, h]

theorem clamp_udp_positive (mx : Nat) (w : Int) (h : 0 < w) : clampUdp mx w = min mx w.toNat := by
  have : ¬ w ≤ 0 := by omega
  simp [clampUdp, this]

theorem clamp_http_absent (mx : Nat) : clampHttp mx none = mx ∧ clampHttp mx (some 0) = mx := by
  simp [clampHttp]

theorem clamp_http_positive (mx n : Nat) (h : 0 < n) : clampHttp mx (some n) = min n mx := by
  cases n with
  | zero => omega
  | succ k => simp [clampHttp]

theorem clamp_le_max (mx : Nat) (w : Int) (nw : Option Nat) :
    clampUdp mx w ≤ mx ∧ clampHttp mx nw ≤ mx := by
  refine ⟨?_, ?_⟩
  · unfold clampUdp; split <;> omega
  · unfold clampHttp; split <;> omega

/-- WebTorrent: the number of offers forwarded is limited by `min(offers, max_offers)` -/
theorem clamp_ws (offers maxOffers : Nat) : min offers maxOffers ≤ offers ∧ min offers maxOffers ≤ maxOffers := by
  omega

/-! ### announce level (UDP and HTTP stores, any inline capacity) -/

/-- Every peer returned by an announce is a distinct, currently stored member of the
same torrent and address family, never the requester; their number is at most the
limit; all others are returned when they fit, at least `limit − 1` otherwise. -/
theorem announce_peers (cfg : StoreCfg) (s : TState) (r : RT) (v6 : Bool) (h : Nat) (key : Key)
    (st : Status) (pid dl n o1 o2 : Nat) (hs : Sim cfg.c s r)
    (hok : OpOk s (.ann v6 h key st pid dl n o1 o2)) :
    ∃ s' o, step cfg s (.ann v6 h key st pid dl n o1 o2) = .ok (s', .ann o) ∧
      let others := (Ref.others (if v6 then r.r6 else r.r4) h key).map (·.key)
      o.peers.Nodup ∧ (∀ k ∈ o.peers, k ∈ others) ∧ key ∉ o.peers ∧ o.peers.length ≤ n ∧
      (others.length ≤ n → o.peers.Perm others) ∧ (n < others.length → n - 1 ≤ o.peers.length) := by
  obtain ⟨s', out, hstep, _, hrel⟩ := step_refines cfg s r _ hs hok
  have hv : ∀ x, (Ref.announce x h key st pid dl).2.candidates = (Ref.others x h key).map (·.key) := by
    intro x; cases st <;> rfl
  cases out with
  | ann o =>
    refine ⟨s', o, hstep, ?_⟩
    cases v6 <;> simp only [refStep, OutRel, Bool.false_eq_true, ↓reduceIte] at hrel ⊢
    all_goals
      obtain ⟨_, _, h3⟩ := hrel
      rw [hv] at h3
      refine ⟨h3.nodup, h3.sound, ?_, h3.le, h3.all, h3.most⟩
      intro hmem
      have := h3.sound key hmem
      simp [Ref.others] at this
      obtain ⟨a, ⟨_, _, hne⟩, he⟩ := this
      exact hne he
  | scr l => simp [OutRel] at hrel
  | cln a b c d => simp [OutRel] at hrel

/-! ### non-vacuity -/

-- 7 keys, limit 4, draws (0, 3): windows [0,2) and [3,5)
example : extractHalves [10, 11, 12, 13, 14, 15, 16] 4 0 3 = .ok [10, 11, 13, 14]
    ∧ offsetsOk 7 4 0 3 := by decide
-- the largest in-range draws: (0, 4)
example : offsetsOk 7 4 0 4 ∧ ¬ offsetsOk 7 4 1 4 ∧ ¬ offsetsOk 7 4 0 5 := by decide
-- WebTorrent: 7 peers, 3 wanted, sender inside the first window
example : extractWs [10, 11, 12, 13, 14, 15, 16] 3 11 0 3 = .ok [10, 13, 14]
    ∧ wsOffsetsOk 7 3 0 3 := by decide

end Aquatic.C02
