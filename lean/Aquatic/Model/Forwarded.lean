/-
  `parse_forwarded_header` of crates/http/src/workers/socket/request.rs
  (format `LastAddress`): which piece of text is handed to the IP parser.

  Header names are strings (compared exactly), values are byte strings.  The
  IP text parser itself (`str::parse::<IpAddr>`, std) is a parameter.
-/
import Aquatic.Model.Addr

namespace Aquatic

abbrev HBytes := List UInt8

def isAsciiSpace (b : UInt8) : Bool :=
  b = 32 || b = 9 || b = 10 || b = 11 || b = 12 || b = 13

/-- `str::trim` restricted to ASCII white space -/
def trimAscii (b : HBytes) : HBytes :=
  ((b.dropWhile isAsciiSpace).reverse.dropWhile isAsciiSpace).reverse

/-- the piece after the last comma (`split(',').last()`), the whole value when there is none -/
def lastPiece : HBytes → HBytes
  | [] => []
  | c :: t => if t.contains 44 then lastPiece t else (if c = 44 then t else c :: t)

/-- `for header in headers.iter().rev() { if header.name == header_name { … return } }` -/
def lastHeader (name : String) : List (String × HBytes) → Option HBytes
  | [] => none
  | (n, v) :: t =>
    match lastHeader name t with
    | some x => some x
    | none => if n = name then some v else none

/-- the text handed to the IP parser; `none` = "header not present" -/
def forwardedText (name : String) (headers : List (String × HBytes)) : Option HBytes :=
  (lastHeader name headers).map (fun v => trimAscii (lastPiece v))

/-- `parse_forwarded_header` with the IP parser as a parameter:
`none` = error (header missing, or the text does not parse) -/
def forwardedIp (parseIp : HBytes → Option Ip) (name : String) (headers : List (String × HBytes)) :
    Option Ip :=
  match forwardedText name headers with
  | none => none
  | some txt => parseIp txt

end Aquatic
