/-
  Model of the UDP wire codec of crates/udp_protocol (request.rs, response.rs):
  `Request::{write_bytes, parse_bytes}`, `Response::{write_bytes, parse_bytes}`.

  The packed zerocopy structs are encoded / decoded generically from the
  *generated* layouts (field order and widths extracted from the source on every
  run); the dispatch on the action code, the length checks and the error classes
  follow the code.
-/
import Aquatic.Spec.Bep15
import Aquatic.Generated.Layouts

namespace Aquatic.UdpCodec

open Aquatic.Bep15

/-- `IntoBytes::as_bytes` of a `#[repr(C, packed)]` struct of network-endian fields -/
def encodeStruct (layout : List (F × Nat)) (vals : F → Nat) : Bytes :=
  layout.flatMap (fun fw => natBE fw.2 (vals fw.1))

/-- `FromBytes::read_from_prefix`: the fields in order; `none` when the input is too short -/
def decodeStruct : List (F × Nat) → Bytes → Option (List (F × Nat) × Bytes)
  | [], b => some ([], b)
  | (f, w) :: t, b =>
    if b.length < w then none
    else (decodeStruct t (b.drop w)).map (fun r => ((f, beNat (b.take w)) :: r.1, r.2))

def get? (vs : List (F × Nat)) (f : F) : Option Nat := (vs.find? (fun x => x.1 = f)).map (·.2)

def evCodeGen (e : Ev) : Option Nat := (Generated.eventCodes.find? (fun x => x.1 = e)).map (·.2)
def evOfCodeGen (n : Nat) : Option Ev := (Generated.eventCodes.find? (fun x => x.2 = n)).map (·.1)
def kindOf (tbl : List (Kind × Nat)) (n : Nat) : Option Kind := (tbl.find? (fun x => x.2 = n)).map (·.1)
def codeOf (tbl : List (Kind × Nat)) (k : Kind) : Option Nat := (tbl.find? (fun x => x.1 = k)).map (·.2)

/-- `k` consecutive `w`-byte big-endian values -/
def chunkNats (w : Nat) : Nat → Bytes → List Nat
  | 0, _ => []
  | k + 1, b => beNat (b.take w) :: chunkNats w k (b.drop w)

/-! ### requests -/

def annVals (a : AnnReq) : F → Nat
  | .connectionId => a.connectionId
  | .action => Generated.announceActionPlaceholder
  | .transactionId => a.transactionId
  | .infoHash => a.infoHash
  | .peerId => a.peerId
  | .downloaded => a.downloaded
  | .left => a.left
  | .uploaded => a.uploaded
  | .event => (evCodeGen a.event).getD 0
  | .ip => a.ip
  | .key => a.key
  | .numWant => a.numWant
  | .port => a.port
  | _ => 0

/-- `Request::write_bytes` -/
def encodeRequest : Request → Bytes
  | .connect tid =>
    natBE 8 Generated.protocolIdentifier ++ natBE 4 ((codeOf Generated.requestWriteActions .connect).getD 0) ++
      natBE 4 tid
  | .announce a => encodeStruct Generated.announceRequest (annVals a)
  | .scrape cid tid hs =>
    natBE 8 cid ++ natBE 4 ((codeOf Generated.requestWriteActions .scrape).getD 0) ++ natBE 4 tid ++
      hs.flatMap (natBE 20)

inductive PErr where
  /-- `RequestParseError::Sendable { connection_id, transaction_id, .. }` -/
  | sendable (cid tid : Nat)
  | unsendable
  deriving DecidableEq, Repr

def annOfVals (vs : List (F × Nat)) : Option (AnnReq × Nat) := do
  let ev ← evOfCodeGen (← get? vs .event)
  let a : AnnReq :=
    { connectionId := ← get? vs .connectionId, transactionId := ← get? vs .transactionId,
      infoHash := ← get? vs .infoHash, peerId := ← get? vs .peerId, downloaded := ← get? vs .downloaded,
      left := ← get? vs .left, uploaded := ← get? vs .uploaded, event := ev, ip := ← get? vs .ip,
      key := ← get? vs .key, numWant := ← get? vs .numWant, port := ← get? vs .port }
  pure (a, ← get? vs .action)

/-- the `0 =>` arm: read_i64, read_i32, read_i32 from a cursor over the datagram -/
def parseConnect (b : Bytes) : Except PErr Request :=
  match slice b 0 8, slice b 8 12, slice b 12 16 with
  | some p, some _, some t =>
    if beNat p = Generated.protocolIdentifier then .ok (.connect (beNat t))
    else .error .unsendable                                   -- "Protocol identifier missing"
  | _, _, _ => .error .unsendable

/-- the `1 =>` arm: `AnnounceRequest::try_read_from_prefix` (length, then validity of the two
enums), then the port check -/
def parseAnnounce (b : Bytes) : Except PErr Request :=
  match decodeStruct Generated.announceRequest b with
  | none => .error .unsendable
  | some (vs, _) =>
    match annOfVals vs with
    | none => .error .unsendable
    | some (a, act) =>
      if act ≠ Generated.announceActionPlaceholder then .error .unsendable
      else if a.port = 0 then .error (.sendable a.connectionId a.transactionId)   -- "Port can't be 0"
      else .ok (.announce a)

/-- the `2 =>` arm -/
def parseScrape (b : Bytes) (maxScrape : Nat) : Except PErr Request :=
  match slice b 0 8, slice b 8 12, slice b 12 16 with
  | some c, some _, some t =>
    let rest := b.drop 16
    if rest.isEmpty then .error (.sendable (beNat c) (beNat t))     -- "Full scrapes are not allowed"
    else if rest.length % 20 ≠ 0 then .error (.sendable (beNat c) (beNat t))  -- "Invalid info hash list"
    else .ok (.scrape (beNat c) (beNat t) (chunkNats 20 (min maxScrape (rest.length / 20)) rest))
  | _, _, _ => .error .unsendable

/-- `Request::parse_bytes(bytes, max_scrape_torrents)` -/
def parseRequest (b : Bytes) (maxScrape : Nat) : Except PErr Request :=
  match slice b Generated.requestActionOffset Generated.requestActionEnd with
  | none => .error .unsendable                                    -- "Couldn't parse action"
  | some ab =>
    match kindOf Generated.requestParseActions (beNat ab) with
    | some .connect => parseConnect b
    | some .announce => parseAnnounce b
    | some .scrape => parseScrape b maxScrape
    | _ => .error .unsendable                                      -- "Invalid action"

/-! ### responses -/

def peerVals (p : RPeer) : F → Nat
  | .ip => p.ip
  | .port => p.port
  | _ => 0

def statsVals (x : Stats) : F → Nat
  | .seeders => x.seeders
  | .completed => x.completed
  | .leechers => x.leechers
  | _ => 0

def connVals (tid cid : Nat) : F → Nat
  | .transactionId => tid
  | .connectionId => cid
  | _ => 0

def fixedVals (tid i l s : Nat) : F → Nat
  | .transactionId => tid
  | .interval => i
  | .leechers => l
  | .seeders => s
  | _ => 0

def peerLayout (v6 : Bool) : List (F × Nat) := if v6 then Generated.responsePeerV6 else Generated.responsePeerV4

def wAct (k : Kind) : Bytes := natBE 4 ((codeOf Generated.responseWriteActions k).getD 0)

/-- `Response::write_bytes` -/
def encodeResponse : Response → Bytes
  | .connect tid cid =>
    wAct .connect ++ encodeStruct Generated.connectResponse (connVals tid cid)
  | .announce v6 tid i l s peers =>
    wAct .announce ++ encodeStruct Generated.announceResponseFixed (fixedVals tid i l s)
      ++ peers.flatMap (fun p => encodeStruct (peerLayout v6) (peerVals p))
  | .scrape tid stats =>
    wAct .scrape ++ natBE 4 tid ++ stats.flatMap (fun x => encodeStruct Generated.scrapeStats (statsVals x))
  | .error tid msg => wAct .error ++ natBE 4 tid ++ msg

def width (layout : List (F × Nat)) : Nat := (layout.map (·.2)).sum

/-- `<[T]>::ref_from_bytes`: the whole input as `T`s; `none` unless its length is a multiple -/
def decodeMany (layout : List (F × Nat)) : Nat → Bytes → Option (List (List (F × Nat)))
  | 0, b => if b.isEmpty then some [] else none
  | k + 1, b =>
    if b.isEmpty then some []
    else match decodeStruct layout b with
      | none => none
      | some (vs, rest) => (decodeMany layout k rest).map (vs :: ·)

def peerOfVals (vs : List (F × Nat)) : Option RPeer := do
  pure { ip := ← get? vs .ip, port := ← get? vs .port }

def statsOfVals (vs : List (F × Nat)) : Option Stats := do
  pure { seeders := ← get? vs .seeders, completed := ← get? vs .completed, leechers := ← get? vs .leechers }

def allSome {α : Type} : List (Option α) → Option (List α)
  | [] => some []
  | none :: _ => none
  | some x :: t => (allSome t).map (x :: ·)

/-- `Response::parse_bytes(bytes, ipv4)` (client side) -/
def parseResponse (b : Bytes) (ipv4 : Bool) : Option Response :=
  match slice b 0 4 with
  | none => none
  | some ab =>
    let rest := b.drop 4
    match kindOf Generated.responseParseActions (beNat ab) with
    | some .connect =>
      -- ConnectResponse::read_from_bytes: exact size
      match decodeStruct Generated.connectResponse rest with
      | some (vs, []) => do pure (.connect (← get? vs .transactionId) (← get? vs .connectionId))
      | _ => none
    | some .announce =>
      match decodeStruct Generated.announceResponseFixed rest with
      | none => none
      | some (vs, prest) => do
        let ps ← decodeMany (peerLayout (!ipv4)) prest.length prest
        let peers ← allSome (ps.map peerOfVals)
        pure (.announce (!ipv4) (← get? vs .transactionId) (← get? vs .interval) (← get? vs .leechers)
          (← get? vs .seeders) peers)
    | some .scrape =>
      match slice rest 0 4 with
      | none => none
      | some t => do
        let ss ← decodeMany Generated.scrapeStats rest.length (rest.drop 4)
        let stats ← allSome (ss.map statsOfVals)
        pure (.scrape (beNat t) stats)
    | some .error =>
      match slice rest 0 4 with
      | none => none
      | some t => some (.error (beNat t) (rest.drop 4))
    | none => none

end Aquatic.UdpCodec
