/-
  Model of the WebTorrent swarm store and of the socket worker's per-connection bookkeeping:
    crates/ws/src/workers/swarm/storage.rs      TorrentMap / TorrentData (announce, offers,
                                                answers, scrape, connection closed, clean)
    crates/ws/src/workers/socket/connection.rs  ConnectionReader::handle_announce_request
                                                (announced_info_hashes), ConnectionCleanupData::after_close
  One address family (the two `TorrentMap`s are independent; the family is a property of the
  connection).  `usize` subtractions are checked (`csub`): an underflow is a panic outcome.
-/
import Aquatic.Model.IMap
import Aquatic.Model.WsSelect
import Aquatic.Model.Time
import Aquatic.Model.Tracker

namespace Aquatic.Ws

/-- a connection: socket worker (`ConsumerId`) and the worker's slot key (`ConnectionId`) -/
structure ConnId where
  consumer : Nat
  slot : Nat
  deriving DecidableEq, Repr

/-- `ExpectingAnswer{from_peer_id, regarding_offer_id}` -/
abbrev ExpKey := Nat × Nat

structure WPeer where
  owner : ConnId
  seeder : Bool
  validUntil : Nat
  expecting : List (ExpKey × Nat)
  deriving DecidableEq, Repr

abbrev Peers := List (Nat × WPeer)

structure Torrent where
  peers : Peers := []
  numSeeders : Nat := 0
  deriving DecidableEq, Repr

abbrev WMap := List (Nat × Torrent)

inductive WStatus where
  | stopped | seeding | leeching
  deriving DecidableEq, Repr

/-- `PeerStatus::from_event_and_bytes_left` -/
def wsStatus (stopped : Bool) (left : Option Nat) : WStatus :=
  if stopped then .stopped else if left = some 0 then .seeding else .leeching

structure AnnReq where
  hash : Nat
  pid : Nat
  stopped : Bool
  left : Option Nat
  /-- `offers`: (offer id, tag standing for the SDP payload) -/
  offers : Option (List (Nat × Nat))
  /-- `answer`, `to_peer_id`, `offer_id` all present: (receiver peer id, offer id, payload tag) -/
  answer : Option (Nat × Nat × Nat)
  deriving DecidableEq, Repr

inductive Msg where
  | announce (to : ConnId) (hash complete incomplete : Nat)
  | scrape (to : ConnId) (files : List (Nat × Nat × Nat))
  | offer (to : ConnId) (hash fromPeer offerId payload : Nat)
  | answer (to : ConnId) (hash fromPeer offerId payload : Nat)
  | error (to : ConnId) (hash : Option Nat)
  deriving DecidableEq, Repr

structure WsCfg where
  maxOffers : Nat
  maxScrape : Nat
  maxPeerAge : Nat
  maxOfferAge : Nat

/-! ### TorrentData -/

def decSeeder (ns : Nat) (wasSeeder : Bool) : Except Panic Nat :=
  if wasSeeder then csub ns 1 else .ok ns

/-- `TorrentData::insert_or_update_peer` -/
def insertOrUpdate (t : Torrent) (conn : ConnId) (pid : Nat) (st : WStatus) (vu : Nat) : Except Panic Torrent :=
  match IMap.get t.peers pid with
  | some p =>
    (match st with
     | .leeching => do
       let ns ← decSeeder t.numSeeders p.seeder
       pure ⟨IMap.insert t.peers pid { p with seeder := false, validUntil := vu }, ns⟩
     | .seeding =>
       pure ⟨IMap.insert t.peers pid { p with seeder := true, validUntil := vu },
             if p.seeder then t.numSeeders else t.numSeeders + 1⟩
     | .stopped => do
       let ns ← decSeeder t.numSeeders p.seeder
       pure ⟨(IMap.swapRemove t.peers pid).1, ns⟩)
  | none =>
    (match st with
     | .leeching => pure ⟨IMap.insert t.peers pid ⟨conn, false, vu, []⟩, t.numSeeders⟩
     | .seeding => pure ⟨IMap.insert t.peers pid ⟨conn, true, vu, []⟩, t.numSeeders + 1⟩
     | .stopped => pure t)

/-- owner of each selected receiver, read from the same map (the conversion closure) -/
def withOwners (peers : Peers) (recv : List Nat) : List (Nat × ConnId) :=
  recv.filterMap (fun r => (IMap.get peers r).map (fun p => (r, p.owner)))

def recordOffers (exp : List (ExpKey × Nat)) (vu : Nat) : List ((Nat × Nat) × (Nat × ConnId)) → List (ExpKey × Nat)
  | [] => exp
  | (off, r) :: t => recordOffers (IMap.insert exp (r.1, off.1) vu) vu t

def offerMsgs (h sender : Nat) (pairs : List ((Nat × Nat) × (Nat × ConnId))) : List Msg :=
  pairs.map (fun x => Msg.offer x.2.2 h sender x.1.1 x.1.2)

/-- `TorrentData::handle_offers`; `o1 o2` are the two `random_range` draws -/
def handleOffers (cfg : WsCfg) (t : Torrent) (now h sender : Nat) (offers : List (Nat × Nat)) (o1 o2 : Nat) :
    Except Panic (Torrent × List Msg) := do
  let n := min offers.length cfg.maxOffers
  let recv ← extractWs (IMap.keys t.peers) n sender o1 o2
  match IMap.get t.peers sender with
  | none => pure (t, [])
  | some p =>
    let pairs := offers.zip (withOwners t.peers recv)
    let vu := validUntilNew now cfg.maxOfferAge
    pure (⟨IMap.insert t.peers sender { p with expecting := recordOffers p.expecting vu pairs }, t.numSeeders⟩,
          offerMsgs h sender pairs)

/-- `TorrentData::handle_answer` -/
def handleAnswer (t : Torrent) (conn : ConnId) (h pid toPid oid payload : Nat) : Torrent × List Msg :=
  match IMap.get t.peers toPid with
  | none => (t, [])
  | some r =>
    let res := IMap.swapRemove r.expecting (pid, oid)
    (match res.2 with
     | some _ => (⟨IMap.insert t.peers toPid { r with expecting := res.1 }, t.numSeeders⟩,
                  [Msg.answer r.owner h pid oid payload])
     | none => (t, [Msg.error conn (some h)]))

def offersPart (cfg : WsCfg) (t : Torrent) (now : Nat) (req : AnnReq) (o1 o2 : Nat) : Except Panic (Torrent × List Msg) :=
  match req.offers with
  | some offers => handleOffers cfg t now req.hash req.pid offers o1 o2
  | none => .ok (t, [])

def answerPart (t : Torrent) (conn : ConnId) (req : AnnReq) : Torrent × List Msg :=
  match req.answer with
  | some (toPid, oid, payload) => handleAnswer t conn req.hash req.pid toPid oid payload
  | none => (t, [])

def ownedByOther (t : Torrent) (pid : Nat) (conn : ConnId) : Bool :=
  match IMap.get t.peers pid with
  | some p => !decide (p.owner = conn)
  | none => false

/-- offers, then the answer (both skipped for a `stopped` announce) -/
def relayPart (cfg : WsCfg) (t1 : Torrent) (conn : ConnId) (req : AnnReq) (now o1 o2 : Nat) :
    Except Panic (Torrent × List Msg) :=
  match offersPart cfg t1 now req o1 o2 with
  | .error e => .error e
  | .ok r => .ok ((answerPart r.1 conn req).1, r.2 ++ (answerPart r.1 conn req).2)

/-- an announce that is not ignored, on its torrent -/
def announceLive (cfg : WsCfg) (t : Torrent) (conn : ConnId) (req : AnnReq) (now o1 o2 : Nat) :
    Except Panic (Torrent × List Msg) :=
  match insertOrUpdate t conn req.pid (wsStatus req.stopped req.left) (validUntilNew now cfg.maxPeerAge) with
  | .error e => .error e
  | .ok t1 =>
    match (if wsStatus req.stopped req.left = .stopped then .ok (t1, []) else relayPart cfg t1 conn req now o1 o2) with
    | .error e => .error e
    | .ok r =>
      match csub r.1.peers.length r.1.numSeeders with
      | .error e => .error e
      | .ok inc => .ok (r.1, r.2 ++ [Msg.announce conn req.hash r.1.numSeeders inc])

/-- `TorrentMap::handle_announce_request` (ownership compared on socket worker *and* slot key);
`entry(info_hash).or_default()` creates the torrent even when the request is ignored -/
def announce (cfg : WsCfg) (m : WMap) (conn : ConnId) (req : AnnReq) (now o1 o2 : Nat) :
    Except Panic (WMap × List Msg) :=
  let t := (IMap.get m req.hash).getD {}
  if ownedByOther t req.pid conn then .ok (IMap.insert m req.hash t, [])
  else
    match announceLive cfg t conn req now o1 o2 with
    | .error e => .error e
    | .ok r => .ok (IMap.insert m req.hash r.1, r.2)

/-- `TorrentMap::handle_scrape_request`: per requested hash (first `max_scrape_torrents`), the
torrents present in the map -/
def scrapeList (m : WMap) : List Nat → Except Panic (List (Nat × Nat × Nat))
  | [] => .ok []
  | h :: t =>
    match IMap.get m h with
    | none => scrapeList m t
    | some tor => do
      let inc ← csub tor.peers.length tor.numSeeders
      let rest ← scrapeList m t
      pure ((h, tor.numSeeders, inc) :: rest)

def scrape (cfg : WsCfg) (m : WMap) (conn : ConnId) (hashes : List Nat) : Except Panic (List Msg) := do
  let files ← scrapeList m (hashes.take cfg.maxScrape)
  pure [Msg.scrape conn (httpScrapeFiles files)]

/-- `TorrentData::handle_connection_closed` for one (info hash, peer id) pair of the closing
connection: the entry is removed only if that connection owns it -/
def closeOne (m : WMap) (conn : ConnId) (h pid : Nat) : Except Panic WMap :=
  match IMap.get m h with
  | none => .ok m
  | some t =>
    match IMap.get t.peers pid with
    | none => .ok m
    | some p =>
      if p.owner = conn then do
        let ns ← decSeeder t.numSeeders p.seeder
        pure (IMap.insert m h ⟨(IMap.swapRemove t.peers pid).1, ns⟩)
      else .ok m

def closePairs (m : WMap) (conn : ConnId) : List (Nat × Nat) → Except Panic WMap
  | [] => .ok m
  | (h, pid) :: t => do
    let m' ← closeOne m conn h pid
    closePairs m' conn t

/-- `TorrentData::clean_and_get_num_peers` -/
def cleanPeers (now : Nat) : Peers → Nat → Except Panic (Peers × Nat)
  | [], ns => .ok ([], ns)
  | (pid, p) :: t, ns =>
    if validAt p.validUntil now then do
      let r ← cleanPeers now t ns
      pure ((pid, { p with expecting := IMap.retain (fun vu => validAt vu now) p.expecting }) :: r.1, r.2)
    else do
      let ns' ← decSeeder ns p.seeder
      cleanPeers now t ns'

/-- `TorrentMap::clean` -/
def clean (m : WMap) (now : Nat) (allowed : Nat → Bool) : Except Panic WMap :=
  match m with
  | [] => .ok []
  | (h, t) :: rest =>
    if !allowed h then clean rest now allowed
    else do
      let r ← cleanPeers now t.peers t.numSeeders
      let rest' ← clean rest now allowed
      pure (if r.1.isEmpty then rest' else (h, ⟨r.1, r.2⟩) :: rest')

/-! ### the socket worker's bookkeeping (`announced_info_hashes`) and the whole tracker -/

abbrev Book := List (Nat × Nat)          -- info hash ↦ peer id used on this connection

structure Sys where
  m : WMap := []
  books : List (ConnId × Book) := []

inductive WOp where
  | ann (conn : ConnId) (allowed : Bool) (req : AnnReq) (now o1 o2 : Nat)
  | scr (conn : ConnId) (hashes : List Nat)
  | close (conn : ConnId)
  | clean (now : Nat) (allowed : Nat → Bool)

def bookOf (s : Sys) (conn : ConnId) : Book := (IMap.get s.books conn).getD []

/-- connection task ended: `after_close` sends the connection's (info hash, peer id) pairs -/
def sysClose (s : Sys) (conn : ConnId) : Except Panic Sys := do
  let m' ← closePairs s.m conn (bookOf s conn)
  pure ⟨m', (IMap.swapRemove s.books conn).1⟩

def bookAfter (b : Book) (req : AnnReq) : Book :=
  let b1 := IMap.insert b req.hash req.pid
  if req.stopped then (IMap.swapRemove b1 req.hash).1 else b1

def sysStep (cfg : WsCfg) (s : Sys) : WOp → Except Panic (Sys × List Msg)
  | .ann conn allowed req now o1 o2 =>
    if !allowed then .ok (s, [Msg.error conn (some req.hash)])          -- "Info hash not allowed"
    else
      match IMap.get (bookOf s conn) req.hash with
      | some pid' =>
        if pid' ≠ req.pid then do
          -- "Only one peer id can be used per torrent": error reply, then the connection ends
          let s' ← sysClose s conn
          pure (s', [Msg.error conn (some req.hash)])
        else do
          let (m', msgs) ← announce cfg s.m conn req now o1 o2
          pure (⟨m', IMap.insert s.books conn (bookAfter (bookOf s conn) req)⟩, msgs)
      | none => do
        let (m', msgs) ← announce cfg s.m conn req now o1 o2
        pure (⟨m', IMap.insert s.books conn (bookAfter (bookOf s conn) req)⟩, msgs)
  | .scr conn hashes => do
    let msgs ← scrape cfg s.m conn hashes
    pure (s, msgs)
  | .close conn => do
    let s' ← sysClose s conn
    pure (s', [])
  | .clean now allowed => do
    let m' ← clean s.m now allowed
    pure (⟨m', s.books⟩, [])

end Aquatic.Ws
