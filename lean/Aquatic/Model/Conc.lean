/-
  The UDP swarm state under concurrency (crates/udp/src/swarm.rs: TorrentMapShards::announce /
  scrape / clean_and_get_statistics), at the granularity of its lock-free gaps:

    announce   A1  under the shard lock: find or create the torrent's peer map, clone its Arc
               A2  under the peer map's write lock: PeerMap::announce            (linearization point)
    scrape     S   per requested hash, under shard read + peer map read lock     (linearization point)
    clean      C1  per shard, under the shard read lock: clone the Arcs of its torrents
               C2  per cloned Arc, under the peer map's write lock: clean it     (linearization point)
               C3  per shard, under the shard write lock: drop forbidden torrents and empty ones
                   whose Arc nobody else holds (`Arc::get_mut`)

  No lock is held across two steps; a thread between steps holds only Arcs.  An Arc is a pair
  (hash, address); addresses are never reused.  A peer map removed from its shard while somebody still
  holds its Arc lives on in `detached` (updates to it are lost - the situation the guard prevents).
  One address family; the 16 shards are `hash % 16`.
-/
import Aquatic.Model.Tracker
import Aquatic.Generated.Consts

namespace Aquatic.Conc

def numShards : Nat := Generated.udpNumShards
def shardOf (h : Nat) : Nat := (h / 256 ^ 19) % numShards

structure CState where
  /-- hash ↦ (address of the Arc, peer map) -/
  shard : List (Nat × (Nat × PeerMap)) := []
  detached : List (Nat × PeerMap) := []
  next : Nat := 0

structure AnnArgs where
  h : Nat
  key : Key
  st : Status
  pid : Nat
  dl : Nat
  n : Nat
  o1 : Nat
  o2 : Nat

inductive Pc where
  | annStart (a : AnnArgs)
  | annHave (a : AnnArgs) (addr : Nat)
  | scr (todo : List Nat) (acc : List (Nat × Nat))
  | clnSnap (now : Nat) (allowed : Nat → Bool) (i : Nat)
  | clnTorrents (now : Nat) (allowed : Nat → Bool) (i : Nat) (arcs : List (Nat × Nat))
  | clnRetain (now : Nat) (allowed : Nat → Bool) (i : Nat)
  | doneAnn (o : AnnOut)
  | doneScr (l : List (Nat × Nat))
  | doneCln

def sget (s : List (Nat × (Nat × PeerMap))) (h : Nat) : Option (Nat × PeerMap) :=
  match s with
  | [] => none
  | (h', v) :: t => if h' = h then some v else sget t h

def sset (s : List (Nat × (Nat × PeerMap))) (h : Nat) (v : Nat × PeerMap) : List (Nat × (Nat × PeerMap)) :=
  match s with
  | [] => [(h, v)]
  | (h', v') :: t => if h' = h then (h', v) :: t else (h', v') :: sset t h v

def dget (d : List (Nat × PeerMap)) (a : Nat) : Option PeerMap :=
  match d with
  | [] => none
  | (a', pm) :: t => if a' = a then some pm else dget t a

def dset (d : List (Nat × PeerMap)) (a : Nat) (pm : PeerMap) : List (Nat × PeerMap) :=
  match d with
  | [] => [(a, pm)]
  | (a', pm') :: t => if a' = a then (a', pm) :: t else (a', pm') :: dset t a pm

/-- Arcs held by a thread between its steps -/
def Pc.arcs : Pc → List (Nat × Nat)
  | .annHave a addr => [(a.h, addr)]
  | .clnTorrents _ _ _ arcs => arcs
  | _ => []

def heldBy (pcs : List Pc) (addr : Nat) : Bool := pcs.any (fun pc => pc.arcs.any (fun x => x.2 = addr))

/-- the peer map behind an Arc -/
def deref (s : CState) (h addr : Nat) : Option PeerMap :=
  match sget s.shard h with
  | some (a, pm) => if a = addr then some pm else dget s.detached addr
  | none => dget s.detached addr

def store (s : CState) (h addr : Nat) (pm : PeerMap) : CState :=
  match sget s.shard h with
  | some (a, _) => if a = addr then { s with shard := sset s.shard h (addr, pm) } else { s with detached := dset s.detached addr pm }
  | none => { s with detached := dset s.detached addr pm }

/-- C3 on shard `i`: `retain` -/
def retainShard (allowed : Nat → Bool) (others : List Pc) (i : Nat) :
    List (Nat × (Nat × PeerMap)) → List (Nat × (Nat × PeerMap)) × List (Nat × PeerMap)
  | [] => ([], [])
  | (h, (a, pm)) :: t =>
    let r := retainShard allowed others i t
    if shardOf h ≠ i then ((h, (a, pm)) :: r.1, r.2)
    else if !allowed h then (r.1, if heldBy others a then (a, pm) :: r.2 else r.2)
    else if !heldBy others a && pm.entries.isEmpty then (r.1, r.2)
    else ((h, (a, pm)) :: r.1, r.2)

/-- one step of the thread whose program counter is `pc`; `others`: the other threads (their Arcs
decide `Arc::get_mut`) -/
def stepPc (c : Nat) (s : CState) (others : List Pc) : Pc → Except Panic (CState × Pc)
  | .annStart a =>
    match sget s.shard a.h with
    | some (addr, _) => .ok (s, .annHave a addr)
    | none => .ok ({ s with shard := sset s.shard a.h (s.next, .small []), next := s.next + 1 }, .annHave a s.next)
  | .annHave a addr =>
    match deref s a.h addr with
    | none => .error .conv
    | some pm => do
      let r ← pm.announce c a.key a.st a.pid a.dl a.n a.o1 a.o2
      pure (store s a.h addr r.1, .doneAnn r.2)
  | .scr [] acc => .ok (s, .doneScr acc.reverse)
  | .scr (h :: t) acc =>
    match sget s.shard h with
    | some (_, pm) => do
      let x ← pm.counts
      pure (s, .scr t (x :: acc))
    | none => .ok (s, .scr t ((0, 0) :: acc))
  | .clnSnap now allowed i =>
    if i ≥ numShards then .ok (s, .clnRetain now allowed 0)
    else .ok (s, .clnTorrents now allowed i ((s.shard.filter (fun x => shardOf x.1 = i)).map (fun x => (x.1, x.2.1))))
  | .clnTorrents now allowed i [] => .ok (s, .clnSnap now allowed (i + 1))
  | .clnTorrents now allowed i ((h, addr) :: t) =>
    match deref s h addr with
    | none => .error .conv
    | some pm => do
      let r ← pm.clean c true now
      pure (store s h addr r.1, .clnTorrents now allowed i t)
  | .clnRetain now allowed i =>
    if i ≥ numShards then .ok (s, .doneCln)
    else
      let r := retainShard allowed others i s.shard
      .ok ({ s with shard := r.1, detached := r.2 ++ s.detached }, .clnRetain now allowed (i + 1))
  | pc => .ok (s, pc)

def Pc.isDone : Pc → Bool
  | .doneAnn _ => true
  | .doneScr _ => true
  | .doneCln => true
  | _ => false

/-- the whole system: run thread `t` for one step -/
def stepThread (c : Nat) (s : CState) (pcs : List Pc) (t : Nat) : Except Panic (CState × List Pc) :=
  match pcs[t]? with
  | none => .ok (s, pcs)
  | some pc => do
    let r ← stepPc c s (pcs.eraseIdx t) pc
    pure (r.1, pcs.set t r.2)

def runSched (c : Nat) : CState → List Pc → List Nat → Except Panic (CState × List Pc)
  | s, pcs, [] => .ok (s, pcs)
  | s, pcs, t :: rest =>
    match stepThread c s pcs t with
    | .error e => .error e
    | .ok r => runSched c r.1 r.2 rest

/-- the torrent map a sequential observer sees -/
def view (s : CState) : TMap := s.shard.map (fun x => (x.1, x.2.2))

end Aquatic.Conc
