/-
  The send path of the mio socket worker (crates/udp/src/workers/socket/mio/socket.rs:
  `send_response`, `resend_failed`): a reply is serialised and handed to `send_to`; when that fails
  with EWOULDBLOCK / ENOBUFS and the resend buffer is enabled (and this is not already a resend), the
  reply is kept - if the buffer is below `resend_buffer_max_len` - and tried once more at the next
  iteration; every other failure drops it.  The outcome of each `send_to` is a parameter.
  `wire`, `dropped` are history variables: what went out, what was given up.
-/
namespace Aquatic.MioSend

inductive SendRes where
  | sent          -- Ok(bytes_sent)
  | wouldBlock    -- EWOULDBLOCK or ENOBUFS
  | otherErr
  deriving DecidableEq, Repr

structure S (ρ : Type) where
  resend : Option (List ρ)      -- `opt_resend_buffer`: `Some` iff resend_buffer_max_len > 0
  maxLen : Nat
  wire : List ρ := []
  dropped : List ρ := []

/-- `send_response(shared, addr, response, disable_resend_buffer)` with the outcome of `send_to` -/
def sendResponse {ρ : Type} (s : S ρ) (r : ρ) (disableResend : Bool) : SendRes → S ρ
  | .sent => { s with wire := s.wire ++ [r] }
  | .wouldBlock =>
    match s.resend with
    | some buf =>
      if !disableResend then
        if buf.length < s.maxLen then { s with resend := some (buf ++ [r]) } else { s with dropped := s.dropped ++ [r] }
      else { s with dropped := s.dropped ++ [r] }
    | none => { s with dropped := s.dropped ++ [r] }
  | .otherErr => { s with dropped := s.dropped ++ [r] }

/-- sending the replies `rs` with resends disabled, outcome by outcome (missing outcomes: sent) -/
def sendAll {ρ : Type} (s : S ρ) : List ρ → List SendRes → S ρ
  | [], _ => s
  | r :: rs, [] => sendAll (sendResponse s r true .sent) rs []
  | r :: rs, o :: os => sendAll (sendResponse s r true o) rs os

/-- `resend_failed`: the buffer is swapped out, every reply in it is sent with the resend buffer
disabled, the (still empty) buffer is swapped back in -/
def resendFailed {ρ : Type} (s : S ρ) (outcomes : List SendRes) : S ρ :=
  match s.resend with
  | none => s
  | some buf => sendAll { s with resend := some [] } buf outcomes

inductive Ev (ρ : Type) where
  | reply (r : ρ) (o : SendRes)          -- a reply computed for a request, first attempt
  | resend (os : List SendRes)           -- the resend pass of an iteration

def step {ρ : Type} (s : S ρ) : Ev ρ → S ρ
  | .reply r o => sendResponse s r false o
  | .resend os => resendFailed s os

def run {ρ : Type} (s : S ρ) (evs : List (Ev ρ)) : S ρ := evs.foldl step s

def replies {ρ : Type} : List (Ev ρ) → List ρ
  | [] => []
  | .reply r _ :: t => r :: replies t
  | .resend _ :: t => replies t

def buffered {ρ : Type} (s : S ρ) : List ρ := s.resend.getD []

end Aquatic.MioSend
