/-
  `indexmap::IndexMap<K, V>` as an association list in insertion order, generic in key and
  value.  Only the operations the WebTorrent store uses.
-/
namespace Aquatic.IMap

variable {α β : Type} [DecidableEq α]

def get : List (α × β) → α → Option β
  | [], _ => none
  | (k', v) :: t, k => if k' = k then some v else get t k

/-- `insert` / `entry().insert()` / `get_mut` + assignment: replace in place, else append -/
def insert : List (α × β) → α → β → List (α × β)
  | [], k, v => [(k, v)]
  | (k', v') :: t, k, v => if k' = k then (k', v) :: t else (k', v') :: insert t k v

/-- `swap_remove`: the last element takes the place of the removed one -/
def swapRemove : List (α × β) → α → List (α × β) × Option β
  | [], _ => ([], none)
  | (k', v) :: t, k =>
    if k' = k then
      (match t.getLast? with
        | none => []
        | some x => x :: t.dropLast, some v)
    else
      let r := swapRemove t k
      ((k', v) :: r.1, r.2)

def keys (l : List (α × β)) : List α := l.map (·.1)

/-- `retain(|_, v| p v)` -/
def retain (p : β → Bool) (l : List (α × β)) : List (α × β) := l.filter (fun e => p e.2)

end Aquatic.IMap
