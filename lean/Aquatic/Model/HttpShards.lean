/-
  The HTTP tracker's swarm workers as seen from a socket worker
  (crates/http/src/workers/socket/connection.rs: `calculate_request_consumer_index`,
  `handle_request`, `wait_for_scrape_responses`): `n` independent stores, requests routed
  by the first byte of the info hash; a scrape is cut to `max_scrape_torrents` hashes
  (after the repair of F10: once, before it is split), each hash answered by its worker,
  the parts merged in a `BTreeMap`.  One address family (the other is identical).
-/
import Aquatic.Model.Tracker

namespace Aquatic

/-- `info_hash.0[0] as usize % config.swarm_workers` (the hash is a 20-byte big-endian number) -/
def route (n : Nat) (h : Nat) : Nat := (h / 256 ^ 19) % n

abbrev Shards := List TMap

def shardAnnounce (c n : Nat) (ss : Shards) (h : Nat) (key : Key) (st : Status) (pid dl k o1 o2 : Nat) :
    Except Panic (Shards × AnnOut) :=
  match ss[route n h]? with
  | none => .error .conv          -- no such worker: cannot happen for `ss.length = n > 0`
  | some m => do
    let r ← m.announce c h key st pid dl k o1 o2
    pure (ss.set (route n h) r.1, r.2)

def shardScrapeList (n : Nat) (ss : Shards) : List Nat → Except Panic (List (Nat × Nat × Nat))
  | [] => .ok []
  | h :: t => do
    let c ← ((ss[route n h]?).getD []).scrapeOne h
    let r ← shardScrapeList n ss t
    pure ((h, c.1, c.2) :: r)

/-- the merged `files` map of the reply -/
def shardScrape (n maxScrape : Nat) (ss : Shards) (hs : List Nat) : Except Panic (List (Nat × Nat × Nat)) :=
  (shardScrapeList n ss (hs.take maxScrape)).map httpScrapeFiles

/-- worker `i` runs its cleaning pass -/
def shardClean (c : Nat) (ss : Shards) (i now : Nat) (allowed : Nat → Bool) : Except Panic Shards :=
  match ss[i]? with
  | none => .ok ss
  | some m => do
    let r ← m.cleanHttp c now allowed
    pure (ss.set i r.1)

end Aquatic
