/-
  Model of `extract_response_peers` of crates/ws/src/workers/swarm/storage.rs
  (the WebTorrent selection of offer receivers; filters out the sender).
-/
import Aquatic.Model.Store

namespace Aquatic

/-- upper (exclusive) bounds of the two `random_range` calls; `k = n/2 + 1` per half -/
def wsBounds (len n : Nat) : Except Panic (Nat × Nat) := do
  let mid := len / 2
  let k := n / 2 + 1
  let a ← csub mid k
  let b ← csub len k
  pure (max 1 a, max (mid + 1) b)

def wsOffsetsOk (len n o1 o2 : Nat) : Prop :=
  match wsBounds len n with
  | .ok (t1, t2) => o1 < t1 ∧ len / 2 ≤ o2 ∧ o2 < t2
  | .error _ => False

instance (len n o1 o2 : Nat) : Decidable (wsOffsetsOk len n o1 o2) := by
  unfold wsOffsetsOk; split <;> infer_instance

/-- `extract_response_peers(rng, peer_map, n, sender, conv)` on the key list of the map;
`while peers.len() > n { peers.pop() }` is `take n`. -/
def extractWs {α : Type} [DecidableEq α] (keys : List α) (n : Nat) (sender : α) (o1 o2 : Nat) :
    Except Panic (List α) :=
  if keys.length ≤ n + 1 then
    let peers := keys.filter (fun x => !decide (x = sender))
    .ok (if peers.length > n then peers.dropLast else peers)
  else do
    let _ ← wsBounds keys.length n
    let k := n / 2 + 1
    let r1 := ((getRange keys o1 (o1 + k)).getD []).filter (fun x => !decide (x = sender))
    let r2 := ((getRange keys o2 (o2 + k)).getD []).filter (fun x => !decide (x = sender))
    pure ((r1 ++ r2).take n)

end Aquatic
