/-
  `json_nesting_exceeds` of crates/ws_protocol/src/common.rs (added by the repair of F13): the guard
  in front of the recursive deserializer of WebSocket messages.
-/
namespace Aquatic.JsonDepth

structure Scan where
  depth : Nat := 0
  inString : Bool := false
  escaped : Bool := false
  deriving DecidableEq, Repr

/-- one byte of the scan; `none`: the limit is exceeded -/
def scanStep (max : Nat) (s : Scan) (b : Nat) : Option Scan :=
  if s.inString then
    if s.escaped then some { s with escaped := false }
    else if b = 92 then some { s with escaped := true }
    else if b = 34 then some { s with inString := false }
    else some s
  else if b = 34 then some { s with inString := true }
  else if b = 123 ∨ b = 91 then
    if s.depth + 1 > max then none else some { s with depth := s.depth + 1 }
  else if b = 125 ∨ b = 93 then some { s with depth := s.depth - 1 }
  else some s

def scan (max : Nat) : Scan → List Nat → Option Scan
  | s, [] => some s
  | s, b :: t => match scanStep max s b with
    | none => none
    | some s' => scan max s' t

/-- `json_nesting_exceeds(bytes, max)` -/
def nestingExceeds (bytes : List Nat) (max : Nat) : Bool := (scan max {} bytes).isNone

def maxJsonNesting : Nat := 32

end Aquatic.JsonDepth
