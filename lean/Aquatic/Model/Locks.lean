/-
  The lock skeleton of the UDP swarm state (crates/udp/src/swarm.rs: TorrentMapShards::announce /
  scrape / clean_and_get_statistics): only the acquire / upgrade / release sequences of the three
  operations, no data.  Locks are parking_lot `RwLock`s: one per shard, one per peer map.

    announce   shard.upgradable_read()  [upgrade -> write, when the torrent has to be inserted]
               release shard            (end of the block that yields the Arc)
               map.write()              release map
    scrape     per requested hash: shard.read(); [map.read(); release map] when the torrent exists;
               release shard            (both guards are temporaries of the one `let statistics = ...;`)
    clean      per shard: shard.read(); release; then per snapshotted Arc: map.write(); release
               per shard: shard.write(); per entry whose Arc nobody else holds: map.read(); release;
               release shard

  A state is the list of threads; what a lock word says (who holds it, in which mode) is derived
  from the threads' `held` lists, so the lock words cannot disagree with the threads.  `step` is the
  PERMISSIVE semantics (an acquire succeeds whenever it is compatible with the current holders): every
  behaviour of a real RwLock, whatever its queueing policy, is one of its runs.  `Grantable` is the
  STRICT notion used by the deadlock-freedom theorem: a release, an acquire of a lock nobody holds
  at all, or an upgrade when nobody else holds the lock - steps that every work-conserving lock
  implementation must let happen, whether or not it prefers waiting writers over new readers.
-/
namespace Aquatic.Locks

inductive LockId where
  | shard (i : Nat)
  | map (m : Nat)
  deriving DecidableEq, Repr

inductive Mode where
  | read | upg | write
  deriving DecidableEq, Repr

inductive Act where
  | acq (l : LockId) (m : Mode)
  | upgrade (l : LockId)
  | rel (l : LockId)
  deriving DecidableEq, Repr

structure Thread where
  held : List (LockId × Mode) := []
  prog : List Act := []
  deriving DecidableEq, Repr

def LockId.isShard : LockId → Bool
  | .shard _ => true
  | .map _ => false

abbrev Held := List (LockId × Mode)

def holds (h : Held) (l : LockId) : Bool := h.any (fun x => x.1 = l)
def holdsIn (h : Held) (l : LockId) (m : Mode) : Bool := h.any (fun x => x.1 = l ∧ x.2 = m)

/-- may a thread acquire `l` in mode `m` next to what `others` hold?  (parking_lot's compatibility
table: write excludes everything, upgradable excludes upgradable and write, read excludes write) -/
def compatible (others : List Thread) (l : LockId) : Mode → Bool
  | .read => others.all (fun t => !holdsIn t.held l .write)
  | .upg => others.all (fun t => !holdsIn t.held l .write && !holdsIn t.held l .upg)
  | .write => others.all (fun t => !holds t.held l)

def eraseLock (held : Held) (l : LockId) : Held :=
  held.filter (fun x => x.1 ≠ l)

/-- one step of a thread next to the others; `none` = blocked (or finished) -/
def stepT (others : List Thread) (t : Thread) : Option Thread :=
  match t.prog with
  | [] => none
  | .acq l m :: p => if !holds t.held l && compatible others l m then some ⟨(l, m) :: t.held, p⟩ else none
  | .upgrade l :: p =>
    if holdsIn t.held l .upg && others.all (fun o => !holds o.held l) then some ⟨(l, .write) :: eraseLock t.held l, p⟩ else none
  | .rel l :: p => if holds t.held l then some ⟨eraseLock t.held l, p⟩ else none

def step (ts : List Thread) (i : Nat) : Option (List Thread) :=
  match ts[i]? with
  | none => none
  | some t => (stepT (ts.eraseIdx i) t).map (fun t' => ts.set i t')

def runSched : List Thread → List Nat → Option (List Thread)
  | ts, [] => some ts
  | ts, i :: rest => match step ts i with
    | none => none
    | some ts' => runSched ts' rest

/-- a step no work-conserving lock can refuse for ever -/
def grantable (others : List Thread) (t : Thread) : Bool :=
  match t.prog with
  | [] => false
  | .acq l _ :: _ => !holds t.held l && others.all (fun o => !holds o.held l)
  | .upgrade l :: _ => holdsIn t.held l .upg && others.all (fun o => !holds o.held l)
  | .rel l :: _ => holds t.held l

def Thread.done (t : Thread) : Bool := t.prog.isEmpty

/-! ### the three operations -/

/-- announce of a torrent of shard `i` whose peer map is `m`; `create`: the torrent was not there -/
def annProg (i m : Nat) (create : Bool) : List Act :=
  .acq (.shard i) .upg :: ((if create then [.upgrade (.shard i)] else []) ++
    [.rel (.shard i), .acq (.map m) .write, .rel (.map m)])

/-- scrape: per requested hash its shard and, when the torrent exists, its peer map -/
def scrProg : List (Nat × Option Nat) → List Act
  | [] => []
  | (i, none) :: t => .acq (.shard i) .read :: .rel (.shard i) :: scrProg t
  | (i, some m) :: t => .acq (.shard i) .read :: .acq (.map m) .read :: .rel (.map m) :: .rel (.shard i) :: scrProg t

def mapSections (md : Mode) : List Nat → List Act
  | [] => []
  | m :: t => .acq (.map m) md :: .rel (.map m) :: mapSections md t

/-- first half of a cleaning pass: per shard the snapshot under the read lock, then each peer map -/
def clnSnapProg : List (Nat × List Nat) → List Act
  | [] => []
  | (i, ms) :: t => .acq (.shard i) .read :: .rel (.shard i) :: (mapSections .write ms ++ clnSnapProg t)

/-- second half: per shard the `retain` under the write lock, looking into the unshared peer maps -/
def clnRetainProg : List (Nat × List Nat) → List Act
  | [] => []
  | (i, ms) :: t => .acq (.shard i) .write :: (mapSections .read ms ++ .rel (.shard i) :: clnRetainProg t)

def clnProg (snap ret : List (Nat × List Nat)) : List Act := clnSnapProg snap ++ clnRetainProg ret

inductive OpSk where
  | ann (i m : Nat) (create : Bool)
  | scr (l : List (Nat × Option Nat))
  | cln (snap ret : List (Nat × List Nat))

def OpSk.prog : OpSk → List Act
  | .ann i m c => annProg i m c
  | .scr l => scrProg l
  | .cln s r => clnProg s r

/-- a worker thread: any sequence of operations -/
def worker (ops : List OpSk) : Thread := ⟨[], ops.flatMap OpSk.prog⟩

end Aquatic.Locks
