/-
  The send side of the io_uring socket worker (crates/udp/src/workers/socket/uring):

  * `SendBuffers` (send_buffers.rs): a fixed pool of reply buffers with a `free` flag each and a
    hint `likely_next_free_index`; `prepare_entry` takes the first free buffer at or after the hint,
    serialises the reply into it, clears the flag and moves the hint past it; a buffer becomes free
    again only when the completion of its send has been seen (`mark_buffer_as_free`); the hint goes
    back to 0 after the completion queue has been walked (`reset_likely_next_free_index`).
  * the worker's loop (mod.rs, `run` / `handle_cqe`): replies computed while walking the completion
    queue are pushed to the back of `local_responses`; at the top of the next iteration up to
    `sq_space` of them are taken from the front and prepared; when no buffer is free the reply is put
    back at the front and the loop stops; a reply that cannot be serialised is logged and dropped.

  `ρ` is the type of replies; `fits r` says whether `r` serialises into RESPONSE_BUF_LEN bytes (C18
  proves it does for every reply of an accepted configuration).
-/
namespace Aquatic.UringSend

/-- `self.buffers[index]` out of range -/
inductive Panic where
  | index
  deriving DecidableEq, Repr

structure SB where
  free : List Bool
  likely : Nat
  deriving Repr, DecidableEq

def SB.new (cap : Nat) : SB := ⟨List.replicate cap true, 0⟩

def findFree : List Bool → Option Nat
  | [] => none
  | true :: _ => some 0
  | false :: t => (findFree t).map (· + 1)

/-- `next_free_index` -/
def SB.nextFree (s : SB) : Option Nat :=
  if s.likely ≥ s.free.length then none else (findFree (s.free.drop s.likely)).map (· + s.likely)

inductive Prep where
  | ok (i : Nat)
  | noBuffers
  | serFailed
  deriving Repr, DecidableEq

/-- `prepare_entry`: on a serialisation failure neither the flag nor the hint changes -/
def SB.prepare (s : SB) (fits : Bool) : SB × Prep :=
  match s.nextFree with
  | none => (s, .noBuffers)
  | some i => if fits then (⟨s.free.set i false, i + 1⟩, .ok i) else (s, .serFailed)

/-- `mark_buffer_as_free`: `self.buffers[index]` panics out of range -/
def SB.markFree (s : SB) (i : Nat) : Except Panic SB :=
  if i < s.free.length then .ok { s with free := s.free.set i true } else .error .index

def SB.reset (s : SB) : SB := { s with likely := 0 }

/-- the worker's send-side state, with two history variables (`log`, `handled`) -/
structure W (ρ : Type) where
  sb : SB
  queue : List ρ := []              -- local_responses, front first
  inflight : List (Nat × ρ) := []   -- buffer index, reply the kernel may still be reading
  sent : List ρ := []               -- sends whose completion has been seen
  dropped : List ρ := []            -- replies that did not serialise (logged)
  log : List ρ := []                -- history: every reply ever queued, in order
  handled : List ρ := []            -- history: every reply that left the queue, in order

def W.new (ρ : Type) (cap : Nat) : W ρ := { sb := SB.new cap }

/-- a reply computed while walking the completion queue: `local_responses.push_back` -/
def W.arrive {ρ : Type} (w : W ρ) (r : ρ) : W ρ := { w with queue := w.queue ++ [r], log := w.log ++ [r] }

/-- `for _ in 0..sq_space { .. }` at the top of the loop -/
def enqueuePhase {ρ : Type} (fits : ρ → Bool) : Nat → W ρ → W ρ
  | 0, w => w
  | k + 1, w =>
    match w.queue with
    | [] => w
    | r :: q =>
      match w.sb.prepare (fits r) with
      | (sb', .ok i) => enqueuePhase fits k { w with sb := sb', queue := q, inflight := w.inflight ++ [(i, r)], handled := w.handled ++ [r] }
      | (_, .noBuffers) => w                                          -- push_front, break
      | (sb', .serFailed) => enqueuePhase fits k { w with sb := sb', queue := q, dropped := w.dropped ++ [r], handled := w.handled ++ [r] }

def takeOut {ρ : Type} (i : Nat) : List (Nat × ρ) → Option (ρ × List (Nat × ρ))
  | [] => none
  | (j, r) :: t => if j = i then some (r, t) else (takeOut i t).map (fun x => (x.1, (j, r) :: x.2))

/-- the completion of the send that used buffer `i` (any order the kernel likes) -/
def W.complete {ρ : Type} (w : W ρ) (i : Nat) : Except Panic (W ρ) :=
  match w.sb.markFree i with
  | .error e => .error e
  | .ok sb' =>
    match takeOut i w.inflight with
    | some (r, rest) => .ok { w with sb := sb', inflight := rest, sent := w.sent ++ [r] }
    | none => .ok { w with sb := sb' }

/-- end of an iteration -/
def W.endIter {ρ : Type} (w : W ρ) : W ρ := { w with sb := w.sb.reset }

inductive Ev (ρ : Type) where
  | arrive (r : ρ)
  | enqueue (sqSpace : Nat)
  | complete (i : Nat)
  | endIter

def W.step {ρ : Type} (fits : ρ → Bool) (w : W ρ) : Ev ρ → Except Panic (W ρ)
  | .arrive r => .ok (w.arrive r)
  | .enqueue k => .ok (enqueuePhase fits k w)
  | .complete i => w.complete i
  | .endIter => .ok w.endIter

def W.run {ρ : Type} (fits : ρ → Bool) : W ρ → List (Ev ρ) → Except Panic (W ρ)
  | w, [] => .ok w
  | w, e :: es => match w.step fits e with
    | .error p => .error p
    | .ok w' => W.run fits w' es

end Aquatic.UringSend
