/-
  The tail of `run()` in crates/{udp,http,ws}/src/lib.rs: every `pollSecs` seconds the handles of
  all spawned workers are inspected; the first finished one is joined and `run` returns an error,
  whatever the worker returned.
-/
import Aquatic.Generated.Supervise

namespace Aquatic.Supervise

inductive Outcome where
  | running
  | returnedOk
  | returnedErr
  | panicked
  deriving DecidableEq, Repr

inductive RunResult where
  | err (worker : Nat) (why : Outcome)   -- `Err(..)`: which handle, what it had done
  | okReturn                             -- `run` returning Ok (never happens; kept to be able to say so)
  deriving DecidableEq, Repr

/-- one pass over the handles: the first finished one decides -/
def pass (shape : Generated.Supervise.RunShape) : Nat → List Outcome → Option RunResult
  | _, [] => none
  | i, o :: t =>
    match o with
    | .running => pass shape (i + 1) t
    | .returnedOk => some (if shape.okIsError then .err i o else .okReturn)
    | .returnedErr => some (if shape.errIsError then .err i o else .okReturn)
    | .panicked => some (if shape.panicIsError then .err i o else .okReturn)

/-- time (ms after start) of the first pass at or after `t` -/
def nextPass (pollMs t : Nat) : Nat := ((t + pollMs - 1) / pollMs) * pollMs

end Aquatic.Supervise
