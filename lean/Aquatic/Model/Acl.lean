/-
  Access lists: crates/common/src/access_list.rs
  (`parse_info_hash`, `AccessList::create_from_path`, `AccessListQuery::update`,
  `allows`) and the gate the three trackers put in front of the swarm state.

  A file is a list of lines; a line is `none` when its bytes are not valid UTF-8
  (`reader.lines()` yields an error for it), else its characters.
-/
import Aquatic.Model.Tracker

namespace Aquatic

inductive AclMode where
  | allow | deny | off
  deriving DecidableEq, Repr

def hexVal (c : Char) : Option Nat :=
  if '0' ≤ c ∧ c ≤ '9' then some (c.toNat - '0'.toNat)
  else if 'a' ≤ c ∧ c ≤ 'f' then some (c.toNat - 'a'.toNat + 10)
  else if 'A' ≤ c ∧ c ≤ 'F' then some (c.toNat - 'A'.toNat + 10)
  else none

/-- value of a string of hex digits, `none` if any character is not a hex digit -/
def hexValue : List Char → Option Nat
  | [] => some 0
  | c :: t => do
    let d ← hexVal c
    let r ← hexValue t
    pure (d * 16 ^ t.length + r)

/-- `parse_info_hash`: `hex::decode_to_slice(line, &mut [0u8; 20])` — exactly 40 hex digits of either case -/
def parseInfoHash (s : List Char) : Option Nat :=
  if s.length = 40 then hexValue s else none

/-- `char::is_whitespace` (Unicode White_Space) -/
def isWhitespace (c : Char) : Bool :=
  c = ' ' || ('\t' ≤ c && c ≤ '\r') || c.toNat = 0x85 || c.toNat = 0xA0 || c.toNat = 0x1680 ||
  (0x2000 ≤ c.toNat && c.toNat ≤ 0x200A) || c.toNat = 0x2028 || c.toNat = 0x2029 || c.toNat = 0x202F ||
  c.toNat = 0x205F || c.toNat = 0x3000

def trimWs (s : List Char) : List Char :=
  ((s.dropWhile isWhitespace).reverse.dropWhile isWhitespace).reverse

/-- `AccessList::create_from_path` on the lines of an opened file: blank lines skipped,
the first unreadable or malformed line aborts with an error (`none`); the hashes in file order -/
def createFromLines : List (Option (List Char)) → Option (List Nat)
  | [] => some []
  | none :: _ => none                                   -- `let line = line?;`
  | some l :: t =>
    let s := trimWs l
    if s.isEmpty then createFromLines t
    else match parseInfoHash s with
      | none => none                                    -- "Invalid line in access list"
      | some h => (createFromLines t).map (h :: ·)

/-- `AccessListQuery::update`: the file is parsed completely before `ArcSwap::store`;
`file = none` models a file that cannot be opened.  Returns the list in force and
whether the update succeeded. -/
def aclUpdate (cur : List Nat) (file : Option (List (Option (List Char)))) : List Nat × Bool :=
  match file with
  | none => (cur, false)
  | some lines =>
    match createFromLines lines with
    | some l => (l, true)
    | none => (cur, false)

/-- `update_access_list(config, arc_swap)`: nothing is read when the mode is off -/
def updateAccessList (mode : AclMode) (cur : List Nat) (file : Option (List (Option (List Char)))) :
    List Nat × Bool :=
  if mode = .off then (cur, true) else aclUpdate cur file

/-- `AccessList::allows(mode, info_hash)` -/
def aclAllows (mode : AclMode) (list : List Nat) (h : Nat) : Bool :=
  match mode with
  | .allow => list.contains h
  | .deny => !list.contains h
  | .off => true

/-! ### the trackers with the gate in front of the store -/

inductive AOp where
  | op (o : Op)
  | reload (file : Option (List (Option (List Char))))

inductive AOut where
  | out (o : Out)
  | denied                  -- error reply ("Info hash not allowed"), swarm state untouched
  | reloaded (ok : Bool)

inductive AROut where
  | out (o : ROut)
  | denied
  | reloaded (ok : Bool)

/-- one operation of a tracker whose access list is `s.2` -/
def gstep (cfg : StoreCfg) (mode : AclMode) (s : TState × List Nat) : AOp → Except Panic ((TState × List Nat) × AOut)
  | .op (.ann v6 h key st pid dl n o1 o2) =>
    if aclAllows mode s.2 h then do
      let r ← step cfg s.1 (.ann v6 h key st pid dl n o1 o2)
      pure ((r.1, s.2), .out r.2)
    else pure (s, .denied)
  | .op (.scr v6 hs) => do
    let r ← step cfg s.1 (.scr v6 hs)
    pure ((r.1, s.2), .out r.2)
  | .op (.cln now _) => do
    -- cleaning uses the list in force at that moment
    let r ← step cfg s.1 (.cln now (aclAllows mode s.2))
    pure ((r.1, s.2), .out r.2)
  | .reload file =>
    let u := updateAccessList mode s.2 file
    pure ((s.1, u.1), .reloaded u.2)

/-- the reference tracker guarded by the latest successfully loaded list -/
def grefStep (cfg : StoreCfg) (mode : AclMode) (r : RT × List Nat) : AOp → (RT × List Nat) × AROut
  | .op (.ann v6 h key st pid dl n o1 o2) =>
    if aclAllows mode r.2 h then
      let x := refStep cfg r.1 (.ann v6 h key st pid dl n o1 o2)
      ((x.1, r.2), .out x.2)
    else (r, .denied)
  | .op (.scr v6 hs) =>
    let x := refStep cfg r.1 (.scr v6 hs)
    ((x.1, r.2), .out x.2)
  | .op (.cln now _) =>
    let x := refStep cfg r.1 (.cln now (aclAllows mode r.2))
    ((x.1, r.2), .out x.2)
  | .reload file =>
    let u := updateAccessList mode r.2 file
    ((r.1, u.1), .reloaded u.2)

end Aquatic
