/-
  One swarm worker's state (both address families) and its operations, for the
  UDP tracker (`TorrentMaps` of crates/udp/src/swarm.rs) and the HTTP tracker
  (`TorrentMaps` of crates/http/src/workers/swarm/storage.rs), together with
  the reference tracker over the same operations.
-/
import Aquatic.Model.Store
import Aquatic.Spec.Ref

namespace Aquatic

structure StoreCfg where
  c         : Nat      -- SMALL_PEER_MAP_CAPACITY
  http      : Bool     -- HTTP variant: no shrink on clean, forbidden torrents dropped unseen
  maxScrape : Nat      -- scrape requests are cut to this many hashes (HTTP store; UDP cuts while parsing)

inductive Op where
  /-- `n` is the clamped `max_num_peers_to_take`; `o1 o2` the two random draws -/
  | ann (v6 : Bool) (h : Nat) (key : Key) (st : Status) (pid dl n o1 o2 : Nat)
  | scr (v6 : Bool) (hs : List Nat)
  | cln (now : Nat) (allowed : Nat → Bool)

structure TState where
  m4 : TMap := []
  m6 : TMap := []

inductive Out where
  | ann (o : AnnOut)
  | scr (l : List (Nat × Nat × Nat))      -- (hash, seeders, leechers) of the hashes taken, in request order
  | cln (t4 p4 t6 p6 : Nat)               -- torrents / peers per family (HTTP: p = 0, not reported)
  deriving Repr

def scrapeList (m : TMap) : List Nat → Except Panic (List (Nat × Nat × Nat))
  | [] => .ok []
  | h :: t => do
    let c ← m.scrapeOne h
    let r ← scrapeList m t
    pure ((h, c.1, c.2) :: r)

/-- `BTreeMap::insert` on the sorted association list of a `BTreeMap<InfoHash, _>` -/
def btreeInsert {α : Type} (k : Nat) (v : α) : List (Nat × α) → List (Nat × α)
  | [] => [(k, v)]
  | (k', v') :: t =>
    if k = k' then (k, v) :: t
    else if k < k' then (k, v) :: (k', v') :: t
    else (k', v') :: btreeInsert k v t

/-- the `files` map of an HTTP scrape reply: the taken (hash, counts) inserted one by one -/
def httpScrapeFiles (l : List (Nat × Nat × Nat)) : List (Nat × Nat × Nat) :=
  l.foldl (fun acc x => btreeInsert x.1 x.2 acc) []

def step (cfg : StoreCfg) (s : TState) : Op → Except Panic (TState × Out)
  | .ann v6 h key st pid dl n o1 o2 =>
    if v6 then do
      let r ← s.m6.announce cfg.c h key st pid dl n o1 o2
      pure ({ s with m6 := r.1 }, .ann r.2)
    else do
      let r ← s.m4.announce cfg.c h key st pid dl n o1 o2
      pure ({ s with m4 := r.1 }, .ann r.2)
  | .scr v6 hs => do
    let l ← scrapeList (if v6 then s.m6 else s.m4) (hs.take cfg.maxScrape)
    pure (s, .scr l)
  | .cln now allowed =>
    if cfg.http then do
      let a ← s.m4.cleanHttp cfg.c now allowed
      let b ← s.m6.cleanHttp cfg.c now allowed
      pure (⟨a.1, b.1⟩, .cln a.1.length 0 b.1.length 0)
    else do
      let a ← s.m4.cleanUdp cfg.c now allowed
      let b ← s.m6.cleanUdp cfg.c now allowed
      pure (⟨a.1, b.1⟩, .cln a.2.torrents a.2.peers b.2.torrents b.2.peers)

def run (cfg : StoreCfg) : TState → List Op → Except Panic (List Out)
  | _, [] => .ok []
  | s, op :: ops => do
    let r ← step cfg s op
    let rest ← run cfg r.1 ops
    pure (r.2 :: rest)

/-! ### the reference tracker over the same operations -/

structure RT where
  r4 : RState := []
  r6 : RState := []

inductive ROut where
  | ann (v : Ref.AnnView)
  | scr (l : List (Nat × Nat × Nat))
  | cln (t4 p4 t6 p6 : Nat)

def refStep (cfg : StoreCfg) (r : RT) : Op → RT × ROut
  | .ann v6 h key st pid dl _ _ _ =>
    if v6 then
      let x := Ref.announce r.r6 h key st pid dl
      ({ r with r6 := x.1 }, .ann x.2)
    else
      let x := Ref.announce r.r4 h key st pid dl
      ({ r with r4 := x.1 }, .ann x.2)
  | .scr v6 hs =>
    let s := if v6 then r.r6 else r.r4
    (r, .scr ((hs.take cfg.maxScrape).map (fun h => (h, (Ref.scrape s h).1, (Ref.scrape s h).2))))
  | .cln now allowed =>
    let a := Ref.clean r.r4 now allowed
    let b := Ref.clean r.r6 now allowed
    -- the UDP tracker reports the peers that survived expiry, counted before
    -- forbidden torrents are dropped (documented order); HTTP reports no peer total
    let live (s : RState) : Nat := if cfg.http then 0 else (Ref.clean s now (fun _ => true)).length
    (⟨a, b⟩, .cln (Ref.numTorrents a) (live r.r4) (Ref.numTorrents b) (live r.r6))

def runRef (cfg : StoreCfg) : RT → List Op → List ROut
  | _, [] => []
  | r, op :: ops => (refStep cfg r op).2 :: runRef cfg (refStep cfg r op).1 ops

end Aquatic
