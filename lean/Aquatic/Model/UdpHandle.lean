/-
  The UDP socket workers' per-datagram decision:
    mio:      crates/udp/src/workers/socket/mio/socket.rs  read_and_handle_requests
              crates/udp/src/workers/socket/mio/mod.rs     WorkerSharedData::handle_request
    io_uring: crates/udp/src/workers/socket/uring/mod.rs   handle_recv_cqe, handle_request
              crates/udp/src/workers/socket/uring/recv_helper.rs
  Both take the datagram and its source and produce at most one reply for the
  source.  What the reply *contains* beyond its kind and transaction id is the
  swarm store's business (C01) and the codec's (C13).
-/
import Aquatic.Model.UdpCodec
import Aquatic.Model.Addr
import Aquatic.Generated.Consts

namespace Aquatic.UdpHandle

open Aquatic.Bep15 Aquatic.UdpCodec

inductive ReplyKind where
  | connect
  | announce (v6 : Bool)        -- an announce reply carrying peers of this family
  | scrape (entries : Nat)
  | error
  deriving DecidableEq, Repr

structure Ctx where
  maxScrape : Nat
  /-- `ConnectionValidator::connection_id_valid(src, id)` at the time of the datagram (C05) -/
  idValid   : Ip → Nat → Bool
  /-- the access list decision (C11) -/
  allowed   : Nat → Bool

/-- `handle_request` (identical in both back ends): `None` unless connect or a valid connection id -/
def handleRequest (ctx : Ctx) (src : Ip) : Request → Option (ReplyKind × Nat)
  | .connect tid => some (.connect, tid)
  | .announce a =>
    if ctx.idValid src a.connectionId then
      if ctx.allowed a.infoHash then some (.announce (!src.isV4), a.transactionId)
      else some (.error, a.transactionId)                              -- "Info hash not allowed"
    else none
  | .scrape cid tid hs =>
    if ctx.idValid src cid then some (.scrape hs.length, tid) else none

/-- mio: `recv_from`, source canonicalised, port 0 ignored, parse, handle; a *sendable* parse error
is answered only under a valid connection id -/
def handleMio (ctx : Ctx) (srcIp : Ip) (srcPort : Nat) (b : Bytes) : Option (ReplyKind × Nat) :=
  if srcPort = 0 then none
  else
    let src := canonical srcIp
    match parseRequest b ctx.maxScrape with
    | .ok r => handleRequest ctx src r
    | .error (.sendable cid tid) => if ctx.idValid src cid then some (.error, tid) else none
    | .error .unsendable => none

/-- Payload bytes a `RecvMsgMulti` buffer of `REQUEST_BUF_LEN` bytes can hold: the buffer also
carries `struct io_uring_recvmsg_out` (16 bytes) and the source `sockaddr_in` (16) / `sockaddr_in6` (28)
of the receiving socket. -/
def uringPayloadCap (v6Socket : Bool) : Nat :=
  Generated.uringRequestBufLen - 16 - (if v6Socket then 28 else 16)

/-- io_uring: a payload that does not fit the receive buffer is truncated by the kernel and dropped
(`RecvMsgTruncated`); otherwise as mio.  A client on an IPv4 address is served by the IPv4 socket. -/
def handleUring (ctx : Ctx) (srcIp : Ip) (srcPort : Nat) (b : Bytes) : Option (ReplyKind × Nat) :=
  if b.length > uringPayloadCap (!srcIp.isV4) then none
  else if srcPort = 0 then none
  else
    let src := canonical srcIp
    match parseRequest b ctx.maxScrape with
    | .ok r => handleRequest ctx src r
    | .error (.sendable cid tid) => if ctx.idValid src cid then some (.error, tid) else none
    | .error .unsendable => none

/-- size of the reply datagram of each kind (from the codec), `m` = message length of an error -/
def replyLen (k : ReplyKind) (peers : Nat) (m : Nat) : Nat :=
  match k with
  | .connect => 16
  | .announce v6 => 20 + (if v6 then 18 else 6) * peers
  | .scrape n => 8 + 12 * n
  | .error => 8 + m

/-- the send buffer a reply is serialised into -/
def sendBufLen (uring : Bool) : Nat := if uring then Generated.uringResponseBufLen else Generated.udpBufferSize

/-- the start-up check of `aquatic_udp::run` (added by the repair of F5): the largest announce
reply (IPv6 peers) and the largest scrape reply the limits allow must fit the send buffer -/
def acceptsCfg (uring : Bool) (maxResponsePeers maxScrapeTorrents : Nat) : Bool :=
  decide (replyLen (.announce true) maxResponsePeers 0 ≤ sendBufLen uring) &&
  decide (replyLen (.scrape maxScrapeTorrents) 0 0 ≤ sendBufLen uring)

end Aquatic.UdpHandle
