/-
  The WebTorrent tracker with `n` swarm workers (crates/ws/src/workers/socket/connection.rs:
  `calculate_in_message_consumer_index`, `handle_announce_request`, `handle_scrape_request`,
  `ConnectionCleanupData::after_close`; crates/ws/src/workers/swarm): one torrent map per swarm worker,
  announces routed by the first byte of the info hash, scrapes split per worker and merged by the
  connection's writer, the close notice split per worker, every worker cleaning on its own timer.
  The socket-worker side (one book of announced torrents per connection) is as in `Model/Ws`.
-/
import Aquatic.Model.Ws
import Aquatic.Model.HttpShards

namespace Aquatic.Ws

open Aquatic

def onW (n i : Nat) (h : Nat) : Bool := decide (route n h = i)


structure ShSys where
  ms : List WMap := []                       -- one torrent map (of this address family) per swarm worker
  books : List (ConnId × Book) := []         -- socket-worker side: `announced_info_hashes` per connection

def shBookOf (s : ShSys) (conn : ConnId) : Book := (IMap.get s.books conn).getD []

/-- the (info hash, peer id) pairs of a book that concern swarm worker `i` -/
def pairsOn (n i : Nat) (b : Book) : List (Nat × Nat) := b.filter (fun p => onW n i p.1)

/-- `after_close`: the pairs are grouped by swarm worker, each worker gets its own in one notice
(a worker without pairs gets none, which is `closePairs … []`) -/
def shCloseAll (n : Nat) (conn : ConnId) (b : Book) : List WMap → Nat → Except Panic (List WMap)
  | [], _ => .ok []
  | m :: t, i => do
    let m' ← closePairs m conn (pairsOn n i b)
    let t' ← shCloseAll n conn b t (i + 1)
    pure (m' :: t')

def shClose (n : Nat) (s : ShSys) (conn : ConnId) : Except Panic ShSys := do
  let ms' ← shCloseAll n conn (shBookOf s conn) s.ms 0
  pure ⟨ms', (IMap.swapRemove s.books conn).1⟩

def shAnnounce (cfg : WsCfg) (n : Nat) (s : ShSys) (conn : ConnId) (req : AnnReq) (now o1 o2 : Nat) :
    Except Panic (ShSys × List Msg) :=
  match s.ms[route n req.hash]? with
  | none => .error .conv
  | some m => do
    let r ← announce cfg m conn req now o1 o2
    pure (⟨s.ms.set (route n req.hash) r.1, IMap.insert s.books conn (bookAfter (shBookOf s conn) req)⟩, r.2)

/-- `handle_scrape_request` of the socket worker: the swarm workers that get a share of the request (ascending,
a `BTreeMap`), each with its hashes in request order -/
def scrapeParts (n : Nat) (hashes : List Nat) : List (Nat × List Nat) :=
  (List.range n).filterMap (fun i =>
    let l := hashes.filter (onW n i)
    if l.isEmpty then none else some (i, l))

/-- each asked worker answers its share (cut to `max_scrape_torrents` by that worker) -/
def shScrapeParts (cfg : WsCfg) (ms : List WMap) : List (Nat × List Nat) → Except Panic (List (Nat × Nat × Nat))
  | [] => .ok []
  | (i, l) :: t => do
    let f ← scrapeList ((ms[i]?).getD []) (l.take cfg.maxScrape)
    let r ← shScrapeParts cfg ms t
    pure (f ++ r)

/-- the writer sends the merged reply when the last part has arrived; when no worker is asked (no hash named)
the reader completes the reply itself with an empty part (the repair of F15) -/
def shScrape (cfg : WsCfg) (_n : Nat) (s : ShSys) (conn : ConnId) (hashes : List Nat) : Except Panic (List Msg) := do
  let files ← shScrapeParts cfg s.ms (scrapeParts _n hashes)
  pure [Msg.scrape conn (httpScrapeFiles files)]

/-- the pinned tree: with no part asked for nothing ever arrives at the writer and no reply is sent (F15) -/
def shScrapePinned (cfg : WsCfg) (n : Nat) (s : ShSys) (conn : ConnId) (hashes : List Nat) : Except Panic (List Msg) :=
  match scrapeParts n hashes with
  | [] => .ok []
  | parts => do
    let files ← shScrapeParts cfg s.ms parts
    pure [Msg.scrape conn (httpScrapeFiles files)]

/-- worker `i` runs its cleaning pass (each worker has its own timer) -/
def shClean (s : ShSys) (i now : Nat) (allowed : Nat → Bool) : Except Panic ShSys :=
  match s.ms[i]? with
  | none => .ok s
  | some m => do
    let m' ← clean m now allowed
    pure ⟨s.ms.set i m', s.books⟩

inductive ShOp where
  | ann (conn : ConnId) (allowed : Bool) (req : AnnReq) (now o1 o2 : Nat)
  | scr (conn : ConnId) (hashes : List Nat)
  | close (conn : ConnId)
  | clean (i now : Nat) (allowed : Nat → Bool)

def shStep (cfg : WsCfg) (n : Nat) (s : ShSys) : ShOp → Except Panic (ShSys × List Msg)
  | .ann conn allowed req now o1 o2 =>
    if !allowed then .ok (s, [Msg.error conn (some req.hash)])
    else
      match IMap.get (shBookOf s conn) req.hash with
      | some pid' =>
        if pid' ≠ req.pid then do
          let s' ← shClose n s conn
          pure (s', [Msg.error conn (some req.hash)])
        else shAnnounce cfg n s conn req now o1 o2
      | none => shAnnounce cfg n s conn req now o1 o2
  | .scr conn hashes => do
    let msgs ← shScrape cfg n s conn hashes
    pure (s, msgs)
  | .close conn => do
    let s' ← shClose n s conn
    pure (s', [])
  | .clean i now allowed => do
    let s' ← shClean s i now allowed
    pure (s', [])

end Aquatic.Ws
