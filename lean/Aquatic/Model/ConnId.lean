/-
  UDP connection ids: `ConnectionValidator` of
  crates/udp/src/workers/socket/validator.rs.

  An id is 8 bytes: the issue time (u32 seconds of the validator's clock) and
  the first 4 bytes of a keyed BLAKE3 hash of (issue time bytes ++ IP octets).
  The keyed hash is a parameter `mac` — an arbitrary function; nothing about it
  is assumed in the theorems.
-/
import Aquatic.Model.Addr

namespace Aquatic

structure ConnId where
  t   : Nat      -- bytes [0..4): issue time
  tag : Nat      -- bytes [4..8): truncated keyed hash
  deriving DecidableEq, Repr

/-- `create_connection_id(source_addr)` at clock value `now` -/
def createId {ι : Type} (mac : Nat → ι → Nat) (now : Nat) (ip : ι) : ConnId := ⟨now, mac now ip⟩

/-- `connection_id_valid(source_addr, id)` at clock value `now`; the two sums are
computed in u64 from u32 operands. -/
def idValid {ι : Type} (mac : Nat → ι → Nat) (now age : Nat) (ip : ι) (id : ConnId) : Bool :=
  if id.tag ≠ mac id.t ip then false
  else
    let clientExpirationTime := id.t + age
    decide (clientExpirationTime > now) && decide (id.t ≤ now + 60)

end Aquatic
