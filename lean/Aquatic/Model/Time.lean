/-
  `ValidUntil` of crates/common/src/lib.rs: deadlines on the tracker's
  whole-second clock (`u32` seconds since server start).
-/
import Aquatic.Model.Store

namespace Aquatic

def u32Max : Nat := 2 ^ 32 - 1

/-- `ValidUntil::new_with_now(now, offset)` / `ValidUntil::new`:
`now.0.saturating_add(offset_seconds)` (after the fix of F8; the pinned commit
had a plain `+`, which overflows for `now + offset > u32::MAX`). -/
def validUntilNew (now age : Nat) : Nat := min (now + age) u32Max

/-- `ValidUntil::valid(now)`: `deadline > now` -/
def validAt (deadline now : Nat) : Bool := decide (now < deadline)

end Aquatic
