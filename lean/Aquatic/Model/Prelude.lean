/- shared instances (core Lean only) -/
deriving instance DecidableEq for Except
