/-
  WebTorrent messages ↔ JSON values, as the serde derives of crates/ws_protocol
  define it.  The *shape* (field order, JSON names, optionality,
  skip_serializing_if, untagged variant order, lowercase enum names) is
  generated from the source on every run (Generated/WsShape.lean); the rules of
  serde's derive applied to that shape are modelled here:

   * struct → object, fields in declaration order; `None` → `null`, or omitted
     with `skip_serializing_if = "Option::is_none"`;
   * object → struct: unknown keys ignored, a repeated known key is an error, a
     missing `Option` field is `None`, `null` is `None`, a missing required
     field is an error;
   * untagged enum: the first variant that deserializes.

  JSON *text* (serde_json writer, simd-json reader) is not modelled.
  Strings are lists of code points.
-/
import Aquatic.Model.Ws20
import Aquatic.Generated.WsShape

namespace Aquatic

inductive J where
  | null
  | bool (b : Bool)
  | num (n : Nat)          -- a non-negative integer literal
  | other                  -- any other number (negative, fractional, exponent)
  | str (s : List Nat)
  | arr (l : List J)
  | obj (kv : List (List Nat × J))

open Generated.Ws

/-! ### generic struct rules -/

/-- serialise a struct: `vals t = none` means the field holds `None` -/
def structToJ (shape : List WsField) (vals : WsF → Option J) : J :=
  .obj (shape.filterMap (fun f =>
    match vals f.tag with
    | some j => some (f.name, j)
    | none => if f.skipNone then none else some (f.name, J.null)))

def countKey (kv : List (List Nat × J)) (name : List Nat) : Nat := (kv.filter (fun x => x.1 = name)).length

/-- no known key occurs twice (serde: "duplicate field") -/
def noDupKnown (shape : List WsField) (kv : List (List Nat × J)) : Bool :=
  shape.all (fun f => countKey kv f.name ≤ 1)

def lookupKey (kv : List (List Nat × J)) (name : List Nat) : Option J := (kv.find? (fun x => x.1 = name)).map (·.2)

def nameOf (shape : List WsField) (tg : WsF) : Option (List Nat) := (shape.find? (fun f => f.tag = tg)).map (·.name)

/-- a required field -/
def reqField (shape : List WsField) (kv : List (List Nat × J)) (tg : WsF) : Option J :=
  (nameOf shape tg).bind (lookupKey kv)

/-- an `Option` field: absent or `null` is `None` -/
def optField (shape : List WsField) (kv : List (List Nat × J)) (tg : WsF) : Option J :=
  match reqField shape kv tg with
  | some J.null => none
  | x => x

/-! ### leaves -/

def jStr20 : J → Option (List Nat)
  | .str s => match de20 s with | .ok b => some b | .error _ => none
  | _ => none

def jNat : J → Option Nat
  | .num n => some n
  | _ => none

def jStr : J → Option (List Nat)
  | .str s => some s
  | _ => none

/-- a unit-variant enum with `rename_all = "lowercase"`: the index of the matching name -/
def jEnum (names : List (List Nat)) : J → Option Nat
  | .str s => let i := names.findIdx (· = s); if i < names.length then some i else none
  | _ => none

def enumToJ (names : List (List Nat)) (i : Nat) : J := .str (names.getD i [])

/-- `RtcOffer` / `RtcAnswer`: `{"type": <the single variant name>, "sdp": <text>}` -/
def sdpVals (typeNames : List (List Nat)) (sdp : List Nat) : WsF → Option J
  | .t => some (enumToJ typeNames 0)
  | .sdp => some (.str sdp)
  | _ => none

def sdpToJ (shape : List WsField) (typeNames : List (List Nat)) (sdp : List Nat) : J :=
  structToJ shape (sdpVals typeNames sdp)

def sdpOfJ (shape : List WsField) (typeNames : List (List Nat)) : J → Option (List Nat)
  | .obj kv =>
    if noDupKnown shape kv then do
      let _ ← (reqField shape kv .t).bind (jEnum typeNames)
      (reqField shape kv .sdp).bind jStr
    else none
  | _ => none

/-! ### incoming messages -/

inductive WsEvent where
  | started | stopped | completed | update
  deriving DecidableEq, Repr

def WsEvent.idx : WsEvent → Nat
  | .started => 0 | .stopped => 1 | .completed => 2 | .update => 3

def WsEvent.ofIdx : Nat → Option WsEvent
  | 0 => some .started | 1 => some .stopped | 2 => some .completed | 3 => some .update | _ => none

structure WsOffer where
  sdp     : List Nat
  offerId : List Nat
  deriving DecidableEq, Repr

structure WsAnnounce where
  infoHash       : List Nat
  peerId         : List Nat
  bytesLeft      : Option Nat
  event          : Option WsEvent
  offers         : Option (List WsOffer)
  numwant        : Option Nat
  answer         : Option (List Nat)
  answerToPeerId : Option (List Nat)
  answerOfferId  : Option (List Nat)
  deriving DecidableEq, Repr

inductive WsHashes where
  | single (h : List Nat)
  | multiple (hs : List (List Nat))
  deriving DecidableEq, Repr

inductive InMsg where
  | announce (a : WsAnnounce)
  | scrape (hashes : Option WsHashes)
  deriving DecidableEq, Repr

def offerVals (o : WsOffer) : WsF → Option J
  | .offer => some (sdpToJ rtcOffer rtcOfferTypeNames o.sdp)
  | .offerId => some (.str (ser20 o.offerId))
  | _ => none

def offerToJ (o : WsOffer) : J := structToJ announceRequestOffer (offerVals o)

def offerOfJ : J → Option WsOffer
  | .obj kv =>
    if noDupKnown announceRequestOffer kv then do
      let sdp ← (reqField announceRequestOffer kv .offer).bind (sdpOfJ rtcOffer rtcOfferTypeNames)
      let oid ← (reqField announceRequestOffer kv .offerId).bind jStr20
      pure ⟨sdp, oid⟩
    else none
  | _ => none

def allSomeL {α : Type} : List (Option α) → Option (List α)
  | [] => some []
  | none :: _ => none
  | some x :: t => (allSomeL t).map (x :: ·)

def announceVals (a : WsAnnounce) : WsF → Option J
    | .action => some (enumToJ announceActionNames 0)
    | .infoHash => some (.str (ser20 a.infoHash))
    | .peerId => some (.str (ser20 a.peerId))
    | .bytesLeft => a.bytesLeft.map J.num
    | .event => a.event.map (fun e => enumToJ announceEventNames e.idx)
    | .offers => a.offers.map (fun l => J.arr (l.map offerToJ))
    | .numwant => a.numwant.map J.num
    | .answer => a.answer.map (sdpToJ rtcAnswer rtcAnswerTypeNames)
    | .answerToPeerId => a.answerToPeerId.map (fun p => J.str (ser20 p))
    | .answerOfferId => a.answerOfferId.map (fun p => J.str (ser20 p))
    | _ => none

def announceToJ (a : WsAnnounce) : J := structToJ announceRequest (announceVals a)

/-- an `Option<T>` field: `none` = the field is present but does not deserialize (error) -/
def optWith {α : Type} (x : Option J) (f : J → Option α) : Option (Option α) :=
  match x with
  | none => some none
  | some j => (f j).map some

def offersOfJ : J → Option (List WsOffer)
  | .arr l => allSomeL (l.map offerOfJ)
  | _ => none

def announceOfJ : J → Option WsAnnounce
  | .obj kv =>
    if noDupKnown announceRequest kv then do
      let _ ← (reqField announceRequest kv .action).bind (jEnum announceActionNames)
      let ih ← (reqField announceRequest kv .infoHash).bind jStr20
      let pid ← (reqField announceRequest kv .peerId).bind jStr20
      let left ← optWith (optField announceRequest kv .bytesLeft) jNat
      let ev ← optWith (optField announceRequest kv .event)
        (fun j => (jEnum announceEventNames j).bind WsEvent.ofIdx)
      let offers ← optWith (optField announceRequest kv .offers) offersOfJ
      let numwant ← optWith (optField announceRequest kv .numwant) jNat
      let answer ← optWith (optField announceRequest kv .answer) (sdpOfJ rtcAnswer rtcAnswerTypeNames)
      let toPeer ← optWith (optField announceRequest kv .answerToPeerId) jStr20
      let oid ← optWith (optField announceRequest kv .answerOfferId) jStr20
      pure ⟨ih, pid, left, ev, offers, numwant, answer, toPeer, oid⟩
    else none
  | _ => none

def hashesToJ : WsHashes → J
  | .single h => .str (ser20 h)
  | .multiple hs => .arr (hs.map (fun h => J.str (ser20 h)))

/-- untagged `ScrapeRequestInfoHashes`: the variants in source order -/
def hashesOfJ (j : J) : Option WsHashes :=
  infoHashesVariants.findSome? (fun v => match v with
    | .single => (jStr20 j).map WsHashes.single
    | .multiple => (match j with
        | .arr l => (allSomeL (l.map jStr20)).map WsHashes.multiple
        | _ => none)
    | _ => none)

def scrapeVals (h : Option WsHashes) : WsF → Option J
  | .action => some (enumToJ scrapeActionNames 0)
  | .infoHashes => h.map hashesToJ
  | _ => none

def scrapeToJ (h : Option WsHashes) : J := structToJ scrapeRequest (scrapeVals h)

def scrapeOfJ : J → Option (Option WsHashes)
  | .obj kv =>
    if noDupKnown scrapeRequest kv then do
      let _ ← (reqField scrapeRequest kv .action).bind (jEnum scrapeActionNames)
      optWith (optField scrapeRequest kv .infoHashes) hashesOfJ
    else none
  | _ => none

/-- `serde_json::to_string(&InMessage)` as a JSON value -/
def inToJ : InMsg → J
  | .announce a => announceToJ a
  | .scrape h => scrapeToJ h

/-- `simd_json::serde::from_slice::<InMessage>` on a JSON value: untagged, variants in source order -/
def inOfJ (j : J) : Option InMsg :=
  inMessageVariants.findSome? (fun v => match v with
    | .announceRequest => (announceOfJ j).map InMsg.announce
    | .scrapeRequest => (scrapeOfJ j).map InMsg.scrape
    | _ => none)

/-! ### outgoing messages -/

inductive OutMsg where
  | offer (peerId infoHash sdp offerId : List Nat)
  | answer (peerId infoHash sdp offerId : List Nat)
  | announce (infoHash : List Nat) (complete incomplete interval : Nat)
  | scrape (files : List (List Nat × Nat × Nat × Nat))     -- info hash ↦ complete, incomplete, downloaded
  | error (reason : List Nat) (action : Option Nat) (infoHash : Option (List Nat))
  deriving DecidableEq, Repr

def statsVals (c i d : Nat) : WsF → Option J
  | .complete => some (.num c)
  | .incomplete => some (.num i)
  | .downloaded => some (.num d)
  | _ => none

def statsToJ (c i d : Nat) : J := structToJ scrapeStatistics (statsVals c i d)

def statsOfJ : J → Option (Nat × Nat × Nat)
  | .obj kv =>
    if noDupKnown scrapeStatistics kv then do
      let c ← (reqField scrapeStatistics kv .complete).bind jNat
      let i ← (reqField scrapeStatistics kv .incomplete).bind jNat
      let d ← (reqField scrapeStatistics kv .downloaded).bind jNat
      pure (c, i, d)
    else none
  | _ => none

def offerMsgVals (pid ih sdp oid : List Nat) : WsF → Option J
  | .action => some (enumToJ announceActionNames 0)
  | .peerId => some (.str (ser20 pid))
  | .infoHash => some (.str (ser20 ih))
  | .offer => some (sdpToJ rtcOffer rtcOfferTypeNames sdp)
  | .offerId => some (.str (ser20 oid))
  | _ => none

def answerMsgVals (pid ih sdp oid : List Nat) : WsF → Option J
  | .action => some (enumToJ announceActionNames 0)
  | .peerId => some (.str (ser20 pid))
  | .infoHash => some (.str (ser20 ih))
  | .answer => some (sdpToJ rtcAnswer rtcAnswerTypeNames sdp)
  | .offerId => some (.str (ser20 oid))
  | _ => none

def announceRespVals (ih : List Nat) (c i n : Nat) : WsF → Option J
  | .action => some (enumToJ announceActionNames 0)
  | .infoHash => some (.str (ser20 ih))
  | .complete => some (.num c)
  | .incomplete => some (.num i)
  | .announceInterval => some (.num n)
  | _ => none

def scrapeRespVals (files : List (List Nat × Nat × Nat × Nat)) : WsF → Option J
  | .action => some (enumToJ scrapeActionNames 0)
  | .files => some (.obj (files.map (fun f => (ser20 f.1, statsToJ f.2.1 f.2.2.1 f.2.2.2))))
  | _ => none

def errorRespVals (reason : List Nat) (action : Option Nat) (ih : Option (List Nat)) : WsF → Option J
  | .failureReason => some (.str reason)
  | .action => action.map (enumToJ errorResponseActionNames)
  | .infoHash => ih.map (fun h => J.str (ser20 h))
  | _ => none

def outToJ : OutMsg → J
  | .offer pid ih sdp oid => structToJ offerOutMessage (offerMsgVals pid ih sdp oid)
  | .answer pid ih sdp oid => structToJ answerOutMessage (answerMsgVals pid ih sdp oid)
  | .announce ih c i n => structToJ announceResponse (announceRespVals ih c i n)
  | .scrape files => structToJ scrapeResponse (scrapeRespVals files)
  | .error reason action ih => structToJ errorResponse (errorRespVals reason action ih)

def offerMsgOfJ : J → Option OutMsg
  | .obj kv =>
    if noDupKnown offerOutMessage kv then do
      let _ ← (reqField offerOutMessage kv .action).bind (jEnum announceActionNames)
      let pid ← (reqField offerOutMessage kv .peerId).bind jStr20
      let ih ← (reqField offerOutMessage kv .infoHash).bind jStr20
      let sdp ← (reqField offerOutMessage kv .offer).bind (sdpOfJ rtcOffer rtcOfferTypeNames)
      let oid ← (reqField offerOutMessage kv .offerId).bind jStr20
      pure (.offer pid ih sdp oid)
    else none
  | _ => none

def answerMsgOfJ : J → Option OutMsg
  | .obj kv =>
    if noDupKnown answerOutMessage kv then do
      let _ ← (reqField answerOutMessage kv .action).bind (jEnum announceActionNames)
      let pid ← (reqField answerOutMessage kv .peerId).bind jStr20
      let ih ← (reqField answerOutMessage kv .infoHash).bind jStr20
      let sdp ← (reqField answerOutMessage kv .answer).bind (sdpOfJ rtcAnswer rtcAnswerTypeNames)
      let oid ← (reqField answerOutMessage kv .offerId).bind jStr20
      pure (.answer pid ih sdp oid)
    else none
  | _ => none

def announceRespOfJ : J → Option OutMsg
  | .obj kv =>
    if noDupKnown announceResponse kv then do
      let _ ← (reqField announceResponse kv .action).bind (jEnum announceActionNames)
      let ih ← (reqField announceResponse kv .infoHash).bind jStr20
      let c ← (reqField announceResponse kv .complete).bind jNat
      let i ← (reqField announceResponse kv .incomplete).bind jNat
      let n ← (reqField announceResponse kv .announceInterval).bind jNat
      pure (.announce ih c i n)
    else none
  | _ => none

def fileOfKV (x : List Nat × J) : Option (List Nat × Nat × Nat × Nat) := do
  let h ← jStr20 (.str x.1)
  let s ← statsOfJ x.2
  pure (h, s)

/-- a map read from a JSON object: of two entries with one key the later one stays (`HashMap::insert`) -/
def dedupLast {σ : Type} : List (List Nat × σ) → List (List Nat × σ)
  | [] => []
  | x :: t => if t.any (fun y => y.1 = x.1) then dedupLast t else x :: dedupLast t

theorem dedupLast_of_nodup {σ : Type} (l : List (List Nat × σ)) (h : (l.map (·.1)).Nodup) : dedupLast l = l := by
  induction l with
  | nil => rfl
  | cons x t ih =>
    simp only [List.map_cons, List.nodup_cons] at h
    have hx : t.any (fun y => y.1 = x.1) = false := by
      rw [List.any_eq_false]
      intro y hy he
      exact h.1 (List.mem_map.mpr ⟨y, hy, of_decide_eq_true he⟩)
    simp [dedupLast, hx, ih h.2]

def filesOfJ : J → Option (List (List Nat × Nat × Nat × Nat))
  | .obj fkv => (allSomeL (fkv.map fileOfKV)).map dedupLast
  | _ => none

def scrapeRespOfJ : J → Option OutMsg
  | .obj kv =>
    if noDupKnown scrapeResponse kv then do
      let _ ← (reqField scrapeResponse kv .action).bind (jEnum scrapeActionNames)
      let files ← (reqField scrapeResponse kv .files).bind filesOfJ
      pure (.scrape files)
    else none
  | _ => none

def errorRespOfJ : J → Option OutMsg
  | .obj kv =>
    if noDupKnown errorResponse kv then do
      let reason ← (reqField errorResponse kv .failureReason).bind jStr
      let action ← optWith (optField errorResponse kv .action) (jEnum errorResponseActionNames)
      let ih ← optWith (optField errorResponse kv .infoHash) jStr20
      pure (.error reason action ih)
    else none
  | _ => none

/-- `OutMessage::from_ws_message` on a JSON value: untagged, variants in source order -/
def outOfJ (j : J) : Option OutMsg :=
  outMessageVariants.findSome? (fun v => match v with
    | .offerOutMessage => offerMsgOfJ j
    | .answerOutMessage => answerMsgOfJ j
    | .announceResponse => announceRespOfJ j
    | .scrapeResponse => scrapeRespOfJ j
    | .errorResponse => errorRespOfJ j
    | _ => none)

/-! ### well-formed messages: identifiers are 20 bytes -/

def Id20 (b : List Nat) : Prop := b.length = 20 ∧ ∀ x ∈ b, x ≤ 255

instance (b : List Nat) : Decidable (Id20 b) := by unfold Id20; infer_instance

def WsAnnounce.wf (a : WsAnnounce) : Prop :=
  Id20 a.infoHash ∧ Id20 a.peerId ∧ (∀ l, a.offers = some l → ∀ o ∈ l, Id20 o.offerId) ∧
  (∀ p, a.answerToPeerId = some p → Id20 p) ∧ (∀ p, a.answerOfferId = some p → Id20 p)

def InMsg.wf : InMsg → Prop
  | .announce a => a.wf
  | .scrape none => True
  | .scrape (some (.single h)) => Id20 h
  | .scrape (some (.multiple hs)) => ∀ h ∈ hs, Id20 h

def OutMsg.wf : OutMsg → Prop
  | .offer p i _ o => Id20 p ∧ Id20 i ∧ Id20 o
  | .answer p i _ o => Id20 p ∧ Id20 i ∧ Id20 o
  | .announce i _ _ _ => Id20 i
  | .scrape files => (files.map (·.1)).Nodup ∧ ∀ f ∈ files, Id20 f.1
  | .error _ a i => (∀ x, a = some x → x < 2) ∧ (∀ h, i = some h → Id20 h)

end Aquatic
