/-
  UDP operator reports (C20):
    crates/udp/src/swarm.rs                      PeerMap::announce (PeerAdded / PeerRemoved),
                                                 clean_and_update_statistics (totals, export)
    crates/udp/src/workers/statistics/mod.rs     the per-peer-id tally
    crates/udp/src/config.rs                     ScrapeExportConfig::tmp_path
-/
import Aquatic.Model.IMap
import Aquatic.Model.Tracker

namespace Aquatic.Stats

inductive StatMsg where
  | added (id : Nat)
  | removed (id : Nat)
  deriving DecidableEq, Repr

/-- messages `PeerMap::announce` sends with `statistics.peer_clients` on: the stored peer's id is
what leaves the tally, the request's id is what enters it -/
def annMsgs (st : Status) (reqPid : Nat) (removed : Option Peer) : List StatMsg :=
  match st, removed with
  | .stopped, some old => [.removed old.peerId]
  | .stopped, none => []
  | _, none => [.added reqPid]
  | _, some old => if old.peerId = reqPid then [] else [.removed old.peerId, .added reqPid]

/-- the statistics worker's `peers: IndexMap<PeerId, (count, ..)>` -/
abbrev Tally := List (Nat × Nat)

def tallyStep (t : Tally) : StatMsg → Tally
  | .added id => IMap.insert t id ((IMap.get t id).getD 0 + 1)
  | .removed id =>
    match IMap.get t id with
    | some c => if c - 1 = 0 then (IMap.swapRemove t id).1 else IMap.insert t id (c - 1)
    | none => t

def tallyRun (t : Tally) (msgs : List StatMsg) : Tally := msgs.foldl tallyStep t

/-- the whole UDP tracker as the operator sees it: both families, the tally, the last totals -/
structure SState where
  ts : TState := {}
  tally : Tally := []

inductive SOp where
  | ann (v6 : Bool) (h : Nat) (key : Key) (st : Status) (pid dl n o1 o2 : Nat)
  | cln (now : Nat) (allowed : Nat → Bool)

structure CleanReport where
  torrents4 : Nat
  peers4 : Nat
  torrents6 : Nat
  peers6 : Nat
  /-- export lines: (ipv6?, info hash, seeders, leechers), IPv4 first -/
  lines : List (Bool × Nat × Nat × Nat)
  msgs : List StatMsg

inductive SOut where
  | ann (msgs : List StatMsg)
  | cln (r : CleanReport)

def sstep (cfg : StoreCfg) (s : SState) : SOp → Except Panic (SState × SOut)
  | .ann v6 h key st pid dl n o1 o2 => do
    let r ← (if v6 then s.ts.m6 else s.ts.m4).announce cfg.c h key st pid dl n o1 o2
    let msgs := annMsgs st pid r.2.removed
    let ts' := if v6 then { s.ts with m6 := r.1 } else { s.ts with m4 := r.1 }
    pure (⟨ts', tallyRun s.tally msgs⟩, .ann msgs)
  | .cln now allowed => do
    let a ← s.ts.m4.cleanUdp cfg.c now allowed
    let b ← s.ts.m6.cleanUdp cfg.c now allowed
    let msgs := (a.2.removed ++ b.2.removed).map StatMsg.removed
    pure (⟨⟨a.1, b.1⟩, tallyRun s.tally msgs⟩,
      .cln ⟨a.2.torrents, a.2.peers, b.2.torrents, b.2.peers,
        a.2.lines.map (fun l => (false, l)) ++ b.2.lines.map (fun l => (true, l)), msgs⟩)

/-! ### the export file: staging and rename -/

/-- `ScrapeExportConfig::tmp_path`: the export path with `.tmp` appended to the file name -/
def tmpPath (path : List Nat) : List Nat := path ++ [46, 116, 109, 112]

/-- file system: path ↦ lines -/
abbrev Fs := List (List Nat × List String)

inductive FsStep where
  | create (p : List Nat)                 -- File::create: create or truncate
  | append (p : List Nat) (line : String)  -- a buffered line reaching the file
  | rename (src dst : List Nat)
  deriving Repr

def fsStep (fs : Fs) : FsStep → Fs
  | .create p => IMap.insert fs p []
  | .append p line => IMap.insert fs p ((IMap.get fs p).getD [] ++ [line])
  | .rename src dst =>
    match IMap.get fs src with
    | some c => IMap.insert (IMap.swapRemove fs src).1 dst c
    | none => fs

/-- the steps of one export of `lines` to `path`, as far as the file system sees them -/
def exportSteps (path : List Nat) (lines : List String) : List FsStep :=
  [FsStep.create (tmpPath path)] ++ lines.map (FsStep.append (tmpPath path)) ++ [FsStep.rename (tmpPath path) path]

def fsRun (fs : Fs) (steps : List FsStep) : Fs := steps.foldl fsStep fs

end Aquatic.Stats
