/-
  `Connection::read_request` (crates/http/src/workers/socket/connection.rs): bytes are read into
  the request buffer in whatever pieces the transport delivers them; after every read the parser
  is run on everything received so far.
    done   -> the request is handed on
    more   -> `MoreDataNeeded`: keep reading
    bad    -> `Other`: logged, keep reading (the buffer only grows, so the connection ends with
              RequestBufferFull or by the peer closing)
  A read never returns 0 bytes on an open stream and never more than the free space of the buffer.
-/
namespace Aquatic.HttpRead

inductive ParseRes (ρ : Type) where
  | done (r : ρ)
  | more
  | bad
  deriving Repr, DecidableEq

inductive Outcome (ρ : Type) where
  | request (r : ρ) (consumed : Nat)   -- parsed after `consumed` bytes had been received
  | bufferFull
  | waiting                             -- everything sent so far has been read, no request yet
  deriving Repr, DecidableEq

/-- the loop, on a stream that will deliver `stream` in reads of the sizes `reads` (each at least 1;
a read returns at most the free space of the buffer and at most what is left of the stream);
`pos` bytes are in the buffer already -/
def readLoop {ρ : Type} (parse : List UInt8 → ParseRes ρ) (cap : Nat) (stream : List UInt8) :
    Nat → List Nat → Outcome ρ
  | pos, [] => if pos = cap then .bufferFull else .waiting
  | pos, k :: ks =>
    if pos = cap then .bufferFull
    else
      let n := min (min (k + 1) (cap - pos)) (stream.length - pos)
      if n = 0 then .waiting                      -- nothing left to deliver: the read blocks
      else
        let pos' := pos + n
        match parse (stream.take pos') with
        | .done r => .request r pos'
        | .more => readLoop parse cap stream pos' ks
        | .bad => readLoop parse cap stream pos' ks

def readRequest {ρ : Type} (parse : List UInt8 → ParseRes ρ) (cap : Nat) (stream : List UInt8) (reads : List Nat) :
    Outcome ρ :=
  readLoop parse cap stream 0 reads

/-- what the loop relies on: no proper prefix of the request is itself accepted as a request (a prefix may
be answered `more` or `bad` - the loop reads on in both cases) -/
def PrefixStable {ρ : Type} (parse : List UInt8 → ParseRes ρ) (req : List UInt8) (r : ρ) : Prop :=
  parse req = .done r ∧ ∀ n r', n < req.length → parse (req.take n) ≠ .done r'

/-- enough reads to deliver `len` bytes from position `pos`, whatever their sizes -/
def Covers (pos len : Nat) : List Nat → Prop
  | [] => len ≤ pos
  | k :: ks => len ≤ pos ∨ Covers (pos + (k + 1)) len ks

/-- a parser that only looks at the bytes of the latest read (the seeded change C16 made) is not the loop
above: with the terminator cut in two the request is never seen.  Here: "done" iff the *new* bytes hold
`\r\n\r\n`; the model of the real loop with an honest parser finds the request. -/
def hasTerminator : List UInt8 → Bool
  | 13 :: 10 :: 13 :: 10 :: _ => true
  | _ :: t => hasTerminator t
  | [] => false

def demoParse (b : List UInt8) : ParseRes Nat := if hasTerminator b then .done b.length else .more

end Aquatic.HttpRead
