/-
  20-byte identifiers of the WebTorrent JSON protocol
  (crates/ws_protocol/src/common.rs: `serialize_20_bytes`, `TwentyByteVisitor`).
  A byte is a number below 256; a character is its code point.
-/
import Aquatic.Model.Prelude

namespace Aquatic

/-- `serialize_20_bytes`: `char::from(byte)` for every byte -/
def ser20 (bytes : List Nat) : List Nat := bytes        -- code points = byte values

inductive De20Err where
  | notSingleByte       -- "character not in single byte range"
  | not20               -- "not 20 bytes"
  deriving DecidableEq, Repr

/-- the loop `for a in arr.iter_mut() { if let Some(c) = char_iter.next() { … } else { error } }`
over `k` array slots; returns the bytes read and the characters left in the iterator -/
def de20Loop : Nat → List Nat → Except De20Err (List Nat × List Nat)
  | 0, cs => .ok ([], cs)
  | _ + 1, [] => .error .not20
  | k + 1, c :: cs =>
    if c > 255 then .error .notSingleByte
    else match de20Loop k cs with
      | .ok (bs, rest) => .ok (c :: bs, rest)
      | .error e => .error e

/-- `TwentyByteVisitor::visit_str` (after fix F1: the iterator must be exhausted) -/
def de20 (chars : List Nat) : Except De20Err (List Nat) :=
  match de20Loop 20 chars with
  | .error e => .error e
  | .ok (bs, rest) => if rest.isEmpty then .ok bs else .error .not20

/-- the visitor as it was at the pinned commit: characters after the 20th were ignored -/
def de20Pinned (chars : List Nat) : Except De20Err (List Nat) :=
  match de20Loop 20 chars with
  | .error e => .error e
  | .ok (bs, _) => .ok bs

end Aquatic
