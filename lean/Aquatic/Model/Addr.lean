/-
  Addresses: `CanonicalSocketAddr::new` (crates/common/src/lib.rs) and
  `IpVersion::canonical_from_ip` (crates/ws/src/common.rs).

  An IPv6 address is split into its first 12 octets (`hi`, a number below 2^96)
  and its last 4 octets (`lo`, below 2^32): it is IPv4-mapped exactly when
  `hi = 0xffff`, i.e. the octets are `0,0,0,0,0,0,0,0,0,0,0xff,0xff,a,b,c,d`.
-/
import Aquatic.Model.Prelude

namespace Aquatic

inductive Ip where
  | v4 (a : Nat)
  | v6 (hi lo : Nat)
  deriving DecidableEq, Repr

/-- `CanonicalSocketAddr::new` on the address part (the port is kept as is) -/
def canonical : Ip → Ip
  | .v4 a => .v4 a
  | .v6 hi lo => if hi = 0xffff then .v4 lo else .v6 hi lo

def Ip.isV4 : Ip → Bool
  | .v4 _ => true
  | .v6 _ _ => false

/-- `IpVersion::canonical_from_ip` (WebTorrent): `true` = V4 -/
def wsFamilyV4 : Ip → Bool
  | .v4 _ => true
  | .v6 hi _ => decide (hi = 0xffff)

end Aquatic
