/-
  Model of the UDP `PeerMap` (crates/udp/src/swarm.rs) and the HTTP `TorrentData`
  (crates/http/src/workers/swarm/storage.rs).  Both files contain the same
  two-representation peer store; they differ in the inline capacity (2 / 4),
  in whether a cleaning pass shrinks a heap map back to the inline form
  (UDP yes, HTTP no) and in the numwant clamp.

  Import-free (core Lean only) so that the driver executable can link.

  Conventions
  * `&mut self` methods return the new value.
  * every Rust operation that can panic (checked `usize` subtraction,
    `ArrayVec::push` on a full vector) has an explicit `Except Panic` outcome.
  * `indexmap::IndexMap` is an association list in insertion order;
    `swap_remove` moves the last element into the hole.
  * the two `rng.random_range` draws are parameters `o1 o2`.
-/
import Aquatic.Model.Prelude

namespace Aquatic

inductive Panic where
  | sub      -- `a - b` with `a < b` on an unsigned integer
  | push     -- `ArrayVec::push` past capacity
  | conv     -- `try_into().unwrap()` failing
  deriving DecidableEq, Repr

def csub (a b : Nat) : Except Panic Nat :=
  if b ≤ a then .ok (a - b) else .error .sub

/-- (ip, port). The ip is the canonical source address as a number. -/
abbrev Key := Nat × Nat

structure Peer where
  peerId   : Nat
  seeder   : Bool
  deadline : Nat
  deriving DecidableEq, Repr

inductive Status where
  | seeding | leeching | stopped
  deriving DecidableEq, Repr

/-- `PeerStatus::from_event_and_bytes_left`; `eventStopped` is `event == Stopped`. -/
def statusOf (eventStopped : Bool) (left : Int) : Status :=
  if eventStopped then .stopped else if left = 0 then .seeding else .leeching

/-- UDP `max_num_peers_to_take`: `peers_wanted <= 0 ⇒ max`, else `min max wanted`. -/
def clampUdp (maxResponsePeers : Nat) (wanted : Int) : Nat :=
  if wanted ≤ 0 then maxResponsePeers else min maxResponsePeers wanted.toNat

/-- HTTP `max_num_peers_to_take`: `Some(0) | None ⇒ max_peers`, else `min`. -/
def clampHttp (maxPeers : Nat) (numwant : Option Nat) : Nat :=
  match numwant with
  | none => maxPeers
  | some 0 => maxPeers
  | some n => min n maxPeers

abbrev Entries := List (Key × Peer)

/-! ### association-list primitives -/

/-- `IndexMap::swap_remove`: the last element takes the place of the removed one. -/
def swapRemove : Entries → Key → Entries × Option Peer
  | [], _ => ([], none)
  | (k', v) :: t, k =>
    if k' = k then
      (match t.getLast? with
        | none => []
        | some x => x :: t.dropLast, some v)
    else
      let r := swapRemove t k
      ((k', v) :: r.1, r.2)

/-- `SmallPeerMap::remove`: first match removed, order kept (`ArrayVec::remove`). -/
def smallRemove : Entries → Key → Entries × Option Peer
  | [], _ => ([], none)
  | (k', v) :: t, k =>
    if k' = k then (t, some v)
    else
      let r := smallRemove t k
      ((k', v) :: r.1, r.2)

/-- `IndexMap::insert`: replace the value in place, else append. -/
def imapInsert : Entries → Key → Peer → Entries
  | [], k, v => [(k, v)]
  | (k', v') :: t, k, v =>
    if k' = k then (k', v) :: t else (k', v') :: imapInsert t k v

/-- `indexmap::map::Slice::get_range(i..j)`. -/
def getRange {α : Type} (l : List α) (i j : Nat) : Option (List α) :=
  if i ≤ j ∧ j ≤ l.length then some ((l.drop i).take (j - i)) else none

def numSeeders (l : Entries) : Nat := l.countP (fun e => e.2.seeder)

def isValid (now : Nat) (p : Peer) : Bool := decide (now < p.deadline)

/-! ### selection -/

/-- Upper (exclusive) bounds of the two `random_range` calls of
`LargePeerMap::extract_response_peers`; `none` when a subtraction underflows. -/
def halvesBounds (len n : Nat) : Except Panic (Nat × Nat) := do
  let mid := len / 2
  let k := n / 2
  let a ← csub mid k
  let b ← csub len k
  pure (max 1 a, max (mid + 1) b)

/-- `LargePeerMap::extract_response_peers` with the two draws `o1 o2` given. -/
def extractHalves {α : Type} (keys : List α) (n o1 o2 : Nat) : Except Panic (List α) :=
  if keys.length ≤ n then .ok keys
  else do
    let _ ← halvesBounds keys.length n
    let k := n / 2
    let r1 := (getRange keys o1 (o1 + k)).getD []
    let r2 := (getRange keys o2 (o2 + k)).getD []
    pure (r1 ++ r2)

/-- the draws are in the ranges the code asks the generator for -/
def offsetsOk (len n o1 o2 : Nat) : Prop :=
  match halvesBounds len n with
  | .ok (t1, t2) => o1 < t1 ∧ len / 2 ≤ o2 ∧ o2 < t2
  | .error _ => False

instance (len n o1 o2 : Nat) : Decidable (offsetsOk len n o1 o2) := by
  unfold offsetsOk; split <;> infer_instance

/-! ### the two-representation store -/

inductive PeerMap where
  | small (l : Entries)
  | large (l : Entries) (numSeeders : Nat)
  deriving Repr

def PeerMap.entries : PeerMap → Entries
  | .small l => l
  | .large l _ => l

def PeerMap.isLarge : PeerMap → Bool
  | .small _ => false
  | .large _ _ => true

/-- cached / counted (seeders, leechers) as `num_seeders_leechers` computes them -/
def PeerMap.counts : PeerMap → Except Panic (Nat × Nat)
  | .small l => do
    let s := numSeeders l
    let le ← csub l.length s
    pure (s, le)
  | .large l ns => do
    let le ← csub l.length ns
    pure (ns, le)

structure AnnOut where
  seeders  : Nat
  leechers : Nat
  peers    : List Key
  removed  : Option Peer
  deriving Repr

def PeerMap.insert (c : Nat) (pm : PeerMap) (k : Key) (p : Peer) : Except Panic PeerMap :=
  match pm with
  | .small l => if l.length < c then .ok (.small (l ++ [(k, p)])) else .error .push
  | .large l ns => .ok (.large (imapInsert l k p) (if p.seeder then ns + 1 else ns))

/-- `if let Some(Peer { is_seeder: true, .. }) = removed { self.num_seeders -= 1 }` -/
def decIfSeeder (ns : Nat) : Option Peer → Except Panic Nat
  | some p => if p.seeder then csub ns 1 else .ok ns
  | none => .ok ns

/-- First half of `PeerMap::announce` (UDP) /
`TorrentData::upsert_peer_and_get_response_peers` (HTTP): the `match self { … }`
block that removes the announcer's old entry, computes the reply from what is
left and switches representation.  `c` is `SMALL_PEER_MAP_CAPACITY`, `n` the
clamped number of peers to take, `o1 o2` the two random draws. -/
def PeerMap.removeAndReply (c : Nat) (pm : PeerMap) (key : Key) (st : Status)
    (n o1 o2 : Nat) : Except Panic (PeerMap × AnnOut) :=
  match pm with
  | .small l => do
    let r := smallRemove l key
    let s := numSeeders r.1
    let le ← csub r.1.length s
    let peers := (r.1.take n).map (·.1)
    -- `peer_map.is_full() && status != Stopped` ⇒ `to_large()`
    let pm1 := if r.1.length = c ∧ st ≠ .stopped then PeerMap.large r.1 s else PeerMap.small r.1
    pure (pm1, (⟨s, le, peers, r.2⟩ : AnnOut))
  | .large l ns => do
    let r := swapRemove l key
    let ns1 ← decIfSeeder ns r.2
    let le ← csub r.1.length ns1
    let peers ← extractHalves (r.1.map (·.1)) n o1 o2
    -- `status == Stopped` ⇒ `try_shrink()`
    let pm1 := if st = .stopped ∧ r.1.length ≤ c then PeerMap.small r.1 else PeerMap.large r.1 ns1
    pure (pm1, (⟨ns1, le, peers, r.2⟩ : AnnOut))

/-- Second half: `match status { Leeching | Seeding => insert, Stopped => () }`. -/
def PeerMap.insertUnlessStopped (c : Nat) (pm : PeerMap) (key : Key) (st : Status)
    (pid dl : Nat) : Except Panic PeerMap :=
  match st with
  | .stopped => pure pm
  | .seeding => pm.insert c key ⟨pid, true, dl⟩
  | .leeching => pm.insert c key ⟨pid, false, dl⟩

def PeerMap.announce (c : Nat) (pm : PeerMap) (key : Key) (st : Status)
    (pid dl : Nat) (n o1 o2 : Nat) : Except Panic (PeerMap × AnnOut) := do
  let r ← pm.removeAndReply c key st n o1 o2
  let pm2 ← r.1.insertUnlessStopped c key st pid dl
  pure (pm2, r.2)

/-- `IndexMap::retain` with the `num_seeders -= 1` side effect of the closure. -/
def retainLarge (now : Nat) : Entries → Nat → Except Panic (Entries × Nat)
  | [], ns => .ok ([], ns)
  | (k, p) :: t, ns =>
    if isValid now p then do
      let r ← retainLarge now t ns
      pure ((k, p) :: r.1, r.2)
    else do
      let ns1 ← (if p.seeder then csub ns 1 else pure ns)
      retainLarge now t ns1

/-- `clean_and_get_num_peers` of both representations, followed (UDP only,
`shrink = true`) by `try_shrink`.  Returns the new map, the number of seeders
as the function computes it (counted for the inline form, the cached counter
for the heap form) and the peer ids of the removed entries in removal order. -/
def PeerMap.clean (c : Nat) (shrink : Bool) (pm : PeerMap) (now : Nat) :
    Except Panic (PeerMap × Nat × List Nat) :=
  match pm with
  | .small l =>
    let l' := l.filter (fun e => isValid now e.2)
    .ok (.small l', numSeeders l', (l.filter (fun e => !isValid now e.2)).map (·.2.peerId))
  | .large l ns => do
    let r ← retainLarge now l ns
    let pm' := if shrink ∧ r.1.length ≤ c then PeerMap.small r.1 else PeerMap.large r.1 r.2
    pure (pm', r.2, (l.filter (fun e => !isValid now e.2)).map (·.2.peerId))

/-! ### torrents of one address family -/

abbrev TMap := List (Nat × PeerMap)

def TMap.get (m : TMap) (h : Nat) : Option PeerMap :=
  match m with
  | [] => none
  | (h', pm) :: t => if h' = h then some pm else TMap.get t h

def TMap.set (m : TMap) (h : Nat) (pm : PeerMap) : TMap :=
  match m with
  | [] => [(h, pm)]
  | (h', pm') :: t => if h' = h then (h', pm) :: t else (h', pm') :: TMap.set t h pm

/-- `entry(info_hash).or_default()` followed by the announce on that peer map -/
def TMap.announce (c : Nat) (m : TMap) (h : Nat) (key : Key) (st : Status)
    (pid dl : Nat) (n o1 o2 : Nat) : Except Panic (TMap × AnnOut) := do
  let pm := (m.get h).getD (.small [])
  let r ← pm.announce c key st pid dl n o1 o2
  pure (m.set h r.1, r.2)

def TMap.scrapeOne (m : TMap) (h : Nat) : Except Panic (Nat × Nat) :=
  match m.get h with
  | some pm => pm.counts
  | none => .ok (0, 0)

structure TCleanOut where
  torrents : Nat
  peers    : Nat
  lines    : List (Nat × Nat × Nat)   -- export lines (hash, seeders, leechers)
  removed  : List Nat
  deriving Repr

/-- UDP `clean_and_get_statistics`: phase 1 cleans every torrent (and sums the
peers of every torrent, forbidden ones included), phase 2 drops forbidden and
empty torrents (the `Arc` is unshared in a sequential run). -/
def TMap.cleanUdp (c : Nat) (m : TMap) (now : Nat) (allowed : Nat → Bool) :
    Except Panic (TMap × TCleanOut) :=
  match m with
  | [] => .ok ([], ⟨0, 0, [], []⟩)
  | (h, pm) :: t => do
    let r ← pm.clean c true now
    let le ← csub r.1.entries.length r.2.1
    let rest ← TMap.cleanUdp c t now allowed
    let np := r.2.1 + le
    let keep := allowed h && !r.1.entries.isEmpty
    let m' := if keep then (h, r.1) :: rest.1 else rest.1
    let lines := if np ≠ 0 then (h, r.2.1, le) :: rest.2.lines else rest.2.lines
    pure (m', ⟨(if keep then 1 else 0) + rest.2.torrents, np + rest.2.peers, lines,
      r.2.2 ++ rest.2.removed⟩)

/-- HTTP `TorrentMap::clean`: forbidden torrents are dropped unseen, the others
are cleaned and kept when a peer is left.  Second component: `total_num_peers`. -/
def TMap.cleanHttp (c : Nat) (m : TMap) (now : Nat) (allowed : Nat → Bool) :
    Except Panic (TMap × Nat) :=
  match m with
  | [] => .ok ([], 0)
  | (h, pm) :: t =>
    if !allowed h then TMap.cleanHttp c t now allowed
    else do
      let r ← pm.clean c false now
      let rest ← TMap.cleanHttp c t now allowed
      let np := r.1.entries.length
      if np > 0 then pure ((h, r.1) :: rest.1, np + rest.2)
      else pure (rest.1, rest.2)

end Aquatic
