/-
  Model of the HTTP tracker protocol library, crates/http_protocol:
    request.rs   writers and the memchr-driven query-string parsers
    utils.rs     urlencode_20_bytes / urldecode_20_bytes
    response.rs  the hand-written bencode writers
  Strings are lists of code points (request side) / bytes (reply side).
  The byte-string literals of the writers and the parser's key table are
  generated from the source on every run (Generated/HttpLits.lean).
-/
import Aquatic.Model.Prelude
import Aquatic.Generated.HttpLits

namespace Aquatic.Http

abbrev S := List Nat

open Aquatic.Generated.Http

/-! ### small string helpers -/

/-- `str::get(a..b)` on a string whose split points are ASCII: `none` unless `a ≤ b ≤ len` -/
def sget (s : S) (a b : Nat) : Option S :=
  if a ≤ b ∧ b ≤ s.length then some ((s.drop a).take (b - a)) else none

/-- positions (counted from `base`) of `c` in `s`: `memchr_iter(c, s)` -/
def idxFrom (c : Nat) : S → Nat → List Nat
  | [], _ => []
  | x :: t, b => if x = c then b :: idxFrom c t (b + 1) else idxFrom c t (b + 1)

def itoa (n : Nat) : S := (Nat.toDigits 10 n).map Char.toNat

def isDigit (c : Nat) : Bool := 48 ≤ c && c ≤ 57

def digitsVal : S → Nat := fun s => s.foldl (fun acc c => 10 * acc + (c - 48)) 0

def stripPlus : S → S
  | 43 :: t => t
  | s => s

/-- `str::parse::<usize / u16>()`: an optional `+`, then one or more ASCII digits, below `bound` -/
def parseUInt (bound : Nat) (s : S) : Option Nat :=
  let d := stripPlus s
  if d.isEmpty ∨ ¬ d.all isDigit then none
  else
    -- leading zeros are accepted; overflow is an error
    let v := digitsVal d
    if v < bound then some v else none

def hexVal (c : Nat) : Option Nat :=
  if 48 ≤ c ∧ c ≤ 57 then some (c - 48)
  else if 97 ≤ c ∧ c ≤ 102 then some (c - 87)
  else if 65 ≤ c ∧ c ≤ 70 then some (c - 55)
  else none

def hexChar (n : Nat) : Nat := if n < 10 then 48 + n else 87 + n      -- lower case

/-! ### 20-byte identifiers in query strings -/

/-- `urlencode_20_bytes`: every byte as `%xx` (lower-case hex) -/
def enc20 (b : S) : S := b.flatMap (fun x => [37, hexChar (x / 16), hexChar (x % 16)])

/-- the loop of `urldecode_20_bytes` for `k` output bytes -/
def dec20Loop : Nat → S → Option (S × S)
  | 0, cs => some ([], cs)
  | _ + 1, [] => none                                      -- "less than 20 chars"
  | k + 1, c :: cs =>
    if c > 255 then none                                   -- "character not in single byte range"
    else if c = 37 then
      match cs with
      | f :: s :: rest =>
        -- `first as u8`, `second as u8`: truncating casts
        match hexVal (f % 256), hexVal (s % 256) with
        | some hi, some lo => (dec20Loop k rest).map (fun r => ((hi * 16 + lo) :: r.1, r.2))
        | _, _ => none                                     -- "hex decode error"
      | _ => none                                          -- missing urldecode char in pair
    else (dec20Loop k cs).map (fun r => (c :: r.1, r.2))

/-- `urldecode_20_bytes` -/
def dec20 (s : S) : Option S :=
  match dec20Loop 20 s with
  | some (b, []) => some b
  | _ => none                                              -- "more than 20 chars" / errors above

/-! ### query strings -/

/-- the zipped `=` / `&` iterators of `parse_query_string`; `eqs`/`amps` are the remaining
positions, `pos` the start of the current key. -/
def segLoop (s : S) : List Nat → List Nat → Nat → Option (List (S × S))
  | [], _, _ => some []
  | e :: es, amps, pos =>
    let segEnd := amps.headD s.length
    match sget s pos e, sget s (e + 1) segEnd with
    | some k, some v =>
      if segEnd = s.length then some [(k, v)]
      else (segLoop s es amps.tail (segEnd + 1)).map ((k, v) :: ·)
    | _, _ => none                                         -- "no key at …" / "no value at …"

def segments (s : S) : Option (List (S × S)) := segLoop s (idxFrom 61 s 0) (idxFrom 38 s 0) 0

structure Announce where
  infoHash   : S
  peerId     : S
  port       : Nat
  uploaded   : Nat
  downloaded : Nat
  left       : Nat
  event      : Nat            -- 0 started, 1 stopped, 2 completed, 3 empty
  numwant    : Option Nat
  key        : Option S
  deriving DecidableEq, Repr

structure Acc where
  infoHash   : Option S := none
  peerId     : Option S := none
  port       : Option Nat := none
  uploaded   : Option Nat := none
  downloaded : Option Nat := none
  left       : Option Nat := none
  event      : Nat := 3
  numwant    : Option Nat := none
  key        : Option S := none

def usizeBound : Nat := 2 ^ 64

def eventOf (v : S) : Option Nat :=
  if v = [115, 116, 97, 114, 116, 101, 100] then some 0            -- started
  else if v = [115, 116, 111, 112, 112, 101, 100] then some 1      -- stopped
  else if v = [99, 111, 109, 112, 108, 101, 116, 101, 100] then some 2  -- completed
  else if v = [101, 109, 112, 116, 121] then some 3                -- empty
  else none

/-- UTF-8 length of a code point -/
def utf8Len (c : Nat) : Nat := if c < 128 then 1 else if c < 2048 then 2 else if c < 65536 then 3 else 4

/-- one `match key { … }` step; `urlDecode` is `urlencoding::decode` (trusted, a parameter) -/
def accStep (urlDecode : S → Option S) (a : Acc) (kv : S × S) : Option Acc :=
  let k := kv.1
  let v := kv.2
  if k = announceKeys.getD 0 [] then (dec20 v).map (fun x => { a with infoHash := some x })
  else if k = announceKeys.getD 1 [] then (dec20 v).map (fun x => { a with peerId := some x })
  else if k = announceKeys.getD 2 [] then (parseUInt 65536 v).map (fun x => { a with port := some x })
  else if k = announceKeys.getD 3 [] then (parseUInt usizeBound v).map (fun x => { a with left := some x })
  else if k = announceKeys.getD 4 [] then (parseUInt usizeBound v).map (fun x => { a with uploaded := some x })
  else if k = announceKeys.getD 5 [] then (parseUInt usizeBound v).map (fun x => { a with downloaded := some x })
  else if k = announceKeys.getD 6 [] then (eventOf v).map (fun x => { a with event := x })
  else if k = announceKeys.getD 7 [] then (if v = [49] then some a else none)         -- compact must be "1"
  else if k = announceKeys.getD 8 [] then (parseUInt usizeBound v).map (fun x => { a with numwant := some x })
  else if k = announceKeys.getD 9 [] then
    (if (v.map utf8Len).sum > keyMaxLen then none else (urlDecode v).map (fun x => { a with key := some x }))
  else some a                                              -- unrecognised key: ignored

def foldAcc (urlDecode : S → Option S) : Acc → List (S × S) → Option Acc
  | a, [] => some a
  | a, kv :: t => (accStep urlDecode a kv).bind (fun a' => foldAcc urlDecode a' t)

/-- `AnnounceRequest::parse_query_string` -/
def parseAnnounceQuery (urlDecode : S → Option S) (q : S) : Option Announce := do
  let segs ← segments q
  let a ← foldAcc urlDecode {} segs
  pure { infoHash := ← a.infoHash, peerId := ← a.peerId, port := ← a.port, uploaded := ← a.uploaded,
         downloaded := ← a.downloaded, left := ← a.left, event := a.event, numwant := a.numwant, key := a.key }

def foldScrape : List S → List (S × S) → Option (List S)
  | acc, [] => some acc.reverse
  | acc, (k, v) :: t =>
    if k = announceKeys.getD 0 [] then (dec20 v).bind (fun x => foldScrape (x :: acc) t)
    else foldScrape acc t

/-- `ScrapeRequest::parse_query_string` -/
def parseScrapeQuery (q : S) : Option (List S) := do
  let segs ← segments q
  let hs ← foldScrape [] segs
  if hs.isEmpty then none else pure hs

inductive Req where
  | announce (a : Announce)
  | scrape (hashes : List S)
  deriving DecidableEq, Repr

/-- `path.splitn(2, '?')` -/
def splitPath (p : S) : S × Option S :=
  match idxFrom 63 p 0 with
  | [] => (p, none)
  | i :: _ => (p.take i, some (p.drop (i + 1)))

/-- `Request::parse_http_get_path` -/
def parsePath (urlDecode : S → Option S) (p : S) : Option Req :=
  match splitPath p with
  | (_, none) => none
  | (loc, some q) =>
    if loc = [47, 97, 110, 110, 111, 117, 110, 99, 101] then (parseAnnounceQuery urlDecode q).map Req.announce
    else if loc = [47, 115, 99, 114, 97, 112, 101] then (parseScrapeQuery q).map Req.scrape
    else none

/-! ### request writers (the path, i.e. what stands between `GET ` and ` HTTP/1.1`) -/

def L (l : List (List Nat)) (i : Nat) : S := l.getD i []

/-- `AnnounceRequest::write_bytes` with an empty `url_suffix`; `urlEncode` is `urlencoding::encode` -/
def writeAnnouncePath (urlEncode : S → S) (a : Announce) : S :=
  (L announceRequestLits 0).drop 4 ++ L announceRequestLits 1 ++ enc20 a.infoHash ++
  L announceRequestLits 2 ++ enc20 a.peerId ++ L announceRequestLits 3 ++ itoa a.port ++
  L announceRequestLits 4 ++ itoa a.uploaded ++ L announceRequestLits 5 ++ itoa a.downloaded ++
  L announceRequestLits 6 ++ itoa a.left ++
  (match a.event with | 0 => L announceRequestLits 7 | 1 => L announceRequestLits 8 | 2 => L announceRequestLits 9 | _ => []) ++
  (match a.numwant with | some n => L announceRequestLits 10 ++ itoa n | none => []) ++
  (match a.key with | some k => L announceRequestLits 11 ++ urlEncode k | none => []) ++
  L announceRequestLits 12

def scrapeHashes : List S → S
  | [] => []
  | [h] => L scrapeRequestLits 3 ++ enc20 h
  | h :: t => L scrapeRequestLits 3 ++ enc20 h ++ L scrapeRequestLits 2 ++ scrapeHashes t

/-- `ScrapeRequest::write_bytes` with an empty `url_suffix` -/
def writeScrapePath (hs : List S) : S :=
  (L scrapeRequestLits 0).drop 4 ++ L scrapeRequestLits 1 ++ scrapeHashes hs

/-! ### replies -/

structure HPeer where
  ip   : S        -- 4 or 16 bytes
  port : Nat
  deriving DecidableEq, Repr

def be2 (n : Nat) : S := [n / 256 % 256, n % 256]

def peerBytes (ps : List HPeer) : S := ps.flatMap (fun p => p.ip ++ be2 p.port)

structure AnnounceResp where
  complete   : Nat
  incomplete : Nat
  interval   : Nat
  peers      : List HPeer
  peers6     : List HPeer
  warning    : Option S
  deriving DecidableEq, Repr

/-- `AnnounceResponse::write_bytes` -/
def writeAnnounceResp (r : AnnounceResp) : S :=
  L announceResponseLits 0 ++ itoa r.complete ++ L announceResponseLits 1 ++ itoa r.incomplete ++
  L announceResponseLits 2 ++ itoa r.interval ++
  L announceResponseLits 3 ++ itoa (r.peers.length * 6) ++ L announceResponseLits 4 ++ peerBytes r.peers ++
  L announceResponseLits 5 ++ itoa (r.peers6.length * 18) ++ L announceResponseLits 6 ++ peerBytes r.peers6 ++
  (match r.warning with
   | some w => L announceResponseLits 7 ++ itoa w.length ++ L announceResponseLits 8 ++ w
   | none => []) ++
  L announceResponseLits 9

/-- `ScrapeResponse::write_bytes`; files in `BTreeMap` order: (info hash bytes, complete, downloaded, incomplete) -/
def writeScrapeResp (files : List (S × Nat × Nat × Nat)) : S :=
  L scrapeResponseLits 0 ++
  files.flatMap (fun f =>
    L scrapeResponseLits 1 ++ f.1 ++ L scrapeResponseLits 2 ++ itoa f.2.1 ++ L scrapeResponseLits 3 ++
    itoa f.2.2.1 ++ L scrapeResponseLits 4 ++ itoa f.2.2.2 ++ L scrapeResponseLits 5) ++
  L scrapeResponseLits 6

/-- `FailureResponse::write_bytes` -/
def writeFailureResp (reason : S) : S :=
  L failureResponseLits 0 ++ itoa reason.length ++ L failureResponseLits 1 ++ reason ++ L failureResponseLits 2

end Aquatic.Http
