/-
  `Connection::write_response` of crates/http/src/workers/socket/connection.rs
  (after the repair of F4): the reply is framed inside a buffer that is reused
  for every reply on the connection and grows when a reply does not fit.
-/
import Aquatic.Model.HttpCodec

namespace Aquatic.Http

open Aquatic.Generated.Http

def hdrA : S := responseHeaderA
def hdrB : S := responseHeaderB
def hdrC : S := responseHeaderC
def hdrLen : Nat := hdrA.length + hdrB.length + hdrC.length

/-- `buf[start..start+bytes.len()].copy_from_slice(bytes)` -/
def setRange (buf : S) (start : Nat) (bytes : S) : S :=
  buf.take start ++ bytes ++ buf.drop (start + bytes.length)

/-- the doubling loop: the buffer length once `need` bytes fit -/
def growTo : Nat → Nat → Nat → Nat
  | 0, len, _ => len
  | fuel + 1, len, need => if need ≤ len then len else growTo fuel (2 * len) need

/-- the buffer after `write_response(body)` and the bytes handed to `stream.write_all` -/
def writeResponse (buf : S) (body : S) : S × S :=
  let position := hdrLen
  let need := position + body.length + 2
  -- grow (Vec::resize with zeros) until body and final newline fit
  let len' := growTo need buf.length need
  let buf1 := buf ++ List.replicate (len' - buf.length) 0
  let buf2 := setRange buf1 position body
  let buf3 := setRange buf2 (position + body.length) [13, 10]
  -- clear the content-length cells, then write the digits of `body_len + 2`
  let buf4 := setRange buf3 hdrA.length hdrB
  let buf5 := setRange buf4 hdrA.length (itoa (body.length + 2))
  (buf5, buf5.take need)

/-- the fresh buffer of a connection: `RESPONSE_HEADER` followed by zeros -/
def freshBuffer (size : Nat) : S := hdrA ++ hdrB ++ hdrC ++ List.replicate (size - hdrLen) 0

end Aquatic.Http
