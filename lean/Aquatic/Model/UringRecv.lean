/-
  The receive side of the io_uring socket worker: what `RecvHelperV4::parse` / `RecvHelperV6::parse`
  (crates/udp/src/workers/socket/uring/recv_helper.rs) make of one buffer filled by a multishot
  `recvmsg`:

      | struct io_uring_recvmsg_out: namelen, controllen, payloadlen, flags (4 x u32, native order) |
      | name field: msg_namelen bytes, a sockaddr_in (16) on the IPv4 socket, sockaddr_in6 (28) on the IPv6 one |
      | payload: what fitted of the datagram |

  `RecvMsgOut::parse` (io-uring crate) is modelled as it is written: the buffer must hold header and
  name field; the payload is `min(payloadlen, what is left)` bytes after the name field; the name is
  truncated iff `namelen` exceeds the field, the payload iff `flags` has MSG_TRUNC.  The sockaddr is
  read from the start of the name field: port = bytes 2..4 big-endian, IPv4 address = bytes 4..8,
  IPv6 address = bytes 8..24 (flowinfo and scope id do not enter the canonical address).

  `kernelBuffer` is the buffer the kernel writes for a datagram from a given source into a buffer of
  a given size; `handleBuf` is `handle_recv_cqe` on such a buffer.  Props/UringRecv shows that on
  kernel-written buffers `handleBuf` is exactly `UdpHandle.handleUring` on (source, datagram) - the
  abstraction C06 is stated on.  x86-64 / aarch64: native order = little-endian.
-/
import Aquatic.Model.UdpHandle

namespace Aquatic.UringRecv

open Aquatic.Bep15 Aquatic.UdpCodec Aquatic.UdpHandle

def leNat : Bytes → Nat
  | [] => 0
  | b :: t => b.toNat + 256 * leNat t

def natLE : Nat → Nat → Bytes
  | 0, _ => []
  | w + 1, n => UInt8.ofNat (n % 256) :: natLE w (n / 256)

def nameFieldLen (v6 : Bool) : Nat := if v6 then 28 else 16
def msgTrunc : Nat := 0x20

structure Recv where
  nameLenHdr : Nat
  flags : Nat
  payload : Bytes
  deriving Repr, DecidableEq

/-- `RecvMsgOut::parse(buffer, &msghdr)` with `msg_namelen = nameFieldLen`, `msg_controllen = 0` -/
def recvMsgOut (v6 : Bool) (buf : Bytes) : Option Recv :=
  let pstart := 16 + nameFieldLen v6
  if buf.length < pstart then none
  else
    let payloadlen := leNat ((buf.drop 8).take 4)
    some ⟨leNat (buf.take 4), leNat ((buf.drop 12).take 4), (buf.drop pstart).take (min payloadlen (buf.length - pstart))⟩

/-- the source as the code reads it from the name field -/
def nameAddr (v6 : Bool) (field : Bytes) : Ip × Nat :=
  let port := beNat ((field.drop 2).take 2)
  if v6 then (.v6 (beNat ((field.drop 8).take 12)) (beNat ((field.drop 20).take 4)), port)
  else (.v4 (beNat ((field.drop 4).take 4)), port)

inductive RErr where
  | recvMsgParse
  | truncated
  | invalidAddr
  | request (e : PErr) (src : Ip) (port : Nat)
  deriving Repr, DecidableEq

/-- `RecvHelper::parse` -/
def parse (v6 : Bool) (maxScrape : Nat) (buf : Bytes) : Except RErr (Request × Ip × Nat) :=
  match recvMsgOut v6 buf with
  | none => .error .recvMsgParse
  | some r =>
    if r.nameLenHdr > nameFieldLen v6 ∨ r.flags / msgTrunc % 2 = 1 then .error .truncated
    else
      let a := nameAddr v6 ((buf.drop 16).take (nameFieldLen v6))
      if a.2 = 0 then .error .invalidAddr
      else
        match parseRequest r.payload maxScrape with
        | .ok rq => .ok (rq, canonical a.1, a.2)
        | .error e => .error (.request e (canonical a.1) a.2)

/-- what `handle_recv_cqe` does with the verdict of `parse` (statistics aside) -/
def post (ctx : Ctx) : Except RErr (Request × Ip × Nat) → Option (ReplyKind × Nat)
  | .ok (rq, src, _) => handleRequest ctx src rq
  | .error (.request (.sendable cid tid) src _) => if ctx.idValid src cid then some (.error, tid) else none
  | .error _ => none

/-- `handle_recv_cqe` on a buffer -/
def handleBuf (ctx : Ctx) (v6 : Bool) (buf : Bytes) : Option (ReplyKind × Nat) :=
  post ctx (parse v6 ctx.maxScrape buf)

/-- sockaddr_in / sockaddr_in6 as the kernel fills it (family in native order; flowinfo, scope id 0) -/
def sockaddr : Ip → Nat → Bytes
  | .v4 a, port => natLE 2 2 ++ natBE 2 port ++ natBE 4 a ++ natBE 8 0
  | .v6 hi lo, port => natLE 2 10 ++ natBE 2 port ++ natBE 4 0 ++ natBE 12 hi ++ natBE 4 lo ++ natBE 4 0

/-- what the kernel writes into a provided buffer of `bufLen` bytes for a datagram `payload` whose
source is described by `name` (as long as the name field) -/
def kernelBuffer (v6 : Bool) (bufLen : Nat) (name payload : Bytes) : Bytes :=
  let cap := bufLen - 16 - nameFieldLen v6
  natLE 4 (nameFieldLen v6) ++ natLE 4 0 ++ natLE 4 payload.length ++
    natLE 4 (if payload.length > cap then msgTrunc else 0) ++ name ++ payload.take cap

end Aquatic.UringRecv
