/-
  Field, event and message-kind names of BEP 15 (UDP tracker protocol).
  Constructors, not strings: string literals do not reduce in the kernel.
-/
import Aquatic.Model.Prelude

namespace Aquatic.Bep15

inductive F where
  | connectionId | action | transactionId | infoHash | peerId | downloaded | left | uploaded
  | event | ip | key | numWant | port | interval | leechers | seeders | completed
  deriving DecidableEq, Repr

inductive Ev where
  | none | completed | started | stopped
  deriving DecidableEq, Repr

inductive Kind where
  | connect | announce | scrape | error
  deriving DecidableEq, Repr

end Aquatic.Bep15
