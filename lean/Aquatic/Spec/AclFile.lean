/-
  What an access-list file means, stated without reference to how it is parsed (C11):
  a file is well formed when every line is readable text that is blank or, with surrounding
  white space removed, exactly forty hex digits; its list is the hashes of the non-blank lines.
-/
import Aquatic.Model.Acl

namespace Aquatic.AclSpec

open Aquatic

def lineOk : Option (List Char) → Bool
  | none => false
  | some l => (trimWs l).isEmpty || ((trimWs l).length = 40 && (trimWs l).all (fun c => (hexVal c).isSome))

def fileOk (lines : List (Option (List Char))) : Bool := lines.all lineOk

def hashes (lines : List (Option (List Char))) : List Nat :=
  lines.filterMap (fun
    | none => none
    | some l => if (trimWs l).isEmpty then none else parseInfoHash (trimWs l))

/-- the list in force after asking for a reload of `file` (`none`: cannot be opened) while `cur` was in force -/
def afterReload (mode : AclMode) (cur : List Nat) (file : Option (List (Option (List Char)))) : List Nat × Bool :=
  if mode = .off then (cur, true) else
  match file with
  | none => (cur, false)
  | some lines => if fileOk lines then (hashes lines, true) else (cur, false)

end Aquatic.AclSpec
