/-
  Reference tracker: the words of C01 / C07 made executable.

  One address family.  The state is the flat list of stored entries; a torrent
  *is* the set of its entries, so an "empty torrent" does not exist — the
  "indistinguishable from never seen" clause holds by construction.
-/
import Aquatic.Model.Store

namespace Aquatic

structure REntry where
  hash : Nat
  key  : Key
  peer : Peer
  deriving DecidableEq, Repr

abbrev RState := List REntry

namespace Ref

/-- the entries of torrent `h` other than the announcer's own -/
def others (s : RState) (h : Nat) (k : Key) : RState :=
  s.filter (fun e => e.hash = h ∧ e.key ≠ k)

def ofTorrent (s : RState) (h : Nat) : RState := s.filter (fun e => e.hash = h)

structure AnnView where
  seeders    : Nat
  leechers   : Nat
  candidates : List Key       -- the peers the tracker is able to hand out
  deriving Repr

/-- latest announce wins; `stopped` removes; `left = 0` (status seeding) is a seeder;
the reply is computed from the *other* entries of the torrent. -/
def announce (s : RState) (h : Nat) (k : Key) (st : Status) (pid dl : Nat) : RState × AnnView :=
  let rest := s.filter (fun e => ¬ (e.hash = h ∧ e.key = k))
  let oth := others s h k
  let view : AnnView :=
    ⟨oth.countP (·.peer.seeder), oth.countP (fun e => !e.peer.seeder), oth.map (·.key)⟩
  match st with
  | .stopped  => (rest, view)
  | .seeding  => (rest ++ [⟨h, k, ⟨pid, true, dl⟩⟩], view)
  | .leeching => (rest ++ [⟨h, k, ⟨pid, false, dl⟩⟩], view)

/-- scrape counts include every stored peer -/
def scrape (s : RState) (h : Nat) : Nat × Nat :=
  ((ofTorrent s h).countP (·.peer.seeder), (ofTorrent s h).countP (fun e => !e.peer.seeder))

/-- an entry is gone after the first cleaning pass at or after its deadline,
and never earlier; forbidden torrents are dropped whole -/
def clean (s : RState) (now : Nat) (allowed : Nat → Bool) : RState :=
  s.filter (fun e => decide (now < e.peer.deadline) && allowed e.hash)

def dedup : List Nat → List Nat
  | [] => []
  | x :: t => x :: (dedup t).filter (· ≠ x)

def numTorrents (s : RState) : Nat := (dedup (s.map (·.hash))).length

end Ref

/-- What C02 demands of a returned peer list, given the reference's candidate
set `cand` and the limit `n` (`exact = false`: UDP/HTTP, at least `n - 1`). -/
def peersOk (peers cand : List Key) (n : Nat) : Bool :=
  peers.Nodup ∧ peers.all (· ∈ cand) ∧ peers.length ≤ n ∧
  (if cand.length ≤ n then cand.all (· ∈ peers) else n - 1 ≤ peers.length)

end Aquatic
