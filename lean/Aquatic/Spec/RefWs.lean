/-
  Reference WebTorrent tracker (C08, C09): a flat list with one entry per (torrent, peer id)
  of one address family, each owned by the connection that created it, and a table of
  outstanding offers.  No caches, no orderings, no per-connection records in the swarm state:
  closing a connection removes the entries it owns.

  The choice of offer receivers is not part of the reference: `announce` takes the receivers the
  implementation chose, `recvOk` says which choices are allowed.
-/
import Aquatic.Model.Ws

namespace Aquatic.Ws

structure RW where
  hash : Nat
  pid : Nat
  owner : ConnId
  seeder : Bool
  validUntil : Nat
  deriving DecidableEq, Repr

/-- outstanding offers: torrent → offering peer → (answering peer, offer id) → deadline -/
abbrev Exps := Nat → Nat → ExpKey → Option Nat

structure RefW where
  entries : List RW := []
  exps : Exps := fun _ _ _ => none

namespace Ref

def isKey (h pid : Nat) (e : RW) : Bool := decide (e.hash = h) && decide (e.pid = pid)

def find (es : List RW) (h pid : Nat) : Option RW := es.find? (isKey h pid)
def rest (es : List RW) (h pid : Nat) : List RW := es.filter (fun e => !isKey h pid e)
def ofTorrent (es : List RW) (h : Nat) : List RW := es.filter (fun e => decide (e.hash = h))
def complete (es : List RW) (h : Nat) : Nat := (ofTorrent es h).countP (·.seeder)
def incomplete (es : List RW) (h : Nat) : Nat := (ofTorrent es h).countP (fun e => !e.seeder)

def clearExps (x : Exps) (h pid : Nat) : Exps := fun h' p' k => if h' = h ∧ p' = pid then none else x h' p' k
def setExp (x : Exps) (h pid : Nat) (key : ExpKey) (v : Option Nat) : Exps :=
  fun h' p' k => if h' = h ∧ p' = pid ∧ k = key then v else x h' p' k

/-- record the forwarded offers `(offer, receiver)` of peer `(h, pid)` -/
def recordOffers (x : Exps) (h pid vu : Nat) : List ((Nat × Nat) × Nat) → Exps
  | [] => x
  | (off, r) :: t => recordOffers (setExp x h pid (r, off.1) (some vu)) h pid vu t

def ownerOf (es : List RW) (h pid : Nat) : Option ConnId := (find es h pid).map (·.owner)

def offerMsgs (es : List RW) (h sender : Nat) (pairs : List ((Nat × Nat) × Nat)) : List Msg :=
  pairs.filterMap (fun x => (ownerOf es h x.2).map (fun o => Msg.offer o h sender x.1.1 x.1.2))

/-- which receiver choices the reference allows for the offers of `req` (on the state in which the
announcing peer has been stored) -/
def recvOk (cfg : WsCfg) (es : List RW) (req : AnnReq) (recv : List Nat) : Prop :=
  recv.Nodup ∧ req.pid ∉ recv ∧ (∀ x ∈ recv, (find es req.hash x).isSome) ∧
  recv.length = min (min ((req.offers.getD []).length) cfg.maxOffers)
                    ((ofTorrent es req.hash).filter (fun e => !decide (e.pid = req.pid))).length

instance (cfg : WsCfg) (es : List RW) (req : AnnReq) (recv : List Nat) : Decidable (recvOk cfg es req recv) := by
  unfold recvOk; infer_instance

def answerPart (es : List RW) (x : Exps) (conn : ConnId) (req : AnnReq) : Exps × List Msg :=
  match req.answer with
  | none => (x, [])
  | some (toPid, oid, payload) =>
    match find es req.hash toPid with
    | none => (x, [])
    | some e =>
      (match x req.hash toPid (req.pid, oid) with
       | some _ => (setExp x req.hash toPid (req.pid, oid) none, [Msg.answer e.owner req.hash req.pid oid payload])
       | none => (x, [Msg.error conn (some req.hash)]))

/-- an announce that is not ignored -/
def announceCore (cfg : WsCfg) (r : RefW) (conn : ConnId) (req : AnnReq) (now : Nat) (recv : List Nat) :
    RefW × List Msg :=
  match wsStatus req.stopped req.left with
  | .stopped =>
    let es := rest r.entries req.hash req.pid
    (⟨es, clearExps r.exps req.hash req.pid⟩, [Msg.announce conn req.hash (complete es req.hash) (incomplete es req.hash)])
  | st =>
    let es := rest r.entries req.hash req.pid ++
      [⟨req.hash, req.pid, conn, decide (st = .seeding), validUntilNew now cfg.maxPeerAge⟩]
    let pairs := (req.offers.getD []).zip recv
    let x1 := recordOffers r.exps req.hash req.pid (validUntilNew now cfg.maxOfferAge) pairs
    let a := answerPart es x1 conn req
    (⟨es, a.1⟩, offerMsgs es req.hash req.pid pairs ++ a.2 ++
      [Msg.announce conn req.hash (complete es req.hash) (incomplete es req.hash)])

/-- announces that use a peer id stored by another connection are ignored: no reply, no effect -/
def announce (cfg : WsCfg) (r : RefW) (conn : ConnId) (req : AnnReq) (now : Nat) (recv : List Nat) :
    RefW × List Msg :=
  match find r.entries req.hash req.pid with
  | some e => if e.owner = conn then announceCore cfg r conn req now recv else (r, [])
  | none => announceCore cfg r conn req now recv

/-- torrents with stored peers, among the first `max_scrape_torrents` requested -/
def scrapeFiles (cfg : WsCfg) (r : RefW) (hashes : List Nat) : List (Nat × Nat × Nat) :=
  (hashes.take cfg.maxScrape).filterMap (fun h =>
    if (ofTorrent r.entries h).isEmpty then none else some (h, complete r.entries h, incomplete r.entries h))

/-- a scrape reply is acceptable iff it lists every requested torrent with stored peers with the
reference's counts and nothing else but zero counts for requested torrents -/
def scrapeOk (cfg : WsCfg) (r : RefW) (hashes : List Nat) (files : List (Nat × Nat × Nat)) : Bool :=
  (scrapeFiles cfg r hashes).all (fun f => files.contains f) &&
  files.all (fun f => (scrapeFiles cfg r hashes).contains f ||
    ((hashes.take cfg.maxScrape).contains f.1 && (ofTorrent r.entries f.1).isEmpty && f.2 == (0, 0)))

/-- closing a connection removes exactly the entries it owns -/
def close (r : RefW) (conn : ConnId) : RefW :=
  ⟨r.entries.filter (fun e => !decide (e.owner = conn)),
   fun h p k => match find r.entries h p with
     | some e => if e.owner = conn then none else r.exps h p k
     | none => r.exps h p k⟩

def keep (now : Nat) (allowed : Nat → Bool) (e : RW) : Bool := allowed e.hash && validAt e.validUntil now

def clean (r : RefW) (now : Nat) (allowed : Nat → Bool) : RefW :=
  ⟨r.entries.filter (keep now allowed),
   fun h p k => match find r.entries h p with
     | some e => if keep now allowed e then (r.exps h p k).filter (fun vu => validAt vu now) else none
     | none => none⟩

end Ref

/-! ### the whole reference tracker: the store above plus the "one peer id per torrent and
connection" rule of the socket worker -/

structure RefSys where
  w : RefW := {}
  books : List (ConnId × Book) := []

def RefSys.bookOf (s : RefSys) (conn : ConnId) : Book := (IMap.get s.books conn).getD []

def refClose (s : RefSys) (conn : ConnId) : RefSys := ⟨Ref.close s.w conn, (IMap.swapRemove s.books conn).1⟩

/-- `recv`: the receivers chosen by the implementation (see `Ref.recvOk`) -/
def refStep (cfg : WsCfg) (s : RefSys) (recv : List Nat) : WOp → RefSys × List Msg
  | .ann conn allowed req now _ _ =>
    if !allowed then (s, [Msg.error conn (some req.hash)])
    else if (match IMap.get (s.bookOf conn) req.hash with | some pid' => decide (pid' ≠ req.pid) | none => false) then
      (refClose s conn, [Msg.error conn (some req.hash)])
    else
      let a := Ref.announce cfg s.w conn req now recv
      (⟨a.1, IMap.insert s.books conn (bookAfter (s.bookOf conn) req)⟩, a.2)
  | .scr conn hashes => (s, [Msg.scrape conn (httpScrapeFiles (Ref.scrapeFiles cfg s.w hashes))])
  | .close conn => (refClose s conn, [])
  | .clean now allowed => (⟨Ref.clean s.w now allowed, s.books⟩, [])

end Aquatic.Ws
