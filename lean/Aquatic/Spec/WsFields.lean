/-
  Names used by the WebTorrent message shapes: Rust field identifiers (as
  constructors), the enum variants of the untagged enums, and the record the
  extractor fills in for every struct field.
-/
import Aquatic.Model.Prelude

namespace Aquatic

inductive WsF where
  | action | infoHash | peerId | bytesLeft | event | offers | numwant | answer | answerToPeerId
  | answerOfferId | offer | offerId | infoHashes | t | sdp | complete | incomplete | announceInterval
  | files | downloaded | failureReason
  deriving DecidableEq, Repr

inductive WsVariant where
  | announceRequest | scrapeRequest
  | offerOutMessage | answerOutMessage | announceResponse | scrapeResponse | errorResponse
  | single | multiple
  deriving DecidableEq, Repr

structure WsField where
  tag      : WsF
  name     : List Nat      -- JSON name, as code points
  optional : Bool          -- the Rust type is `Option<_>`
  skipNone : Bool          -- `skip_serializing_if = "Option::is_none"`
  deriving DecidableEq, Repr

end Aquatic
