/-
  Bencode (BEP 3) and the reply dictionaries of the HTTP tracker protocol
  (BEP 3 / BEP 23 compact peers / BEP 7 peers6 / BEP 48 scrape), written
  independently of the code: a value type, the canonical encoder (dictionary
  keys in sorted order, as raw byte strings) and the mapping reply ↦ value.
-/
import Aquatic.Model.HttpCodec

namespace Aquatic.Bencode

open Aquatic.Http

mutual
  inductive B where
    | int (n : Nat)
    | str (b : S)
    | dict (kv : KV)
  inductive KV where
    | nil
    | cons (k : S) (v : B) (t : KV)
end

def encStr (b : S) : S := itoa b.length ++ [58] ++ b

mutual
  /-- the canonical encoding (keys are emitted in the order given; `KV.Sorted` says it is sorted) -/
  def B.enc : B → S
    | .int n => [105] ++ itoa n ++ [101]
    | .str b => encStr b
    | .dict kv => [100] ++ kv.enc ++ [101]
  def KV.enc : KV → S
    | .nil => []
    | .cons k v t => encStr k ++ v.enc ++ t.enc
end

def KV.keys : KV → List S
  | .nil => []
  | .cons k _ t => k :: t.keys

/-- raw byte-string order (lexicographic) -/
def bytesLt : S → S → Bool
  | [], [] => false
  | [], _ :: _ => true
  | _ :: _, [] => false
  | a :: s, b :: t => a < b || (a = b && bytesLt s t)

def sortedKeys : List S → Bool
  | [] => true
  | [_] => true
  | a :: b :: t => bytesLt a b && sortedKeys (b :: t)

def KV.ofList : List (S × B) → KV
  | [] => .nil
  | (k, v) :: t => .cons k v (KV.ofList t)

def ascii (s : String) : S := s.toList.map Char.toNat

/-- the announce reply of BEP 3 with compact peers (BEP 23) and `peers6` (BEP 7) -/
def announceValue (r : AnnounceResp) : B :=
  .dict (KV.ofList (
    [([99, 111, 109, 112, 108, 101, 116, 101], B.int r.complete),                         -- complete
     ([105, 110, 99, 111, 109, 112, 108, 101, 116, 101], B.int r.incomplete),             -- incomplete
     ([105, 110, 116, 101, 114, 118, 97, 108], B.int r.interval),                         -- interval
     ([112, 101, 101, 114, 115], B.str (peerBytes r.peers)),                              -- peers
     ([112, 101, 101, 114, 115, 54], B.str (peerBytes r.peers6))] ++                      -- peers6
    (match r.warning with
     | some w => [([119, 97, 114, 110, 105, 110, 103, 32, 109, 101, 115, 115, 97, 103, 101], B.str w)]  -- warning message
     | none => [])))

def fileValue (f : S × Nat × Nat × Nat) : S × B :=
  (f.1, .dict (KV.ofList
    [([99, 111, 109, 112, 108, 101, 116, 101], B.int f.2.1),                              -- complete
     ([100, 111, 119, 110, 108, 111, 97, 100, 101, 100], B.int f.2.2.1),                  -- downloaded
     ([105, 110, 99, 111, 109, 112, 108, 101, 116, 101], B.int f.2.2.2)]))                -- incomplete

def scrapeValue (files : List (S × Nat × Nat × Nat)) : B :=
  .dict (KV.ofList [([102, 105, 108, 101, 115], B.dict (KV.ofList (files.map fileValue)))])   -- files

def failureValue (reason : S) : B :=
  .dict (KV.ofList [([102, 97, 105, 108, 117, 114, 101, 32, 114, 101, 97, 115, 111, 110], B.str reason)])  -- failure reason

end Aquatic.Bencode
