/-
  BEP 15 written down independently of the code: big-endian integers, the byte
  tables of every message, an encoder and a decoder that follow the tables
  literally (offsets as in the BEP text).

  Integers are modelled by their unsigned bit pattern (`Nat` below `256^width`);
  20-byte identifiers likewise.
-/
import Aquatic.Spec.Bep15Fields

namespace Aquatic.Bep15

abbrev Bytes := List UInt8

/-- big-endian encoding of `n` in exactly `w` bytes (most significant first) -/
def natBE : Nat → Nat → Bytes
  | 0, _ => []
  | w + 1, n => UInt8.ofNat (n / 256 ^ w) :: natBE w (n % 256 ^ w)

/-- big-endian value of a byte string -/
def beNat : Bytes → Nat
  | [] => 0
  | b :: t => b.toNat * 256 ^ t.length + beNat t

/-- bytes `[i, j)` of a datagram, `none` when it is shorter than `j` -/
def slice (b : Bytes) (i j : Nat) : Option Bytes :=
  if j ≤ b.length then some ((b.drop i).take (j - i)) else none

/-! ### the byte tables of BEP 15 -/

def announceRequest : List (F × Nat) :=
  [(.connectionId, 8), (.action, 4), (.transactionId, 4), (.infoHash, 20), (.peerId, 20),
   (.downloaded, 8), (.left, 8), (.uploaded, 8), (.event, 4), (.ip, 4), (.key, 4),
   (.numWant, 4), (.port, 2)]
def connectResponse : List (F × Nat) := [(.transactionId, 4), (.connectionId, 8)]       -- after the action
def announceResponseFixed : List (F × Nat) :=
  [(.transactionId, 4), (.interval, 4), (.leechers, 4), (.seeders, 4)]                   -- after the action
def scrapeStats : List (F × Nat) := [(.seeders, 4), (.completed, 4), (.leechers, 4)]
def responsePeerV4 : List (F × Nat) := [(.ip, 4), (.port, 2)]
def responsePeerV6 : List (F × Nat) := [(.ip, 16), (.port, 2)]

def evCode : Ev → Nat
  | .none => 0 | .completed => 1 | .started => 2 | .stopped => 3

def evOfCode : Nat → Option Ev
  | 0 => some .none | 1 => some .completed | 2 => some .started | 3 => some .stopped | _ => Option.none

def actionCode : Kind → Nat
  | .connect => 0 | .announce => 1 | .scrape => 2 | .error => 3

def protocolId : Nat := 0x41727101980

/-! ### messages -/

structure AnnReq where
  connectionId : Nat
  transactionId : Nat
  infoHash : Nat
  peerId : Nat
  downloaded : Nat
  left : Nat
  uploaded : Nat
  event : Ev
  ip : Nat
  key : Nat
  numWant : Nat
  port : Nat
  deriving DecidableEq, Repr

inductive Request where
  | connect (tid : Nat)
  | announce (a : AnnReq)
  | scrape (cid tid : Nat) (hashes : List Nat)
  deriving DecidableEq, Repr

structure RPeer where
  ip : Nat
  port : Nat
  deriving DecidableEq, Repr

structure Stats where
  seeders : Nat
  completed : Nat
  leechers : Nat
  deriving DecidableEq, Repr

inductive Response where
  | connect (tid cid : Nat)
  | announce (v6 : Bool) (tid interval leechers seeders : Nat) (peers : List RPeer)
  | scrape (tid : Nat) (stats : List Stats)
  | error (tid : Nat) (msg : Bytes)
  deriving DecidableEq, Repr

/-- all integer fields fit their width -/
def AnnReq.wf (a : AnnReq) : Prop :=
  a.connectionId < 256 ^ 8 ∧ a.transactionId < 256 ^ 4 ∧ a.infoHash < 256 ^ 20 ∧ a.peerId < 256 ^ 20 ∧
  a.downloaded < 256 ^ 8 ∧ a.left < 256 ^ 8 ∧ a.uploaded < 256 ^ 8 ∧ a.ip < 256 ^ 4 ∧ a.key < 256 ^ 4 ∧
  a.numWant < 256 ^ 4 ∧ a.port < 256 ^ 2

instance (a : AnnReq) : Decidable a.wf := by unfold AnnReq.wf; infer_instance

def Request.wf : Request → Prop
  | .connect tid => tid < 256 ^ 4
  | .announce a => a.wf
  | .scrape cid tid hs => cid < 256 ^ 8 ∧ tid < 256 ^ 4 ∧ ∀ h ∈ hs, h < 256 ^ 20

def Response.wf : Response → Prop
  | .connect tid cid => tid < 256 ^ 4 ∧ cid < 256 ^ 8
  | .announce v6 tid i l s peers =>
    tid < 256 ^ 4 ∧ i < 256 ^ 4 ∧ l < 256 ^ 4 ∧ s < 256 ^ 4 ∧
    ∀ p ∈ peers, p.ip < 256 ^ (if v6 then 16 else 4) ∧ p.port < 256 ^ 2
  | .scrape tid stats =>
    tid < 256 ^ 4 ∧ ∀ x ∈ stats, x.seeders < 256 ^ 4 ∧ x.completed < 256 ^ 4 ∧ x.leechers < 256 ^ 4
  | .error tid _ => tid < 256 ^ 4

/-! ### encoder, table by table -/

def encRequest : Request → Bytes
  | .connect tid => natBE 8 protocolId ++ natBE 4 0 ++ natBE 4 tid
  | .announce a =>
    natBE 8 a.connectionId ++ natBE 4 1 ++ natBE 4 a.transactionId ++ natBE 20 a.infoHash ++
    natBE 20 a.peerId ++ natBE 8 a.downloaded ++ natBE 8 a.left ++ natBE 8 a.uploaded ++
    natBE 4 (evCode a.event) ++ natBE 4 a.ip ++ natBE 4 a.key ++ natBE 4 a.numWant ++ natBE 2 a.port
  | .scrape cid tid hs => natBE 8 cid ++ natBE 4 2 ++ natBE 4 tid ++ hs.flatMap (natBE 20)

def encPeer (v6 : Bool) (p : RPeer) : Bytes := natBE (if v6 then 16 else 4) p.ip ++ natBE 2 p.port

def encStats (x : Stats) : Bytes := natBE 4 x.seeders ++ natBE 4 x.completed ++ natBE 4 x.leechers

def encResponse : Response → Bytes
  | .connect tid cid => natBE 4 0 ++ natBE 4 tid ++ natBE 8 cid
  | .announce v6 tid i l s peers =>
    natBE 4 1 ++ natBE 4 tid ++ natBE 4 i ++ natBE 4 l ++ natBE 4 s ++ peers.flatMap (encPeer v6)
  | .scrape tid stats => natBE 4 2 ++ natBE 4 tid ++ stats.flatMap encStats
  | .error tid msg => natBE 4 3 ++ natBE 4 tid ++ msg

/-! ### decoder, offset by offset (independent of the encoder) -/

/-- split into chunks of `w` bytes; `none` unless the length is a multiple of `w` -/
def chunks (w : Nat) (fuel : Nat) (b : Bytes) : Option (List Bytes) :=
  match fuel with
  | 0 => if b.isEmpty then some [] else none
  | fuel + 1 =>
    if b.isEmpty then some []
    else if b.length < w then none
    else (chunks w fuel (b.drop w)).map (fun r => b.take w :: r)

def decAnnounceReq (b : Bytes) : Option AnnReq := do
  let f (i j : Nat) : Option Nat := (slice b i j).map beNat
  let ev ← (← f 80 84) |> evOfCode
  pure { connectionId := ← f 0 8, transactionId := ← f 12 16, infoHash := ← f 16 36, peerId := ← f 36 56,
         downloaded := ← f 56 64, left := ← f 64 72, uploaded := ← f 72 80, event := ev,
         ip := ← f 84 88, key := ← f 88 92, numWant := ← f 92 96, port := ← f 96 98 }

/-- `k` consecutive `w`-byte values starting at offset `off` -/
def valuesAt (b : Bytes) (off w : Nat) : Nat → List Nat
  | 0 => []
  | k + 1 => beNat ((b.drop off).take w) :: valuesAt b (off + w) w k

/-- What BEP 15 (and the property) say about an incoming datagram: `some r` = a conforming
request with these field values (scrapes cut to `maxScrape` hashes), `none` = to be rejected
(too few bytes, unknown action or event, wrong protocol id, port 0, empty hash list or one
that is not a multiple of 20 bytes). -/
def decRequest (b : Bytes) (maxScrape : Nat) : Option Request :=
  if b.length < 16 then none else
  match (slice b 8 12).map beNat with
  | some 0 =>
    if (slice b 0 8).map beNat = some protocolId then (slice b 12 16).map (fun t => .connect (beNat t))
    else none
  | some 1 =>
    match decAnnounceReq b with
    | some a => if a.port = 0 then none else some (.announce a)
    | none => none
  | some 2 =>
    let n := b.length - 16
    if n = 0 ∨ n % 20 ≠ 0 then none
    else do
      let c ← slice b 0 8
      let t ← slice b 12 16
      pure (.scrape (beNat c) (beNat t) (valuesAt b 16 20 (min maxScrape (n / 20))))
  | _ => none

def decPeers (b : Bytes) (off : Nat) (v6 : Bool) : Nat → List RPeer
  | 0 => []
  | k + 1 =>
    let w := if v6 then 16 else 4
    ⟨beNat ((b.drop off).take w), beNat ((b.drop (off + w)).take 2)⟩ :: decPeers b (off + w + 2) v6 k

def decStats (b : Bytes) (off : Nat) : Nat → List Stats
  | 0 => []
  | k + 1 =>
    ⟨beNat ((b.drop off).take 4), beNat ((b.drop (off + 4)).take 4), beNat ((b.drop (off + 8)).take 4)⟩ ::
      decStats b (off + 12) k

/-- the reply tables of BEP 15, read by a client that expects `v6` peers -/
def decResponse (b : Bytes) (v6 : Bool) : Option Response :=
  if b.length < 8 then none else
  let tid := beNat ((b.drop 4).take 4)
  match (slice b 0 4).map beNat with
  | some 0 => if b.length = 16 then some (.connect tid (beNat ((b.drop 8).take 8))) else none
  | some 1 =>
    let w := if v6 then 18 else 6
    if b.length < 20 ∨ (b.length - 20) % w ≠ 0 then none
    else some (.announce v6 tid (beNat ((b.drop 8).take 4)) (beNat ((b.drop 12).take 4))
      (beNat ((b.drop 16).take 4)) (decPeers b 20 v6 ((b.length - 20) / w)))
  | some 2 => if (b.length - 8) % 12 ≠ 0 then none else some (.scrape tid (decStats b 8 ((b.length - 8) / 12)))
  | some 3 => some (.error tid (b.drop 8))
  | _ => none

end Aquatic.Bep15
