import Aquatic.Model.WsSelect
import Aquatic.Lemmas.Select

namespace Aquatic

theorem wsBounds_ok {len n : Nat} (h : n + 1 < len) :
    wsBounds len n = .ok (max 1 (len / 2 - (n / 2 + 1)), max (len / 2 + 1) (len - (n / 2 + 1))) := by
  have h1 : n / 2 + 1 ≤ len / 2 := by omega
  have h2 : n / 2 + 1 ≤ len := by omega
  simp [wsBounds, csub, h1, h2, bind, Except.bind, pure, Except.pure]

theorem filter_ne_length_ge {α : Type} [DecidableEq α] (l : List α) (s : α) (hn : l.Nodup) :
    l.length ≤ (l.filter (fun x => !decide (x = s))).length + 1 := by
  induction l with
  | nil => simp
  | cons a t ih =>
    rw [List.nodup_cons] at hn
    by_cases e : a = s
    · subst e
      have : t.filter (fun x => !decide (x = a)) = t := by
        rw [List.filter_eq_self]
        intro b hb
        simp only [ne_eq, decide_not, Bool.not_eq_eq_eq_not, Bool.not_true, decide_eq_false_iff_not]
        intro e'; subst e'; exact hn.1 hb
      simp [List.filter_cons, this]
    · have := ih hn.2
      simp [List.filter_cons, e]
      omega

theorem filter_ne_length_eq_of_mem {α : Type} [DecidableEq α] (l : List α) (s : α) (hn : l.Nodup)
    (hm : s ∈ l) : (l.filter (fun x => !decide (x = s))).length + 1 = l.length := by
  induction l with
  | nil => cases hm
  | cons a t ih =>
    rw [List.nodup_cons] at hn
    by_cases e : a = s
    · subst e
      have : t.filter (fun x => !decide (x = a)) = t := by
        rw [List.filter_eq_self]
        intro b hb
        simp only [ne_eq, decide_not, Bool.not_eq_eq_eq_not, Bool.not_true, decide_eq_false_iff_not]
        intro e'; subst e'; exact hn.1 hb
      simp [List.filter_cons, this]
    · have hm' : s ∈ t := by
        rcases List.mem_cons.mp hm with h | h
        · exact absurd h.symm e
        · exact h
      have := ih hn.2 hm'
      simp [List.filter_cons, e]
      omega

theorem filter_ne_eq_self_of_not_mem {α : Type} [DecidableEq α] (l : List α) (s : α) (hm : s ∉ l) :
    l.filter (fun x => !decide (x = s)) = l := by
  rw [List.filter_eq_self]
  intro b hb
  simp only [ne_eq, decide_not, Bool.not_eq_eq_eq_not, Bool.not_true, decide_eq_false_iff_not]
  intro e'; subst e'; exact hm hb

/-- C02 / C09 for the WebTorrent selection. `others` are the stored keys other than the sender. -/
theorem extractWs_spec {α : Type} [DecidableEq α] (keys : List α) (n : Nat) (sender : α) (o1 o2 : Nat)
    (hn : keys.Nodup) (ho : keys.length ≤ n + 1 ∨ wsOffsetsOk keys.length n o1 o2) :
    ∃ r, extractWs keys n sender o1 o2 = .ok r ∧
      r.Sublist (keys.filter (fun x => !decide (x = sender))) ∧ r.Nodup ∧ sender ∉ r ∧ r.length ≤ n ∧
      ((keys.filter (fun x => !decide (x = sender))).length ≤ n → r = keys.filter (fun x => !decide (x = sender))) ∧
      (n < (keys.filter (fun x => !decide (x = sender))).length → r.length = n) := by
  have hnf : (keys.filter (fun x => !decide (x = sender))).Nodup := List.filter_sublist.nodup hn
  have hns : ∀ r : List α, r.Sublist (keys.filter (fun x => !decide (x = sender))) → sender ∉ r := by
    intro r hr hm
    have := hr.subset hm
    simp at this
  by_cases hle : keys.length ≤ n + 1
  · by_cases hgt : (keys.filter (fun x => !decide (x = sender))).length > n
    · refine ⟨(keys.filter (fun x => !decide (x = sender))).dropLast, ?_, List.dropLast_sublist _, ?_, ?_, ?_, ?_, ?_⟩
      · simp [extractWs, hle, hgt]
      · exact (List.dropLast_sublist _).nodup hnf
      · exact hns _ (List.dropLast_sublist _)
      · have := List.length_filter_le (fun x => !decide (x = sender)) keys
        simp only [List.length_dropLast]; omega
      · intro h; omega
      · intro _
        have := List.length_filter_le (fun x => !decide (x = sender)) keys
        simp only [List.length_dropLast]; omega
    · refine ⟨keys.filter (fun x => !decide (x = sender)), ?_, List.Sublist.refl _, hnf, hns _ (List.Sublist.refl _), by omega,
        fun _ => rfl, fun h => by omega⟩
      simp [extractWs, hle, hgt]
  · have hlt : n + 1 < keys.length := by omega
    have ho' : wsOffsetsOk keys.length n o1 o2 := by
      rcases ho with h | h
      · exact absurd h hle
      · exact h
    unfold wsOffsetsOk at ho'
    rw [wsBounds_ok hlt] at ho'
    simp only at ho'
    obtain ⟨ho1, ho2, ho3⟩ := ho'
    have hb1 : o1 + (n / 2 + 1) ≤ o2 := by omega
    have hb2 : o2 + (n / 2 + 1) ≤ keys.length := by omega
    have g1 : getRange keys o1 (o1 + (n / 2 + 1)) = some ((keys.drop o1).take (n / 2 + 1)) := by
      have : o1 + (n / 2 + 1) ≤ keys.length := by omega
      simp [getRange, this]
    have g2 : getRange keys o2 (o2 + (n / 2 + 1)) = some ((keys.drop o2).take (n / 2 + 1)) := by
      simp [getRange, hb2]
    let w := (keys.drop o1).take (n / 2 + 1) ++ (keys.drop o2).take (n / 2 + 1)
    have hw : w.Sublist keys := windows_sublist keys (n / 2 + 1) o1 o2 hb1
    have hwl : w.length = 2 * (n / 2 + 1) := by
      simp only [w, List.length_append, List.length_take, List.length_drop]; omega
    have hwf : (w.filter (fun x => !decide (x = sender))).Sublist (keys.filter (fun x => !decide (x = sender))) := hw.filter _
    have hwfl : n ≤ (w.filter (fun x => !decide (x = sender))).length := by
      have := filter_ne_length_ge w sender (hw.nodup hn)
      omega
    have hres : extractWs keys n sender o1 o2 = .ok ((w.filter (fun x => !decide (x = sender))).take n) := by
      simp [extractWs, hle, wsBounds_ok hlt, g1, g2, bind, Except.bind, pure, Except.pure, w]
    have hsub : ((w.filter (fun x => !decide (x = sender))).take n).Sublist (keys.filter (fun x => !decide (x = sender))) :=
      (List.take_sublist _ _).trans hwf
    refine ⟨_, hres, hsub, hsub.nodup hnf, hns _ hsub, ?_, ?_, ?_⟩
    · simp only [List.length_take]; omega
    · intro h
      have := filter_ne_length_ge keys sender hn
      omega
    · intro _
      simp only [List.length_take]; omega

theorem wsOffsetsOk_exists (len n : Nat) (h : n + 1 < len) : wsOffsetsOk len n 0 (len / 2) := by
  unfold wsOffsetsOk
  rw [wsBounds_ok h]
  simp only
  omega

end Aquatic
