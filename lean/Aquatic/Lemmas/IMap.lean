/- Lemmas about the generic insertion-ordered association list (Aquatic.Model.IMap). -/
import Aquatic.Model.IMap
import Aquatic.Lemmas.Assoc

namespace Aquatic.IMap

variable {α β : Type} [DecidableEq α]

def without (l : List (α × β)) (k : α) : List (α × β) := l.filter (fun e => !decide (e.1 = k))

@[simp] theorem keys_nil : keys ([] : List (α × β)) = [] := rfl
@[simp] theorem keys_cons (e : α × β) (t : List (α × β)) : keys (e :: t) = e.1 :: keys t := rfl

theorem mem_keys {l : List (α × β)} {k : α} : k ∈ keys l ↔ ∃ v, (k, v) ∈ l := by
  simp [keys]

theorem get_eq_none {l : List (α × β)} {k : α} : get l k = none ↔ k ∉ keys l := by
  induction l with
  | nil => simp [get]
  | cons e t ih =>
    obtain ⟨k', v⟩ := e
    by_cases h : k' = k
    · simp [get, h]
    · simp [get, h, ih, Ne.symm h]

theorem mem_of_get {l : List (α × β)} {k : α} {v : β} (h : get l k = some v) : (k, v) ∈ l := by
  induction l with
  | nil => simp [get] at h
  | cons e t ih =>
    obtain ⟨k', v'⟩ := e
    by_cases hk : k' = k
    · simp [get, hk] at h; subst hk h; exact List.mem_cons_self
    · simp [get, hk] at h; exact List.mem_cons_of_mem _ (ih h)

theorem get_isSome {l : List (α × β)} {k : α} : (get l k).isSome ↔ k ∈ keys l := by
  cases h : get l k with
  | none => simp [get_eq_none.mp h]
  | some v => simp [mem_keys.mpr ⟨v, mem_of_get h⟩]

theorem get_of_mem {l : List (α × β)} {k : α} {v : β} (hn : (keys l).Nodup) (h : (k, v) ∈ l) : get l k = some v := by
  induction l with
  | nil => cases h
  | cons e t ih =>
    obtain ⟨k', v'⟩ := e
    simp only [keys_cons, List.nodup_cons] at hn
    rcases List.mem_cons.mp h with e' | e'
    · cases e'; simp [get]
    · have : k' ≠ k := by
        intro hk; subst hk; exact hn.1 (mem_keys.mpr ⟨v, e'⟩)
      simp [get, this, ih hn.2 e']

/-! ### insert -/

theorem get_insert (l : List (α × β)) (k k' : α) (v : β) :
    get (insert l k v) k' = if k = k' then some v else get l k' := by
  induction l with
  | nil => simp [insert, get]
  | cons e t ih =>
    obtain ⟨k0, v0⟩ := e
    by_cases h : k0 = k
    · subst h
      by_cases h2 : k0 = k' <;> simp [insert, get, h2]
    · by_cases h2 : k0 = k'
      · subst h2; simp [insert, get, h, Ne.symm h]
      · simp [insert, get, h, h2, ih]

theorem keys_insert_of_mem {l : List (α × β)} {k : α} (v : β) (h : k ∈ keys l) : keys (insert l k v) = keys l := by
  induction l with
  | nil => cases h
  | cons e t ih =>
    obtain ⟨k0, v0⟩ := e
    by_cases h0 : k0 = k
    · simp [insert, h0]
    · have : k ∈ keys t := by
        simp only [keys_cons, List.mem_cons] at h
        rcases h with h | h
        · exact absurd h.symm h0
        · exact h
      simp [insert, h0, ih this]

theorem insert_of_not_mem {l : List (α × β)} {k : α} (v : β) (h : k ∉ keys l) : insert l k v = l ++ [(k, v)] := by
  induction l with
  | nil => rfl
  | cons e t ih =>
    obtain ⟨k0, v0⟩ := e
    simp only [keys_cons, List.mem_cons, not_or] at h
    simp [insert, Ne.symm h.1, ih h.2]

theorem nodup_insert {l : List (α × β)} (k : α) (v : β) (h : (keys l).Nodup) : (keys (insert l k v)).Nodup := by
  by_cases hm : k ∈ keys l
  · rw [keys_insert_of_mem v hm]; exact h
  · rw [insert_of_not_mem v hm]
    simp only [keys, List.map_append, List.map_cons, List.map_nil]
    rw [List.nodup_append]
    refine ⟨h, by simp, ?_⟩
    intro a ha b hb
    simp only [List.mem_singleton] at hb
    subst hb
    intro e; subst e; exact hm ha

theorem length_insert (l : List (α × β)) (k : α) (v : β) :
    (insert l k v).length = if (get l k).isSome then l.length else l.length + 1 := by
  by_cases hm : k ∈ keys l
  · have := congrArg List.length (keys_insert_of_mem (l := l) v hm)
    simp only [keys, List.length_map] at this
    simp [this, get_isSome.mpr hm]
  · have hn : (get l k).isSome = false := by
      rw [Bool.eq_false_iff]; intro h; exact hm (get_isSome.mp h)
    simp [insert_of_not_mem v hm, hn]

/-! ### without / splitting -/

theorem without_cons_eq (v : β) (t : List (α × β)) (k : α) : without ((k, v) :: t) k = without t k := by
  simp [without]

theorem without_cons_ne {k' : α} (v : β) (t : List (α × β)) {k : α} (h : k' ≠ k) :
    without ((k', v) :: t) k = (k', v) :: without t k := by
  simp [without, h]

theorem without_eq_self {l : List (α × β)} {k : α} (h : k ∉ keys l) : without l k = l := by
  rw [without, List.filter_eq_self]
  intro e he
  simp only [Bool.not_eq_eq_eq_not, Bool.not_true, decide_eq_false_iff_not]
  intro hk
  exact h (by rw [← hk]; exact List.mem_map_of_mem he)

theorem get_without (l : List (α × β)) (k k' : α) : get (without l k) k' = if k' = k then none else get l k' := by
  induction l with
  | nil => simp [without, get]
  | cons e t ih =>
    obtain ⟨k0, v0⟩ := e
    by_cases h0 : k0 = k
    · subst h0
      rw [without_cons_eq, ih]
      by_cases h2 : k' = k0
      · simp [h2]
      · simp [h2, get, Ne.symm h2]
    · rw [without_cons_ne _ _ h0]
      by_cases h2 : k0 = k'
      · subst h2; simp [get, h0]
      · simp [get, h2, ih]

theorem keys_without_sublist (l : List (α × β)) (k : α) : (keys (without l k)).Sublist (keys l) :=
  (List.filter_sublist).map _

theorem nodup_without {l : List (α × β)} (k : α) (h : (keys l).Nodup) : (keys (without l k)).Nodup :=
  (keys_without_sublist l k).nodup h

theorem perm_split {l : List (α × β)} {k : α} {v : β} (hn : (keys l).Nodup) (h : get l k = some v) :
    l.Perm ((k, v) :: without l k) := by
  induction l with
  | nil => simp [get] at h
  | cons e t ih =>
    obtain ⟨k0, v0⟩ := e
    simp only [keys_cons, List.nodup_cons] at hn
    by_cases h0 : k0 = k
    · subst h0
      simp [get] at h; subst h
      rw [without_cons_eq, without_eq_self hn.1]
    · simp [get, h0] at h
      rw [without_cons_ne _ _ h0]
      exact (List.Perm.cons _ (ih hn.2 h)).trans (List.Perm.swap _ _ _)

theorem insert_perm {l : List (α × β)} (k : α) (v : β) (hn : (keys l).Nodup) :
    (insert l k v).Perm ((k, v) :: without l k) := by
  have h1 : get (insert l k v) k = some v := by simp [get_insert]
  have h2 := perm_split (nodup_insert k v hn) h1
  refine h2.trans (List.Perm.cons _ ?_)
  -- without (insert l k v) k = without l k
  have : without (insert l k v) k = without l k := by
    clear h1 h2 hn
    induction l with
    | nil => simp [insert, without]
    | cons e t ih =>
      obtain ⟨k0, v0⟩ := e
      by_cases h0 : k0 = k
      · subst h0; simp [insert, without]
      · simp only [insert, h0, if_false]
        rw [without_cons_ne _ _ h0, without_cons_ne _ _ h0, ih]
  rw [this]

/-! ### swapRemove -/

theorem swapRemove_snd (l : List (α × β)) (k : α) : (swapRemove l k).2 = get l k := by
  induction l with
  | nil => rfl
  | cons e t ih =>
    obtain ⟨k', v⟩ := e
    by_cases hk : k' = k
    · simp [swapRemove, get, hk]
    · simp [swapRemove, hk, ih, get]

theorem swapRemove_perm {l : List (α × β)} (k : α) (h : (keys l).Nodup) :
    (swapRemove l k).1.Perm (without l k) := by
  induction l with
  | nil => exact List.Perm.refl _
  | cons e t ih =>
    obtain ⟨k', v⟩ := e
    simp only [keys_cons, List.nodup_cons] at h
    by_cases hk : k' = k
    · subst hk
      rw [without_cons_eq, without_eq_self h.1]
      simp only [swapRemove, ↓reduceIte]
      cases hl : t.getLast? with
      | none =>
        have : t = [] := List.getLast?_eq_none_iff.mp hl
        subst this; exact List.Perm.refl _
      | some x => exact Aquatic.getLast_cons_dropLast_perm hl
    · simp only [swapRemove, hk, ↓reduceIte, without_cons_ne v t hk]
      exact List.Perm.cons _ (ih h.2)

theorem nodup_keys_of_perm {a b : List (α × β)} (h : a.Perm b) (hn : (keys b).Nodup) : (keys a).Nodup :=
  (h.map _).nodup_iff.mpr hn

theorem get_of_perm {a b : List (α × β)} (h : a.Perm b) (hn : (keys b).Nodup) (k : α) : get a k = get b k := by
  have hna := nodup_keys_of_perm h hn
  cases hb : get b k with
  | none =>
    rw [get_eq_none] at hb ⊢
    intro hm
    obtain ⟨v, hv⟩ := mem_keys.mp hm
    exact hb (mem_keys.mpr ⟨v, h.mem_iff.mp hv⟩)
  | some v => exact get_of_mem hna (h.mem_iff.mpr (mem_of_get hb))

theorem nodup_swapRemove {l : List (α × β)} (k : α) (h : (keys l).Nodup) : (keys (swapRemove l k).1).Nodup :=
  nodup_keys_of_perm (swapRemove_perm k h) (nodup_without k h)

theorem get_swapRemove {l : List (α × β)} (k k' : α) (h : (keys l).Nodup) :
    get (swapRemove l k).1 k' = if k' = k then none else get l k' := by
  rw [get_of_perm (swapRemove_perm k h) (nodup_without k h), get_without]

/-! ### retain -/

theorem nodup_retain (p : β → Bool) {l : List (α × β)} (h : (keys l).Nodup) : (keys (retain p l)).Nodup :=
  ((List.filter_sublist).map _).nodup h

theorem get_retain (p : β → Bool) {l : List (α × β)} (k : α) (h : (keys l).Nodup) :
    get (retain p l) k = (get l k).filter p := by
  induction l with
  | nil => rfl
  | cons e t ih =>
    obtain ⟨k0, v0⟩ := e
    simp only [keys_cons, List.nodup_cons] at h
    by_cases hp : p v0 = true
    · have : retain p ((k0, v0) :: t) = (k0, v0) :: retain p t := by simp [retain, hp]
      rw [this]
      by_cases h0 : k0 = k
      · simp [get, h0, Option.filter, hp]
      · simp [get, h0, ih h.2]
    · have : retain p ((k0, v0) :: t) = retain p t := by simp [retain, hp]
      rw [this, ih h.2]
      by_cases h0 : k0 = k
      · subst h0
        have : get t k0 = none := get_eq_none.mpr h.1
        simp [get, this, Option.filter, hp]
      · simp [get, h0]

/-! ### two duplicate-free maps with the same lookups are permutations of each other -/

theorem perm_of_get_eq : ∀ (a b : List (α × β)), (keys a).Nodup → (keys b).Nodup →
    (∀ k, get a k = get b k) → a.Perm b
  | [], b, _, _, h => by
    cases b with
    | nil => exact List.Perm.refl _
    | cons e t =>
      obtain ⟨k, v⟩ := e
      have := h k
      simp [get] at this
  | (k, v) :: t, b, ha, hb, h => by
    simp only [keys_cons, List.nodup_cons] at ha
    have hbk : get b k = some v := by rw [← h k]; simp [get]
    have hsplit := perm_split hb hbk
    refine (List.Perm.cons _ ?_).trans hsplit.symm
    apply perm_of_get_eq t (without b k) ha.2 (nodup_without k hb)
    intro k'
    rw [get_without]
    by_cases e : k' = k
    · subst e; simp [get_eq_none.mpr ha.1]
    · have := h k'
      simp only [get, Ne.symm e, if_false] at this
      simp [e, this]

end Aquatic.IMap
