import Aquatic.Lemmas.Refine
import Aquatic.Model.HttpShards

namespace Aquatic

/-- the reference entries whose torrents are routed to worker `i` -/
def restrict (n i : Nat) (r : RState) : RState := r.filter (fun e => route n e.hash = i)

theorem restrict_filter (n i : Nat) (r : RState) (p : REntry → Bool) :
    restrict n i (r.filter p) = (restrict n i r).filter p := by
  simp only [restrict, List.filter_filter]
  congr 1; funext e; exact Bool.and_comm _ _

theorem restrict_append_single (n i : Nat) (r : RState) (e : REntry) :
    restrict n i (r ++ [e]) = if route n e.hash = i then restrict n i r ++ [e] else restrict n i r := by
  by_cases h : route n e.hash = i <;> simp [restrict, List.filter_append, h]

theorem others_restrict (n i : Nat) (r : RState) (h : Nat) (k : Key) (hr : route n h = i) :
    Ref.others (restrict n i r) h k = Ref.others r h k := by
  simp only [Ref.others, restrict, List.filter_filter]
  congr 1; funext e
  by_cases c : e.hash = h
  · subst c; simp [hr]
  · simp [c]

theorem ofTorrent_restrict (n i : Nat) (r : RState) (h : Nat) (hr : route n h = i) :
    Ref.ofTorrent (restrict n i r) h = Ref.ofTorrent r h := by
  simp only [Ref.ofTorrent, restrict, List.filter_filter]
  congr 1; funext e
  by_cases c : e.hash = h
  · subst c; simp [hr]
  · simp [c]

theorem scrape_restrict (n i : Nat) (r : RState) (h : Nat) (hr : route n h = i) :
    Ref.scrape (restrict n i r) h = Ref.scrape r h := by
  simp only [Ref.scrape, ofTorrent_restrict n i r h hr]

/-- an announce for a torrent of worker `i`, seen on worker `i`'s share of the reference -/
theorem announce_restrict_same (n i : Nat) (r : RState) (h : Nat) (k : Key) (st : Status) (pid dl : Nat)
    (hr : route n h = i) :
    Ref.announce (restrict n i r) h k st pid dl =
      (restrict n i (Ref.announce r h k st pid dl).1, (Ref.announce r h k st pid dl).2) := by
  cases st <;>
    simp [Ref.announce, others_restrict n i r h k hr, restrict_filter, restrict_append_single, hr]

/-- … and it leaves every other worker's share alone -/
theorem announce_restrict_other (n i : Nat) (r : RState) (h : Nat) (k : Key) (st : Status) (pid dl : Nat)
    (hr : route n h ≠ i) : restrict n i (Ref.announce r h k st pid dl).1 = restrict n i r := by
  have hf : restrict n i (r.filter (fun e => !decide (e.hash = h) || !decide (e.key = k))) = restrict n i r := by
    simp only [restrict, List.filter_filter]
    congr 1; funext e
    by_cases c : route n e.hash = i
    · have : e.hash ≠ h := by intro x; rw [x] at c; exact hr c
      simp [c, this]
    · simp [c]
  cases st <;> simp [Ref.announce, restrict_append_single, hr, hf]

/-- every worker simulates its share of the one reference tracker -/
def ShardSim (c n : Nat) (ss : Shards) (r : RState) : Prop :=
  ss.length = n ∧ ∀ i, (hi : i < ss.length) → Sim1 c ss[i] (restrict n i r)

end Aquatic
