/-
  Counting lemmas: the totals a cleaning pass reports (torrents, peers) equal
  the number of distinct torrents / live entries of the reference state.
-/
import Aquatic.Lemmas.Refine

namespace Aquatic

open Ref

theorem filter_ne_of_not {α : Type} (l : List α) (p q : α → Bool) (h : ∀ a, q a = false → p a = false) :
    (l.filter q).filter p = l.filter p := by
  rw [List.filter_filter]
  congr 1
  funext a
  cases hq : q a
  · simp [h a hq]
  · simp

theorem dedup_filter (t : List Nat) (p : Nat → Bool) : (dedup t).filter p = dedup (t.filter p) := by
  induction t with
  | nil => rfl
  | cons x t ih =>
    by_cases hp : p x
    · simp only [dedup, List.filter_cons, hp, ↓reduceIte]
      rw [← ih, List.filter_filter, List.filter_filter]
      congr 2
      funext a
      exact Bool.and_comm _ _
    · simp only [dedup, List.filter_cons, hp, Bool.false_eq_true, ↓reduceIte]
      rw [← ih]
      apply filter_ne_of_not
      intro a ha
      simp only [ne_eq, decide_not, Bool.not_eq_eq_eq_not, Bool.not_false, decide_eq_true_eq] at ha
      subst ha
      simpa using hp

theorem dedup_length_split (h : Nat) : ∀ (k : Nat) (xs : List Nat), xs.length ≤ k →
    (dedup xs).length = (if h ∈ xs then 1 else 0) + (dedup (xs.filter (fun a => !decide (a = h)))).length := by
  intro k
  induction k with
  | zero =>
    intro xs hk
    have : xs = [] := List.length_eq_zero_iff.mp (by omega)
    subst this; simp [dedup]
  | succ k ih =>
    intro xs hk
    cases xs with
    | nil => simp [dedup]
    | cons x t =>
      simp only [List.length_cons] at hk
      by_cases hx : x = h
      · subst hx
        simp [dedup, dedup_filter]
        omega
      · have hx' : ¬ h = x := fun e => hx e.symm
        have hlen : (t.filter (fun a => !decide (a = x))).length ≤ k :=
          Nat.le_trans (List.length_filter_le _ _) (by omega)
        have := ih (t.filter (fun a => !decide (a = x))) hlen
        have hm : (h ∈ t.filter (fun a => !decide (a = x))) ↔ h ∈ t := by
          simp [List.mem_filter, hx']
        have hc : (t.filter (fun a => !decide (a = x))).filter (fun a => !decide (a = h))
            = (t.filter (fun a => !decide (a = h))).filter (fun a => !decide (a = x)) := by
          rw [List.filter_filter, List.filter_filter]
          congr 1; funext a; exact Bool.and_comm _ _
        have e1 : dedup (x :: t) = x :: (dedup t).filter (fun a => !decide (a = x)) := by
          simp [dedup]
        have e2 : (x :: t).filter (fun a => !decide (a = h)) = x :: t.filter (fun a => !decide (a = h)) := by
          simp [List.filter_cons, hx]
        have e3 : dedup (x :: t.filter (fun a => !decide (a = h)))
            = x :: (dedup (t.filter (fun a => !decide (a = h)))).filter (fun a => !decide (a = x)) := by
          simp [dedup]
        rw [e1, e2, e3, List.length_cons, List.length_cons, dedup_filter, dedup_filter, this, hc]
        by_cases hh : h ∈ t
        · have hh' : h ∈ t.filter (fun a => !decide (a = x)) := hm.mpr hh
          simp only [List.mem_cons, hx', false_or, hh, hh', ↓reduceIte]
          omega
        · have hh' : ¬ h ∈ t.filter (fun a => !decide (a = x)) := fun e => hh (hm.mp e)
          simp only [List.mem_cons, hx', false_or, hh, hh', ↓reduceIte]
          omega

/-- per-torrent agreement between a torrent map and a reference state -/
def Agree (m : TMap) (r : RState) : Prop := ∀ h, (m.entriesOf h).Perm (proj r h)

theorem proj_filter_ne (r : RState) (h h' : Nat) :
    proj (r.filter (fun e => !decide (e.hash = h))) h' = if h' = h then [] else proj r h' := by
  induction r with
  | nil => simp
  | cons e t ih =>
    by_cases c1 : e.hash = h
    · by_cases c3 : h' = h
      · subst c3; simp only [↓reduceIte] at ih; simp [List.filter_cons, c1, ih]
      · have : ¬ h = h' := fun x => c3 x.symm
        simp only [c3, ↓reduceIte] at ih
        simp [List.filter_cons, c1, proj_cons, ih, c3, this]
    · by_cases c3 : h' = h
      · subst c3; simp only [↓reduceIte] at ih; simp [List.filter_cons, c1, proj_cons, ih]
      · simp only [c3, ↓reduceIte] at ih
        by_cases c4 : e.hash = h' <;> simp [List.filter_cons, c1, proj_cons, ih, c3, c4]

theorem agree_tail {h : Nat} {pm : PeerMap} {t : TMap} {r : RState}
    (hn : h ∉ t.hashes) (ha : Agree ((h, pm) :: t) r) :
    Agree t (r.filter (fun e => !decide (e.hash = h))) := by
  intro h'
  rw [proj_filter_ne]
  by_cases c : h' = h
  · subst c
    simp only [↓reduceIte]
    rw [TMap.entriesOf_of_not_mem hn]
  · have c' : ¬ h = h' := fun x => c x.symm
    simp only [c, ↓reduceIte]
    have := ha h'
    rw [TMap.entriesOf_cons] at this
    simpa [c'] using this

theorem mem_hash_of_proj_ne_nil {r : RState} {h : Nat} (hne : proj r h ≠ []) : h ∈ r.map (·.hash) := by
  induction r with
  | nil => simp at hne
  | cons e t ih =>
    rw [proj_cons] at hne
    by_cases c : e.hash = h
    · simp [c]
    · simp only [c, ↓reduceIte] at hne
      simp only [List.map_cons, List.mem_cons]
      exact Or.inr (ih hne)

/-- the number of kept torrents is the number of distinct torrents of the reference -/
theorem length_eq_numTorrents (m : TMap) : ∀ (r : RState), m.hashes.Nodup → Agree m r →
    (∀ x ∈ m, x.2.entries ≠ []) → m.length = Ref.numTorrents r := by
  induction m with
  | nil =>
    intro r _ ha _
    have : ∀ h, proj r h = [] := fun h => by
      have := (ha h).length_eq
      simp only [TMap.entriesOf_nil, List.length_nil] at this
      exact List.length_eq_zero_iff.mp this.symm
    cases r with
    | nil => rfl
    | cons e t =>
      have := this e.hash
      simp [proj_cons] at this
  | cons x t ih =>
    obtain ⟨h, pm⟩ := x
    intro r hnd ha hne
    simp only [TMap.hashes, List.map_cons, List.nodup_cons] at hnd
    have hat := agree_tail hnd.1 ha
    have iht := ih _ hnd.2 hat (fun y hy => hne y (List.mem_cons_of_mem _ hy))
    have hpm : proj r h ≠ [] := by
      intro e
      have := (ha h).length_eq
      rw [TMap.entriesOf_cons] at this
      simp only [↓reduceIte, e, List.length_nil] at this
      exact hne (h, pm) List.mem_cons_self (List.length_eq_zero_iff.mp this)
    have hmem := mem_hash_of_proj_ne_nil hpm
    have hsplit := dedup_length_split h _ (r.map (·.hash)) (Nat.le_refl _)
    simp only [hmem, ↓reduceIte] at hsplit
    have hf : (r.map (·.hash)).filter (fun a => !decide (a = h))
        = (r.filter (fun e => !decide (e.hash = h))).map (·.hash) := by
      rw [List.filter_map]; rfl
    simp only [Ref.numTorrents, List.length_cons, iht, hsplit, hf]
    omega

theorem filter_length_split {α : Type} (l : List α) (p : α → Bool) :
    l.length = (l.filter p).length + (l.filter (fun a => !p a)).length := by
  induction l with
  | nil => rfl
  | cons a t ih =>
    by_cases h : p a <;> simp [List.filter_cons, h] <;> omega

/-- the reported peer total is the number of reference entries whose deadline is in the future -/
theorem liveSum_eq (now : Nat) (m : TMap) : ∀ (r : RState), m.hashes.Nodup → Agree m r →
    TMap.liveSum now m = (Ref.clean r now (fun _ => true)).length := by
  induction m with
  | nil =>
    intro r _ ha
    have : ∀ h, proj r h = [] := fun h => by
      have := (ha h).length_eq
      simp only [TMap.entriesOf_nil, List.length_nil] at this
      exact List.length_eq_zero_iff.mp this.symm
    cases r with
    | nil => rfl
    | cons e t =>
      have := this e.hash
      simp [proj_cons] at this
  | cons x t ih =>
    obtain ⟨h, pm⟩ := x
    intro r hnd ha
    simp only [TMap.hashes, List.map_cons, List.nodup_cons] at hnd
    have hat := agree_tail hnd.1 ha
    have iht := ih _ hnd.2 hat
    have hperm : pm.entries.Perm (proj r h) := by
      have := ha h
      rw [TMap.entriesOf_cons] at this
      simpa using this
    have h1 : (pm.entries.filter (validE now)).length = ((proj r h).filter (validE now)).length :=
      (hperm.filter _).length_eq
    have h2 := proj_clean r now (fun _ => true) h
    simp only [↓reduceIte] at h2
    have h3 : ((proj r h).filter (validE now)).length =
        ((Ref.clean r now (fun _ => true)).filter (fun e => e.hash = h)).length := by
      rw [← h2]; simp [proj]
    have h4 : Ref.clean (r.filter (fun e => !decide (e.hash = h))) now (fun _ => true) =
        (Ref.clean r now (fun _ => true)).filter (fun e => !decide (e.hash = h)) := by
      simp only [Ref.clean, List.filter_filter]
      congr 1; funext a; simp [Bool.and_comm]
    have h5 := filter_length_split (Ref.clean r now (fun _ => true)) (fun e => decide (e.hash = h))
    simp only [TMap.liveSum, iht, h1, h3, h4]
    omega

end Aquatic
