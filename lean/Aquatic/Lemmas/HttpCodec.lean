/-
  Lemmas about the HTTP protocol model (Model/HttpCodec.lean).
-/
import Aquatic.Spec.Bencode

namespace Aquatic.Http

/-! ### decimal numbers -/

theorem digitsVal_itoa (n : Nat) : digitsVal (itoa n) = n := by
  simp only [digitsVal, itoa, List.foldl_map]
  have := Nat.ofDigitChars_toDigits (b := 10) (n := n) (by omega) (by omega)
  simpa [Nat.ofDigitChars] using this

theorem itoa_all_digits (n : Nat) : (itoa n).all isDigit = true := by
  simp only [itoa, List.all_map, List.all_eq_true]
  intro c hc
  have := Nat.isDigit_of_mem_toDigits (b := 10) (by omega) (by omega) hc
  simp only [Char.isDigit, Bool.and_eq_true, decide_eq_true_eq] at this
  simp only [Function.comp, isDigit, Bool.and_eq_true, decide_eq_true_eq]
  have h1 : (48 : Nat) = '0'.toNat := rfl
  have h2 : (57 : Nat) = '9'.toNat := rfl
  constructor
  · have := this.1; simp only [Char.le_def, UInt32.le_iff_toNat_le] at this; exact this
  · have := this.2; simp only [Char.le_def, UInt32.le_iff_toNat_le] at this; exact this

theorem itoa_ne_nil (n : Nat) : itoa n ≠ [] := by
  simp only [itoa, ne_eq, List.map_eq_nil_iff]
  exact Nat.toDigits_ne_nil

theorem itoa_head_not_plus (n : Nat) : ∀ t, itoa n ≠ 43 :: t := by
  intro t h
  have hall := itoa_all_digits n
  rw [h] at hall
  simp [isDigit] at hall

/-- a number written by `itoa` parses back (`str::parse`), provided it is below the type's bound -/
theorem parseUInt_itoa (bound n : Nat) (h : n < bound) : parseUInt bound (itoa n) = some n := by
  unfold parseUInt
  have hd : stripPlus (itoa n) = itoa n := by
    unfold stripPlus
    split
    · rename_i t ht; exact absurd ht (itoa_head_not_plus n t)
    · rfl
  simp only [hd]
  have hne : (itoa n).isEmpty = false := by
    cases hi : itoa n with
    | nil => exact absurd hi (itoa_ne_nil n)
    | cons a t => rfl
  simp [hne, itoa_all_digits n, digitsVal_itoa, h]

theorem itoa_clean (n : Nat) : (61 : Nat) ∉ itoa n ∧ (38 : Nat) ∉ itoa n := by
  have hall := itoa_all_digits n
  simp only [List.all_eq_true] at hall
  constructor <;> (intro hm; have := hall _ hm; simp [isDigit] at this)

/-! ### 20-byte identifiers -/

theorem hexVal_hexChar (n : Nat) (h : n < 16) : hexVal (hexChar n) = some n := by
  have : n = 0 ∨ n = 1 ∨ n = 2 ∨ n = 3 ∨ n = 4 ∨ n = 5 ∨ n = 6 ∨ n = 7 ∨ n = 8 ∨ n = 9 ∨ n = 10 ∨
      n = 11 ∨ n = 12 ∨ n = 13 ∨ n = 14 ∨ n = 15 := by omega
  rcases this with h | h | h | h | h | h | h | h | h | h | h | h | h | h | h | h <;> subst h <;> decide

theorem hexChar_lt (n : Nat) (h : n < 16) : hexChar n < 256 := by
  unfold hexChar; split <;> omega

theorem dec20Loop_enc20 (b : S) (rest : S) (hb : ∀ x ∈ b, x < 256) :
    dec20Loop b.length (enc20 b ++ rest) = some (b, rest) := by
  induction b with
  | nil => simp [dec20Loop, enc20]
  | cons x t ih =>
    have hx := hb x List.mem_cons_self
    have iht := ih (fun y hy => hb y (List.mem_cons_of_mem _ hy))
    have h1 : hexChar (x / 16) % 256 = hexChar (x / 16) := Nat.mod_eq_of_lt (hexChar_lt _ (by omega))
    have h2 : hexChar (x % 16) % 256 = hexChar (x % 16) := Nat.mod_eq_of_lt (hexChar_lt _ (by omega))
    simp only [enc20, List.flatMap_cons, List.cons_append, List.nil_append, List.length_cons, dec20Loop] at iht ⊢
    have : ¬ (37 : Nat) > 255 := by omega
    simp only [this, ↓reduceIte, h1, h2, hexVal_hexChar _ (by omega : x / 16 < 16),
      hexVal_hexChar _ (by omega : x % 16 < 16)]
    rw [iht]
    have hx16 : x / 16 * 16 + x % 16 = x := Nat.div_add_mod' x 16
    simp only [Option.map_some, hx16]

/-- percent-encoded identifiers decode exactly -/
theorem dec20_enc20 (b : S) (hl : b.length = 20) (hb : ∀ x ∈ b, x < 256) : dec20 (enc20 b) = some b := by
  have := dec20Loop_enc20 b [] hb
  rw [hl, List.append_nil] at this
  simp [dec20, this]

theorem dec20Loop_raw (k : Nat) : ∀ (s rest : S), s.length = k → (∀ c ∈ s, c ≤ 255 ∧ c ≠ 37) →
    dec20Loop k (s ++ rest) = some (s, rest) := by
  induction k with
  | zero => intro s rest hl _; have : s = [] := List.length_eq_zero_iff.mp hl; subst this; rfl
  | succ k ih =>
    intro s rest hl hs
    cases s with
    | nil => simp at hl
    | cons c t =>
      have hc := hs c List.mem_cons_self
      have iht := ih t rest (by simpa using hl) (fun y hy => hs y (List.mem_cons_of_mem _ hy))
      have h1 : ¬ c > 255 := by omega
      simp only [List.cons_append, dec20Loop, h1, ↓reduceIte, hc.2, iht, Option.map_some]

/-- raw (unescaped) identifiers of exactly 20 single-byte characters decode to themselves -/
theorem dec20_raw (s : S) (hl : s.length = 20) (hs : ∀ c ∈ s, c ≤ 255 ∧ c ≠ 37) : dec20 s = some s := by
  have := dec20Loop_raw 20 s [] hl hs
  rw [List.append_nil] at this
  simp [dec20, this]

/-- … 19 or 21 are rejected -/
theorem dec20_raw_wrong_length (s : S) (hl : s.length ≠ 20) (hs : ∀ c ∈ s, c ≤ 255 ∧ c ≠ 37) : dec20 s = none := by
  by_cases hlt : s.length < 20
  · -- the loop runs out of characters
    have : ∀ k (s : S), s.length < k → (∀ c ∈ s, c ≤ 255 ∧ c ≠ 37) → dec20Loop k s = none := by
      intro k
      induction k with
      | zero => intro s h; omega
      | succ k ih =>
        intro s h hs
        cases s with
        | nil => rfl
        | cons c t =>
          have hc := hs c List.mem_cons_self
          have h1 : ¬ c > 255 := by omega
          simp only [dec20Loop, h1, ↓reduceIte, hc.2,
            ih t (by simpa using h) (fun y hy => hs y (List.mem_cons_of_mem _ hy)), Option.map_none]
    simp [dec20, this 20 s hlt hs]
  · have hgt : 20 < s.length := by omega
    have hsplit : s = s.take 20 ++ s.drop 20 := (List.take_append_drop 20 s).symm
    have := dec20Loop_raw 20 (s.take 20) (s.drop 20) (by simp; omega)
      (fun c hc => hs c (List.mem_of_mem_take hc))
    rw [← hsplit] at this
    have hne : s.drop 20 ≠ [] := by
      intro e
      have := congrArg List.length e
      simp at this; omega
    simp only [dec20, this]
    cases hd : s.drop 20 with
    | nil => exact absurd hd hne
    | cons a t => rfl

/-- characters above U+00FF are rejected -/
theorem dec20_rejects_wide (pre post : S) (c : Nat) (hc : c > 255) (hp : pre.length < 20)
    (hs : ∀ x ∈ pre, x ≤ 255 ∧ x ≠ 37) : dec20 (pre ++ c :: post) = none := by
  have : ∀ k (pre : S), pre.length < k → (∀ x ∈ pre, x ≤ 255 ∧ x ≠ 37) → dec20Loop k (pre ++ c :: post) = none := by
    intro k
    induction k with
    | zero => intro pre h; omega
    | succ k ih =>
      intro pre h hs
      cases pre with
      | nil => simp [dec20Loop, hc]
      | cons x t =>
        have hx := hs x List.mem_cons_self
        have h1 : ¬ x > 255 := by omega
        simp only [List.cons_append, dec20Loop, h1, ↓reduceIte, hx.2,
          ih t (by simpa using h) (fun y hy => hs y (List.mem_cons_of_mem _ hy)), Option.map_none]
  simp [dec20, this 20 pre hp hs]

theorem enc20_clean (b : S) (hb : ∀ x ∈ b, x < 256) : (61 : Nat) ∉ enc20 b ∧ (38 : Nat) ∉ enc20 b := by
  have hh : ∀ n, n < 16 → hexChar n ≠ 61 ∧ hexChar n ≠ 38 := by
    intro n hn; unfold hexChar; split <;> constructor <;> omega
  constructor <;>
  · intro hm
    simp only [enc20, List.mem_flatMap, List.mem_cons, List.mem_nil_iff, or_false] at hm
    obtain ⟨x, hx, h⟩ := hm
    have hx' := hb x hx
    rcases h with h | h | h
    · omega
    · have := hh (x / 16) (by omega); omega
    · have := hh (x % 16) (by omega); omega

end Aquatic.Http

namespace Aquatic.Http

/-! ### query strings: well-formed `k=v&k=v…` strings split into exactly their pairs -/

def joinKV : List (S × S) → S
  | [] => []
  | [(k, v)] => k ++ 61 :: v
  | (k, v) :: t => k ++ 61 :: v ++ 38 :: joinKV t

def Clean (s : S) : Prop := (61 : Nat) ∉ s ∧ (38 : Nat) ∉ s

theorem idxFrom_append_of_not_mem (c : Nat) (a b : S) (base : Nat) (h : c ∉ a) :
    idxFrom c (a ++ b) base = idxFrom c b (base + a.length) := by
  induction a generalizing base with
  | nil => simp
  | cons x t ih =>
    simp only [List.mem_cons, not_or] at h
    have hx : ¬ x = c := fun e => h.1 e.symm
    simp only [List.cons_append, idxFrom, hx, ↓reduceIte, ih (base + 1) h.2, List.length_cons]
    congr 1; omega

theorem idxFrom_nil_of_not_mem (c : Nat) (a : S) (base : Nat) (h : c ∉ a) : idxFrom c a base = [] := by
  have := idxFrom_append_of_not_mem c a [] base h
  simpa [idxFrom] using this

theorem sget_mid (a m z : S) : sget (a ++ (m ++ z)) a.length (a.length + m.length) = some m := by
  have h : a.length ≤ a.length + m.length ∧ a.length + m.length ≤ (a ++ (m ++ z)).length := by
    simp only [List.length_append]; omega
  simp only [sget, h, and_self, ↓reduceIte, List.drop_left, Nat.add_sub_cancel_left]
  rw [List.take_append_of_le_length (Nat.le_refl _)]
  simp

theorem sget_tail (a m : S) : sget (a ++ m) a.length (a ++ m).length = some m := by
  have := sget_mid a m []
  simpa using this

theorem segLoop_joinKV (kvs : List (S × S)) : ∀ (pre : S), kvs ≠ [] →
    (∀ kv ∈ kvs, Clean kv.1 ∧ Clean kv.2) →
    segLoop (pre ++ joinKV kvs) (idxFrom 61 (joinKV kvs) pre.length) (idxFrom 38 (joinKV kvs) pre.length)
      pre.length = some kvs := by
  induction kvs with
  | nil => intro _ h; exact absurd rfl h
  | cons kv t ih =>
    intro pre _ hc
    obtain ⟨k, v⟩ := kv
    obtain ⟨⟨hk1, hk2⟩, ⟨hv1, hv2⟩⟩ := hc (k, v) List.mem_cons_self
    cases t with
    | nil =>
      -- the last pair: no further '&'
      have e1 : idxFrom 61 (k ++ 61 :: v) pre.length = [pre.length + k.length] := by
        rw [idxFrom_append_of_not_mem 61 k _ _ hk1]
        simp [idxFrom, idxFrom_nil_of_not_mem 61 v _ hv1]
      have e2 : idxFrom 38 (k ++ 61 :: v) pre.length = [] := by
        rw [idxFrom_append_of_not_mem 38 k _ _ hk2]
        simp [idxFrom, idxFrom_nil_of_not_mem 38 v _ hv2]
      have s1 : sget (pre ++ (k ++ 61 :: v)) pre.length (pre.length + k.length) = some k := sget_mid pre k (61 :: v)
      have s2 : sget (pre ++ (k ++ 61 :: v)) (pre.length + k.length + 1) (pre ++ (k ++ 61 :: v)).length = some v := by
        have := sget_tail (pre ++ k ++ [61]) v
        simpa [Nat.add_assoc] using this
      simp only [joinKV, e1, e2, segLoop, List.headD_nil, s1, s2, ↓reduceIte]
    | cons kv2 t2 =>
      have hne : kv2 :: t2 ≠ [] := by simp
      have ihh := ih (pre ++ k ++ 61 :: v ++ [38]) hne (fun x hx => hc x (List.mem_cons_of_mem _ hx))
      have hj : joinKV ((k, v) :: kv2 :: t2) = k ++ 61 :: v ++ 38 :: joinKV (kv2 :: t2) := rfl
      have e1 : idxFrom 61 (k ++ 61 :: v ++ 38 :: joinKV (kv2 :: t2)) pre.length =
          (pre.length + k.length) :: idxFrom 61 (joinKV (kv2 :: t2)) (pre.length + k.length + 1 + v.length + 1) := by
        rw [List.append_assoc, idxFrom_append_of_not_mem 61 k _ _ hk1]
        simp only [List.cons_append, idxFrom, ↓reduceIte]
        rw [idxFrom_append_of_not_mem 61 v _ _ hv1]
        simp [idxFrom]
      have e2 : idxFrom 38 (k ++ 61 :: v ++ 38 :: joinKV (kv2 :: t2)) pre.length =
          (pre.length + k.length + 1 + v.length) :: idxFrom 38 (joinKV (kv2 :: t2)) (pre.length + k.length + 1 + v.length + 1) := by
        rw [List.append_assoc, idxFrom_append_of_not_mem 38 k _ _ hk2]
        have : ¬ (61 : Nat) = 38 := by omega
        simp only [List.cons_append, idxFrom, this, ↓reduceIte]
        rw [idxFrom_append_of_not_mem 38 v _ _ hv2]
        simp [idxFrom]
      have s1 : sget (pre ++ (k ++ 61 :: v ++ 38 :: joinKV (kv2 :: t2))) pre.length (pre.length + k.length) = some k := by
        have := sget_mid pre k (61 :: v ++ 38 :: joinKV (kv2 :: t2))
        simpa using this
      have s2 : sget (pre ++ (k ++ 61 :: v ++ 38 :: joinKV (kv2 :: t2))) (pre.length + k.length + 1)
          (pre.length + k.length + 1 + v.length) = some v := by
        have := sget_mid (pre ++ k ++ [61]) v (38 :: joinKV (kv2 :: t2))
        simpa [Nat.add_assoc] using this
      have hlen : ¬ pre.length + k.length + 1 + v.length = (pre ++ (k ++ 61 :: v ++ 38 :: joinKV (kv2 :: t2))).length := by
        simp only [List.length_append, List.length_cons]; omega
      have hpre : (pre ++ k ++ 61 :: v ++ [38]).length = pre.length + k.length + 1 + v.length + 1 := by
        simp only [List.length_append, List.length_cons, List.length_nil]; omega
      have hs : pre ++ (k ++ 61 :: v ++ 38 :: joinKV (kv2 :: t2)) = (pre ++ k ++ 61 :: v ++ [38]) ++ joinKV (kv2 :: t2) := by
        simp
      rw [hpre] at ihh
      simp only [hj, e1, e2, segLoop, List.headD_cons, s1, s2, hlen, ↓reduceIte, List.tail_cons]
      rw [hs, ihh]
      rfl

/-- a well-formed query string — `=` and `&` only as separators — splits into exactly its pairs -/
theorem segments_joinKV (kvs : List (S × S)) (hne : kvs ≠ []) (hc : ∀ kv ∈ kvs, Clean kv.1 ∧ Clean kv.2) :
    segments (joinKV kvs) = some kvs := by
  have := segLoop_joinKV kvs [] hne hc
  simpa [segments] using this

end Aquatic.Http

namespace Aquatic.Http

open Aquatic.Generated.Http

/-! ### the pairs a written announce consists of -/

def kInfoHash : S := [105, 110, 102, 111, 95, 104, 97, 115, 104]
def kPeerId : S := [112, 101, 101, 114, 95, 105, 100]
def kPort : S := [112, 111, 114, 116]
def kLeft : S := [108, 101, 102, 116]
def kUploaded : S := [117, 112, 108, 111, 97, 100, 101, 100]
def kDownloaded : S := [100, 111, 119, 110, 108, 111, 97, 100, 101, 100]
def kEvent : S := [101, 118, 101, 110, 116]
def kCompact : S := [99, 111, 109, 112, 97, 99, 116]
def kNumwant : S := [110, 117, 109, 119, 97, 110, 116]
def kKey : S := [107, 101, 121]

/-- the parser's key table is the tracker protocol's parameter names -/
theorem announceKeys_eq :
    announceKeys = [kInfoHash, kPeerId, kPort, kLeft, kUploaded, kDownloaded, kEvent, kCompact, kNumwant, kKey] := by
  decide

def eventName : Nat → Option S
  | 0 => some [115, 116, 97, 114, 116, 101, 100]
  | 1 => some [115, 116, 111, 112, 112, 101, 100]
  | 2 => some [99, 111, 109, 112, 108, 101, 116, 101, 100]
  | _ => none

def announceKVs (urlEncode : S → S) (a : Announce) : List (S × S) :=
  [(kInfoHash, enc20 a.infoHash), (kPeerId, enc20 a.peerId), (kPort, itoa a.port), (kUploaded, itoa a.uploaded),
   (kDownloaded, itoa a.downloaded), (kLeft, itoa a.left)] ++
  (match eventName a.event with | some n => [(kEvent, n)] | none => []) ++
  (match a.numwant with | some n => [(kNumwant, itoa n)] | none => []) ++
  (match a.key with | some k => [(kKey, urlEncode k)] | none => []) ++
  [(kCompact, [49])]

theorem joinKV_cons_cons (k v : S) (kv : S × S) (t : List (S × S)) :
    joinKV ((k, v) :: kv :: t) = k ++ 61 :: v ++ 38 :: joinKV (kv :: t) := rfl

theorem joinKV_single (k v : S) : joinKV [(k, v)] = k ++ 61 :: v := rfl

/-- the written path is `/announce?` followed by the `k=v` pairs joined with `&` -/
theorem writeAnnouncePath_eq (urlEncode : S → S) (a : Announce) :
    writeAnnouncePath urlEncode a =
      [47, 97, 110, 110, 111, 117, 110, 99, 101] ++ 63 :: joinKV (announceKVs urlEncode a) := by
  have hev : a.event = 0 ∨ a.event = 1 ∨ a.event = 2 ∨ 3 ≤ a.event := by omega
  rcases hev with h | h | h | h
  · cases hn : a.numwant <;> cases hk : a.key <;>
      simp [writeAnnouncePath, announceKVs, L, announceRequestLits, h, hn, hk, eventName, joinKV,
        kInfoHash, kPeerId, kPort, kLeft, kUploaded, kDownloaded, kEvent, kCompact, kNumwant, kKey]
  · cases hn : a.numwant <;> cases hk : a.key <;>
      simp [writeAnnouncePath, announceKVs, L, announceRequestLits, h, hn, hk, eventName, joinKV,
        kInfoHash, kPeerId, kPort, kLeft, kUploaded, kDownloaded, kEvent, kCompact, kNumwant, kKey]
  · cases hn : a.numwant <;> cases hk : a.key <;>
      simp [writeAnnouncePath, announceKVs, L, announceRequestLits, h, hn, hk, eventName, joinKV,
        kInfoHash, kPeerId, kPort, kLeft, kUploaded, kDownloaded, kEvent, kCompact, kNumwant, kKey]
  · obtain ⟨m, hm⟩ : ∃ m, a.event = m + 3 := ⟨a.event - 3, by omega⟩
    cases hn : a.numwant <;> cases hk : a.key <;>
      simp [writeAnnouncePath, announceKVs, L, announceRequestLits, hm, hn, hk, eventName, joinKV,
        kInfoHash, kPeerId, kPort, kLeft, kUploaded, kDownloaded, kEvent, kCompact, kNumwant, kKey]

theorem splitPath_of (a b : S) (h : (63 : Nat) ∉ a) : splitPath (a ++ 63 :: b) = (a, some b) := by
  have : idxFrom 63 (a ++ 63 :: b) 0 = a.length :: idxFrom 63 b (a.length + 1) := by
    rw [idxFrom_append_of_not_mem 63 a _ 0 h]
    simp [idxFrom]
  simp [splitPath, this]

/-! ### what each key does -/

theorem step_infoHash (d : S → Option S) (a : Acc) (v : S) :
    accStep d a (kInfoHash, v) = (dec20 v).map (fun x => { a with infoHash := some x }) := by
  simp [accStep, announceKeys_eq, kInfoHash]
theorem step_peerId (d : S → Option S) (a : Acc) (v : S) :
    accStep d a (kPeerId, v) = (dec20 v).map (fun x => { a with peerId := some x }) := by
  simp [accStep, announceKeys_eq, kInfoHash, kPeerId]
theorem step_port (d : S → Option S) (a : Acc) (v : S) :
    accStep d a (kPort, v) = (parseUInt 65536 v).map (fun x => { a with port := some x }) := by
  simp [accStep, announceKeys_eq, kInfoHash, kPeerId, kPort]
theorem step_left (d : S → Option S) (a : Acc) (v : S) :
    accStep d a (kLeft, v) = (parseUInt usizeBound v).map (fun x => { a with left := some x }) := by
  simp [accStep, announceKeys_eq, kInfoHash, kPeerId, kPort, kLeft]
theorem step_uploaded (d : S → Option S) (a : Acc) (v : S) :
    accStep d a (kUploaded, v) = (parseUInt usizeBound v).map (fun x => { a with uploaded := some x }) := by
  simp [accStep, announceKeys_eq, kInfoHash, kPeerId, kPort, kLeft, kUploaded]
theorem step_downloaded (d : S → Option S) (a : Acc) (v : S) :
    accStep d a (kDownloaded, v) = (parseUInt usizeBound v).map (fun x => { a with downloaded := some x }) := by
  simp [accStep, announceKeys_eq, kInfoHash, kPeerId, kPort, kLeft, kUploaded, kDownloaded]
theorem step_event (d : S → Option S) (a : Acc) (v : S) :
    accStep d a (kEvent, v) = (eventOf v).map (fun x => { a with event := x }) := by
  simp [accStep, announceKeys_eq, kInfoHash, kPeerId, kPort, kLeft, kUploaded, kDownloaded, kEvent]
theorem step_compact (d : S → Option S) (a : Acc) (v : S) :
    accStep d a (kCompact, v) = (if v = [49] then some a else none) := by
  simp [accStep, announceKeys_eq, kInfoHash, kPeerId, kPort, kLeft, kUploaded, kDownloaded, kEvent, kCompact]
theorem step_numwant (d : S → Option S) (a : Acc) (v : S) :
    accStep d a (kNumwant, v) = (parseUInt usizeBound v).map (fun x => { a with numwant := some x }) := by
  simp [accStep, announceKeys_eq, kInfoHash, kPeerId, kPort, kLeft, kUploaded, kDownloaded, kEvent, kCompact, kNumwant]
theorem step_key (d : S → Option S) (a : Acc) (v : S) :
    accStep d a (kKey, v) =
      (if (v.map utf8Len).sum > keyMaxLen then none else (d v).map (fun x => { a with key := some x })) := by
  simp [accStep, announceKeys_eq, kInfoHash, kPeerId, kPort, kLeft, kUploaded, kDownloaded, kEvent, kCompact, kNumwant, kKey]

/-- unknown keys are ignored -/
theorem step_unknown (d : S → Option S) (a : Acc) (k v : S) (h : k ∉ announceKeys) :
    accStep d a (k, v) = some a := by
  rw [announceKeys_eq] at h
  simp only [List.mem_cons, List.mem_nil_iff, or_false, not_or] at h
  obtain ⟨h0, h1, h2, h3, h4, h5, h6, h7, h8, h9⟩ := h
  simp [accStep, announceKeys_eq, h0, h1, h2, h3, h4, h5, h6, h7, h8, h9]

end Aquatic.Http

namespace Aquatic.Http

open Aquatic.Generated.Http

/-! ### parameter order: each pair is parsed on its own and updates its own field -/

inductive Upd where
  | ih (x : S) | pid (x : S) | port (n : Nat) | left (n : Nat) | up (n : Nat) | down (n : Nat)
  | ev (n : Nat) | nw (n : Nat) | key (k : S) | nop

def applyU (a : Acc) : Upd → Acc
  | .ih x => { a with infoHash := some x }
  | .pid x => { a with peerId := some x }
  | .port n => { a with port := some n }
  | .left n => { a with left := some n }
  | .up n => { a with uploaded := some n }
  | .down n => { a with downloaded := some n }
  | .ev n => { a with event := n }
  | .nw n => { a with numwant := some n }
  | .key k => { a with key := some k }
  | .nop => a

def fieldIdx : Upd → Nat
  | .ih _ => 0 | .pid _ => 1 | .port _ => 2 | .left _ => 3 | .up _ => 4 | .down _ => 5
  | .ev _ => 6 | .nop => 7 | .nw _ => 8 | .key _ => 9

/-- what a pair means, independently of everything parsed before it -/
def parsed (d : S → Option S) (k v : S) : Option Upd :=
  if k = kInfoHash then (dec20 v).map .ih
  else if k = kPeerId then (dec20 v).map .pid
  else if k = kPort then (parseUInt 65536 v).map .port
  else if k = kLeft then (parseUInt usizeBound v).map .left
  else if k = kUploaded then (parseUInt usizeBound v).map .up
  else if k = kDownloaded then (parseUInt usizeBound v).map .down
  else if k = kEvent then (eventOf v).map .ev
  else if k = kCompact then (if v = [49] then some .nop else none)
  else if k = kNumwant then (parseUInt usizeBound v).map .nw
  else if k = kKey then (if (v.map utf8Len).sum > keyMaxLen then none else (d v).map .key)
  else some .nop

theorem accStep_eq (d : S → Option S) (a : Acc) (k v : S) :
    accStep d a (k, v) = (parsed d k v).map (applyU a) := by
  unfold parsed
  by_cases h0 : k = kInfoHash
  · subst h0; simp [step_infoHash, applyU, Option.map_map, Function.comp_def]
  by_cases h1 : k = kPeerId
  · subst h1; simp [step_peerId, h0, applyU, Option.map_map, Function.comp_def]
  by_cases h2 : k = kPort
  · subst h2; simp [step_port, h0, h1, applyU, Option.map_map, Function.comp_def]
  by_cases h3 : k = kLeft
  · subst h3; simp [step_left, h0, h1, h2, applyU, Option.map_map, Function.comp_def]
  by_cases h4 : k = kUploaded
  · subst h4; simp [step_uploaded, h0, h1, h2, h3, applyU, Option.map_map, Function.comp_def]
  by_cases h5 : k = kDownloaded
  · subst h5; simp [step_downloaded, h0, h1, h2, h3, h4, applyU, Option.map_map, Function.comp_def]
  by_cases h6 : k = kEvent
  · subst h6; simp [step_event, h0, h1, h2, h3, h4, h5, applyU, Option.map_map, Function.comp_def]
  by_cases h7 : k = kCompact
  · subst h7
    simp only [step_compact, h0, h1, h2, h3, h4, h5, h6, ↓reduceIte]
    split <;> simp [applyU]
  by_cases h8 : k = kNumwant
  · subst h8; simp [step_numwant, h0, h1, h2, h3, h4, h5, h6, h7, applyU, Option.map_map, Function.comp_def]
  by_cases h9 : k = kKey
  · subst h9
    simp only [step_key, h0, h1, h2, h3, h4, h5, h6, h7, h8, ↓reduceIte]
    split <;> simp [applyU, Option.map_map, Function.comp_def]
  · have : k ∉ announceKeys := by
      rw [announceKeys_eq]; simp [h0, h1, h2, h3, h4, h5, h6, h7, h8, h9]
    simp [step_unknown d a k v this, h0, h1, h2, h3, h4, h5, h6, h7, h8, h9, applyU]

theorem applyU_comm (a : Acc) (u1 u2 : Upd) (h : u1 = .nop ∨ u2 = .nop ∨ fieldIdx u1 ≠ fieldIdx u2) :
    applyU (applyU a u1) u2 = applyU (applyU a u2) u1 := by
  cases u1 <;> cases u2 <;> simp_all [applyU, fieldIdx]

/-- the field a pair updates is determined by its key -/
theorem parsed_field (d : S → Option S) (k v : S) (u : Upd) (h : parsed d k v = some u) :
    u = .nop ∨ announceKeys.getD (fieldIdx u) [] = k := by
  unfold parsed at h
  rw [announceKeys_eq]
  by_cases h0 : k = kInfoHash
  · subst h0; simp only [↓reduceIte, Option.map_eq_some_iff] at h; obtain ⟨x, _, rfl⟩ := h; right; simp [fieldIdx]
  by_cases h1 : k = kPeerId
  · subst h1; simp only [h0, ↓reduceIte, Option.map_eq_some_iff] at h; obtain ⟨x, _, rfl⟩ := h; right; simp [fieldIdx]
  by_cases h2 : k = kPort
  · subst h2; simp only [h0, h1, ↓reduceIte, Option.map_eq_some_iff] at h; obtain ⟨x, _, rfl⟩ := h; right; simp [fieldIdx]
  by_cases h3 : k = kLeft
  · subst h3; simp only [h0, h1, h2, ↓reduceIte, Option.map_eq_some_iff] at h; obtain ⟨x, _, rfl⟩ := h; right; simp [fieldIdx]
  by_cases h4 : k = kUploaded
  · subst h4; simp only [h0, h1, h2, h3, ↓reduceIte, Option.map_eq_some_iff] at h; obtain ⟨x, _, rfl⟩ := h; right; simp [fieldIdx]
  by_cases h5 : k = kDownloaded
  · subst h5; simp only [h0, h1, h2, h3, h4, ↓reduceIte, Option.map_eq_some_iff] at h; obtain ⟨x, _, rfl⟩ := h; right; simp [fieldIdx]
  by_cases h6 : k = kEvent
  · subst h6; simp only [h0, h1, h2, h3, h4, h5, ↓reduceIte, Option.map_eq_some_iff] at h; obtain ⟨x, _, rfl⟩ := h; right; simp [fieldIdx]
  by_cases h7 : k = kCompact
  · subst h7
    simp only [h0, h1, h2, h3, h4, h5, h6, ↓reduceIte] at h
    by_cases hv : v = [49]
    · simp only [hv, ↓reduceIte, Option.some.injEq] at h; left; exact h.symm
    · simp [hv] at h
  by_cases h8 : k = kNumwant
  · subst h8; simp only [h0, h1, h2, h3, h4, h5, h6, h7, ↓reduceIte, Option.map_eq_some_iff] at h; obtain ⟨x, _, rfl⟩ := h; right; simp [fieldIdx]
  by_cases h9 : k = kKey
  · subst h9
    simp only [h0, h1, h2, h3, h4, h5, h6, h7, h8, ↓reduceIte] at h
    by_cases hv : (v.map utf8Len).sum > keyMaxLen
    · simp [hv] at h
    · simp only [hv, ↓reduceIte, Option.map_eq_some_iff] at h; obtain ⟨x, _, rfl⟩ := h; right; simp [fieldIdx]
  · simp only [h0, h1, h2, h3, h4, h5, h6, h7, h8, h9, ↓reduceIte, Option.some.injEq] at h
    left; exact h.symm

/-- two pairs with different keys can be processed in either order -/
theorem accStep_comm (d : S → Option S) (z : Option Acc) (x y : S × S) (hxy : x.1 ≠ y.1) :
    (z.bind (fun a => accStep d a x)).bind (fun a => accStep d a y) =
      (z.bind (fun a => accStep d a y)).bind (fun a => accStep d a x) := by
  obtain ⟨k1, v1⟩ := x
  obtain ⟨k2, v2⟩ := y
  cases z with
  | none => rfl
  | some a =>
    simp only [Option.bind_some, accStep_eq]
    cases h1 : parsed d k1 v1 with
    | none => cases h2 : parsed d k2 v2 <;> simp
    | some u1 =>
      cases h2 : parsed d k2 v2 with
      | none => simp
      | some u2 =>
        simp only [Option.map_some, Option.bind_some, h1, h2]
        congr 1
        apply applyU_comm
        rcases parsed_field d k1 v1 u1 h1 with e1 | e1
        · exact Or.inl e1
        · rcases parsed_field d k2 v2 u2 h2 with e2 | e2
          · exact Or.inr (Or.inl e2)
          · right; right
            intro he
            apply hxy
            simp only at e1 e2 ⊢
            rw [← e1, ← e2, he]

theorem foldAcc_eq_foldl (d : S → Option S) (kvs : List (S × S)) : ∀ a,
    foldAcc d a kvs = kvs.foldl (fun z kv => z.bind (fun a => accStep d a kv)) (some a) := by
  induction kvs with
  | nil => intro a; rfl
  | cons kv t ih =>
    intro a
    simp only [foldAcc, List.foldl_cons, Option.bind_some]
    cases h : accStep d a kv with
    | none =>
      simp only [Option.bind_none]
      clear ih h
      induction t with
      | nil => rfl
      | cons x t' ih' => simpa using ih'
    | some a' => simpa using ih a'

theorem nodup_map_inj (l : List (S × S)) (hn : (l.map (·.1)).Nodup) (x y : S × S) (hx : x ∈ l) (hy : y ∈ l)
    (hxy : x.1 = y.1) : x = y := by
  induction l with
  | nil => cases hx
  | cons e t ih =>
    simp only [List.map_cons, List.nodup_cons] at hn
    rcases List.mem_cons.mp hx with ex | ex <;> rcases List.mem_cons.mp hy with ey | ey
    · rw [ex, ey]
    · subst ex
      exact absurd (List.mem_map_of_mem (f := (·.1)) ey) (by rw [← hxy]; exact hn.1)
    · subst ey
      exact absurd (List.mem_map_of_mem (f := (·.1)) ex) (by rw [hxy]; exact hn.1)
    · exact ih hn.2 ex ey

/-- **parameter order is irrelevant**: any permutation of pairs with pairwise different keys is
folded to the same result (success or failure) -/
theorem foldAcc_perm (d : S → Option S) (l₁ l₂ : List (S × S)) (hp : l₁.Perm l₂)
    (hn : (l₁.map (·.1)).Nodup) (a : Acc) : foldAcc d a l₁ = foldAcc d a l₂ := by
  rw [foldAcc_eq_foldl, foldAcc_eq_foldl]
  apply hp.foldl_eq'
  intro x hx y hy z
  by_cases hxy : x.1 = y.1
  · -- the same key twice in a duplicate-free key list: the same pair
    have : x = y := nodup_map_inj l₁ hn x y hx hy hxy
    subst this; rfl
  · exact accStep_comm d z x y hxy

end Aquatic.Http
