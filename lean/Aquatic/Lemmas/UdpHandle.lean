/- Inversion lemmas about the request parser used by the C06 / C18 theorems. -/
import Aquatic.Lemmas.Bytes
import Aquatic.Model.UdpHandle

namespace Aquatic.UdpHandle

open Aquatic.Bep15 Aquatic.UdpCodec

theorem chunkNats_length (w k : Nat) (b : Bytes) : (chunkNats w k b).length = k := by
  induction k generalizing b with
  | zero => rfl
  | succ k ih => simp [chunkNats, ih]

theorem parseConnect_inv (b : Bytes) (r : Request) (h : parseConnect b = .ok r) :
    16 ≤ b.length ∧ ∃ tid, r = .connect tid := by
  unfold parseConnect at h
  split at h
  · rename_i p x t h0 h1 h2
    split at h
    · refine ⟨?_, _, (Except.ok.inj h).symm⟩
      refine Nat.le_of_not_lt (fun hl => ?_)
      rw [slice_none_of_short b 12 16 hl] at h2
      cases h2
    · cases h
  · cases h

theorem parseAnnounce_inv (b : Bytes) (r : Request) (h : parseAnnounce b = .ok r) :
    ∃ a, r = .announce a ∧ a.port ≠ 0 := by
  unfold parseAnnounce at h
  split at h
  · cases h
  · split at h
    · cases h
    · split at h
      · cases h
      · split at h
        · cases h
        · rename_i hp
          exact ⟨_, (Except.ok.inj h).symm, hp⟩

theorem parseScrape_inv (b : Bytes) (ms : Nat) (r : Request) (h : parseScrape b ms = .ok r) :
    ∃ cid tid hs, r = .scrape cid tid hs ∧ hs.length ≤ ms := by
  unfold parseScrape at h
  split at h
  · simp only at h
    split at h
    · cases h
    · split at h
      · cases h
      · refine ⟨_, _, _, (Except.ok.inj h).symm, ?_⟩
        rw [chunkNats_length]
        exact Nat.min_le_left _ _
  · cases h

theorem parseRequest_inv (b : Bytes) (ms : Nat) (r : Request) (h : parseRequest b ms = .ok r) :
    (16 ≤ b.length ∧ ∃ tid, r = .connect tid) ∨ (∃ a, r = .announce a ∧ a.port ≠ 0) ∨
    (∃ cid tid hs, r = .scrape cid tid hs ∧ hs.length ≤ ms) := by
  unfold parseRequest at h
  split at h
  · cases h
  · split at h
    · exact .inl (parseConnect_inv b r h)
    · exact .inr (.inl (parseAnnounce_inv b r h))
    · exact .inr (.inr (parseScrape_inv b ms r h))
    · cases h

end Aquatic.UdpHandle
