/-
  Lemmas about the two-half selection `extractHalves`
  (LargePeerMap::extract_response_peers of the UDP and HTTP stores).
-/
import Aquatic.Model.Store

namespace Aquatic

theorem halvesBounds_ok {len n : Nat} (h : n < len) :
    halvesBounds len n = .ok (max 1 (len / 2 - n / 2), max (len / 2 + 1) (len - n / 2)) := by
  have h1 : n / 2 ≤ len / 2 := Nat.div_le_div_right (Nat.le_of_lt h)
  have h2 : n / 2 ≤ len := by omega
  simp [halvesBounds, csub, h1, h2, bind, Except.bind, pure, Except.pure]

/-- the subtractions of the index arithmetic never underflow (C12 for the selection) -/
theorem halvesBounds_no_panic (len n : Nat) (h : n < len) : ∃ b, halvesBounds len n = .ok b :=
  ⟨_, halvesBounds_ok h⟩

theorem extractHalves_all {α : Type} (keys : List α) (n o1 o2 : Nat) (h : keys.length ≤ n) :
    extractHalves keys n o1 o2 = .ok keys := by
  simp [extractHalves, h]

/-- the exact value of the selection for in-range draws, and where the two windows lie -/
theorem extractHalves_window {α : Type} (keys : List α) (n o1 o2 : Nat) (h : n < keys.length)
    (ho : offsetsOk keys.length n o1 o2) :
    extractHalves keys n o1 o2 = .ok ((keys.drop o1).take (n / 2) ++ (keys.drop o2).take (n / 2))
    ∧ o1 + n / 2 ≤ o2 ∧ o2 + n / 2 ≤ keys.length := by
  unfold offsetsOk at ho
  rw [halvesBounds_ok h] at ho
  simp only at ho
  obtain ⟨ho1, ho2, ho3⟩ := ho
  have hb1 : o1 + n / 2 ≤ o2 := by omega
  have hb2 : o2 + n / 2 ≤ keys.length := by omega
  refine ⟨?_, hb1, hb2⟩
  have hnle : ¬ keys.length ≤ n := by omega
  have g1 : getRange keys o1 (o1 + n / 2) = some ((keys.drop o1).take (n / 2)) := by
    have : o1 + n / 2 ≤ keys.length := by omega
    simp [getRange, this]
  have g2 : getRange keys o2 (o2 + n / 2) = some ((keys.drop o2).take (n / 2)) := by
    simp [getRange, hb2]
  simp [extractHalves, hnle, halvesBounds_ok h, g1, g2, bind, Except.bind, pure, Except.pure]

theorem windows_sublist {α : Type} (keys : List α) (k o1 o2 : Nat) (h : o1 + k ≤ o2) :
    ((keys.drop o1).take k ++ (keys.drop o2).take k).Sublist keys := by
  have hA : ((keys.drop o1).take k).Sublist (keys.take o2) := by
    rw [List.take_drop]
    exact (List.drop_sublist _ _).trans (List.take_sublist_take_left h)
  have hB : ((keys.drop o2).take k).Sublist (keys.drop o2) := List.take_sublist _ _
  have := hA.append hB
  rwa [List.take_append_drop] at this

/-- C02 for the heap selection: for every in-range pair of draws the result is
defined (no panic), a sublist of the stored keys (hence duplicate-free and
sound), never longer than `n`, everything when `len ≤ n` and exactly
`2·(n/2) ≥ n − 1` otherwise. -/
theorem extractHalves_spec {α : Type} (keys : List α) (n o1 o2 : Nat)
    (ho : keys.length ≤ n ∨ offsetsOk keys.length n o1 o2) :
    ∃ r, extractHalves keys n o1 o2 = .ok r ∧ r.Sublist keys ∧ r.length ≤ n ∧
      (keys.length ≤ n → r = keys) ∧ (n < keys.length → r.length = 2 * (n / 2) ∧ n - 1 ≤ r.length) := by
  by_cases hle : keys.length ≤ n
  · refine ⟨keys, extractHalves_all keys n o1 o2 hle, List.Sublist.refl _, hle, fun _ => rfl, ?_⟩
    intro h; omega
  · have hlt : n < keys.length := by omega
    have ho' : offsetsOk keys.length n o1 o2 := by
      rcases ho with h | h
      · exact absurd h hle
      · exact h
    obtain ⟨heq, hb1, hb2⟩ := extractHalves_window keys n o1 o2 hlt ho'
    have hlen : ((keys.drop o1).take (n / 2) ++ (keys.drop o2).take (n / 2)).length = 2 * (n / 2) := by
      simp only [List.length_append, List.length_take, List.length_drop]
      omega
    refine ⟨_, heq, windows_sublist keys (n / 2) o1 o2 hb1, ?_, fun h => absurd h hle, fun _ => ⟨hlen, ?_⟩⟩
    · rw [hlen]; omega
    · rw [hlen]; omega

/-- in-range draws always exist, so the quantification over draws is not vacuous -/
theorem offsetsOk_exists (len n : Nat) (h : n < len) : offsetsOk len n 0 (len / 2) := by
  unfold offsetsOk
  rw [halvesBounds_ok h]
  simp only
  omega

end Aquatic
