/- Lemmas for C04: the concurrent swarm state model against the sequential torrent map. -/
import Aquatic.Model.Conc
import Aquatic.Lemmas.Refine

namespace Aquatic.Conc

open Aquatic

/-! ### the shard list and its sequential view -/

theorem view_get (sh : List (Nat × (Nat × PeerMap))) (h : Nat) :
    TMap.get (sh.map (fun x => (x.1, x.2.2))) h = (sget sh h).map (·.2) := by
  induction sh with
  | nil => rfl
  | cons x t ih =>
    obtain ⟨h', a, pm⟩ := x
    by_cases e : h' = h <;> simp [TMap.get, sget, e, ih]

theorem view_sset (sh : List (Nat × (Nat × PeerMap))) (h a : Nat) (pm : PeerMap)
    (hk : ∀ a' pm', sget sh h = some (a', pm') → a' = a) :
    (sset sh h (a, pm)).map (fun x => (x.1, x.2.2)) = TMap.set (sh.map (fun x => (x.1, x.2.2))) h pm := by
  induction sh with
  | nil => rfl
  | cons x t ih =>
    obtain ⟨h', a', pm'⟩ := x
    by_cases e : h' = h
    · simp [sset, TMap.set, e]
    · simp only [sset, sget, e, if_false] at hk ⊢
      simp [TMap.set, e, ih hk]

theorem sget_sset (sh : List (Nat × (Nat × PeerMap))) (h h' : Nat) (v : Nat × PeerMap) :
    sget (sset sh h v) h' = if h' = h then some v else sget sh h' := by
  induction sh with
  | nil =>
    by_cases e : h' = h
    · simp [sset, sget, e]
    · have : ¬ h = h' := fun x => e x.symm
      simp [sset, sget, e, this]
  | cons x t ih =>
    obtain ⟨k, v'⟩ := x
    by_cases e1 : k = h
    · subst e1
      by_cases e2 : h' = k
      · simp [sset, sget, e2]
      · have : ¬ k = h' := fun x => e2 x.symm
        simp [sset, sget, e2, this]
    · by_cases e2 : k = h'
      · subst e2; simp [sset, sget, e1]
      · simp [sset, sget, e1, e2, ih]

theorem sget_of_mem {sh : List (Nat × (Nat × PeerMap))} (hn : (sh.map (·.1)).Nodup) {k a : Nat} {pm : PeerMap}
    (hm : (k, (a, pm)) ∈ sh) : sget sh k = some (a, pm) := by
  induction sh with
  | nil => cases hm
  | cons z t ih =>
    obtain ⟨k', v'⟩ := z
    simp only [List.map_cons, List.nodup_cons] at hn
    rcases List.mem_cons.mp hm with e | e
    · cases e; simp [sget]
    · have : k' ≠ k := by
        intro ek; subst ek
        exact hn.1 (List.mem_map.mpr ⟨(k', a, pm), e, rfl⟩)
      simp [sget, this, ih hn.2 e]

theorem view_hashes (s : CState) : (view s).hashes = s.shard.map (·.1) := by
  simp [view, TMap.hashes, List.map_map, Function.comp]

/-! ### cleaning one torrent, in the reference -/

def cleanOne (r : RState) (h now : Nat) : RState :=
  r.filter (fun e => !decide (e.hash = h) || decide (now < e.peer.deadline))

theorem proj_cleanOne (r : RState) (h now h' : Nat) :
    proj (cleanOne r h now) h' = if h' = h then (proj r h).filter (validE now) else proj r h' := by
  unfold proj cleanOne
  rw [List.filter_filter]
  by_cases c : h' = h
  · subst c
    simp only [if_true, List.filter_map, List.filter_filter]
    congr 1
    apply List.filter_congr
    intro e _
    by_cases c1 : e.hash = h' <;> simp [c1, validE, isValid, Function.comp]
  · simp only [c, if_false]
    congr 1
    apply List.filter_congr
    intro e _
    by_cases c1 : e.hash = h'
    · simp [c1, c]
    · simp [c1]

/-- cleaning the peer map of one torrent keeps the simulation, with that torrent cleaned in the reference -/
theorem sim1_cleanOne {c : Nat} {m : TMap} {r : RState} (hs : Sim1 c m r) (h now : Nat) {pm : PeerMap}
    (hg : m.get h = some pm) :
    ∃ pm' ns ids, pm.clean c true now = .ok (pm', ns, ids) ∧ Sim1 c (m.set h pm') (cleanOne r h now) := by
  obtain ⟨pm', hclean, hinv', hent⟩ := clean_spec c true pm now (hs.1.2 _ (TMap.mem_of_get hg))
  refine ⟨pm', _, _, hclean, TMap.inv_set hs.1 h hinv', ?_⟩
  intro h'
  rw [proj_cleanOne]
  unfold TMap.entriesOf
  rw [TMap.get_set]
  by_cases e : h' = h
  · subst e
    simp only [if_true, hent]
    have := hs.2 h'
    unfold TMap.entriesOf at this
    rw [hg] at this
    exact this.filter _
  · simp only [e, if_false]
    exact hs.2 h'

/-! ### `retain` -/

theorem retain_detached_nil (allowed : Nat → Bool) (hall : ∀ h, allowed h = true) (others : List Pc) (i : Nat)
    (sh : List (Nat × (Nat × PeerMap))) : (retainShard allowed others i sh).2 = [] := by
  induction sh with
  | nil => rfl
  | cons x t ih =>
    obtain ⟨h, a, pm⟩ := x
    simp only [retainShard, hall h, Bool.not_true, Bool.false_eq_true, if_false]
    split
    · exact ih
    · split <;> exact ih

theorem retain_keys_sublist (allowed : Nat → Bool) (others : List Pc) (i : Nat) (sh : List (Nat × (Nat × PeerMap))) :
    ((retainShard allowed others i sh).1.map (·.1)).Sublist (sh.map (·.1)) := by
  induction sh with
  | nil => exact List.Sublist.refl _
  | cons x t ih =>
    obtain ⟨h, a, pm⟩ := x
    simp only [retainShard]
    split
    · exact ih.cons_cons _
    · split
      · exact ih.cons _
      · split
        · exact ih.cons _
        · exact ih.cons_cons _

theorem sget_none_of_not_mem {sh : List (Nat × (Nat × PeerMap))} {h : Nat} (hn : h ∉ sh.map (·.1)) : sget sh h = none := by
  induction sh with
  | nil => rfl
  | cons x t ih =>
    obtain ⟨k, v⟩ := x
    simp only [List.map_cons, List.mem_cons, not_or] at hn
    simp [sget, Ne.symm hn.1, ih hn.2]

/-- what `retain` keeps (no access list in force): everything in other shards, everything somebody
else holds an Arc to, everything non-empty; what it drops had no entries -/
theorem sget_retain (allowed : Nat → Bool) (hall : ∀ h, allowed h = true) (others : List Pc) (i : Nat)
    (sh : List (Nat × (Nat × PeerMap))) (hn : (sh.map (·.1)).Nodup) (h : Nat) :
    sget (retainShard allowed others i sh).1 h =
      match sget sh h with
      | some (a, pm) => if shardOf h = i ∧ heldBy others a = false ∧ pm.entries.isEmpty = true then none else some (a, pm)
      | none => none := by
  induction sh with
  | nil => rfl
  | cons x t ih =>
    obtain ⟨k, a, pm⟩ := x
    simp only [List.map_cons, List.nodup_cons] at hn
    have iht := ih hn.2
    by_cases e : k = h
    · subst e
      have hnone : sget (retainShard allowed others i t).1 k = none :=
        sget_none_of_not_mem (fun hm => hn.1 ((retain_keys_sublist allowed others i t).subset hm))
      simp only [retainShard, hall k, Bool.not_true, Bool.false_eq_true, if_false, sget, if_true]
      by_cases c1 : shardOf k = i
      · by_cases c2 : heldBy others a = true
        · simp [c1, c2, sget]
        · have c2' : heldBy others a = false := by simpa using c2
          by_cases c3 : pm.entries.isEmpty = true
          · simp [c1, c2', c3, hnone]
          · simp [c1, c2', c3, sget]
      · simp [c1, sget]
    · simp only [retainShard, hall k, Bool.not_true, Bool.false_eq_true, if_false]
      split
      · simp [sget, e, iht]
      · split
        · simp [sget, e, iht]
        · simp [sget, e, iht]

end Aquatic.Conc
