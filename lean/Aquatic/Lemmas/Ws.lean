/- Invariants of the WebTorrent store model and its simulation by the reference tracker. -/
import Aquatic.Lemmas.WsRef
import Aquatic.Lemmas.WsSelect

namespace Aquatic.Ws

open Aquatic

def seedCount (ps : Peers) : Nat := ps.countP (fun e => e.2.seeder)

structure TInv (t : Torrent) : Prop where
  nodup : (IMap.keys t.peers).Nodup
  count : t.numSeeders = seedCount t.peers
  expNodup : ∀ pid p, IMap.get t.peers pid = some p → (IMap.keys p.expecting).Nodup

structure MInv (m : WMap) : Prop where
  nodup : (IMap.keys m).Nodup
  tinv : ∀ h t, IMap.get m h = some t → TInv t

theorem tinv_default : TInv {} := ⟨by simp [IMap.keys], rfl, by intro pid p h; simp [IMap.get] at h⟩

def torrentAt (m : WMap) (h : Nat) : Torrent := (IMap.get m h).getD {}

theorem tinv_torrentAt {m : WMap} (hm : MInv m) (h : Nat) : TInv (torrentAt m h) := by
  unfold torrentAt
  cases hg : IMap.get m h with
  | none => exact tinv_default
  | some t => exact hm.tinv h t hg

def peerAt (m : WMap) (h pid : Nat) : Option WPeer := IMap.get (torrentAt m h).peers pid

theorem torrentAt_insert (m : WMap) (h h' : Nat) (t : Torrent) :
    torrentAt (IMap.insert m h t) h' = if h = h' then t else torrentAt m h' := by
  unfold torrentAt
  rw [IMap.get_insert]
  split <;> rfl

theorem minv_insert {m : WMap} (hm : MInv m) (h : Nat) {t : Torrent} (ht : TInv t) : MInv (IMap.insert m h t) := by
  refine ⟨IMap.nodup_insert h t hm.nodup, ?_⟩
  intro h' t' hg
  rw [IMap.get_insert] at hg
  split at hg
  · cases hg; exact ht
  · exact hm.tinv h' t' hg

/-! ### counting -/

theorem seedCount_perm {a b : Peers} (h : a.Perm b) : seedCount a = seedCount b := h.countP_eq _

theorem seedCount_split {l : Peers} {pid : Nat} {p : WPeer} (hn : (IMap.keys l).Nodup) (hg : IMap.get l pid = some p) :
    seedCount l = (if p.seeder then 1 else 0) + seedCount (IMap.without l pid) := by
  rw [seedCount_perm (IMap.perm_split hn hg)]
  simp only [seedCount, List.countP_cons]
  split <;> omega

theorem length_split {l : Peers} {pid : Nat} {p : WPeer} (hn : (IMap.keys l).Nodup) (hg : IMap.get l pid = some p) :
    l.length = 1 + (IMap.without l pid).length := by
  rw [(IMap.perm_split hn hg).length_eq]; simp; omega

theorem seedCount_insert {l : Peers} (pid : Nat) (p : WPeer) (hn : (IMap.keys l).Nodup) :
    seedCount (IMap.insert l pid p) = (if p.seeder then 1 else 0) + seedCount (IMap.without l pid) := by
  rw [seedCount_perm (IMap.insert_perm pid p hn)]
  simp only [seedCount, List.countP_cons]
  split <;> omega

theorem seedCount_swapRemove {l : Peers} (pid : Nat) (hn : (IMap.keys l).Nodup) :
    seedCount (IMap.swapRemove l pid).1 = seedCount (IMap.without l pid) :=
  seedCount_perm (IMap.swapRemove_perm pid hn)

theorem without_of_get_none {l : Peers} {pid : Nat} (hg : IMap.get l pid = none) : IMap.without l pid = l :=
  IMap.without_eq_self (IMap.get_eq_none.mp hg)

/-! ### insert_or_update_peer -/

def updated (old : Option WPeer) (conn : ConnId) (st : WStatus) (vu : Nat) : Option WPeer :=
  match st with
  | .stopped => none
  | .seeding => some ⟨(old.map (·.owner)).getD conn, true, vu, (old.map (·.expecting)).getD []⟩
  | .leeching => some ⟨(old.map (·.owner)).getD conn, false, vu, (old.map (·.expecting)).getD []⟩

theorem insertOrUpdate_spec (t : Torrent) (conn : ConnId) (pid : Nat) (st : WStatus) (vu : Nat) (ht : TInv t) :
    ∃ t1, insertOrUpdate t conn pid st vu = .ok t1 ∧ TInv t1 ∧
      ∀ pid', IMap.get t1.peers pid' =
        if pid' = pid then updated (IMap.get t.peers pid) conn st vu else IMap.get t.peers pid' := by
  obtain ⟨hn, hc, he⟩ := ht
  unfold insertOrUpdate
  cases hg : IMap.get t.peers pid with
  | some p =>
    have hsplit := seedCount_split hn hg
    have hexp := he pid p hg
    cases st with
    | leeching =>
      have hdec : decSeeder t.numSeeders p.seeder = .ok (seedCount (IMap.without t.peers pid)) := by
        unfold decSeeder
        cases hs : p.seeder
        · simp [hs] at hsplit; simp [hc, hsplit]
        · simp [hs] at hsplit
          simp [csub, hc, hsplit]
      simp only [hdec, bind, Except.bind, pure, Except.pure]
      refine ⟨_, rfl, ⟨IMap.nodup_insert _ _ hn, ?_, ?_⟩, ?_⟩
      · simp [seedCount_insert _ _ hn]
      · intro pid' p' hg'
        rw [IMap.get_insert] at hg'
        split at hg'
        · cases hg'; exact hexp
        · exact he pid' p' hg'
      · intro pid'
        rw [IMap.get_insert]
        by_cases e : pid' = pid
        · subst e; simp [updated]
        · simp [e, Ne.symm e]
    | seeding =>
      simp only [pure, Except.pure]
      refine ⟨_, rfl, ⟨IMap.nodup_insert _ _ hn, ?_, ?_⟩, ?_⟩
      · simp only [seedCount_insert _ _ hn, if_true]
        cases hs : p.seeder
        · simp [hs] at hsplit; simp [hc, hsplit]; omega
        · simp [hs] at hsplit; simp [hc, hsplit]
      · intro pid' p' hg'
        rw [IMap.get_insert] at hg'
        split at hg'
        · cases hg'; exact hexp
        · exact he pid' p' hg'
      · intro pid'
        rw [IMap.get_insert]
        by_cases e : pid' = pid
        · subst e; simp [updated]
        · simp [e, Ne.symm e]
    | stopped =>
      have hdec : decSeeder t.numSeeders p.seeder = .ok (seedCount (IMap.without t.peers pid)) := by
        unfold decSeeder
        cases hs : p.seeder
        · simp [hs] at hsplit; simp [hc, hsplit]
        · simp [hs] at hsplit
          simp [csub, hc, hsplit]
      simp only [hdec, bind, Except.bind, pure, Except.pure]
      refine ⟨_, rfl, ⟨IMap.nodup_swapRemove _ hn, ?_, ?_⟩, ?_⟩
      · simp [seedCount_swapRemove _ hn]
      · intro pid' p' hg'
        rw [IMap.get_swapRemove _ _ hn] at hg'
        split at hg'
        · cases hg'
        · exact he pid' p' hg'
      · intro pid'
        rw [IMap.get_swapRemove _ _ hn]
        by_cases e : pid' = pid
        · subst e; simp [updated]
        · simp [e]
  | none =>
    have hw := without_of_get_none hg
    cases st with
    | leeching =>
      simp only [pure, Except.pure]
      refine ⟨_, rfl, ⟨IMap.nodup_insert _ _ hn, ?_, ?_⟩, ?_⟩
      · simp [seedCount_insert _ _ hn, hw, hc]
      · intro pid' p' hg'
        rw [IMap.get_insert] at hg'
        split at hg'
        · cases hg'; simp [IMap.keys]
        · exact he pid' p' hg'
      · intro pid'
        rw [IMap.get_insert]
        by_cases e : pid' = pid
        · subst e; simp [updated]
        · simp [e, Ne.symm e]
    | seeding =>
      simp only [pure, Except.pure]
      refine ⟨_, rfl, ⟨IMap.nodup_insert _ _ hn, ?_, ?_⟩, ?_⟩
      · simp [seedCount_insert _ _ hn, hw, hc]; omega
      · intro pid' p' hg'
        rw [IMap.get_insert] at hg'
        split at hg'
        · cases hg'; simp [IMap.keys]
        · exact he pid' p' hg'
      · intro pid'
        rw [IMap.get_insert]
        by_cases e : pid' = pid
        · subst e; simp [updated]
        · simp [e, Ne.symm e]
    | stopped =>
      simp only [pure, Except.pure]
      refine ⟨_, rfl, ⟨hn, hc, he⟩, ?_⟩
      intro pid'
      by_cases e : pid' = pid
      · subst e; simp [updated, hg]
      · simp [e]

end Aquatic.Ws

namespace Aquatic.Ws

/-! ### changing a stored peer's outstanding offers -/

theorem tinv_setExpecting {t : Torrent} (ht : TInv t) {pid : Nat} {p : WPeer} (hg : IMap.get t.peers pid = some p)
    {e' : List (ExpKey × Nat)} (hn' : (IMap.keys e').Nodup) :
    TInv ⟨IMap.insert t.peers pid { p with expecting := e' }, t.numSeeders⟩ := by
  obtain ⟨hn, hc, he⟩ := ht
  refine ⟨IMap.nodup_insert _ _ hn, ?_, ?_⟩
  · simp only [seedCount_insert _ _ hn]
    rw [hc, seedCount_split hn hg]
  · intro pid' p' hg'
    rw [IMap.get_insert] at hg'
    split at hg'
    · cases hg'; exact hn'
    · exact he pid' p' hg'

/-- the table of outstanding offers after recording `pairs`, as a function -/
def expAfter (f : ExpKey → Option Nat) (vu : Nat) : List ((Nat × Nat) × (Nat × ConnId)) → ExpKey → Option Nat
  | [] => f
  | (off, r) :: t => expAfter (fun k => if k = (r.1, off.1) then some vu else f k) vu t

theorem recordOffers_nodup (exp : List (ExpKey × Nat)) (vu : Nat) (pairs : List ((Nat × Nat) × (Nat × ConnId)))
    (hn : (IMap.keys exp).Nodup) : (IMap.keys (recordOffers exp vu pairs)).Nodup := by
  induction pairs generalizing exp with
  | nil => exact hn
  | cons x t ih => obtain ⟨off, r⟩ := x; exact ih _ (IMap.nodup_insert _ _ hn)

theorem get_recordOffers (exp : List (ExpKey × Nat)) (vu : Nat) (pairs : List ((Nat × Nat) × (Nat × ConnId))) (k : ExpKey) :
    IMap.get (recordOffers exp vu pairs) k = expAfter (IMap.get exp) vu pairs k := by
  induction pairs generalizing exp with
  | nil => rfl
  | cons x t ih =>
    obtain ⟨off, r⟩ := x
    simp only [recordOffers, expAfter]
    rw [ih]
    congr 1
    funext k'
    rw [IMap.get_insert]
    by_cases e : k' = (r.1, off.1)
    · subst e; simp
    · simp [e, Ne.symm e]

theorem expAfter_congr {f g : ExpKey → Option Nat} (h : ∀ k, f k = g k) (vu : Nat)
    (pairs : List ((Nat × Nat) × (Nat × ConnId))) (k : ExpKey) : expAfter f vu pairs k = expAfter g vu pairs k := by
  have : f = g := funext h
  rw [this]

/-! ### handle_offers -/

theorem withOwners_fst (peers : Peers) (recv : List Nat) (h : ∀ r ∈ recv, (IMap.get peers r).isSome) :
    (withOwners peers recv).map (·.1) = recv := by
  induction recv with
  | nil => rfl
  | cons r t ih =>
    have hr := h r List.mem_cons_self
    obtain ⟨p, hp⟩ := Option.isSome_iff_exists.mp hr
    have := ih (fun x hx => h x (List.mem_cons_of_mem _ hx))
    simp only [withOwners, List.filterMap_cons, hp, Option.map_some, List.map_cons] at this ⊢
    rw [this]

theorem withOwners_owner (peers : Peers) (recv : List Nat) :
    ∀ x ∈ withOwners peers recv, (IMap.get peers x.1).map (·.owner) = some x.2 := by
  intro x hx
  simp only [withOwners, List.mem_filterMap] at hx
  obtain ⟨r, _, hr⟩ := hx
  cases hg : IMap.get peers r with
  | none => simp [hg] at hr
  | some p => simp [hg] at hr; subst hr; simp [hg]

structure OffersOut (cfg : WsCfg) (t : Torrent) (now h sender : Nat) (offers : List (Nat × Nat)) (p : WPeer)
    (t2 : Torrent) (msgs : List Msg) (recv : List Nat) : Prop where
  sub : recv.Sublist ((IMap.keys t.peers).filter (fun x => !decide (x = sender)))
  nodup : recv.Nodup
  notSender : sender ∉ recv
  len : recv.length = min (min offers.length cfg.maxOffers) ((IMap.keys t.peers).filter (fun x => !decide (x = sender))).length
  peers : t2 = ⟨IMap.insert t.peers sender { p with expecting := (recordOffers p.expecting (validUntilNew now cfg.maxOfferAge) (offers.zip (withOwners t.peers recv))) }, t.numSeeders⟩
  msgs : msgs = offerMsgs h sender (offers.zip (withOwners t.peers recv))

theorem handleOffers_spec (cfg : WsCfg) (t : Torrent) (now h sender : Nat) (offers : List (Nat × Nat)) (o1 o2 : Nat)
    (ht : TInv t) {p : WPeer} (hg : IMap.get t.peers sender = some p)
    (ho : t.peers.length ≤ min offers.length cfg.maxOffers + 1 ∨
          wsOffsetsOk t.peers.length (min offers.length cfg.maxOffers) o1 o2) :
    ∃ t2 msgs recv, handleOffers cfg t now h sender offers o1 o2 = .ok (t2, msgs) ∧ TInv t2 ∧
      OffersOut cfg t now h sender offers p t2 msgs recv := by
  have hlen : (IMap.keys t.peers).length = t.peers.length := by simp [IMap.keys]
  obtain ⟨recv, hx, hsub, hnd, hns, hle, hall, hexact⟩ :=
    extractWs_spec (IMap.keys t.peers) (min offers.length cfg.maxOffers) sender o1 o2 ht.nodup (by rw [hlen]; exact ho)
  refine ⟨_, _, recv, ?_, ?_, ⟨hsub, hnd, hns, ?_, rfl, rfl⟩⟩
  · simp [handleOffers, hx, hg, bind, Except.bind, pure, Except.pure]
  · exact tinv_setExpecting ht hg (recordOffers_nodup _ _ _ (ht.expNodup sender p hg))
  · by_cases c : ((IMap.keys t.peers).filter (fun x => !decide (x = sender))).length ≤ min offers.length cfg.maxOffers
    · rw [hall c]; omega
    · have := hexact (by omega)
      omega

/-! ### handle_answer -/

theorem handleAnswer_spec (t : Torrent) (conn : ConnId) (h pid toPid oid payload : Nat) (ht : TInv t) :
    (IMap.get t.peers toPid = none ∧ handleAnswer t conn h pid toPid oid payload = (t, [])) ∨
    (∃ r, IMap.get t.peers toPid = some r ∧ IMap.get r.expecting (pid, oid) = none ∧
        handleAnswer t conn h pid toPid oid payload = (t, [Msg.error conn (some h)])) ∨
    (∃ r vu, IMap.get t.peers toPid = some r ∧ IMap.get r.expecting (pid, oid) = some vu ∧
        handleAnswer t conn h pid toPid oid payload =
          (⟨IMap.insert t.peers toPid { r with expecting := (IMap.swapRemove r.expecting (pid, oid)).1 }, t.numSeeders⟩,
           [Msg.answer r.owner h pid oid payload]) ∧
        TInv ⟨IMap.insert t.peers toPid { r with expecting := (IMap.swapRemove r.expecting (pid, oid)).1 }, t.numSeeders⟩) := by
  unfold handleAnswer
  cases hg : IMap.get t.peers toPid with
  | none => exact .inl ⟨rfl, rfl⟩
  | some r =>
    refine .inr ?_
    have hs := IMap.swapRemove_snd r.expecting (pid, oid)
    cases hx : IMap.get r.expecting (pid, oid) with
    | none =>
      refine .inl ⟨r, rfl, hx, ?_⟩
      simp only [hs, hx]
    | some vu =>
      refine .inr ⟨r, vu, rfl, hx, ?_, ?_⟩
      · simp only [hs, hx]
      · exact tinv_setExpecting ht hg (IMap.nodup_swapRemove _ (ht.expNodup toPid r hg))

end Aquatic.Ws
