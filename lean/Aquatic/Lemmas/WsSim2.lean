/- Simulation of the WebTorrent store model by the reference tracker: scrape, close, clean. -/
import Aquatic.Lemmas.WsSim

namespace Aquatic.Ws

open Aquatic

/-! ### scrape -/

theorem get_none_torrentAt {m : WMap} {h : Nat} (hg : IMap.get m h = none) : torrentAt m h = {} := by
  simp [torrentAt, hg]

theorem get_some_torrentAt {m : WMap} {h : Nat} {t : Torrent} (hg : IMap.get m h = some t) : torrentAt m h = t := by
  simp [torrentAt, hg]

/-- what the model lists for the requested hashes, in terms of the reference's counts -/
def listed (m : WMap) (r : RefW) (hs : List Nat) : List (Nat × Nat × Nat) :=
  hs.filterMap (fun h => if (IMap.get m h).isSome then some (h, Ref.complete r.entries h, Ref.incomplete r.entries h) else none)

theorem scrapeList_sim {m : WMap} {r : RefW} (hs : WSim m r) (l : List Nat) : scrapeList m l = .ok (listed m r l) := by
  induction l with
  | nil => rfl
  | cons h t ih =>
    cases hg : IMap.get m h with
    | none => simp [scrapeList, listed, hg, ih]
    | some tor =>
      have hA := hs.agree h
      rw [get_some_torrentAt hg] at hA
      obtain ⟨c1, _, c3⟩ := counts_of_agree (hs.inv.tinv h tor hg) hs.nodup hA.ent
      simp only [scrapeList, hg, c3, ih, bind, Except.bind, pure, Except.pure, listed, List.filterMap_cons,
        Option.isSome_some, if_true]
      rw [c1]

/-- a torrent with stored peers in the reference is present in the model's map -/
theorem present_of_stored {m : WMap} {r : RefW} (hs : WSim m r) {h : Nat} (hne : Ref.ofTorrent r.entries h ≠ []) :
    (IMap.get m h).isSome := by
  cases hg : IMap.get m h with
  | some t => rfl
  | none =>
    exfalso
    have hA := hs.agree h
    rw [get_none_torrentAt hg] at hA
    obtain ⟨_, c2, _⟩ := counts_of_agree tinv_default hs.nodup hA.ent
    have : (Ref.ofTorrent r.entries h).length = 0 := by simpa using c2.symm
    exact hne (List.length_eq_zero_iff.mp this)

theorem counts_zero_of_empty (es : List RW) (h : Nat) (he : Ref.ofTorrent es h = []) :
    Ref.complete es h = 0 ∧ Ref.incomplete es h = 0 := by
  simp [Ref.complete, Ref.incomplete, he]

/-- the scrape property on the raw list of the reply: every requested torrent (within the limit)
with stored peers is listed with the reference's counts; anything else listed is a requested
torrent without stored peers, with zero counts -/
theorem scrape_listing {m : WMap} {r : RefW} (cfg : WsCfg) (hs : WSim m r) (hashes : List Nat) :
    (∀ f ∈ Ref.scrapeFiles cfg r hashes, f ∈ listed m r (hashes.take cfg.maxScrape)) ∧
    (∀ f ∈ listed m r (hashes.take cfg.maxScrape), f ∈ Ref.scrapeFiles cfg r hashes ∨
      (f.1 ∈ hashes.take cfg.maxScrape ∧ Ref.ofTorrent r.entries f.1 = [] ∧ f.2 = (0, 0))) := by
  constructor
  · intro f hf
    simp only [Ref.scrapeFiles, List.mem_filterMap] at hf
    obtain ⟨h, hh, hv⟩ := hf
    split at hv
    · cases hv
    · rename_i hne
      cases hv
      simp only [listed, List.mem_filterMap]
      refine ⟨h, hh, ?_⟩
      rw [if_pos (present_of_stored hs (by simpa using hne))]
  · intro f hf
    simp only [listed, List.mem_filterMap] at hf
    obtain ⟨h, hh, hv⟩ := hf
    split at hv
    · cases hv
      by_cases he : Ref.ofTorrent r.entries h = []
      · right
        obtain ⟨z1, z2⟩ := counts_zero_of_empty r.entries h he
        exact ⟨hh, he, by simp [z1, z2]⟩
      · left
        simp only [Ref.scrapeFiles, List.mem_filterMap]
        refine ⟨h, hh, ?_⟩
        simp [he]
    · cases hv

/-! ### connection closed -/

def ownedBy (conn : ConnId) (p : Option WPeer) : Bool := p.any (fun x => decide (x.owner = conn))

theorem ownedBy_none (conn : ConnId) : ownedBy conn none = false := rfl

theorem peerAt_insert (m : WMap) (h h' pid : Nat) (t : Torrent) :
    peerAt (IMap.insert m h t) h' pid = if h = h' then IMap.get t.peers pid else peerAt m h' pid := by
  unfold peerAt
  rw [torrentAt_insert]
  split <;> rfl

theorem closeOne_spec {m : WMap} (hm : MInv m) (conn : ConnId) (h pid : Nat) :
    ∃ m', closeOne m conn h pid = .ok m' ∧ MInv m' ∧
      ∀ h' p', peerAt m' h' p' =
        if (h' = h ∧ p' = pid) ∧ ownedBy conn (peerAt m h pid) = true then none else peerAt m h' p' := by
  unfold closeOne
  cases hg : IMap.get m h with
  | none =>
    refine ⟨m, rfl, hm, ?_⟩
    intro h' p'
    have : peerAt m h pid = none := by simp [peerAt, get_none_torrentAt hg, IMap.get]
    simp [this, ownedBy]
  | some t =>
    dsimp only
    have hta : torrentAt m h = t := get_some_torrentAt hg
    have ht := hm.tinv h t hg
    cases hp : IMap.get t.peers pid with
    | none =>
      refine ⟨m, rfl, hm, ?_⟩
      intro h' p'
      have : peerAt m h pid = none := by simp [peerAt, hta, hp]
      simp [this, ownedBy]
    | some p =>
      dsimp only
      have hpa : peerAt m h pid = some p := by simp [peerAt, hta, hp]
      by_cases ho : p.owner = conn
      · simp only [ho, if_true]
        have hsplit := seedCount_split ht.nodup hp
        have hdec : decSeeder t.numSeeders p.seeder = .ok (seedCount (IMap.without t.peers pid)) := by
          unfold decSeeder
          cases hs : p.seeder
          · simp [hs] at hsplit; simp [ht.count, hsplit]
          · simp [hs] at hsplit; simp [csub, ht.count, hsplit]
        simp only [hdec, bind, Except.bind, pure, Except.pure]
        have ht' : TInv ⟨(IMap.swapRemove t.peers pid).1, seedCount (IMap.without t.peers pid)⟩ := by
          refine ⟨IMap.nodup_swapRemove _ ht.nodup, by simp [seedCount_swapRemove _ ht.nodup], ?_⟩
          intro pid' p'' hg'
          rw [IMap.get_swapRemove _ _ ht.nodup] at hg'
          split at hg'
          · cases hg'
          · exact ht.expNodup pid' p'' hg'
        refine ⟨_, rfl, minv_insert hm h ht', ?_⟩
        intro h' p'
        rw [peerAt_insert, hpa]
        simp only [ownedBy, Option.any_some, ho, decide_true, and_true]
        by_cases e : h = h'
        · subst e
          simp only [if_true, true_and]
          rw [IMap.get_swapRemove _ _ ht.nodup]
          by_cases e2 : p' = pid
          · simp [e2]
          · simp [e2, peerAt, hta]
        · have : ¬ (h' = h) := fun x => e x.symm
          simp [e, this]
      · simp only [ho, if_false]
        refine ⟨m, rfl, hm, ?_⟩
        intro h' p'
        simp [hpa, ownedBy, ho]

theorem closePairs_spec (conn : ConnId) : ∀ (K : List (Nat × Nat)) {m : WMap}, MInv m →
    ∃ m', closePairs m conn K = .ok m' ∧ MInv m' ∧
      ∀ h' p', peerAt m' h' p' = if (h', p') ∈ K ∧ ownedBy conn (peerAt m h' p') = true then none else peerAt m h' p'
  | [], m, hm => ⟨m, rfl, hm, by intro h' p'; simp⟩
  | (h, pid) :: K, m, hm => by
    obtain ⟨m1, h1, hm1, hp1⟩ := closeOne_spec hm conn h pid
    obtain ⟨m', h2, hm2, hp2⟩ := closePairs_spec conn K hm1
    refine ⟨m', by simp [closePairs, h1, h2, bind, Except.bind], hm2, ?_⟩
    intro h' p'
    rw [hp2, hp1]
    by_cases e : h' = h ∧ p' = pid
    · obtain ⟨e1, e2⟩ := e
      subst e1 e2
      by_cases ho : ownedBy conn (peerAt m h' p') = true
      · simp [ho, ownedBy_none]
      · simp [ho]
    · have : (h', p') ≠ (h, pid) := by intro x; cases x; exact e ⟨rfl, rfl⟩
      simp [e, this]

/-- every entry the connection owns is in the pairs sent when it closes -/
def Covers (r : RefW) (conn : ConnId) (K : List (Nat × Nat)) : Prop :=
  ∀ e ∈ r.entries, e.owner = conn → (e.hash, e.pid) ∈ K

theorem close_sim {m : WMap} {r : RefW} (hs : WSim m r) (conn : ConnId) (K : List (Nat × Nat)) (hc : Covers r conn K) :
    ∃ m', closePairs m conn K = .ok m' ∧ WSim m' (Ref.close r conn) := by
  obtain ⟨m', h1, hm', hp⟩ := closePairs_spec conn K hs.inv
  refine ⟨m', h1, hm', Ref.nodup_filter _ hs.nodup, ?_⟩
  intro h
  have hA := hs.agree h
  have key : ∀ pid, IMap.get (torrentAt m' h).peers pid =
      (IMap.get (torrentAt m h).peers pid).filter (fun p => !decide (p.owner = conn)) := by
    intro pid
    have := hp h pid
    simp only [peerAt] at this
    rw [this]
    obtain ⟨x, hg⟩ : ∃ x, IMap.get (torrentAt m h).peers pid = x := ⟨_, rfl⟩
    simp only [hg]
    cases x with
    | none => simp [ownedBy]
    | some p =>
      by_cases ho : p.owner = conn
      · have hf : Ref.find r.entries h pid = some (toRW h pid p) := by rw [← hA.ent, hg]; rfl
        have hmem := hc _ (Ref.find_some hf).1 (by simpa [toRW] using ho)
        simp only [toRW] at hmem
        simp [ownedBy, ho, hmem, Option.filter]
      · simp [ownedBy, ho, Option.filter]
  constructor
  · intro pid
    simp only [Ref.close]
    rw [Ref.find_filter _ hs.nodup, ← hA.ent, key]
    cases hg : IMap.get (torrentAt m h).peers pid with
    | none => rfl
    | some p => by_cases ho : p.owner = conn <;> simp [Option.filter, toRW, ho]
  · intro pid k
    simp only [Ref.close]
    rw [key, ← hA.ent, ← hA.exp]
    cases hg : IMap.get (torrentAt m h).peers pid with
    | none => rfl
    | some p => by_cases ho : p.owner = conn <;> simp [Option.filter, toRW, ho]

end Aquatic.Ws
