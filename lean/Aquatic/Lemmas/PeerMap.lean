/-
  The two-representation peer store: invariant, no-panic, and what one announce /
  one cleaning pass does to the abstract entry list.
-/
import Aquatic.Lemmas.Assoc
import Aquatic.Lemmas.Select

namespace Aquatic

theorem csub_ok {a b : Nat} (h : b ≤ a) : csub a b = .ok (a - b) := by
  simp [csub, h]

/-- representation invariant (a separate theorem, never a subtype) -/
def PeerMap.Inv (c : Nat) : PeerMap → Prop
  | .small l => (keysOf l).Nodup ∧ l.length ≤ c
  | .large l ns => (keysOf l).Nodup ∧ ns = numSeeders l

/-- the two draws are in the ranges the code passes to `random_range` -/
def OffOk (pm : PeerMap) (key : Key) (n o1 o2 : Nat) : Prop :=
  match pm with
  | .small _ => True
  | .large l _ => (without l key).length ≤ n ∨ offsetsOk (without l key).length n o1 o2

instance (pm : PeerMap) (key : Key) (n o1 o2 : Nat) : Decidable (OffOk pm key n o1 o2) := by
  unfold OffOk; split <;> infer_instance

/-- what C02 demands of a returned peer list w.r.t. the candidate list -/
structure PeersOk (peers cand : List Key) (n : Nat) : Prop where
  nodup : peers.Nodup
  sound : ∀ k ∈ peers, k ∈ cand
  le    : peers.length ≤ n
  all   : cand.length ≤ n → peers.Perm cand
  most  : n < cand.length → n - 1 ≤ peers.length

def newEntry (key : Key) (st : Status) (pid dl : Nat) : Entries :=
  match st with
  | .stopped => []
  | .seeding => [(key, ⟨pid, true, dl⟩)]
  | .leeching => [(key, ⟨pid, false, dl⟩)]

theorem without_length_le (l : Entries) (k : Key) : (without l k).length ≤ l.length :=
  List.length_filter_le _ _

theorem keysOf_length (l : Entries) : (keysOf l).length = l.length := by simp [keysOf]

theorem keysOf_perm {a b : Entries} (h : a.Perm b) : (keysOf a).Perm (keysOf b) := h.map _

theorem peersOk_take (l : Entries) (n : Nat) (h : (keysOf l).Nodup) :
    PeersOk ((l.take n).map (·.1)) (keysOf l) n := by
  have e : (l.take n).map (·.1) = (keysOf l).take n := by simp [keysOf, List.map_take]
  rw [e]
  refine ⟨(List.take_sublist _ _).nodup h, fun k hk => (List.take_sublist _ _).subset hk, ?_, ?_, ?_⟩
  · simp only [List.length_take]; omega
  · intro hle
    rw [List.take_of_length_le hle]
  · intro hlt
    simp only [List.length_take]; omega

theorem peersOk_of_halves {cand keys r : List Key} {n : Nat} (hp : keys.Perm cand) (hn : keys.Nodup)
    (hs : r.Sublist keys) (hle : r.length ≤ n) (hall : keys.length ≤ n → r = keys)
    (hmost : n < keys.length → n - 1 ≤ r.length) : PeersOk r cand n := by
  refine ⟨hs.nodup hn, fun k hk => hp.mem_iff.mp (hs.subset hk), hle, ?_, ?_⟩
  · intro h
    rw [← hp.length_eq] at h
    rw [hall h]; exact hp
  · intro h
    rw [← hp.length_eq] at h
    exact hmost h

theorem removeAndReply_spec (c : Nat) (pm : PeerMap) (key : Key) (st : Status) (n o1 o2 : Nat)
    (hinv : pm.Inv c) (hoff : OffOk pm key n o1 o2) :
    ∃ pm1 out, pm.removeAndReply c key st n o1 o2 = .ok (pm1, out) ∧ pm1.Inv c ∧
      pm1.entries.Perm (without pm.entries key) ∧
      (st ≠ .stopped → ∀ l, pm1 = .small l → l.length < c) ∧
      out.seeders = numSeeders (without pm.entries key) ∧
      out.seeders + out.leechers = (without pm.entries key).length ∧
      out.removed = lookup pm.entries key ∧
      PeersOk out.peers (keysOf (without pm.entries key)) n := by
  cases pm with
  | small l =>
    obtain ⟨hnd, hlen⟩ := hinv
    have hr1 : (smallRemove l key).1 = without l key := smallRemove_fst key hnd
    have hr2 : (smallRemove l key).2 = lookup l key := smallRemove_snd l key
    have hs : numSeeders (without l key) ≤ (without l key).length := numSeeders_le_length _
    have hndw := nodup_without key hnd
    have hwl := without_length_le l key
    have hpk := peersOk_take (without l key) n hndw
    by_cases hc : (without l key).length = c ∧ st ≠ .stopped
    · refine ⟨.large (without l key) (numSeeders (without l key)), ⟨numSeeders (without l key), (without l key).length - numSeeders (without l key), (List.take n (without l key)).map (·.1), lookup l key⟩, ?_,
        ⟨hndw, rfl⟩, List.Perm.refl _, ?_, rfl, ?_, rfl, hpk⟩
      · simp only [PeerMap.removeAndReply, hr1, hr2, csub_ok hs, bind, Except.bind, pure, Except.pure, if_pos hc]
      · intro _ l' hl'; cases hl'
      · simp only [PeerMap.entries]; omega
    · refine ⟨.small (without l key), ⟨numSeeders (without l key), (without l key).length - numSeeders (without l key), (List.take n (without l key)).map (·.1), lookup l key⟩, ?_,
        ⟨hndw, by omega⟩, List.Perm.refl _, ?_, rfl, ?_, rfl, hpk⟩
      · simp only [PeerMap.removeAndReply, hr1, hr2, csub_ok hs, bind, Except.bind, pure, Except.pure, if_neg hc]
      · intro hst l' hl'
        injection hl' with hl'
        subst hl'
        have : ¬ (without l key).length = c := fun h => hc ⟨h, hst⟩
        omega
      · simp only [PeerMap.entries]; omega
  | large l ns =>
    obtain ⟨hnd, hns⟩ := hinv
    have hp : (swapRemove l key).1.Perm (without l key) := swapRemove_fst_perm key hnd
    have hr2 : (swapRemove l key).2 = lookup l key := swapRemove_snd l key
    have hsplit := numSeeders_split key hnd
    have hndw := nodup_without key hnd
    have hlenp := hp.length_eq
    have hnsp : numSeeders (swapRemove l key).1 = numSeeders (without l key) := numSeeders_perm hp
    have hs : numSeeders (without l key) ≤ (without l key).length := numSeeders_le_length _
    -- the decrement of the cached counter
    have hns1 : decIfSeeder ns (swapRemove l key).2 = .ok (numSeeders (without l key)) := by
      rw [hr2]
      cases hl : lookup l key with
      | none =>
        simp only [hl] at hsplit
        simp only [decIfSeeder]
        congr 1; omega
      | some p =>
        simp only [hl] at hsplit
        by_cases hp' : p.seeder
        · simp only [hp', ↓reduceIte] at hsplit
          simp only [decIfSeeder, hp', ↓reduceIte]
          rw [csub_ok (by omega)]
          congr 1; omega
        · simp only [hp', Bool.false_eq_true, ↓reduceIte] at hsplit
          simp only [decIfSeeder, hp', Bool.false_eq_true, ↓reduceIte]
          congr 1; omega
    -- the selection
    have hkl : (List.map (·.1) (swapRemove l key).1).length = (without l key).length := by
      simp [hlenp]
    have hsel := extractHalves_spec (List.map (·.1) (swapRemove l key).1) n o1 o2 (by
      rw [hkl]; exact hoff)
    obtain ⟨r, hr, hsub, hrle, hrall, hrmost⟩ := hsel
    have hle2 : numSeeders (without l key) ≤ (swapRemove l key).1.length := by omega
    have hndr : (keysOf (swapRemove l key).1).Nodup := (keysOf_perm hp).nodup_iff.mpr hndw
    have hpk : PeersOk r (keysOf (without l key)) n := by
      rw [hkl] at hrall hrmost
      exact peersOk_of_halves (keys := keysOf (swapRemove l key).1) (keysOf_perm hp) hndr hsub hrle
        (by rw [keysOf_length, hlenp]; exact hrall) (by rw [keysOf_length, hlenp]; exact fun h => (hrmost h).2)
    rw [hr2] at hns1
    by_cases hc : st = .stopped ∧ (swapRemove l key).1.length ≤ c
    · refine ⟨.small (swapRemove l key).1, ⟨numSeeders (without l key), (swapRemove l key).1.length - numSeeders (without l key), r, lookup l key⟩, ?_,
        ⟨hndr, hc.2⟩, hp, ?_, rfl, ?_, rfl, hpk⟩
      · simp only [PeerMap.removeAndReply, hns1, csub_ok hle2, hr, hr2, bind, Except.bind, pure, Except.pure, if_pos hc]
      · intro hst; exact absurd hc.1 hst
      · simp only [PeerMap.entries]; omega
    · refine ⟨.large (swapRemove l key).1 (numSeeders (without l key)),
        ⟨numSeeders (without l key), (swapRemove l key).1.length - numSeeders (without l key), r, lookup l key⟩, ?_,
        ⟨hndr, hnsp.symm⟩, hp, ?_, rfl, ?_, rfl, hpk⟩
      · simp only [PeerMap.removeAndReply, hns1, csub_ok hle2, hr, hr2, bind, Except.bind, pure, Except.pure, if_neg hc]
      · intro _ l' hl'; cases hl'
      · simp only [PeerMap.entries]; omega

theorem insertUnlessStopped_spec (c : Nat) (pm1 : PeerMap) (key : Key) (st : Status) (pid dl : Nat)
    (hinv : pm1.Inv c) (hk : key ∉ keysOf pm1.entries)
    (hroom : st ≠ .stopped → ∀ l, pm1 = .small l → l.length < c) :
    ∃ pm2, pm1.insertUnlessStopped c key st pid dl = .ok pm2 ∧ pm2.Inv c ∧
      pm2.entries = pm1.entries ++ newEntry key st pid dl := by
  have ins : ∀ p : Peer, (∀ l, pm1 = .small l → l.length < c) →
      ∃ pm2, pm1.insert c key p = .ok pm2 ∧ pm2.Inv c ∧ pm2.entries = pm1.entries ++ [(key, p)] := by
    intro p hroom'
    cases pm1 with
    | small l =>
      have hlt := hroom' l rfl
      obtain ⟨hnd, _⟩ := hinv
      simp only [PeerMap.insert, hlt, ↓reduceIte, PeerMap.entries]
      refine ⟨_, rfl, ⟨?_, ?_⟩, rfl⟩
      · simp only [keysOf_append, keysOf_cons, keysOf_nil]
        rw [List.nodup_append]
        refine ⟨hnd, by simp, ?_⟩
        intro a ha b hb
        simp only [List.mem_singleton] at hb
        subst hb
        intro hab; subst hab
        exact hk ha
      · simp only [List.length_append, List.length_cons, List.length_nil]; omega
    | large l ns =>
      obtain ⟨hnd, hns⟩ := hinv
      simp only [PeerMap.entries] at hk
      simp only [PeerMap.insert, PeerMap.entries, imapInsert_of_not_mem p hk]
      refine ⟨_, rfl, ⟨?_, ?_⟩, rfl⟩
      · simp only [keysOf_append, keysOf_cons, keysOf_nil]
        rw [List.nodup_append]
        refine ⟨hnd, by simp, ?_⟩
        intro a ha b hb
        simp only [List.mem_singleton] at hb
        subst hb
        intro hab; subst hab
        exact hk ha
      · simp only [numSeeders, List.countP_append, List.countP_cons, List.countP_nil] at hns ⊢
        cases p.seeder <;> simp <;> omega
  cases st with
  | stopped =>
    exact ⟨pm1, rfl, hinv, by simp [newEntry]⟩
  | seeding =>
    exact ins _ (hroom (by simp))
  | leeching =>
    exact ins _ (hroom (by simp))

/-- One announce on a peer map: it cannot panic, it keeps the invariant, the
stored entries become "the others, plus the announcer unless stopped", and the
reply is computed from the others. -/
theorem announce_spec (c : Nat) (pm : PeerMap) (key : Key) (st : Status) (pid dl n o1 o2 : Nat)
    (hinv : pm.Inv c) (hoff : OffOk pm key n o1 o2) :
    ∃ pm2 out, pm.announce c key st pid dl n o1 o2 = .ok (pm2, out) ∧ pm2.Inv c ∧
      pm2.entries.Perm (without pm.entries key ++ newEntry key st pid dl) ∧
      out.seeders = numSeeders (without pm.entries key) ∧
      out.seeders + out.leechers = (without pm.entries key).length ∧
      out.removed = lookup pm.entries key ∧
      PeersOk out.peers (keysOf (without pm.entries key)) n := by
  obtain ⟨pm1, out, h1, hinv1, hperm1, hroom, hs, hl, hrem, hpeers⟩ :=
    removeAndReply_spec c pm key st n o1 o2 hinv hoff
  have hk : key ∉ keysOf pm1.entries := by
    intro hmem
    exact not_mem_keysOf_without pm.entries key ((keysOf_perm hperm1).mem_iff.mp hmem)
  obtain ⟨pm2, h2, hinv2, hent2⟩ := insertUnlessStopped_spec c pm1 key st pid dl hinv1 hk hroom
  refine ⟨pm2, out, ?_, hinv2, ?_, hs, hl, hrem, hpeers⟩
  · simp [PeerMap.announce, h1, h2, bind, Except.bind, pure, Except.pure]
  · rw [hent2]
    exact List.Perm.append_right _ hperm1

/-! ### cleaning -/

def validE (now : Nat) (e : Key × Peer) : Bool := isValid now e.2

theorem numSeeders_filter_split (l : Entries) (q : Key × Peer → Bool) :
    numSeeders l = numSeeders (l.filter q) + numSeeders (l.filter (fun e => !q e)) := by
  induction l with
  | nil => rfl
  | cons e t ih =>
    simp only [numSeeders] at ih ⊢
    by_cases hq : q e <;> simp [hq, List.countP_cons] <;> omega

theorem retainLarge_spec (now : Nat) (l : Entries) :
    ∀ ns, numSeeders l ≤ ns →
      retainLarge now l ns =
        .ok (l.filter (validE now), ns - numSeeders (l.filter (fun e => !validE now e))) := by
  induction l with
  | nil => intro ns _; simp [retainLarge, numSeeders]
  | cons e t ih =>
    obtain ⟨k, p⟩ := e
    intro ns hns
    simp only [numSeeders, List.countP_cons] at hns
    by_cases hv : isValid now p
    · have := ih ns (by simp only [numSeeders]; omega)
      simp [retainLarge, hv, this, validE, bind, Except.bind, pure, Except.pure]
    · by_cases hs : p.seeder
      · simp only [hs, ↓reduceIte] at hns
        have := ih (ns - 1) (by simp only [numSeeders]; omega)
        simp only [retainLarge, hv, Bool.false_eq_true, ↓reduceIte, hs, csub_ok (by omega : 1 ≤ ns),
          bind, Except.bind, this]
        simp [validE, hv, numSeeders, hs]
        omega
      · have := ih ns (by simp only [numSeeders]; simp only [hs] at hns; omega)
        simp only [retainLarge, hv, Bool.false_eq_true, ↓reduceIte, hs, bind, Except.bind, pure,
          Except.pure, this]
        simp [validE, hv, numSeeders, hs]

theorem keysOf_filter_sublist (l : Entries) (q : Key × Peer → Bool) :
    (keysOf (l.filter q)).Sublist (keysOf l) :=
  List.Sublist.map _ List.filter_sublist

/-- One cleaning pass on a peer map: no panic, invariant kept, exactly the
entries whose deadline is still in the future are kept (in order), the reported
seeder count is exact. -/
theorem clean_spec (c : Nat) (shrink : Bool) (pm : PeerMap) (now : Nat) (hinv : pm.Inv c) :
    ∃ pm', pm.clean c shrink now =
        .ok (pm', numSeeders (pm.entries.filter (validE now)),
          (pm.entries.filter (fun e => !validE now e)).map (·.2.peerId)) ∧
      pm'.Inv c ∧ pm'.entries = pm.entries.filter (validE now) := by
  cases pm with
  | small l =>
    obtain ⟨hnd, hlen⟩ := hinv
    refine ⟨.small (l.filter (validE now)), rfl, ⟨(keysOf_filter_sublist l _).nodup hnd, ?_⟩, rfl⟩
    exact Nat.le_trans (List.length_filter_le _ _) hlen
  | large l ns =>
    obtain ⟨hnd, hns⟩ := hinv
    have hr := retainLarge_spec now l ns (by omega)
    have hsp := numSeeders_filter_split l (validE now)
    have hns' : ns - numSeeders (l.filter (fun e => !validE now e)) = numSeeders (l.filter (validE now)) := by
      omega
    rw [hns'] at hr
    have hndf := (keysOf_filter_sublist l (validE now)).nodup hnd
    by_cases hc : shrink = true ∧ (l.filter (validE now)).length ≤ c
    · refine ⟨.small (l.filter (validE now)), ?_, ⟨hndf, hc.2⟩, rfl⟩
      simp only [PeerMap.clean, hr, bind, Except.bind, pure, Except.pure, if_pos hc, PeerMap.entries]
      rfl
    · refine ⟨.large (l.filter (validE now)) (numSeeders (l.filter (validE now))), ?_, ⟨hndf, rfl⟩, rfl⟩
      simp only [PeerMap.clean, hr, bind, Except.bind, pure, Except.pure, if_neg hc, PeerMap.entries]
      rfl

end Aquatic
