/-
  Generic facts about the struct rules of Model/WsJson.lean (any shape whose
  JSON names and field tags are distinct).
-/
import Aquatic.Model.WsJson

namespace Aquatic

def entryOf (vals : WsF → Option J) (f : WsField) : Option (List Nat × J) :=
  match vals f.tag with
  | some j => some (f.name, j)
  | none => if f.skipNone then none else some (f.name, J.null)

def kvOf (shape : List WsField) (vals : WsF → Option J) : List (List Nat × J) :=
  shape.filterMap (entryOf vals)

theorem structToJ_eq (shape : List WsField) (vals : WsF → Option J) :
    structToJ shape vals = .obj (kvOf shape vals) := rfl

def names (shape : List WsField) : List (List Nat) := shape.map (·.name)
def tags (shape : List WsField) : List WsF := shape.map (·.tag)

theorem entryOf_name {vals : WsF → Option J} {f : WsField} {x : List Nat × J} (h : entryOf vals f = some x) :
    x.1 = f.name := by
  unfold entryOf at h
  split at h
  · injection h with h; rw [← h]
  · split at h
    · cases h
    · injection h with h; rw [← h]

theorem lookupKey_kvOf_none (shape : List WsField) (vals : WsF → Option J) (n : List Nat)
    (h : n ∉ names shape) : lookupKey (kvOf shape vals) n = none := by
  induction shape with
  | nil => rfl
  | cons g t ih =>
    simp only [names, List.map_cons, List.mem_cons, not_or] at h
    have iht := ih h.2
    simp only [kvOf, List.filterMap_cons]
    cases he : entryOf vals g with
    | none => simpa [kvOf] using iht
    | some x =>
      have hx := entryOf_name he
      have : ¬ x.1 = n := by rw [hx]; exact fun e => h.1 e.symm
      simp only [lookupKey, List.find?_cons, this, decide_false]
      simpa [kvOf, lookupKey] using iht

theorem lookupKey_kvOf (shape : List WsField) (vals : WsF → Option J) (hn : (names shape).Nodup)
    (f : WsField) (hf : f ∈ shape) : lookupKey (kvOf shape vals) f.name = (entryOf vals f).map (·.2) := by
  induction shape with
  | nil => cases hf
  | cons g t ih =>
    simp only [names, List.map_cons, List.nodup_cons] at hn
    simp only [kvOf, List.filterMap_cons]
    rcases List.mem_cons.mp hf with e | e
    · subst e
      cases he : entryOf vals f with
      | none =>
        simp only [Option.map_none]
        exact lookupKey_kvOf_none t vals f.name hn.1
      | some x =>
        have hx := entryOf_name he
        simp [lookupKey, hx]
    · have hne : g.name ≠ f.name := by
        intro e'; apply hn.1; rw [e']; exact List.mem_map_of_mem e
      have := ih hn.2 e
      cases he : entryOf vals g with
      | none => simpa [kvOf] using this
      | some x =>
        have hx := entryOf_name he
        have : ¬ x.1 = f.name := by rw [hx]; exact hne
        simp only [lookupKey, List.find?_cons, this, decide_false]
        simpa [kvOf, lookupKey] using ih hn.2 e

theorem countKey_kvOf_le (shape : List WsField) (vals : WsF → Option J) (n : List Nat) :
    countKey (kvOf shape vals) n ≤ (shape.filter (fun f => f.name = n)).length := by
  induction shape with
  | nil => simp [countKey, kvOf]
  | cons g t ih =>
    simp only [kvOf, List.filterMap_cons, countKey] at ih ⊢
    cases he : entryOf vals g with
    | none =>
      simp only
      have : (List.filter (fun f => decide (f.name = n)) (g :: t)).length ≥
          (List.filter (fun f => decide (f.name = n)) t).length := by
        simp only [List.filter_cons]; split <;> simp
      omega
    | some x =>
      have hx := entryOf_name he
      by_cases hg : g.name = n
      · have : x.1 = n := by rw [hx]; exact hg
        simp only [List.filter_cons, this, decide_true, ↓reduceIte, List.length_cons, hg]
        omega
      · have : ¬ x.1 = n := by rw [hx]; exact hg
        simp only [List.filter_cons, this, decide_false, Bool.false_eq_true, ↓reduceIte, hg]
        exact ih

theorem filter_name_le_one (shape : List WsField) (hn : (names shape).Nodup) (n : List Nat) :
    (shape.filter (fun f => f.name = n)).length ≤ 1 := by
  induction shape with
  | nil => simp
  | cons g t ih =>
    simp only [names, List.map_cons, List.nodup_cons] at hn
    have iht := ih hn.2
    by_cases hg : g.name = n
    · have : t.filter (fun f => f.name = n) = [] := by
        rw [List.filter_eq_nil_iff]
        intro f hf
        simp only [decide_eq_true_eq]
        intro e; apply hn.1; rw [hg, ← e]; exact List.mem_map_of_mem hf
      simp [List.filter_cons, hg, this]
    · simp only [List.filter_cons, hg, decide_false, Bool.false_eq_true, ↓reduceIte]
      exact iht

theorem noDupKnown_kvOf (shape : List WsField) (vals : WsF → Option J) (hn : (names shape).Nodup) :
    noDupKnown shape (kvOf shape vals) = true := by
  simp only [noDupKnown, List.all_eq_true, decide_eq_true_eq]
  intro f _
  exact Nat.le_trans (countKey_kvOf_le shape vals f.name) (filter_name_le_one shape hn f.name)

theorem nameOf_mem (shape : List WsField) (ht : (tags shape).Nodup) (f : WsField) (hf : f ∈ shape) :
    nameOf shape f.tag = some f.name := by
  induction shape with
  | nil => cases hf
  | cons g t ih =>
    simp only [tags, List.map_cons, List.nodup_cons] at ht
    rcases List.mem_cons.mp hf with e | e
    · subst e; simp [nameOf]
    · have hne : g.tag ≠ f.tag := by
        intro e'; apply ht.1; rw [e']; exact List.mem_map_of_mem e
      have := ih ht.2 e
      simp only [nameOf, List.find?_cons, hne, decide_false] at this ⊢
      exact this

/-- a field read back from the serialised struct -/
theorem reqField_structToJ (shape : List WsField) (vals : WsF → Option J) (hn : (names shape).Nodup)
    (ht : (tags shape).Nodup) (f : WsField) (hf : f ∈ shape) :
    reqField shape (kvOf shape vals) f.tag = (entryOf vals f).map (·.2) := by
  simp only [reqField, nameOf_mem shape ht f hf, Option.bind_some, lookupKey_kvOf shape vals hn f hf]

theorem reqField_some (shape : List WsField) (vals : WsF → Option J) (hn : (names shape).Nodup)
    (ht : (tags shape).Nodup) (f : WsField) (hf : f ∈ shape) (j : J) (hv : vals f.tag = some j) :
    reqField shape (kvOf shape vals) f.tag = some j := by
  rw [reqField_structToJ shape vals hn ht f hf]
  simp [entryOf, hv]

/-- an `Option` field whose value, when present, is not `null` -/
theorem optField_structToJ (shape : List WsField) (vals : WsF → Option J) (hn : (names shape).Nodup)
    (ht : (tags shape).Nodup) (f : WsField) (hf : f ∈ shape) (hnn : vals f.tag ≠ some J.null) :
    optField shape (kvOf shape vals) f.tag = vals f.tag := by
  simp only [optField, reqField_structToJ shape vals hn ht f hf, entryOf]
  cases hv : vals f.tag with
  | none =>
    by_cases hs : f.skipNone <;> simp [hs]
  | some j =>
    simp only [Option.map_some]
    cases j <;> simp_all

theorem allSomeL_map {α β : Type} (enc : α → β) (dec : β → Option α) (xs : List α)
    (h : ∀ x ∈ xs, dec (enc x) = some x) : allSomeL ((xs.map enc).map dec) = some xs := by
  induction xs with
  | nil => rfl
  | cons x t ih =>
    have hx := h x List.mem_cons_self
    have := ih (fun y hy => h y (List.mem_cons_of_mem _ hy))
    simp only [List.map_cons, hx, allSomeL, this, Option.map_some]

theorem optWith_map {α : Type} (x : Option α) (enc : α → J) (dec : J → Option α)
    (h : ∀ a, x = some a → dec (enc a) = some a) : optWith (x.map enc) dec = some x := by
  cases x with
  | none => rfl
  | some a => simp [optWith, h a rfl]

end Aquatic
