/-
  Big-endian integers and the generic packed-struct codec.
-/
import Aquatic.Model.UdpCodec

namespace Aquatic.Bep15

@[simp] theorem natBE_length (w n : Nat) : (natBE w n).length = w := by
  induction w generalizing n with
  | zero => rfl
  | succ w ih => simp [natBE, ih]

theorem beNat_lt (b : Bytes) : beNat b < 256 ^ b.length := by
  induction b with
  | nil => simp [beNat]
  | cons x t ih =>
    have hx : x.toNat < 256 := x.toNat_lt
    simp only [beNat, List.length_cons, Nat.pow_succ]
    have : x.toNat * 256 ^ t.length ≤ 255 * 256 ^ t.length := Nat.mul_le_mul_right _ (by omega)
    omega

theorem beNat_natBE (w n : Nat) (h : n < 256 ^ w) : beNat (natBE w n) = n := by
  induction w generalizing n with
  | zero => simp [natBE, beNat] at h ⊢; omega
  | succ w ih =>
    have hp : 0 < 256 ^ w := Nat.pow_pos (by omega)
    have hq : n / 256 ^ w < 256 := by
      rw [Nat.div_lt_iff_lt_mul hp]
      rw [Nat.pow_succ, Nat.mul_comm] at h
      omega
    have hr : n % 256 ^ w < 256 ^ w := Nat.mod_lt _ hp
    simp only [natBE, beNat, natBE_length, ih _ hr]
    have : (UInt8.ofNat (n / 256 ^ w)).toNat = n / 256 ^ w := by
      simp [Nat.mod_eq_of_lt hq]
    rw [this]
    exact Nat.div_add_mod' n (256 ^ w)

theorem natBE_beNat (b : Bytes) : natBE b.length (beNat b) = b := by
  induction b with
  | nil => rfl
  | cons x t ih =>
    have hp : 0 < 256 ^ t.length := Nat.pow_pos (by omega)
    have hlt := beNat_lt t
    have h1 : (x.toNat * 256 ^ t.length + beNat t) / 256 ^ t.length = x.toNat := by
      rw [Nat.mul_comm, Nat.mul_add_div hp, Nat.div_eq_of_lt hlt]; omega
    have h2 : (x.toNat * 256 ^ t.length + beNat t) % 256 ^ t.length = beNat t := by
      rw [Nat.mul_comm, Nat.mul_add_mod, Nat.mod_eq_of_lt hlt]
    simp only [List.length_cons, natBE, beNat, h1, h2, ih]
    simp

theorem natBE_injective (w a b : Nat) (ha : a < 256 ^ w) (hb : b < 256 ^ w) (h : natBE w a = natBE w b) :
    a = b := by
  rw [← beNat_natBE w a ha, ← beNat_natBE w b hb, h]

@[simp] theorem take_natBE_append (w n : Nat) (r : Bytes) : (natBE w n ++ r).take w = natBE w n := by
  rw [List.take_append_of_le_length (by simp)]
  exact List.take_of_length_le (by simp)

@[simp] theorem drop_natBE_append (w n : Nat) (r : Bytes) : (natBE w n ++ r).drop w = r := by
  exact List.drop_left' (by simp)

/-- the field `mid` between `pre` and `post` -/
theorem slice_mid (pre mid post : Bytes) (i j : Nat) (hi : i = pre.length) (hj : j = pre.length + mid.length) :
    slice (pre ++ (mid ++ post)) i j = some mid := by
  subst hi; subst hj
  have hlen : pre.length + mid.length ≤ (pre ++ (mid ++ post)).length := by
    simp only [List.length_append]; omega
  simp only [slice, hlen, ↓reduceIte, List.drop_left, Nat.add_sub_cancel_left]
  rw [List.take_append_of_le_length (Nat.le_refl _)]
  simp

theorem slice_none_of_short (b : Bytes) (i j : Nat) (h : b.length < j) : slice b i j = none := by
  have : ¬ j ≤ b.length := by omega
  simp [slice, this]

theorem slice_length (b : Bytes) (i j : Nat) (x : Bytes) (h : slice b i j = some x) (hij : i ≤ j) :
    x.length = j - i := by
  unfold slice at h
  split at h
  · injection h with h; subst h
    simp only [List.length_take, List.length_drop]; omega
  · cases h

end Aquatic.Bep15

namespace Aquatic.UdpCodec

open Aquatic.Bep15

theorem encodeStruct_cons (f : F) (w : Nat) (t : List (F × Nat)) (vals : F → Nat) :
    encodeStruct ((f, w) :: t) vals = natBE w (vals f) ++ encodeStruct t vals := by
  simp [encodeStruct]

@[simp] theorem encodeStruct_nil (vals : F → Nat) : encodeStruct [] vals = [] := rfl

theorem encodeStruct_length (layout : List (F × Nat)) (vals : F → Nat) :
    (encodeStruct layout vals).length = width layout := by
  induction layout with
  | nil => rfl
  | cons fw t ih =>
    obtain ⟨f, w⟩ := fw
    simp [encodeStruct_cons, ih, width]

/-- `read_from_prefix ∘ as_bytes = id` for any packed struct of in-range fields,
whatever follows it -/
theorem decodeStruct_encodeStruct (layout : List (F × Nat)) (vals : F → Nat) (rest : Bytes)
    (h : ∀ fw ∈ layout, vals fw.1 < 256 ^ fw.2) :
    decodeStruct layout (encodeStruct layout vals ++ rest) =
      some (layout.map (fun fw => (fw.1, vals fw.1)), rest) := by
  induction layout with
  | nil => simp [decodeStruct]
  | cons fw t ih =>
    obtain ⟨f, w⟩ := fw
    have hf := h (f, w) List.mem_cons_self
    have ht := ih (fun x hx => h x (List.mem_cons_of_mem _ hx))
    have hlen : ¬ (natBE w (vals f) ++ (encodeStruct t vals ++ rest)).length < w := by
      simp only [List.length_append, natBE_length]; omega
    simp only [encodeStruct_cons, List.append_assoc, decodeStruct, hlen, ↓reduceIte, drop_natBE_append,
      take_natBE_append, ht, Option.map_some, List.map_cons, beNat_natBE w _ hf]

theorem decodeStruct_none_of_short (layout : List (F × Nat)) (b : Bytes) (h : b.length < width layout) :
    decodeStruct layout b = none := by
  induction layout generalizing b with
  | nil => simp [width] at h
  | cons fw t ih =>
    obtain ⟨f, w⟩ := fw
    simp only [width, List.map_cons, List.sum_cons] at h
    by_cases hw : b.length < w
    · simp [decodeStruct, hw]
    · have : (b.drop w).length < width t := by
        simp only [List.length_drop, width]; omega
      simp [decodeStruct, hw, ih _ this]

theorem chunkNats_flatMap (w : Nat) (hs : List Nat) (rest : Bytes) (h : ∀ x ∈ hs, x < 256 ^ w) :
    chunkNats w hs.length (hs.flatMap (natBE w) ++ rest) = hs := by
  induction hs with
  | nil => rfl
  | cons x t ih =>
    have hx := h x List.mem_cons_self
    have := ih (fun y hy => h y (List.mem_cons_of_mem _ hy))
    simp only [List.length_cons, List.flatMap_cons, List.append_assoc, chunkNats, take_natBE_append,
      drop_natBE_append, beNat_natBE w x hx, this]

theorem chunkNats_take (w k : Nat) (hs : List Nat) (rest : Bytes) (h : ∀ x ∈ hs, x < 256 ^ w)
    (hk : k ≤ hs.length) : chunkNats w k (hs.flatMap (natBE w) ++ rest) = hs.take k := by
  induction hs generalizing k with
  | nil => simp at hk; subst hk; rfl
  | cons x t ih =>
    cases k with
    | zero => rfl
    | succ k =>
      have hx := h x List.mem_cons_self
      have := ih k (fun y hy => h y (List.mem_cons_of_mem _ hy)) (by simpa using hk)
      simp only [List.flatMap_cons, List.append_assoc, chunkNats, take_natBE_append, drop_natBE_append,
        beNat_natBE w x hx, this, List.take_succ_cons]

theorem flatMap_natBE_length (w : Nat) (hs : List Nat) : (hs.flatMap (natBE w)).length = w * hs.length := by
  induction hs with
  | nil => rfl
  | cons x t ih => simp [List.flatMap_cons, ih, Nat.mul_succ]; omega

/-! ### the parser, arm by arm, for an abstract datagram -/

theorem evOfCodeGen_eq (n : Nat) : evOfCodeGen n = evOfCode n := by
  match n with
  | 0 => decide
  | 1 => decide
  | 2 => decide
  | 3 => decide
  | n + 4 => simp [evOfCodeGen, evOfCode, Generated.eventCodes]

theorem kindOf_request_0 : kindOf Generated.requestParseActions 0 = some .connect := by decide
theorem kindOf_request_1 : kindOf Generated.requestParseActions 1 = some .announce := by decide
theorem kindOf_request_2 : kindOf Generated.requestParseActions 2 = some .scrape := by decide
theorem kindOf_request_ge3 (n : Nat) : kindOf Generated.requestParseActions (n + 3) = none := by
  simp [kindOf, Generated.requestParseActions]

theorem action_range : Generated.requestActionOffset = 8 ∧ Generated.requestActionEnd = 12 := by decide

theorem parseRequest_connect (b ab : Bytes) (ms : Nat) (h : slice b 8 12 = some ab) (hk : beNat ab = 0) :
    parseRequest b ms = parseConnect b := by
  simp only [parseRequest, action_range.1, action_range.2, h, hk, kindOf_request_0]

theorem parseRequest_announce (b ab : Bytes) (ms : Nat) (h : slice b 8 12 = some ab) (hk : beNat ab = 1) :
    parseRequest b ms = parseAnnounce b := by
  simp only [parseRequest, action_range.1, action_range.2, h, hk, kindOf_request_1]

theorem parseRequest_scrape (b ab : Bytes) (ms : Nat) (h : slice b 8 12 = some ab) (hk : beNat ab = 2) :
    parseRequest b ms = parseScrape b ms := by
  simp only [parseRequest, action_range.1, action_range.2, h, hk, kindOf_request_2]

theorem parseRequest_unknown (b ab : Bytes) (ms : Nat) (h : slice b 8 12 = some ab) (hk : 3 ≤ beNat ab) :
    parseRequest b ms = .error .unsendable := by
  obtain ⟨n, hn⟩ : ∃ n, beNat ab = n + 3 := ⟨beNat ab - 3, by omega⟩
  simp only [parseRequest, action_range.1, action_range.2, h, hn, kindOf_request_ge3]

theorem parseRequest_short (b : Bytes) (ms : Nat) (h : b.length < 12) :
    parseRequest b ms = .error .unsendable := by
  simp only [parseRequest, action_range.1, action_range.2, slice_none_of_short b 8 12 h]

theorem parseConnect_of (b p x t : Bytes) (h0 : slice b 0 8 = some p) (h1 : slice b 8 12 = some x)
    (h2 : slice b 12 16 = some t) :
    parseConnect b = if beNat p = Generated.protocolIdentifier then .ok (.connect (beNat t))
      else .error .unsendable := by
  simp only [parseConnect, h0, h1, h2]

theorem parseAnnounce_ok (b rest : Bytes) (vs : List (F × Nat)) (a : AnnReq)
    (hd : decodeStruct Generated.announceRequest b = some (vs, rest))
    (ha : annOfVals vs = some (a, Generated.announceActionPlaceholder)) (hp : a.port ≠ 0) :
    parseAnnounce b = .ok (.announce a) := by
  simp only [parseAnnounce, hd, ha, ne_eq, not_true_eq_false, ↓reduceIte, hp]

theorem parseAnnounce_port0 (b rest : Bytes) (vs : List (F × Nat)) (a : AnnReq)
    (hd : decodeStruct Generated.announceRequest b = some (vs, rest))
    (ha : annOfVals vs = some (a, Generated.announceActionPlaceholder)) (hp : a.port = 0) :
    parseAnnounce b = .error (.sendable a.connectionId a.transactionId) := by
  simp only [parseAnnounce, hd, ha, ne_eq, not_true_eq_false, ↓reduceIte, hp]

theorem parseAnnounce_invalid (b rest : Bytes) (vs : List (F × Nat))
    (hd : decodeStruct Generated.announceRequest b = some (vs, rest)) (ha : annOfVals vs = none) :
    parseAnnounce b = .error .unsendable := by
  simp only [parseAnnounce, hd, ha]

theorem parseAnnounce_short (b : Bytes) (hd : decodeStruct Generated.announceRequest b = none) :
    parseAnnounce b = .error .unsendable := by
  simp only [parseAnnounce, hd]

theorem parseScrape_of (b c x t : Bytes) (ms : Nat) (h0 : slice b 0 8 = some c) (h1 : slice b 8 12 = some x)
    (h2 : slice b 12 16 = some t) :
    parseScrape b ms =
      (if (b.drop 16).isEmpty then .error (.sendable (beNat c) (beNat t))
       else if (b.drop 16).length % 20 ≠ 0 then .error (.sendable (beNat c) (beNat t))
       else .ok (.scrape (beNat c) (beNat t) (chunkNats 20 (min ms ((b.drop 16).length / 20)) (b.drop 16)))) := by
  simp only [parseScrape, h0, h1, h2]

/-- the three header fields of a datagram laid out as 8 + 4 + 4 bytes + tail -/
theorem header_slices (a b c : Nat) (tail : Bytes) :
    slice (natBE 8 a ++ (natBE 4 b ++ (natBE 4 c ++ tail))) 0 8 = some (natBE 8 a) ∧
    slice (natBE 8 a ++ (natBE 4 b ++ (natBE 4 c ++ tail))) 8 12 = some (natBE 4 b) ∧
    slice (natBE 8 a ++ (natBE 4 b ++ (natBE 4 c ++ tail))) 12 16 = some (natBE 4 c) ∧
    (natBE 8 a ++ (natBE 4 b ++ (natBE 4 c ++ tail))).drop 16 = tail := by
  refine ⟨?_, slice_mid _ _ _ 8 12 (by simp) (by simp), ?_, ?_⟩
  · have := slice_mid [] (natBE 8 a) (natBE 4 b ++ (natBE 4 c ++ tail)) 0 8 (by simp) (by simp)
    simpa using this
  · have := slice_mid (natBE 8 a ++ natBE 4 b) (natBE 4 c) tail 12 16 (by simp) (by simp)
    simpa using this
  · have : natBE 8 a ++ (natBE 4 b ++ (natBE 4 c ++ tail)) = (natBE 8 a ++ natBE 4 b ++ natBE 4 c) ++ tail := by
      simp
    rw [this]
    exact List.drop_left' (by simp)

/-! ### replies -/

theorem kindOf_response_0 : kindOf Generated.responseParseActions 0 = some .connect := by decide
theorem kindOf_response_1 : kindOf Generated.responseParseActions 1 = some .announce := by decide
theorem kindOf_response_2 : kindOf Generated.responseParseActions 2 = some .scrape := by decide
theorem kindOf_response_3 : kindOf Generated.responseParseActions 3 = some .error := by decide

theorem decodeMany_nil (layout : List (F × Nat)) (k : Nat) : decodeMany layout k [] = some [] := by
  cases k <;> simp [decodeMany]

theorem decodeMany_flatMap {α : Type} (layout : List (F × Nat)) (hw : 0 < width layout) (vals : α → F → Nat)
    (xs : List α) (hv : ∀ x ∈ xs, ∀ fw ∈ layout, vals x fw.1 < 256 ^ fw.2) :
    ∀ k, (xs.flatMap (fun x => encodeStruct layout (vals x))).length ≤ k →
      decodeMany layout k (xs.flatMap (fun x => encodeStruct layout (vals x))) =
        some (xs.map (fun x => layout.map (fun fw => (fw.1, vals x fw.1)))) := by
  induction xs with
  | nil => intro k _; simpa using decodeMany_nil layout k
  | cons x t ih =>
    intro k hk
    have hx := hv x List.mem_cons_self
    have hdec := decodeStruct_encodeStruct layout (vals x) (t.flatMap (fun x => encodeStruct layout (vals x))) hx
    have hlen := encodeStruct_length layout (vals x)
    simp only [List.flatMap_cons, List.length_append] at hk ⊢
    cases k with
    | zero => omega
    | succ k =>
      have hne : (encodeStruct layout (vals x) ++ t.flatMap (fun x => encodeStruct layout (vals x))).isEmpty = false := by
        rw [List.isEmpty_eq_false_iff]
        intro h0
        have := congrArg List.length h0
        simp only [List.length_append, List.length_nil] at this
        omega
      have iht := ih (fun y hy => hv y (List.mem_cons_of_mem _ hy)) k (by omega)
      simp only [decodeMany, hne, Bool.false_eq_true, ↓reduceIte, hdec, iht, Option.map_some, List.map_cons]

theorem allSome_map_map {α β : Type} (enc : α → β) (dec : β → Option α) (xs : List α)
    (h : ∀ x ∈ xs, dec (enc x) = some x) : allSome ((xs.map enc).map dec) = some xs := by
  induction xs with
  | nil => rfl
  | cons x t ih =>
    have hx := h x List.mem_cons_self
    have := ih (fun y hy => h y (List.mem_cons_of_mem _ hy))
    simp only [List.map_cons, hx, allSome, this, Option.map_some]

end Aquatic.UdpCodec
