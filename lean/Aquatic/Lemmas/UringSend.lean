/-
  Helper lemmas for Model/UringSend: first-fit search, the buffer-pool invariant, conservation of
  replies.
-/
import Aquatic.Model.UringSend

namespace Aquatic.UringSend

theorem findFree_some : ∀ (l : List Bool) (i : Nat), findFree l = some i →
    l[i]? = some true ∧ ∀ j, j < i → l[j]? = some false
  | [], i, h => by simp [findFree] at h
  | true :: t, i, h => by
    simp only [findFree, Option.some.injEq] at h
    subst h
    exact ⟨rfl, fun j hj => absurd hj (Nat.not_lt_zero j)⟩
  | false :: t, i, h => by
    simp only [findFree, Option.map_eq_some_iff] at h
    obtain ⟨k, hk, rfl⟩ := h
    obtain ⟨h1, h2⟩ := findFree_some t k hk
    refine ⟨by simpa using h1, ?_⟩
    intro j hj
    cases j with
    | zero => rfl
    | succ j' => simpa using h2 j' (by omega)

theorem findFree_none : ∀ (l : List Bool), findFree l = none → ∀ j, j < l.length → l[j]? = some false
  | [], _, j, hj => absurd hj (Nat.not_lt_zero j)
  | true :: t, h, _, _ => by simp [findFree] at h
  | false :: t, h, j, hj => by
    simp only [findFree, Option.map_eq_none_iff] at h
    cases j with
    | zero => rfl
    | succ j' => simpa using findFree_none t h j' (by simpa using hj)

theorem findFree_isSome_of_true : ∀ (l : List Bool) (j : Nat), l[j]? = some true → (findFree l).isSome = true
  | [], j, h => by simp at h
  | true :: t, _, _ => rfl
  | false :: t, j, h => by
    cases j with
    | zero => simp at h
    | succ j' =>
      have := findFree_isSome_of_true t j' (by simpa using h)
      simp only [findFree, Option.isSome_map]; exact this

/-- `next_free_index` finds the first free buffer at or after the hint -/
theorem nextFree_some (s : SB) (i : Nat) (h : s.nextFree = some i) :
    s.likely ≤ i ∧ s.free[i]? = some true ∧ ∀ j, s.likely ≤ j → j < i → s.free[j]? = some false := by
  unfold SB.nextFree at h
  split at h
  · cases h
  · simp only [Option.map_eq_some_iff] at h
    obtain ⟨k, hk, rfl⟩ := h
    obtain ⟨h1, h2⟩ := findFree_some _ k hk
    refine ⟨by omega, ?_, ?_⟩
    · rw [List.getElem?_drop] at h1; rw [Nat.add_comm]; exact h1
    · intro j hj1 hj2
      have := h2 (j - s.likely) (by omega)
      rw [List.getElem?_drop] at this
      rwa [show s.likely + (j - s.likely) = j by omega] at this

/-- and reports "no buffers" only when every buffer at or after the hint is taken -/
theorem nextFree_none (s : SB) (h : s.nextFree = none) :
    ∀ j, s.likely ≤ j → j < s.free.length → s.free[j]? = some false := by
  intro j hj1 hj2
  unfold SB.nextFree at h
  split at h
  · omega
  · simp only [Option.map_eq_none_iff] at h
    have := findFree_none _ h (j - s.likely) (by simp; omega)
    rw [List.getElem?_drop] at this
    rwa [show s.likely + (j - s.likely) = j by omega] at this

theorem nextFree_isSome (s : SB) (j : Nat) (hl : s.likely ≤ j) (hj : s.free[j]? = some true) :
    s.nextFree.isSome = true := by
  have hlt : j < s.free.length := by
    rcases Nat.lt_or_ge j s.free.length with h | h
    · exact h
    · rw [List.getElem?_eq_none h] at hj; cases hj
  unfold SB.nextFree
  rw [if_neg (by omega)]
  simp only [Option.isSome_map]
  apply findFree_isSome_of_true _ (j - s.likely)
  rw [List.getElem?_drop, show s.likely + (j - s.likely) = j by omega]; exact hj

/-! ### takeOut -/

theorem takeOut_some {ρ : Type} (i : Nat) : ∀ (l : List (Nat × ρ)) (r : ρ) (rest : List (Nat × ρ)),
    takeOut i l = some (r, rest) → l.Perm ((i, r) :: rest)
  | [], r, rest, h => by simp [takeOut] at h
  | (j, x) :: t, r, rest, h => by
    simp only [takeOut] at h
    split at h
    · rename_i hji
      simp only [Option.some.injEq, Prod.mk.injEq] at h
      obtain ⟨rfl, rfl⟩ := h
      subst hji; exact List.Perm.refl _
    · simp only [Option.map_eq_some_iff] at h
      obtain ⟨⟨r', rest'⟩, hk, heq⟩ := h
      simp only [Prod.mk.injEq] at heq
      obtain ⟨rfl, rfl⟩ := heq
      have := takeOut_some i t r' rest' hk
      exact (List.Perm.cons _ this).trans (List.Perm.swap _ _ _)

theorem takeOut_none {ρ : Type} (i : Nat) : ∀ (l : List (Nat × ρ)), takeOut i l = none → i ∉ l.map Prod.fst
  | [], _ => by simp
  | (j, x) :: t, h => by
    simp only [takeOut] at h
    split at h
    · cases h
    · rename_i hji
      simp only [Option.map_eq_none_iff] at h
      have := takeOut_none i t h
      simp only [List.map_cons, List.mem_cons, not_or]
      exact ⟨fun e => hji e.symm, this⟩

/-! ### the invariants -/

/-- the buffer pool and the in-flight sends agree: a buffer is marked taken exactly when one send
that the kernel has not completed yet uses it, and no two such sends share a buffer -/
structure PoolInv {ρ : Type} (w : W ρ) : Prop where
  nodup : (w.inflight.map Prod.fst).Nodup
  agree : ∀ i, i ∈ w.inflight.map Prod.fst ↔ w.sb.free[i]? = some false

/-- nothing is lost, duplicated or reordered -/
structure FlowInv {ρ : Type} (fits : ρ → Bool) (w : W ρ) : Prop where
  fifo : w.handled ++ w.queue = w.log
  accounted : (w.sent ++ w.inflight.map Prod.snd ++ w.dropped).Perm w.handled
  droppedNoFit : ∀ r ∈ w.dropped, fits r = false

theorem getElem?_set_false (l : List Bool) (i j : Nat) (hi : i < l.length) :
    (l.set i false)[j]? = some false ↔ (j = i ∨ l[j]? = some false) := by
  rw [List.getElem?_set]
  by_cases h : i = j
  · subst h; simp [hi]
  · simp only [h, if_false]
    constructor
    · exact fun x => .inr x
    · rintro (rfl | x)
      · exact absurd rfl h
      · exact x

theorem getElem?_set_true (l : List Bool) (i j : Nat) (hi : i < l.length) :
    (l.set i true)[j]? = some false ↔ (j ≠ i ∧ l[j]? = some false) := by
  rw [List.getElem?_set]
  by_cases h : i = j
  · subst h; simp [hi]
  · simp only [h, if_false]
    constructor
    · exact fun x => ⟨fun e => h e.symm, x⟩
    · exact fun x => x.2

theorem lt_of_getElem?_some {α : Type} {l : List α} {i : Nat} {a : α} (h : l[i]? = some a) : i < l.length := by
  rcases Nat.lt_or_ge i l.length with h' | h'
  · exact h'
  · rw [List.getElem?_eq_none h'] at h; cases h

theorem enqueue_pool {ρ : Type} (fits : ρ → Bool) : ∀ (k : Nat) (w : W ρ), PoolInv w → PoolInv (enqueuePhase fits k w)
  | 0, w, h => h
  | k + 1, w, h => by
    unfold enqueuePhase
    cases hq : w.queue with
    | nil => exact h
    | cons r q =>
      simp only
      unfold SB.prepare
      cases hn : w.sb.nextFree with
      | none => exact h
      | some i =>
        simp only
        cases hf : fits r with
        | false =>
          simp only [Bool.false_eq_true, if_false]
          exact enqueue_pool fits k _ ⟨h.nodup, h.agree⟩
        | true =>
          simp only [if_true]
          obtain ⟨_, hfree, _⟩ := nextFree_some _ _ hn
          have hi := lt_of_getElem?_some hfree
          have hnot : i ∉ w.inflight.map Prod.fst := by
            intro hm; rw [(h.agree i).mp hm] at hfree; cases hfree
          apply enqueue_pool fits k
          constructor
          · simp only [List.map_append, List.map_cons, List.map_nil]
            rw [List.nodup_append]
            refine ⟨h.nodup, by simp, ?_⟩
            intro a ha b hb
            simp only [List.mem_cons, List.not_mem_nil, or_false] at hb
            subst hb
            exact fun e => hnot (e ▸ ha)
          · intro j
            simp only [List.map_append, List.map_cons, List.map_nil, List.mem_append, List.mem_cons,
              List.not_mem_nil, or_false]
            rw [getElem?_set_false _ _ _ hi, h.agree j]
            exact Or.comm

theorem complete_pool {ρ : Type} (w w' : W ρ) (i : Nat) (h : PoolInv w) (hc : w.complete i = .ok w') : PoolInv w' := by
  unfold W.complete SB.markFree at hc
  split at hc
  · rename_i e heq
    split at heq <;> cases heq
    cases hc
  · rename_i sb' heq
    split at heq
    · rename_i hi
      cases heq
      cases ht : takeOut i w.inflight with
      | none =>
        rw [ht] at hc
        cases hc
        have hnot := takeOut_none i _ ht
        constructor
        · exact h.nodup
        · intro j
          simp only
          rw [getElem?_set_true _ _ _ hi, h.agree j]
          constructor
          · intro hj
            refine ⟨?_, hj⟩
            rintro rfl
            exact hnot ((h.agree j).mpr hj)
          · exact fun x => x.2
      | some x =>
        obtain ⟨r, rest⟩ := x
        rw [ht] at hc
        cases hc
        have hperm := (takeOut_some i _ r rest ht).map Prod.fst
        simp only [List.map_cons] at hperm
        have hnd : (i :: rest.map Prod.fst).Nodup := hperm.nodup_iff.mp h.nodup
        constructor
        · exact (List.nodup_cons.mp hnd).2
        · intro j
          simp only
          rw [getElem?_set_true _ _ _ hi, ← h.agree j, hperm.mem_iff]
          simp only [List.mem_cons]
          constructor
          · intro hj
            refine ⟨?_, .inr hj⟩
            rintro rfl
            exact (List.nodup_cons.mp hnd).1 hj
          · rintro ⟨hne, rfl | hj⟩
            · exact absurd rfl hne
            · exact hj
    · cases heq

theorem enqueue_flow {ρ : Type} (fits : ρ → Bool) : ∀ (k : Nat) (w : W ρ), FlowInv fits w → FlowInv fits (enqueuePhase fits k w)
  | 0, w, h => h
  | k + 1, w, h => by
    unfold enqueuePhase
    cases hq : w.queue with
    | nil => exact h
    | cons r q =>
      simp only
      unfold SB.prepare
      cases hn : w.sb.nextFree with
      | none => exact h
      | some i =>
        simp only
        have hfifo := h.fifo
        rw [hq] at hfifo
        cases hf : fits r with
        | false =>
          simp only [Bool.false_eq_true, if_false]
          apply enqueue_flow fits k
          constructor
          · simpa using hfifo
          · simp only
            have := h.accounted.append_right [r]
            simpa [List.append_assoc] using this
          · intro x hx
            simp only [List.mem_append, List.mem_cons, List.not_mem_nil, or_false] at hx
            rcases hx with hx | rfl
            · exact h.droppedNoFit x hx
            · exact hf
        | true =>
          simp only [if_true]
          apply enqueue_flow fits k
          constructor
          · simpa using hfifo
          · simp only [List.map_append, List.map_cons, List.map_nil]
            have h1 : (w.sent ++ (List.map Prod.snd w.inflight ++ [r]) ++ w.dropped).Perm
                ((w.sent ++ List.map Prod.snd w.inflight ++ w.dropped) ++ [r]) := by
              simp only [List.append_assoc]
              exact List.Perm.append_left _ (List.Perm.append_left _ List.perm_append_comm)
            exact h1.trans (h.accounted.append_right [r])
          · exact h.droppedNoFit

theorem complete_flow {ρ : Type} (fits : ρ → Bool) (w w' : W ρ) (i : Nat) (h : FlowInv fits w)
    (hc : w.complete i = .ok w') : FlowInv fits w' := by
  unfold W.complete at hc
  cases hm : w.sb.markFree i with
  | error e => rw [hm] at hc; cases hc
  | ok sb' =>
    rw [hm] at hc
    simp only at hc
    cases ht : takeOut i w.inflight with
    | none => rw [ht] at hc; cases hc; exact ⟨h.fifo, h.accounted, h.droppedNoFit⟩
    | some x =>
      obtain ⟨r, rest⟩ := x
      rw [ht] at hc
      cases hc
      have hperm := (takeOut_some i _ r rest ht).map Prod.snd
      simp only [List.map_cons] at hperm
      refine ⟨h.fifo, ?_, h.droppedNoFit⟩
      simp only
      have h1 : (w.sent ++ [r] ++ List.map Prod.snd rest ++ w.dropped).Perm
          (w.sent ++ List.map Prod.snd w.inflight ++ w.dropped) := by
        simp only [List.append_assoc]
        apply List.Perm.append_left
        have h2 : ([r] ++ List.map Prod.snd rest ++ w.dropped).Perm (List.map Prod.snd w.inflight ++ w.dropped) :=
          List.Perm.append_right _ (by simpa using hperm.symm)
        simpa [List.append_assoc] using h2
      exact h1.trans h.accounted

theorem handled_mono {ρ : Type} (fits : ρ → Bool) : ∀ (k : Nat) (w : W ρ),
    w.handled.length ≤ (enqueuePhase fits k w).handled.length
  | 0, w => Nat.le_refl _
  | k + 1, w => by
    unfold enqueuePhase
    cases hq : w.queue with
    | nil => exact Nat.le_refl _
    | cons r q =>
      simp only
      cases hp : w.sb.prepare (fits r) with
      | mk sb' res =>
        cases res with
        | ok i =>
          simp only
          have := handled_mono fits k { w with sb := sb', queue := q, inflight := w.inflight ++ [(i, r)], handled := w.handled ++ [r] }
          simp only [List.length_append, List.length_cons, List.length_nil] at this
          omega
        | noBuffers => exact Nat.le_refl _
        | serFailed =>
          simp only
          have := handled_mono fits k { w with sb := sb', queue := q, dropped := w.dropped ++ [r], handled := w.handled ++ [r] }
          simp only [List.length_append, List.length_cons, List.length_nil] at this
          omega

end Aquatic.UringSend
